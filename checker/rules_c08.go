package main

import (
	"fmt"
	"strings"

	"golang.org/x/tools/go/ssa"
)

func init() {
	register("C08", "R1", 10, "address selection: RemoteAddr/LocalAddr return the header's Source/Destination only when the header was read without error, is not LOCAL/UNKNOWN and the address is non-nil; on every other path they return the socket's own address (never nil from the header)", c08r1)
	register("C08", "R2", 7, "nothing touches the socket before the header is consumed: Read/Write/ReadFrom/WriteTo/LocalAddr/RemoteAddr delegate to the embedded conn only after readHeader returned, I/O only when it returned nil; Accept wraps every accepted conn with the listener's header timeout", c08r2)
	register("C08", "R3", 5, "read-once discipline: header/headerErr are written only in readHeaderContext, with headerMu held and before isHeaderRead.Store(true); the unlocked fast path reads them only after isHeaderRead.Load() is true", c08r3)
	register("C08", "R4", 4, "header timeout: the read runs under context.WithTimeout(readHeaderTimeout) when the timeout is > 0 (and the caller's deadline is not earlier); the ctx.Done arm closes that connection and records a non-nil error", c08r4)
	register("C08", "R5", 10, "bounded exact reads: fixed parts are read with io.ReadFull into constant sub-slices; the optimistic v1 reads do not exceed the shortest well-formed line (TCP4 32, TCP6 22) and test/parse exactly what they read; the v1 scan is byte-wise and stops at 107; the v2 tail is refused above 2048 before allocation and read fully", c08r5)
	register("C08", "R6", 8, "field order tables: v1 positions 0/1/2/3 fill source IP, destination IP, source port, destination port; v2 IPv4/IPv6 offsets follow the PROXY protocol layout; Header.Source/Destination are built from src/dest in that order", c08r6)
}

const ppRH = "(*proxyproto.Conn).readHeader($0)"

func c08r1(r *R) {
	for _, spec := range []struct{ meth, field string }{{"RemoteAddr", "Source"}, {"LocalAddr", "Destination"}} {
		fn := r.method("proxyproto", "Conn", spec.meth)
		ps, complete := enumPaths(fn, 256, 1)
		if !complete {
			r.undecided("Conn."+spec.meth, fn.Pos(), "too many paths")
			continue
		}
		sock := "invoke net.Conn." + spec.meth + "($0.Conn)"
		hdr := "$0.header." + spec.field
		nHdr := 0
		for i, p := range ps {
			key := fmt.Sprintf("Conn.%s#path%d", spec.meth, i)
			switch p.Ret[0] {
			case sock:
				r.ok(key, p.pos(), "socket address on ["+strings.Join(p.Conds, " ∧ ")+"]")
			case hdr:
				nHdr++
				var why []string
				if !p.holds("!("+ppRH+" != nil)") && !p.holds("("+ppRH+" == nil)") {
					why = append(why, "header read error not excluded")
				}
				if !p.holds("!$0.header.IsLocal") {
					why = append(why, "LOCAL/UNKNOWN header not excluded")
				}
				if !p.holds("!("+hdr+" == nil)") && !p.holds("("+hdr+" != nil)") {
					why = append(why, "nil header address not excluded (a PROXY command of an unspecified family is accepted without addresses)")
				}
				r.check(len(why) == 0, key, p.pos(), "header "+spec.field+" returned only when read ok ∧ ¬local ∧ non-nil", strings.Join(why, "; "))
			default:
				r.bad(key, p.pos(), spec.meth+" returns "+p.Ret[0]+"; it must be the header's "+spec.field+" or the socket's own address")
			}
		}
		if nHdr == 0 {
			r.bad("Conn."+spec.meth+"#header-path", fn.Pos(), "the advertised "+spec.field+" address is never returned")
		}
	}
}

func c08r2(r *R) {
	for _, m := range []string{"Read", "Write", "ReadFrom", "WriteTo", "LocalAddr", "RemoteAddr"} {
		fn := r.method("proxyproto", "Conn", m)
		ps, _ := enumPaths(fn, 256, 1)
		isIO := m != "LocalAddr" && m != "RemoteAddr"
		var why []string
		deleg := 0
		for _, p := range ps {
			rh := p.eventIndex(0, "call", eq(ppRH))
			for i, e := range p.Events {
				if e.Kind != "call" || !strings.Contains(e.Desc, "$0.Conn") || e.Desc == ppRH {
					continue
				}
				if strings.HasPrefix(e.Desc, "invoke net.Conn.") || strings.HasPrefix(e.Desc, "invoke io.ReaderFrom.") || strings.HasPrefix(e.Desc, "invoke io.WriterTo.") {
					deleg++
					if rh < 0 || rh > i {
						why = append(why, "delegates to the socket before the header was consumed: "+e.Desc)
					}
					if isIO && !p.holds("!("+ppRH+" != nil)") {
						why = append(why, "I/O on the socket although the header read failed: "+e.Desc)
					}
				}
			}
		}
		if deleg == 0 {
			why = append(why, "no delegation found")
		}
		r.check(len(why) == 0, "Conn."+m+"#header-first", fn.Pos(), "readHeader precedes every use of the embedded conn", strings.Join(dedupStrings(why), "; "))
	}
	// readHeader is the real thing
	var ps []Path
	if rh := r.methodOpt("proxyproto", "Conn", "readHeader"); rh != nil {
		ps, _ = enumPaths(rh, 8, 1)
		r.check(len(ps) == 1 && strings.HasPrefix(ps[0].Ret[0], "(*proxyproto.Conn).readHeaderContext($0, "), "Conn.readHeader", rh.Pos(), "readHeader = readHeaderContext", "readHeader does not read the header")
	} else if inlinedWrapper("(*proxyproto.Conn).readHeader") {
		r.ok("Conn.readHeader", r.method("proxyproto", "Conn", "readHeaderContext").Pos(), "readHeader is written out at its call sites as readHeaderContext(context.Background())")
	} else {
		r.missing("method proxyproto.Conn.readHeader")
	}
	// Accept wraps
	acc := r.method("proxyproto", "Listener", "Accept")
	ps, _ = enumPaths(acc, 64, 1)
	var why []string
	nOK := 0
	for _, p := range ps {
		if len(p.Ret) != 2 || p.Ret[1] != "nil" {
			continue
		}
		nOK++
		var pc string
		for k, v := range p.Mem {
			if strings.HasSuffix(k, ".Conn") && v == "invoke net.Listener.Accept($0.Listener)#0" {
				pc = strings.TrimSuffix(k, ".Conn")
			}
		}
		if pc == "" {
			why = append(why, "accepted conn is not wrapped in a proxyproto.Conn")
			continue
		}
		if p.Mem[pc+".readHeaderTimeout"] != "$0.ReadHeaderTimeout" {
			why = append(why, "header timeout not taken from the listener")
		}
		if p.Ret[0] != pc && !strings.HasPrefix(p.Ret[0], "github.com/saucelabs/connfu.Combine("+pc+", ") {
			why = append(why, "Accept returns "+p.Ret[0]+" instead of the wrapper")
		}
	}
	r.check(nOK > 0 && len(why) == 0, "Listener.Accept#wrap", acc.Pos(), "every accepted conn is returned wrapped (directly or through connfu.Combine) with ReadHeaderTimeout", strings.Join(dedupStrings(why), "; "))
}

func c08r3(r *R) {
	rhc := r.method("proxyproto", "Conn", "readHeaderContext")
	ls := lockset(rhc)
	// writers
	for _, fn := range r.modFuncs() {
		if !strings.Contains(fname(fn), "proxyproto.") {
			continue
		}
		eachInstr(fn, func(ins ssa.Instruction) {
			st, ok := ins.(*ssa.Store)
			if !ok {
				return
			}
			fa, ok := st.Addr.(*ssa.FieldAddr)
			if !ok || structName(fa.X.Type()) != "proxyproto.Conn" {
				return
			}
			f := fieldName(fa.X.Type(), fa.Field)
			if f != "header" && f != "headerErr" {
				return
			}
			key := fname(fn) + "#store(" + f + ")"
			if fn != rhc {
				r.bad(key, st.Pos(), "parsed header state written outside readHeaderContext")
				return
			}
			held := ls[ins]["$0.headerMu"]
			publish := func(i ssa.Instruction) bool {
				c, ok := i.(*ssa.Call)
				return ok && describe(c) == "(*sync/atomic.Bool).Store($0.isHeaderRead, true)"
			}
			w := escapes(ins, publish)
			// and not after a publish
			after := false
			eachInstr(fn, func(j ssa.Instruction) {
				if publish(j) && reaches(j, ins) {
					after = true
				}
			})
			r.check(held && w == "" && !after, key, st.Pos(), "written under headerMu, then published by isHeaderRead.Store(true)", fmt.Sprintf("store must happen with headerMu held (%v), before the publishing Store(true) on every path (escape %q), never after it (%v)", held, w, after))
		})
	}
	// readers in readHeaderContext: return c.headerErr on fast paths only after Load() true
	ps, _ := enumPaths(rhc, 512, 1)
	n := 0
	var why []string
	for _, p := range ps {
		if p.eventIndex(0, "call", eq("(*sync/atomic.Bool).Store($0.isHeaderRead, true)")) >= 0 {
			continue
		}
		if _, isPanic := p.Exit.(*ssa.Panic); isPanic {
			continue
		}
		n++
		if !p.holds("(*sync/atomic.Bool).Load($0.isHeaderRead)") {
			why = append(why, "returns without reading the header although isHeaderRead is false: ["+strings.Join(p.Conds, " ∧ ")+"]")
		}
		if p.Ret[0] != "$0.headerErr" {
			why = append(why, "fast path returns "+p.Ret[0])
		}
	}
	r.check(n >= 1 && len(why) == 0, "readHeaderContext#fast-path", rhc.Pos(), "already-read paths return the recorded error only after isHeaderRead.Load()", strings.Join(dedupStrings(why), "; "))
	// second check under the lock
	locked := false
	for _, p := range ps {
		li := p.eventIndex(0, "call", eq("(*sync.Mutex).Lock($0.headerMu)"))
		if li >= 0 && p.eventIndex(li, "call", eq("(*sync/atomic.Bool).Load($0.isHeaderRead)")) >= 0 {
			locked = true
		}
	}
	r.check(locked, "readHeaderContext#recheck-under-lock", rhc.Pos(), "isHeaderRead re-checked with headerMu held (two callers cannot both read the header)", "isHeaderRead is not re-checked under headerMu: two concurrent callers would both consume header bytes")
	// the reader goroutine reads from the raw conn
	for _, lit := range anonFuncs(rhc) {
		for _, c := range calls(lit, nameIs("proxyproto.ReadHeader")) {
			b := closureBindings(lit)
			arg := describe(refArgs(c.Common())[0])
			good := false
			for i, bd := range b {
				if bd == "$0" && arg == fmt.Sprintf("^%d.Conn", i) {
					good = true
				}
			}
			if isNewHelper(lit) && arg == "$0.Conn" {
				good = true // a method started with `go c.m(...)`: its receiver is the connection itself
			}
			r.check(good, "readHeaderContext#reader", c.Pos(), "header parsed from the embedded conn", "header is parsed from "+arg)
		}
	}
}

func c08r4(r *R) {
	rhc := r.method("proxyproto", "Conn", "readHeaderContext")
	ps, _ := enumPaths(rhc, 512, 1)
	const wt = "context.WithTimeout($1, $0.readHeaderTimeout)"
	nTO, nArm := 0, 0
	var whyTO, whyArm []string
	for _, p := range ps {
		if _, isPanic := p.Exit.(*ssa.Panic); isPanic {
			continue
		}
		// the reader goroutine: the function literal, or the method it may have been turned into
		if p.eventIndex(0, "go", func(d string) bool {
			return strings.HasPrefix(d, "(*proxyproto.Conn).readHeaderContext$1") || strings.HasPrefix(d, "(*proxyproto.Conn).") && strings.Contains(d, "($0, ")
		}) < 0 {
			continue
		}
		hasWT := p.eventIndex(0, "call", eq(wt)) >= 0
		pos := p.holds("($0.readHeaderTimeout > 0)")
		noDL := p.holds("!invoke context.Context.Deadline($1)#1")
		later := p.hasCond(func(c string) bool {
			return strings.HasPrefix(c, "((time.Time).Sub(invoke context.Context.Deadline($1)#0, ") && strings.HasSuffix(c, " > $0.readHeaderTimeout)")
		})
		nTO++
		if pos && (noDL || later) && !hasWT {
			whyTO = append(whyTO, "timeout > 0 but the read is not bounded by it")
		}
		if hasWT && !pos {
			whyTO = append(whyTO, "WithTimeout used although the timeout is not positive")
		}
		// which context does the select wait on
		ctxv := "$1"
		if hasWT {
			ctxv = wt + "#0"
		}
		done := "invoke context.Context.Done(" + ctxv + ")"
		if p.eventIndex(0, "call", eq(done)) < 0 {
			whyTO = append(whyTO, "select does not wait on the bounded context")
		}
		if p.hasCond(func(c string) bool {
			return strings.HasPrefix(c, "(select(<-"+done+", <-makechan#") && strings.HasSuffix(c, ")#0 == 0)")
		}) {
			nArm++
			if p.eventIndex(0, "call", eq("invoke net.Conn.Close($0.Conn)")) < 0 {
				whyArm = append(whyArm, "timeout arm does not close the connection")
			}
			if !strings.HasPrefix(p.Mem["$0.headerErr"], "fmt.Errorf(") {
				whyArm = append(whyArm, "timeout arm records error "+p.Mem["$0.headerErr"])
			}
		}
	}
	r.check(nTO > 0 && len(whyTO) == 0, "readHeaderContext#timeout-context", rhc.Pos(), "header read bounded by readHeaderTimeout whenever it is > 0 and tighter than the caller's deadline", strings.Join(dedupStrings(whyTO), "; "))
	r.check(nArm > 0 && len(whyArm) == 0, "readHeaderContext#timeout-arm", rhc.Pos(), "ctx.Done arm closes the conn and records an error", strings.Join(dedupStrings(whyArm), "; ")+fmt.Sprintf(" (arms seen: %d)", nArm))
	// wiring: forwarder.Listener passes the configured timeout
	for _, fn := range r.modFuncs() {
		eachInstr(fn, func(ins ssa.Instruction) {
			st, ok := ins.(*ssa.Store)
			if !ok {
				return
			}
			fa, ok := st.Addr.(*ssa.FieldAddr)
			if !ok || structName(fa.X.Type()) != "proxyproto.Listener" || fieldName(fa.X.Type(), fa.Field) != "ReadHeaderTimeout" {
				return
			}
			d := describe(st.Val)
			r.check(strings.HasSuffix(d, "ProxyProtocolConfig.ReadHeaderTimeout"), fname(fn)+"#proxyproto.Listener.ReadHeaderTimeout", st.Pos(), "wired from "+d, "PROXY header timeout wired from "+d+" instead of ProxyProtocolConfig.ReadHeaderTimeout")
		})
	}
	// proxy protocol listener is installed iff configured
	for _, fn := range r.modFuncs() {
		if fname(fn) != "(*forwarder.Listener).Listen" {
			continue
		}
		n := 0
		eachInstr(fn, func(ins ssa.Instruction) {
			a, ok := ins.(*ssa.Alloc)
			if !ok || !strings.HasSuffix(typeStr(a.Type()), "proxyproto.Listener") {
				return
			}
			n++
			r.check(guardedBy(a.Block(), func(s string) bool {
				return strings.Contains(s, "ProxyProtocolConfig != nil") && !strings.HasPrefix(s, "!")
			}), "Listener.Listen#proxyproto", a.Pos(), "PROXY listener stacked iff ProxyProtocolConfig is set", "PROXY listener not guarded by the configuration")
		})
		if n == 0 {
			r.bad("Listener.Listen#proxyproto", fn.Pos(), "PROXY protocol listener is never installed")
		}
	}
}

func c08r5(r *R) {
	// ReadHeader: 13-byte identifier, dispatch on the identifiers
	rh := r.fn("proxyproto", "ReadHeader")
	ps, _ := enumPaths(rh, 256, 1)
	var why []string
	v1, v2 := 0, 0
	for _, p := range ps {
		if i := p.eventIndex(0, "call", prefix("io.ReadFull(")); i != 0 && !(i == 0) {
			if i < 0 || !strings.HasPrefix(p.Events[i].Desc, "io.ReadFull($0, local:buf[0:13])") {
				why = append(why, "identifier is not read with io.ReadFull into buf[0:13]")
			}
		}
		if i := p.eventIndex(0, "call", prefix("proxyproto.readV2Header(")); i >= 0 {
			v2++
			if !p.holds("bytes.HasPrefix(local:buf[0:13], proxyproto.V2Identifier)") || p.Events[i].Desc != "proxyproto.readV2Header(local:buf[0:], $0)" {
				why = append(why, "v2 dispatch: "+p.Events[i].Desc)
			}
		}
		if i := p.eventIndex(0, "call", prefix("proxyproto.readV1Header(")); i >= 0 {
			v1++
			if !p.holds("bytes.HasPrefix(local:buf[0:13], proxyproto.V1Identifier)") || p.Events[i].Desc != "proxyproto.readV1Header(local:buf[0:], $0)" {
				why = append(why, "v1 dispatch: "+p.Events[i].Desc)
			}
		}
		if len(p.Ret) == 2 && p.Ret[1] == "nil" && p.eventIndex(0, "call", prefix("proxyproto.readV")) < 0 {
			why = append(why, "a header is accepted without being parsed")
		}
	}
	r.check(v1 > 0 && v2 > 0 && len(why) == 0, "ReadHeader#dispatch", rh.Pos(), "13 identifier bytes read fully; v1/v2 parsers entered only behind their signature", strings.Join(dedupStrings(why), "; "))
	checkGlobalBytes(r, "V1Identifier", "PROXY ")
	checkGlobalBytes(r, "V2Identifier", "\r\n\r\n\x00\r\nQUIT\n")

	// v1 optimistic reads vs. the shortest well-formed line
	v1f := r.fn("proxyproto", "readV1Header")
	ps, _ = enumPaths(v1f, 512, 1)
	min := map[string]int{"TCP4": 11 + 7 + 1 + 7 + 1 + 1 + 1 + 1 + 2, "TCP6": 11 + 2 + 1 + 2 + 1 + 1 + 1 + 1 + 2}
	for proto, m := range min {
		var why []string
		n := 0
		for _, p := range ps {
			if !p.holds("bytes.Equal($0[6:10], \"" + proto + "\")") {
				continue
			}
			other := "TCP6"
			if proto == "TCP6" {
				other = "TCP4"
			}
			if p.holds("bytes.Equal($0[6:10], \"" + other + "\")") {
				continue // infeasible mixed path
			}
			n++
			rd := p.eventIndex(0, "call", prefix("io.ReadFull($1, $0[13:"))
			if rd < 0 {
				why = append(why, "no optimistic ReadFull")
				continue
			}
			var N int
			fmt.Sscanf(strings.TrimPrefix(p.Events[rd].Desc, "io.ReadFull($1, $0[13:"), "%d", &N)
			if N > m {
				why = append(why, fmt.Sprintf("optimistic read takes the line to %d bytes but the shortest well-formed %s line has %d: payload bytes of such a connection are consumed as header", N, proto, m))
			}
			if N < 15 {
				why = append(why, "optimistic read too short to contain CRLF")
			}
			crlf := fmt.Sprintf("bytes.Equal($0[%d:%d], \"\\r\\n\")", N-2, N)
			readOK := p.holds("!(" + p.Events[rd].Desc + "#1 != nil)")
			if !readOK {
				continue
			}
			switch {
			case p.holds(crlf):
				if p.eventIndex(rd, "call", eq(fmt.Sprintf("proxyproto.parseV1Header($0[0:%d])", N-2))) < 0 {
					why = append(why, "line that ended at the optimistic read is not parsed as buf[0:N-2]")
				}
			case p.holds("!" + crlf):
				if p.eventIndex(rd, "call", eq(fmt.Sprintf("proxyproto.readUntilCRLF($0, $1, %d)", N))) < 0 {
					why = append(why, fmt.Sprintf("scan does not continue at index %d", N))
				}
			default:
				why = append(why, "CRLF test is not on the last two bytes read")
			}
		}
		r.check(n > 0 && len(why) == 0, "readV1Header#optimistic("+proto+")", v1f.Pos(), fmt.Sprintf("optimistic read ≤ shortest %s line (%d bytes); CRLF test/parse/scan indices agree with what was read", proto, m), strings.Join(dedupStrings(why), "; "))
	}
	// UNKNOWN
	{
		good := false
		for _, p := range ps {
			if p.holds("bytes.Equal($0[6:13], \"UNKNOWN\")") && len(p.Ret) == 2 && p.Ret[1] == "nil" {
				base := p.Ret[0]
				good = p.Mem[base+".IsLocal"] == "true" && p.eventIndex(0, "call", eq("proxyproto.readUntilCRLF($0, $1, 13)")) >= 0
			}
		}
		r.check(good, "readV1Header#unknown", v1f.Pos(), "UNKNOWN: scanned to CRLF from index 13, reported as local", "UNKNOWN header handling changed")
	}
	// readUntilCRLF: single byte reads, idx < 107
	ru := r.fn("proxyproto", "readUntilCRLF")
	{
		var why []string
		n := 0
		eachInstr(ru, func(ins ssa.Instruction) {
			c, ok := ins.(*ssa.Call)
			if !ok || !c.Common().IsInvoke() || c.Common().Method.Name() != "Read" {
				return
			}
			n++
			sl, ok := refArgs(c.Common())[0].(*ssa.Slice)
			if !ok {
				why = append(why, "read target is not a sub-slice")
				return
			}
			hi, lo := describe(sl.High), describe(sl.Low)
			if hi != "("+lo+" + 1)" {
				why = append(why, "read is not byte-wise: ["+lo+":"+hi+"]")
			}
			bounded := guardedBy(c.Block(), func(s string) bool { return s == "("+lo+" < 107)" })
			if !bounded {
				why = append(why, "scan index not bounded by 107")
			}
			// count must be checked
			used := false
			for _, ref := range *c.Referrers() {
				if ex, ok := ref.(*ssa.Extract); ok && ex.Index == 0 && len(*ex.Referrers()) > 0 {
					used = true
				}
			}
			if !used {
				why = append(why, "byte count ignored")
			}
		})
		r.check(n == 1 && len(why) == 0, "readUntilCRLF#bytewise", ru.Pos(), "reads one byte at a time (never past the CRLF), at most 107 bytes in total, count checked", strings.Join(why, "; "))
		// returns line without CRLF
		ps2, _ := enumPaths(ru, 64, 1)
		good := false
		for _, p := range ps2 {
			if len(p.Ret) == 2 && p.Ret[1] == "nil" && !p.Cut {
				idx := "$2"
				good = p.Ret[0] == "$0[0:("+idx+" - 1)]" && p.holds("bytes.Equal($0[("+idx+" - 1):("+idx+" + 1)], \"\\r\\n\")")
			}
		}
		r.check(good, "readUntilCRLF#result", ru.Pos(), "returns the line up to, not including, the CR that precedes the LF just read", "result slice does not end right before the CRLF")
	}
	// v2
	v2f := r.fn("proxyproto", "readV2Header")
	ps, complete := enumPaths(v2f, 4096, 1)
	if !complete {
		r.undecided("readV2Header#paths", v2f.Pos(), "too many paths")
		return
	}
	{
		var why []string
		nTail := 0
		for _, p := range ps {
			if p.eventIndex(0, "call", eq("io.ReadFull($1, $0[13:16])")) != 0 {
				why = append(why, "first read is not ReadFull(buf[13:16])")
			}
			const L = "(encoding/binary.bigEndian).Uint16(encoding/binary.BigEndian, $0[14:16])"
			i := p.eventIndex(0, "call", prefix("io.ReadFull($1, make([]byte,"))
			if i >= 0 {
				nTail++
				if p.Events[i].Desc != "io.ReadFull($1, make([]byte,"+L+"))" {
					why = append(why, "tail read "+p.Events[i].Desc)
				}
				if !p.holds("!(" + L + " > 2048)") {
					why = append(why, "tail allocated without the 2048 cap")
				}
				if !p.holds("!((" + "$0[12] & 240) != 32)") {
					why = append(why, "version nibble not checked before the tail")
				}
			}
			if len(p.Ret) == 2 && p.Ret[1] == "nil" {
				if !p.holds("!(" + L + " > 2048)") {
					why = append(why, "accepted without the length cap")
				}
				if i >= 0 && !p.holds("!("+p.Events[i].Desc+"#1 != nil)") {
					why = append(why, "accepted although the tail read failed")
				}
			}
		}
		r.check(nTail > 0 && len(why) == 0, "readV2Header#reads", v2f.Pos(), "3 bytes read fully; tail of the declared length read fully only when ≤ 2048 and version is 2", strings.Join(dedupStrings(why), "; "))
	}
	// index bounds in v2: IPv4 needs len(tr) >= 12, IPv6 >= 36
	{
		var why []string
		seen := map[string]bool{}
		for _, p := range ps {
			if len(p.Ret) != 2 || p.Ret[1] != "nil" {
				continue
			}
			for _, fam := range []struct {
				conds []string
				n     string
			}{{[]string{"($0[13] == 17)", "($0[13] == 18)"}, "12"}, {[]string{"($0[13] == 33)", "($0[13] == 34)"}, "36"}} {
				in := false
				for _, c := range fam.conds {
					if p.holds(c) {
						in = true
					}
				}
				if !in {
					continue
				}
				seen[fam.n] = true
				if !p.hasCond(func(c string) bool {
					return strings.HasPrefix(c, "!(builtin len(") && strings.HasSuffix(c, " < "+fam.n+")")
				}) {
					why = append(why, "address bytes used without checking the tail holds "+fam.n+" bytes")
				}
			}
		}
		r.check(len(seen) == 2 && len(why) == 0, "readV2Header#address-length", v2f.Pos(), "IPv4 needs 12 and IPv6 36 tail bytes before they are indexed", strings.Join(dedupStrings(why), "; "))
	}
	// no other reader calls in the package
	for _, fn := range r.modFuncs() {
		if !strings.HasPrefix(fname(fn), "proxyproto.") || fn == ru {
			continue
		}
		eachInstr(fn, func(ins ssa.Instruction) {
			c, ok := ins.(*ssa.Call)
			if !ok || !c.Common().IsInvoke() {
				return
			}
			if c.Common().Method.Name() == "Read" && typeStr(c.Common().Value.Type()) == "io.Reader" {
				r.bad(fname(fn)+"#raw-Read", c.Pos(), "header bytes read with a bare Read (may come up short or long); use io.ReadFull on an exact sub-slice")
			}
		})
	}
}

func checkGlobalBytes(r *R, name, want string) {
	p := r.pkg("proxyproto")
	g, _ := refGlobal(p, name), true
	if g == nil {
		r.missing("proxyproto." + name)
	}
	val, n := "", 0
	for _, fn := range r.modFuncs() {
		eachInstr(fn, func(ins ssa.Instruction) {
			if st, ok := ins.(*ssa.Store); ok && st.Addr == g {
				n++
				if cv, ok := st.Val.(*ssa.Convert); ok {
					val, _ = constString(cv.X)
				}
			}
		})
	}
	r.check(n == 1 && val == want, "proxyproto."+name, g.Pos(), fmt.Sprintf("= %q", want), fmt.Sprintf("signature is %q (stores: %d), the PROXY protocol says %q", val, n, want))
}

func c08r6(r *R) {
	// v1 closure
	pv := r.fn("proxyproto", "parseV1Header")
	if len(anonFuncs(pv)) != 1 {
		r.missing("parseV1Header closure")
	}
	lit := anonFuncs(pv)[0]
	b := closureBindings(lit)
	bindName := func(i int) string {
		if i < len(b) {
			return strings.TrimPrefix(b[i], "local:")
		}
		return "?"
	}
	ps, _ := enumPaths(lit, 256, 1)
	want := map[string][2]string{"0": {"src.IP", "net.ParseIP($1)"}, "1": {"dest.IP", "net.ParseIP($1)"}, "2": {"src.Port", "strconv.Atoi($1)#0"}, "3": {"dest.Port", "strconv.Atoi($1)#0"}}
	for pos, w := range want {
		var why []string
		n := 0
		for _, p := range ps {
			if !p.holds("($0 == "+pos+")") || p.Ret[0] != "nil" {
				continue
			}
			n++
			got := map[string]string{}
			for k, v := range p.Mem {
				if strings.HasPrefix(k, "^") {
					var i int
					var f string
					if n, _ := fmt.Sscanf(k, "^%d.%s", &i, &f); n >= 1 {
						got[bindName(i)+"."+f] = v
					} else {
						got[k[1:]] = v // a field of a captured grouping struct: reads like the variable it replaces
					}
				}
			}
			for k, v := range got {
				if k == "done" || strings.HasPrefix(k, "done.") {
					continue
				}
				if k != w[0] || v != w[1] {
					why = append(why, "position "+pos+" stores "+k+" := "+v)
				}
			}
			if got[w[0]] != w[1] {
				why = append(why, "position "+pos+" does not fill "+w[0])
			}
		}
		r.check(n > 0 && len(why) == 0, "parseV1Header#pos"+pos, lit.Pos(), "field "+pos+" → "+w[0], strings.Join(dedupStrings(why), "; "))
	}
	// v1 result: Source: &src, Destination: &dest, only when all four were seen
	ps, _ = enumPaths(pv, 64, 1)
	good := false
	for _, p := range ps {
		if len(p.Ret) == 2 && p.Ret[1] == "nil" {
			base := p.Ret[0]
			good = p.Mem[base+".Source"] == "local:src" && p.Mem[base+".Destination"] == "local:dest" && p.holds("local:done") && (p.Mem[base+".IsLocal"] == "false" || p.Mem[base+".IsLocal"] == "")
		}
	}
	r.check(good, "parseV1Header#result", pv.Pos(), "Source=&src, Destination=&dest, accepted only after the fourth field", "v1 header result built differently")
	// 'done' is set at position 3
	doneOK := false
	for _, p := range enumPathsOf(lit) {
		for k, v := range p.Mem {
			if strings.HasPrefix(k, "^") && v == "true" && p.holds("($0 == 3)") {
				doneOK = true
			}
			if strings.HasPrefix(k, "^") && v == "true" && !p.holds("($0 == 3)") {
				doneOK = false
			}
		}
	}
	r.check(doneOK, "parseV1Header#done", lit.Pos(), "complete only at the fourth field", "completion flag is set before all four fields were parsed")

	// v2 layout
	v2f := r.fn("proxyproto", "readV2Header")
	ps, _ = enumPaths(v2f, 4096, 1)
	type lay struct{ srcIP, dstIP, srcPort, dstPort string }
	const tr = "make([]byte,(encoding/binary.bigEndian).Uint16(encoding/binary.BigEndian, $0[14:16]))"
	u16 := func(a, b int) string {
		return fmt.Sprintf("(encoding/binary.bigEndian).Uint16(encoding/binary.BigEndian, %s[%d:%d])", tr, a, b)
	}
	v4 := lay{fmt.Sprintf("net.IPv4(%s[0], %s[1], %s[2], %s[3])", tr, tr, tr, tr), fmt.Sprintf("net.IPv4(%s[4], %s[5], %s[6], %s[7])", tr, tr, tr, tr), u16(8, 10), u16(10, 12)}
	v6 := lay{tr + "[0:16]", tr + "[16:32]", u16(32, 34), u16(34, 36)}
	for _, fam := range []struct {
		name  string
		conds []string
		l     lay
		off   string
	}{{"IPv4", []string{"($0[13] == 17)", "($0[13] == 18)"}, v4, "12"}, {"IPv6", []string{"($0[13] == 33)", "($0[13] == 34)"}, v6, "36"}} {
		var why []string
		n := 0
		for _, p := range ps {
			if len(p.Ret) != 2 || p.Ret[1] != "nil" {
				continue
			}
			in := false
			for _, c := range fam.conds {
				if p.holds(c) {
					in = true
				}
			}
			if !in || !p.holds("(($0[12] & 15) == 1)") {
				continue
			}
			n++
			m := p.Mem
			// what the header hands out: the objects stored as Source and Destination, whatever builds them
			udp := p.holds("(($0[13] & 15) == 2)")
			src, dst := m["local:h.Source"], m["local:h.Destination"]
			if m[src+".IP"] != fam.l.srcIP || m[dst+".IP"] != fam.l.dstIP || m[src+".Port"] != fam.l.srcPort || m[dst+".Port"] != fam.l.dstPort {
				why = append(why, "address fields read from the wrong offsets: Source.IP="+m[src+".IP"]+" Destination.IP="+m[dst+".IP"]+" Source.Port="+m[src+".Port"]+" Destination.Port="+m[dst+".Port"])
			}
			wantT := "*net.TCPAddr"
			if udp {
				wantT = "*net.UDPAddr"
			}
			if m[src+"#type"] != wantT || m[dst+"#type"] != wantT || src == dst {
				why = append(why, fmt.Sprintf("transport bits say %s but Source is %s and Destination %s", wantT, m[src+"#type"], m[dst+"#type"]))
			}
			// TLV offset
			if tl, ok := m["local:h.RawTLVs"]; ok && tl != tr+"["+fam.off+":]" {
				why = append(why, "TLV tail starts at "+tl)
			}
		}
		r.check(n > 0 && len(why) == 0, "readV2Header#layout("+fam.name+")", v2f.Pos(), "source address, destination address, source port, destination port at the specification's offsets; TLVs start after them", strings.Join(dedupStrings(why), "; "))
	}
	// command decoding
	{
		var why []string
		nLocal := 0
		for _, p := range ps {
			if len(p.Ret) != 2 || p.Ret[1] != "nil" {
				continue
			}
			local := p.Mem["local:h.IsLocal"] == "true"
			if local {
				nLocal++
			}
			if local != p.holds("(($0[12] & 15) == 0)") {
				why = append(why, "IsLocal does not follow the LOCAL command nibble")
			}
			if p.Mem["local:h.Version"] != "2" {
				why = append(why, "version field")
			}
		}
		r.check(nLocal > 0 && len(why) == 0, "readV2Header#command", v2f.Pos(), "IsLocal ⇔ command LOCAL", strings.Join(dedupStrings(why), "; "))
	}
}

func enumPathsOf(fn *ssa.Function) []Path {
	ps, _ := enumPaths(fn, 1024, 1)
	return ps
}
