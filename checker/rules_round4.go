package main

import (
	"fmt"
	"strings"

	"golang.org/x/tools/go/ssa"
)

// Rules written after the fourth seeding round.
func init() {
	register("C01", "R11", 6, "a slow request body is not cut off by the idle timer: deadline ordering in readRequest (the C15.R2 decision, claimed here for the body clause - the header deadline, possibly none, always replaces the idle deadline before the head is parsed)", c15r2)
	register("C03", "R8", 6, "a tunnel is not cut off by the idle timer: deadline ordering in readRequest (the C15.R2 decision, claimed here for tunnels - the idle deadline never survives into the exchange)", c15r2)
	register("C02", "R8", 2, "fields nominated by Connection are removed whatever their spelling: removeHopByHopHeaders deletes each nominated name through Header.Del (which canonicalises) or after CanonicalHeaderKey - a raw map delete misses `connection: x-hop` when the field is stored as X-Hop", hopByHopNominated)
	register("C06", "R8", 2, "Connection-nominated fields (Proxy-Authorization among them) are removed whatever their spelling (same decision as C02.R8)", hopByHopNominated)
	register("C04", "R9", 1, "hosts-file aliases: every name of every loopback record is an alias - a name is collected under the loopback test of its own record and under nothing else (a later non-loopback record for the same name must not take it out)", c04r9)
	register("C06", "R7", 2, "nothing is put back after the hop-by-hop strip: in handle/handleRequest the only request header writes after the modifiers ran are Connection: Upgrade and Upgrade: <type> (constants and the recorded upgrade token) - no field copied from what the client nominated", c06r7)
	register("C07", "R7", 2, "the CA the proxy publishes is the CA that signs: mitmCACert is read from the very mitm.Config installed in the proxy, and the CA key pair is loaded exactly once per configuration (a generated CA is different on every load)", c07r7)
}

func hopByHopNominated(r *R) {
	fn := r.fn("internal/martian/header", "removeHopByHopHeaders")
	n := 0
	var bad []string
	eachInstr(fn, func(ins ssa.Instruction) {
		c, ok := ins.(*ssa.Call)
		if !ok {
			return
		}
		cn := calleeName(c.Common())
		isDel := cn == "(net/http.Header).Del"
		isDelete := cn == "builtin delete"
		if !isDel && !isDelete {
			return
		}
		key := describe(c.Common().Args[1])
		if !strings.Contains(key, "strings.Split(") {
			return // the static list
		}
		n++
		if isDelete && !strings.HasPrefix(key, "net/http.CanonicalHeaderKey(") && !strings.HasPrefix(key, "net/textproto.CanonicalMIMEHeaderKey(") {
			bad = append(bad, "a nominated field is removed with delete(header, "+shorten(key, 70)+"): the raw spelling is not the key the field is stored under")
		}
		for _, g := range guardStrings(c.Block()) {
			gg := strings.TrimLeft(g, "!")
			if strings.Contains(gg, "builtin len(") || strings.HasPrefix(gg, "next(range(") || strings.Contains(gg, ` == "")`) {
				continue
			}
			bad = append(bad, "removal happens only when "+shorten(g, 80))
		}
	})
	r.check(n > 0 && len(bad) == 0, "removeHopByHopHeaders#nominated", fn.Pos(), "each Connection option is removed by its canonical name", strings.Join(dedupStrings(bad), "; ")+map[bool]string{true: "no Connection-nominated field is removed", false: ""}[n == 0])
	// the static list is removed through Del as well
	m := 0
	eachInstr(fn, func(ins ssa.Instruction) {
		if c, ok := ins.(*ssa.Call); ok && calleeName(c.Common()) == "(net/http.Header).Del" && strings.Contains(describe(c.Common().Args[1]), "hopByHopHeaders") {
			m++
		}
	})
	r.check(m > 0, "removeHopByHopHeaders#static-list", fn.Pos(), "the fixed hop-by-hop list is removed", "the fixed hop-by-hop list is not removed through Header.Del")
}

func c04r9(r *R) {
	fn := r.fn("hostsfile", "readLocalhostAliases")
	n := 0
	var bad []string
	check := func(ins ssa.Instruction, key string) {
		if !strings.Contains(key, ".Hostnames") {
			return
		}
		n++
		loop := false
		for _, g := range guardStrings(ins.Block()) {
			gg := strings.TrimLeft(g, "!")
			switch {
			case strings.HasPrefix(gg, "next(range(") || strings.Contains(gg, "< builtin len(") || strings.Contains(gg, ".Decode($0)#1"):
			case strings.HasPrefix(g, "(net.IP).IsLoopback(") && strings.Contains(g, ".IpAddress.IP"):
				loop = true
			default:
				bad = append(bad, "a name is collected only when "+shorten(g, 80))
			}
		}
		if !loop {
			bad = append(bad, "names are collected without the loopback test of their own record ("+r.rel(ins.Pos())+")")
		}
	}
	eachInstr(fn, func(ins ssa.Instruction) {
		switch x := ins.(type) {
		case *ssa.MapUpdate:
			check(x, describe(x.Key))
		case *ssa.Call:
			if calleeName(x.Common()) == "builtin append" {
				for _, v := range variadicArgs(x.Common().Args[1]) {
					check(x, describe(v))
				}
			}
		}
	})
	r.check(n > 0 && len(bad) == 0, "readLocalhostAliases#loopback-names", fn.Pos(), "names of loopback records, all of them", strings.Join(dedupStrings(bad), "; ")+map[bool]string{true: "no record name is collected", false: ""}[n == 0])
}

func c06r7(r *R) {
	for _, spec := range []struct{ typ, name string }{{"proxyConn", "handle"}, {"proxyHandler", "handleRequest"}} {
		fn := r.method("internal/martian", spec.typ, spec.name)
		// the request variable: the one passed to modifyRequest
		var mod ssa.Instruction
		var reqTerm string
		eachInstr(fn, func(ins ssa.Instruction) {
			if c, ok := ins.(*ssa.Call); ok && strings.HasSuffix(calleeName(c.Common()), ").modifyRequest") && mod == nil {
				mod = ins
				reqTerm = describe(c.Common().Args[len(c.Common().Args)-1])
			}
		})
		if mod == nil {
			r.missing("call of modifyRequest in " + fname(fn))
		}
		var bad []string
		n := 0
		eachInstr(fn, func(ins ssa.Instruction) {
			switch x := ins.(type) {
			case *ssa.Call:
				cn := calleeName(x.Common())
				if cn != "(net/http.Header).Set" && cn != "(net/http.Header).Add" {
					return
				}
				if describe(x.Common().Args[0]) != reqTerm+".Header" || !reaches(mod, ins) {
					return
				}
				n++
				k, isC := constString(x.Common().Args[1])
				if !isC || cn != "(net/http.Header).Set" || k != "Connection" && k != "Upgrade" {
					bad = append(bad, fmt.Sprintf("%s(%s, ...) at %s", cn[strings.LastIndex(cn, ".")+1:], describe(x.Common().Args[1]), r.rel(x.Pos())))
					return
				}
				if k == "Connection" {
					if v, ok := constString(x.Common().Args[2]); !ok || v != "Upgrade" {
						bad = append(bad, "Connection set to "+describe(x.Common().Args[2]))
					}
				}
			case *ssa.MapUpdate:
				if describe(x.Map) == reqTerm+".Header" && reaches(mod, ins) {
					n++
					bad = append(bad, "request header map written directly at "+r.rel(x.Pos()))
				}
			}
		})
		r.check(len(bad) == 0, spec.typ+"."+spec.name+"#after-strip", fn.Pos(), fmt.Sprintf("%d writes after the modifiers, all Connection: Upgrade / Upgrade: <type>", n), "after the hop-by-hop fields were removed the request gets "+strings.Join(bad, "; ")+": fields the client marked hop-by-hop (Proxy-Authorization may be among them) travel on to the next hop")
	}
}

func c07r7(r *R) {
	cp := r.method(".", "HTTPProxy", "configureProxy")
	var caVal, cfgVal string
	eachInstr(cp, func(ins ssa.Instruction) {
		st, ok := ins.(*ssa.Store)
		if !ok {
			return
		}
		a := describe(st.Addr)
		switch {
		case strings.HasSuffix(a, ".mitmCACert"):
			caVal = describe(st.Val)
		case strings.HasSuffix(a, ".proxy.MITMConfig"):
			cfgVal = describe(st.Val)
		}
	})
	good := cfgVal != "" && caVal == "(*martian/mitm.Config).CACert("+cfgVal+")"
	r.check(good, "configureProxy#published-ca", cp.Pos(), "mitmCACert = CACert() of the installed MITM configuration", "the published CA is "+shorten(caVal, 90)+" while the installed signing configuration is "+shorten(cfgVal, 90)+": with a generated CA the two differ, clients that trust the published one reject every intercepted handshake")
	// one load per configuration
	lc := r.method(".", "MITMConfig", "loadCACertificate")
	n := 0
	var sites []string
	for _, fn := range r.modFuncs() {
		for _, c := range callsToFunc(fn, lc) {
			n++
			sites = append(sites, fname(fn)+" "+r.rel(c.Pos()))
		}
	}
	r.check(n == 1, "loadCACertificate#once", lc.Pos(), "loaded in exactly one place", fmt.Sprintf("the CA key pair is loaded in %d places (%s): a generated CA differs between loads", n, strings.Join(sites, ", ")))
}
