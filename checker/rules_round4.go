package main

import (
	"fmt"
	"strings"

	"golang.org/x/tools/go/ssa"
)

// Rules written after the fourth seeding round.
func init() {
	register("C01", "R11", 6, "a slow request body is not cut off by the idle timer: deadline ordering in readRequest (the C15.R2 decision, claimed here for the body clause - the header deadline, possibly none, always replaces the idle deadline before the head is parsed)", c15r2)
	register("C03", "R8", 6, "a tunnel is not cut off by the idle timer: deadline ordering in readRequest (the C15.R2 decision, claimed here for tunnels - the idle deadline never survives into the exchange)", c15r2)
	register("C02", "R8", 2, "fields nominated by Connection are removed whatever their spelling: removeHopByHopHeaders deletes each nominated name through Header.Del (which canonicalises) or after CanonicalHeaderKey - a raw map delete misses `connection: x-hop` when the field is stored as X-Hop", hopByHopNominated)
	register("C06", "R8", 2, "Connection-nominated fields (Proxy-Authorization among them) are removed whatever their spelling (same decision as C02.R8)", hopByHopNominated)
	register("C04", "R9", 1, "hosts-file aliases: every name of every loopback record is an alias - a name is collected under the loopback test of its own record and under nothing else (a later non-loopback record for the same name must not take it out)", c04r9)
	register("C06", "R7", 2, "nothing is put back after the hop-by-hop strip: in handle/handleRequest the only request header writes after the modifiers ran are Connection: Upgrade and Upgrade: <type> (constants and the recorded upgrade token) - no field copied from what the client nominated", c06r7)
	register("C07", "R7", 2, "the CA the proxy publishes is the CA that signs: mitmCACert is read from the very mitm.Config installed in the proxy, and the CA key pair is loaded exactly once per configuration (a generated CA is different on every load)", c07r7)
}

func hopByHopNominated(r *R) {
	fn := r.fn("internal/martian/header", "removeHopByHopHeaders")
	n := 0
	var bad []string
	eachInstr(fn, func(ins ssa.Instruction) {
		c, ok := ins.(*ssa.Call)
		if !ok {
			return
		}
		cn := calleeName(c.Common())
		isDel := cn == "(net/http.Header).Del"
		isDelete := cn == "builtin delete"
		if !isDel && !isDelete {
			return
		}
		key := describe(refArgs(c.Common())[1])
		if !strings.Contains(key, "strings.Split(") {
			return // the static list
		}
		n++
		if isDelete && !strings.HasPrefix(key, "net/http.CanonicalHeaderKey(") && !strings.HasPrefix(key, "net/textproto.CanonicalMIMEHeaderKey(") {
			bad = append(bad, "a nominated field is removed with delete(header, "+shorten(key, 70)+"): the raw spelling is not the key the field is stored under")
		}
		for _, g := range guardStrings(c.Block()) {
			gg := strings.TrimLeft(g, "!")
			if strings.Contains(gg, "builtin len(") || strings.HasPrefix(gg, "next(range(") || strings.Contains(gg, ` == "")`) {
				continue
			}
			bad = append(bad, "removal happens only when "+shorten(g, 80))
		}
	})
	r.check(n > 0 && len(bad) == 0, "removeHopByHopHeaders#nominated", fn.Pos(), "each Connection option is removed by its canonical name", strings.Join(dedupStrings(bad), "; ")+map[bool]string{true: "no Connection-nominated field is removed", false: ""}[n == 0])
	// the static list is removed through Del as well
	m := 0
	eachInstr(fn, func(ins ssa.Instruction) {
		if c, ok := ins.(*ssa.Call); ok && calleeName(c.Common()) == "(net/http.Header).Del" && strings.Contains(describe(refArgs(c.Common())[1]), "hopByHopHeaders") {
			m++
		}
	})
	r.check(m > 0, "removeHopByHopHeaders#static-list", fn.Pos(), "the fixed hop-by-hop list is removed", "the fixed hop-by-hop list is not removed through Header.Del")
}

func c04r9(r *R) {
	fn := r.fn("hostsfile", "readLocalhostAliases")
	n := 0
	var bad []string
	check := func(ins ssa.Instruction, key string) {
		if !strings.Contains(key, ".Hostnames") {
			return
		}
		n++
		loop := false
		for _, g := range guardStrings(ins.Block()) {
			gg := strings.TrimLeft(g, "!")
			switch {
			case strings.HasPrefix(gg, "next(range(") || strings.Contains(gg, "< builtin len(") || strings.Contains(gg, ".Decode($0)#1"):
			case strings.HasPrefix(g, "(net.IP).IsLoopback(") && strings.Contains(g, ".IpAddress.IP"):
				loop = true
			default:
				bad = append(bad, "a name is collected only when "+shorten(g, 80))
			}
		}
		if !loop {
			bad = append(bad, "names are collected without the loopback test of their own record ("+r.rel(ins.Pos())+")")
		}
	}
	eachInstr(fn, func(ins ssa.Instruction) {
		switch x := ins.(type) {
		case *ssa.MapUpdate:
			check(x, describe(x.Key))
		case *ssa.Call:
			if calleeName(x.Common()) == "builtin append" {
				for _, v := range variadicArgs(refArgs(x.Common())[1]) {
					check(x, describe(v))
				}
			}
		}
	})
	r.check(n > 0 && len(bad) == 0, "readLocalhostAliases#loopback-names", fn.Pos(), "names of loopback records, all of them", strings.Join(dedupStrings(bad), "; ")+map[bool]string{true: "no record name is collected", false: ""}[n == 0])
}

func c06r7(r *R) {
	for _, spec := range []struct{ typ, name string }{{"proxyConn", "handle"}, {"proxyHandler", "handleRequest"}} {
		fn := r.method("internal/martian", spec.typ, spec.name)
		// the request variable: the one passed to modifyRequest
		var mod ssa.Instruction
		var reqTerm string
		eachInstr(fn, func(ins ssa.Instruction) {
			if c, ok := ins.(*ssa.Call); ok && strings.HasSuffix(calleeName(c.Common()), ").modifyRequest") && mod == nil {
				mod = ins
				reqTerm = describe(refArgs(c.Common())[len(c.Common().Args)-1])
			}
		})
		if mod == nil {
			r.missing("call of modifyRequest in " + fname(fn))
		}
		var bad []string
		n := 0
		eachInstr(fn, func(ins ssa.Instruction) {
			switch x := ins.(type) {
			case *ssa.Call:
				cn := calleeName(x.Common())
				if cn != "(net/http.Header).Set" && cn != "(net/http.Header).Add" {
					return
				}
				if describe(refArgs(x.Common())[0]) != reqTerm+".Header" || !reaches(mod, ins) {
					return
				}
				n++
				k, isC := constString(refArgs(x.Common())[1])
				if !isC || cn != "(net/http.Header).Set" || k != "Connection" && k != "Upgrade" {
					bad = append(bad, fmt.Sprintf("%s(%s, ...) at %s", cn[strings.LastIndex(cn, ".")+1:], describe(refArgs(x.Common())[1]), r.rel(x.Pos())))
					return
				}
				if k == "Connection" {
					if v, ok := constString(refArgs(x.Common())[2]); !ok || v != "Upgrade" {
						bad = append(bad, "Connection set to "+describe(refArgs(x.Common())[2]))
					}
				}
			case *ssa.MapUpdate:
				if describe(x.Map) == reqTerm+".Header" && reaches(mod, ins) {
					n++
					bad = append(bad, "request header map written directly at "+r.rel(x.Pos()))
				}
			}
		})
		r.check(len(bad) == 0, spec.typ+"."+spec.name+"#after-strip", fn.Pos(), fmt.Sprintf("%d writes after the modifiers, all Connection: Upgrade / Upgrade: <type>", n), "after the hop-by-hop fields were removed the request gets "+strings.Join(bad, "; ")+": fields the client marked hop-by-hop (Proxy-Authorization may be among them) travel on to the next hop")
	}
}

func c07r7(r *R) {
	cp := r.method(".", "HTTPProxy", "configureProxy")
	var caVal, cfgVal string
	eachInstr(cp, func(ins ssa.Instruction) {
		st, ok := ins.(*ssa.Store)
		if !ok {
			return
		}
		a := describe(st.Addr)
		switch {
		case strings.HasSuffix(a, ".mitmCACert"):
			caVal = describe(st.Val)
		case strings.HasSuffix(a, ".proxy.MITMConfig"):
			cfgVal = describe(st.Val)
		}
	})
	good := cfgVal != "" && caVal == "(*martian/mitm.Config).CACert("+cfgVal+")"
	r.check(good, "configureProxy#published-ca", cp.Pos(), "mitmCACert = CACert() of the installed MITM configuration", "the published CA is "+shorten(caVal, 90)+" while the installed signing configuration is "+shorten(cfgVal, 90)+": with a generated CA the two differ, clients that trust the published one reject every intercepted handshake")
	// one load per configuration
	lc := r.method(".", "MITMConfig", "loadCACertificate")
	n := 0
	var sites []string
	for _, fn := range r.modFuncs() {
		for _, c := range callsToFunc(fn, lc) {
			n++
			sites = append(sites, fname(fn)+" "+r.rel(c.Pos()))
		}
	}
	r.check(n == 1, "loadCACertificate#once", lc.Pos(), "loaded in exactly one place", fmt.Sprintf("the CA key pair is loaded in %d places (%s): a generated CA differs between loads", n, strings.Join(sites, ", ")))
}

func init() {
	register("C13", "R8", 2, "a dialled upstream connection of an upgraded exchange is closed and reported closed: the response body closed on exit is the one the round trip returned (the C03.R6 decision, claimed here for the dialled-connection accounting)", c03r6)
	register("C08", "R9", 2, "the PROXY-protocol wrapper is part of every listener that asks for it: on every path of Listener.Listen on which ProxyProtocolConfig is set, the listener that is kept wraps a proxyproto.Listener over the raw socket, whatever other wrappers (rate limits) are configured", listenerStack)
	register("C20", "R5", 2, "the rate-limit wrapper is part of every listener that asks for it: on every path of Listener.Listen on which a limit is positive, the listener that is kept is (built over) ratelimit.NewListener, whatever other wrappers are configured (same decision as C08.R9)", listenerStack)
	register("C10", "R13", 10, "frames keep flowing after connection-level frames: processFrame reports an error only when something failed - on a path where every write, decode and processor call succeeded it returns that call's own (nil) result, never a sentinel that makes the relay stop reading", c10r13)
	register("C12", "R12", 1, "the accept loop survives transient accept failures (EMFILE, ECONNABORTED): the back-off-and-retry branch of Serve is taken for every net.Error that reports Temporary()", acceptRetriesTemporary)
	register("C14", "R7", 2, "the Ex helpers answer for both address families: isResolvableEx and isInNetEx resolve through dnsResolveEx (network \"ip\"), never through the IPv4-only dnsResolve", c14r7)
	register("C14", "R8", 6, "evaluations are independent of each other: helper functions keep no state in the resolver - outside its constructor nothing stores into, or updates a map held by, a ProxyResolver field (a pooled resolver is reused for unrelated requests)", c14r8)
}

func listenerStack(r *R) {
	fn := r.method(".", "Listener", "Listen")
	ps, complete := enumPaths(fn, 4096, 1)
	if !complete {
		r.undecided("Listener.Listen#paths", fn.Pos(), "too many paths")
		return
	}
	var why []string
	n := 0
	for _, p := range ps {
		if len(p.Ret) != 1 || p.Ret[0] != "nil" {
			continue
		}
		kept, ok := p.Mem["$0.listener"]
		if !ok {
			continue
		}
		n++
		// the proxyproto composite built on this path
		pp := ""
		for k := range p.Mem {
			if strings.HasSuffix(k, ".ReadHeaderTimeout") && strings.HasPrefix(k, "local:") {
				pp = strings.TrimSuffix(k, ".ReadHeaderTimeout")
			}
		}
		// a wrapper may be left out only on a path that knows it is not asked for
		if !p.holds("!($0.ProxyProtocolConfig != nil)") && !p.holds("!($0.ListenerConfig.ProxyProtocolConfig != nil)") {
			if pp == "" || !strings.Contains(kept, pp) {
				why = append(why, "PROXY protocol may be configured but the kept listener is "+shorten(kept, 80)+" on ["+shorten(strings.Join(p.Conds, " ∧ "), 160)+"]")
			}
		}
		noRead := p.holds("!($0.ListenerConfig.ReadLimit > 0)") || p.holds("!($0.ReadLimit > 0)")
		noWrite := p.holds("!($0.ListenerConfig.WriteLimit > 0)") || p.holds("!($0.WriteLimit > 0)")
		if !(noRead && noWrite) && !strings.Contains(kept, "ratelimit.NewListener(") {
			why = append(why, "a limit may be configured but the kept listener is "+shorten(kept, 80)+" on ["+shorten(strings.Join(p.Conds, " ∧ "), 160)+"]")
		}
	}
	r.check(n > 0 && len(why) == 0, "Listener.Listen#wrappers", fn.Pos(), "every configured wrapper is in the stack that is kept", strings.Join(dedupStrings(why), "; "))
	// and the PROXY wrapper sits directly on the socket (it must see the first bytes)
	okInner := false
	// the raw socket: the first result of the module function that opens it (reaches net.ListenConfig.Listen),
	// whatever it is called and however it is given the address
	var sockets []string
	eachInstr(fn, func(ins ssa.Instruction) {
		c, ok := ins.(*ssa.Call)
		if !ok {
			return
		}
		g := staticCallee(c.Common())
		if g == nil || !inModule(g) || isNewHelper(g) && false {
			return
		}
		opens := false
		eachInstr(g, func(gi ssa.Instruction) {
			if gc, ok := gi.(*ssa.Call); ok && calleeName(gc.Common()) == "(*net.ListenConfig).Listen" {
				opens = true
			}
		})
		if opens {
			sockets = append(sockets, describe(c)+"#0")
		}
	})
	isSocket := func(v string) bool {
		if strings.HasPrefix(v, "(*net.ListenConfig).Listen(") && strings.HasSuffix(v, "#0") {
			return true // opened right here (the opener is a helper walked in place)
		}
		for _, s := range sockets {
			if strings.Contains(v, s) {
				return true
			}
		}
		return false
	}
	for _, p := range ps {
		for k, v := range p.Mem {
			if strings.HasPrefix(k, "local:") && strings.HasSuffix(k, ".Listener") && isSocket(v) {
				if _, has := p.Mem[strings.TrimSuffix(k, ".Listener")+".ReadHeaderTimeout"]; has {
					okInner = true
				}
			}
		}
	}
	r.check(okInner, "Listener.Listen#proxyproto-innermost", fn.Pos(), "proxyproto.Listener wraps the raw socket", "the PROXY-protocol wrapper is not built directly over the listening socket")
}

func c10r13(r *R) {
	pf := r.method(h2pkg, "relay", "processFrame")
	ps, complete := enumPaths(pf, 8192, 1)
	if !complete {
		r.undecided("processFrame#paths", pf.Pos(), "too many paths")
		return
	}
	classes := map[string]string{}
	for _, p := range ps {
		if len(p.Ret) != 1 {
			continue
		}
		failed := p.hasCond(func(c string) bool { return !strings.HasPrefix(c, "!") && strings.HasSuffix(c, " != nil)") })
		if failed {
			continue
		}
		ret := p.Ret[0]
		kind := "call result"
		switch {
		case ret == "nil":
			kind = "nil"
		case strings.HasPrefix(ret, "fmt.Errorf(") || strings.HasPrefix(ret, "errors.New("):
			kind = "error value built on a path where nothing failed"
			// legitimate: protocol errors (unexpected CONTINUATION etc.) are decided by tests on the frame, not by an err != nil
			if p.hasCond(func(c string) bool { return strings.Contains(c, "continuationState") || strings.Contains(c, "(type)") }) {
				kind = "protocol error"
			}
		case strings.HasPrefix(ret, "martian/h2.") || strings.HasPrefix(ret, "h2."):
			kind = "sentinel " + ret
		}
		// group by the frame type the path handles
		ft := "other"
		for _, c := range p.Conds {
			if isFrameTypeCase(c) {
				ft = c[strings.LastIndex(c, ".")+1 : len(c)-3]
			}
		}
		if ft == "other" && strings.HasPrefix(kind, "error value built") {
			kind = "protocol error" // the default branch of the type switch: a frame type the relay does not know
		}
		key := ft + ":" + kind
		if _, ok := classes[key]; !ok {
			classes[key] = shorten(ret, 70)
		}
	}
	var keys []string
	for k := range classes {
		keys = append(keys, k)
	}
	sortStrings(keys)
	for _, k := range keys {
		bad := strings.Contains(k, ":sentinel ") || strings.HasSuffix(k, ":error value built on a path where nothing failed")
		r.check(!bad, "processFrame#success-return("+k+")", pf.Pos(), "returns "+classes[k], "on a path where nothing failed processFrame returns "+classes[k]+": the relay loop treats any error as the end of this direction, so every frame the endpoint sends afterwards is lost")
	}
}

func c12r12(r *R) {
	sv := r.method("internal/martian", "Proxy", "Serve")
	n := 0
	eachInstr(sv, func(ins ssa.Instruction) {
		c, ok := ins.(*ssa.Call)
		if !ok || calleeName(c.Common()) != "time.Sleep" {
			return
		}
		n++
		temp := guardedBy(c.Block(), func(g string) bool { return strings.HasPrefix(g, "invoke net.Error.Temporary(") })
		narrowed := guardedBy(c.Block(), func(g string) bool {
			return strings.HasPrefix(g, "invoke net.Error.Timeout(") || strings.Contains(g, "syscall.") || strings.Contains(g, "errors.Is(")
		})
		r.check(temp && !narrowed, "Serve#retry-on-temporary", c.Pos(), "back-off and retry for every temporary accept error", "the accept loop backs off and retries only under "+strings.Join(guardStrings(c.Block()), " ∧ ")+": a temporary error that is not covered (too many open files, connection aborted) ends Serve, the process stays up but accepts nothing")
	})
	if n == 0 {
		r.bad("Serve#retry-on-temporary", sv.Pos(), "the accept loop has no back-off/retry branch: a transient accept error ends Serve")
	}
}

func c14r7(r *R) {
	ex := r.method("pac", "ProxyResolver", "dnsResolveEx")
	v4 := r.method("pac", "ProxyResolver", "dnsResolve")
	for _, name := range []string{"isResolvableEx", "isInNetEx"} {
		fn := r.method("pac", "ProxyResolver", name)
		usesEx := len(callsToFunc(fn, ex)) > 0
		uses4 := len(callsToFunc(fn, v4)) > 0
		// isInNetEx parses literals itself and may not resolve at all; it must just never use the IPv4-only lookup
		good := !uses4 && (usesEx || name == "isInNetEx")
		r.check(good, "pac."+name+"#lookup", fn.Pos(), "resolves through dnsResolveEx", name+" resolves through the IPv4-only dnsResolve: a host with only AAAA records is reported unresolvable / outside every network")
	}
}

func c14r8(r *R) {
	n := 0
	for _, fn := range r.modFuncsAll() {
		nm := fname(fn)
		if !strings.HasPrefix(nm, "(*pac.ProxyResolver).") && !strings.HasPrefix(nm, "pac.") {
			continue
		}
		ctor := strings.HasPrefix(nm, "pac.NewProxyResolver") || strings.HasPrefix(nm, "pac.With")
		var bad []string
		touched := false
		eachInstr(fn, func(ins ssa.Instruction) {
			switch x := ins.(type) {
			case *ssa.Store:
				if fa, ok := x.Addr.(*ssa.FieldAddr); ok && structName(fa.X.Type()) == "pac.ProxyResolver" {
					touched = true
					if !ctor {
						bad = append(bad, "stores into ProxyResolver."+fieldName(fa.X.Type(), fa.Field)+" at "+r.rel(x.Pos()))
					}
				}
			case *ssa.MapUpdate:
				if d := describe(x.Map); strings.HasPrefix(d, "$0.") && strings.HasPrefix(nm, "(*pac.ProxyResolver).") && !strings.Contains(d, "(") {
					touched = true
					bad = append(bad, "updates the map "+d+" at "+r.rel(x.Pos()))
				}
			}
		})
		if !touched && !strings.HasPrefix(nm, "(*pac.ProxyResolver).") {
			continue
		}
		n++
		r.check(len(bad) == 0, nm+"#stateless", fn.Pos(), "keeps no state in the resolver", strings.Join(bad, "; ")+": what one evaluation leaves behind is seen by the next, unrelated one that gets this pooled resolver")
	}
}

func init() {
	register("C15", "R7", 2, "an expired idle (or header) timeout ends the connection: in connection mode every failure to read the next request makes handle return the close verdict (errClose) - any other error value is only counted by the serve loop and the stalled connection stays open for several more timeouts", c15r7)
	register("C16", "R8", 8, "header rules act on the request that goes out: the configured request rules run before the proxy's own fix-ups that depend on their outcome (setEmptyUserAgent marks a removed User-Agent so that the transport does not re-add one) - the C01.R2 order decision, claimed here for the '-name' clause on the wire", c01r2)
	register("C16", "R9", 2, "response rules apply to every response a non-CONNECT request gets: an upstream CONNECT rejection that is relayed to the client is bound to the client's request before the response modifiers run (they skip responses whose request is a CONNECT)", c16r9)
	register("C18", "R6", 2, "the Via element carries the protocol version the client used: in connection mode nothing overwrites the request's Proto/ProtoMajor/ProtoMinor before the request modifiers run", c18r6)
	register("C18", "R7", 1, "a detected loop is answered 400: the error value the Via modifier returns has exactly the dynamic type that forwarder's status classifier extracts with errors.As (a pointer where a value is expected, or the reverse, falls through to 500)", c18r7)
}

func c15r7(r *R) {
	h := r.method("internal/martian", "proxyConn", "handle")
	ps, _ := enumPathsOpts(h, 60000, 1, InlineOpts{})
	n := 0
	var bad []string
	for _, p := range ps {
		failed := p.hasCond(func(c string) bool {
			return strings.HasPrefix(c, "((*martian.proxyConn).readRequest($0)#1 != nil)")
		})
		if !failed || len(p.Ret) != 1 {
			continue
		}
		n++
		if p.Ret[0] != "martian.errClose" {
			bad = append(bad, "returns "+shorten(p.Ret[0], 70)+" on ["+shorten(strings.Join(p.Conds, " ∧ "), 140)+"]")
		}
	}
	r.check(n >= 2 && len(bad) == 0, "proxyConn.handle#read-failure-closes", h.Pos(), fmt.Sprintf("all %d read-failure paths return errClose", n), "a failed read of the next request does not end the connection: "+strings.Join(dedupStrings(bad), "; "))
	// and the serve loop ends the connection on errClose
	hl := r.method("internal/martian", "Proxy", "handleLoop")
	found := false
	eachInstr(hl, func(ins ssa.Instruction) {
		if c, ok := ins.(*ssa.Call); ok && calleeName(c.Common()) == "errors.Is" && strings.HasSuffix(describe(refArgs(c.Common())[1]), "martian.errClose") {
			found = true
		}
		if b, ok := ins.(*ssa.BinOp); ok && (strings.HasSuffix(describe(b.Y), "martian.errClose") || strings.HasSuffix(describe(b.X), "martian.errClose")) {
			found = true
		}
	})
	r.check(found, "handleLoop#errClose-ends", hl.Pos(), "the serve loop tests for errClose", "the serve loop no longer recognises the close verdict")
}

func c16r9(r *R) {
	for _, spec := range []struct{ typ string }{{"proxyConn"}, {"proxyHandler"}} {
		fn := r.method("internal/martian", spec.typ, "writeErrorResponse")
		var bind, mod, rawBind, rawMod ssa.Instruction
		eachInstr(fn, func(ins ssa.Instruction) {
			switch x := ins.(type) {
			case *ssa.Store:
				if fa, ok := x.Addr.(*ssa.FieldAddr); ok && typeStr(fa.X.Type()) == "*net/http.Response" && fieldName(fa.X.Type(), fa.Field) == "Request" {
					bind, rawBind = siteOf(ins), ins
				}
			case *ssa.Call:
				if strings.HasSuffix(calleeName(x.Common()), ").modifyResponse") && mod == nil {
					mod, rawMod = siteOf(ins), ins
				}
			}
		})
		// both inside one helper that was split out (or shared by the two front ends): order them there
		if bind != nil && bind == mod && rawBind.Parent() == rawMod.Parent() {
			bind, mod = rawBind, rawMod
		}
		if bind == nil || mod == nil {
			r.bad(spec.typ+".writeErrorResponse#bind-before-rules", fn.Pos(), "the relayed response is not bound to the client's request, or the response modifiers are not run")
			continue
		}
		r.check(reaches(bind, mod) && !reaches(mod, bind), spec.typ+".writeErrorResponse#bind-before-rules", bind.Pos(), "res.Request = req before modifyResponse", "the relayed CONNECT rejection is bound to the client's request only after the response modifiers ran: they see the transport's CONNECT and skip the response rules")
	}
}

func c18r6(r *R) {
	h := r.method("internal/martian", "proxyConn", "handle")
	var mod ssa.Instruction
	eachInstr(h, func(ins ssa.Instruction) {
		if c, ok := ins.(*ssa.Call); ok && strings.HasSuffix(calleeName(c.Common()), ").modifyRequest") && mod == nil {
			mod = ins
		}
	})
	if mod == nil {
		r.missing("call of modifyRequest in proxyConn.handle")
	}
	var bad []string
	for _, w := range messageWrites(h) {
		if w.owner == "request" && strings.HasPrefix(w.what, "field:Proto") && !reaches(mod, w.site) {
			bad = append(bad, w.what+" := "+w.val+" at "+r.rel(w.at.Pos()))
		}
	}
	r.check(len(bad) == 0, "proxyConn.handle#client-version-kept", h.Pos(), "the request's protocol version is untouched before the modifiers", "the client's protocol version is overwritten before the Via modifier reads it ("+strings.Join(bad, "; ")+"): every hop is recorded as 1.1")
	vm := r.method("internal/martian/header", "ViaModifier", "ModifyRequest")
	uses := false
	eachInstr(vm, func(ins ssa.Instruction) {
		if fa, ok := ins.(*ssa.FieldAddr); ok && typeStr(fa.X.Type()) == "*net/http.Request" && strings.HasPrefix(fieldName(fa.X.Type(), fa.Field), "ProtoM") {
			uses = true
		}
	})
	r.check(uses, "ViaModifier.ModifyRequest#reads-version", vm.Pos(), "version taken from the request", "the Via element is not built from the request's ProtoMajor/ProtoMinor")
}

func c18r7(r *R) {
	vm := r.method("internal/martian/header", "ViaModifier", "ModifyRequest")
	cls := r.fn(".", "handleMartianErrorStatus")
	want := errorsAsTarget(cls)
	var got []string
	var dyn func(v ssa.Value, depth int)
	dyn = func(v ssa.Value, depth int) {
		if depth > 3 {
			return
		}
		switch x := v.(type) {
		case *ssa.MakeInterface:
			got = append(got, typeStr(x.X.Type()))
		case *ssa.Phi:
			for _, e := range x.Edges {
				dyn(e, depth+1)
			}
		case *ssa.Call:
			if g := staticCallee(x.Common()); g != nil && inModule(g) && len(g.Blocks) > 0 {
				for _, rv := range returnValues(g, 0) {
					dyn(rv, depth+1)
				}
			} else {
				got = append(got, "result of "+calleeName(x.Common()))
			}
		case *ssa.Const:
		default:
			got = append(got, typeStr(v.Type()))
		}
	}
	for _, rv := range returnValues(vm, 0) {
		dyn(rv, 0)
	}
	got = dedupStrings(got)
	good := len(got) == 1 && got[0] == want && want != ""
	r.check(good, "ViaModifier#loop-error-type", vm.Pos(), "returns "+want+", which the classifier extracts", "the Via modifier returns an error of dynamic type "+strings.Join(got, ", ")+" while forwarder's classifier looks for "+want+" with errors.As: the loop is answered 500 instead of 400")
}
