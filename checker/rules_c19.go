package main

import (
	"fmt"
	"go/types"
	"strings"

	"golang.org/x/tools/go/ssa"
)

func init() {
	register("C19", "R1", 8, "every secret-bearing flag is bound through a redactor: Userinfo, upstream proxy URL, credentials and every certificate/key file flag are registered with NewValueWithRedact/NewSliceValueWithRedact and the redactor that matches their type", c19r1)
	register("C19", "R2", 5, "redactors do not leak: their results do not depend on the password; the data: prefix that the inline redactors hide is the same prefix the loader accepts as inline material", c19r2)
	register("C19", "R3", 3, "the configuration dump is redacted: the unredacted value is used only under the Unredacted option, which no production describer sets", c19r3)
	register("C19", "R5", 2, "a module's own log-http mode is never replaced by the default: in httplogUpdate a value taken from an unnamed entry is stored only into modules no named entry matched (or strictly before the named entries are applied) - otherwise `proxy:url,headers` logs the proxy's requests with headers, Authorization included", c19r5)
	register("C19", "R4", 8, "no secret reaches a diagnostic sink by type or by source: URL, Userinfo and HostPortUser values are never boxed into an interface (formatted or logged) in production code; Password(), Userinfo.String and the unredacted HostPortUser printer are called only where a credential is built or compared; key-file strings are logged only through the data: redactor", c19r4)
}

func skipNonProd(nm string) bool {
	return strings.HasPrefix(nm, "e2e/") || strings.HasPrefix(nm, "(*e2e/") || strings.Contains(nm, "utils/httpbin") || strings.Contains(nm, "utils/compose") || strings.Contains(nm, "utils/httpexpect") || strings.HasPrefix(nm, "bench/") || strings.HasPrefix(nm, "loadgen/") || strings.Contains(nm, "/testing.") || strings.Contains(nm, "martiantest")
}

func c19r1(r *R) {
	n := 0
	for _, fn := range r.modFuncs() {
		if !strings.HasPrefix(fname(fn), "bind.") {
			continue
		}
		eachInstr(fn, func(ins ssa.Instruction) {
			c, ok := ins.(*ssa.Call)
			if !ok {
				return
			}
			sc := staticCallee(c.Common())
			if sc == nil || sc.Origin() == nil || !strings.HasPrefix(sc.Origin().String(), "github.com/mmatczuk/anyflag.New") {
				return
			}
			kind := sc.Origin().Name() // NewValue, NewValueWithRedact, NewSliceValue, NewSliceValueWithRedact
			ta := sc.TypeArgs()
			if len(ta) != 1 {
				return
			}
			T := typeStr(ta[0])
			args := c.Common().Args
			dst := describe(args[1])
			parser := describe(args[2])
			redactor := ""
			if len(args) > 3 {
				redactor = describe(args[3])
			}
			want := ""
			switch {
			case T == "*net/url.Userinfo":
				want = "func:bind.RedactUserinfo"
			case T == "*net/url.URL" && parser == "func:forwarder.ParseProxyURL":
				want = "func:bind.RedactURL"
			case T == "*forwarder.HostPortUser":
				want = "func:forwarder.RedactHostPortUser"
			case T == "string" && (strings.HasSuffix(dst, "CertFile") || strings.HasSuffix(dst, "KeyFile") || strings.HasSuffix(dst, "CertFiles") || strings.HasSuffix(dst, "KeyFiles")):
				want = "func:bind.RedactBase64"
			default:
				return
			}
			n++
			key := fname(fn) + "#bind(" + dst[strings.LastIndex(dst, ".")+1:] + ")"
			r.check(strings.HasSuffix(kind, "WithRedact") && redactor == want, key, c.Pos(), T+" bound with "+strings.TrimPrefix(want, "func:"), "secret-bearing flag value of type "+T+" ("+dst+") is bound with "+kind+" / redactor "+redactor+"; it must use "+want+" or the value is printed verbatim in the start-up log and /configz")
		})
	}
}

func c19r2(r *R) {
	// password independence
	for _, s := range []struct{ pkg, fn string }{{"bind", "RedactUserinfo"}, {".", "RedactHostPortUser"}} {
		fn := r.fn(s.pkg, s.fn)
		leak := false
		for _, v := range returnValues(fn, 0) {
			if dependsOn(v, func(x ssa.Value) bool {
				ex, ok := x.(*ssa.Extract)
				if !ok || ex.Index != 0 {
					return false
				}
				c, ok := ex.Tuple.(*ssa.Call)
				return ok && calleeName(c.Common()) == "(*net/url.Userinfo).Password"
			}) {
				leak = true
			}
			if dependsOn(v, func(x ssa.Value) bool {
				c, ok := x.(*ssa.Call)
				return ok && (calleeName(c.Common()) == "(*net/url.Userinfo).String" || calleeName(c.Common()) == "(*forwarder.HostPortUser).String")
			}) {
				leak = true
			}
		}
		name := s.fn
		r.check(!leak, name+"#password-free", fn.Pos(), "result does not depend on the password", name+" builds its result from the password")
	}
	ru := r.fn("bind", "RedactURL")
	ps, _ := enumPaths(ru, 8, 1)
	r.check(len(ps) == 1 && ps[0].Ret[0] == "(*net/url.URL).Redacted($0)", "RedactURL", ru.Pos(), "URL.Redacted()", "RedactURL returns "+strings.Join(ps[0].Ret, ","))
	// prefix agreement
	prefixOf := func(fn *ssa.Function) (string, bool) {
		p := ""
		ok := false
		for _, c := range calls(fn, nameIs("strings.HasPrefix")) {
			if describe(refArgs(c.Common())[0]) == "$0" {
				p, ok = constString(refArgs(c.Common())[1])
			}
		}
		return p, ok
	}
	loader := r.fn(".", "ReadFileOrBase64")
	lp, lok := prefixOf(loader)
	if !lok {
		r.undecided("ReadFileOrBase64#prefix", loader.Pos(), "cannot find the prefix that marks inline material")
		return
	}
	for _, s := range []struct{ pkg, fn string }{{"bind", "RedactBase64"}, {".", "redactFileOrBase64"}} {
		fn := r.fn(s.pkg, s.fn)
		rp, rok := prefixOf(fn)
		ps, _ := enumPaths(fn, 8, 1)
		shape := len(ps) == 2
		for _, p := range ps {
			if p.holds("strings.HasPrefix($0, \"" + rp + "\")") {
				_, isConst := constStringTerm(p.Ret[0])
				shape = shape && isConst
			} else {
				shape = shape && p.Ret[0] == "$0"
			}
		}
		r.check(rok && rp == lp && shape, s.fn+"#prefix="+lp, fn.Pos(), "hides everything the loader treats as inline data ("+lp+"…), constant placeholder", fmt.Sprintf("redactor hides values starting with %q but the loader reads inline material from values starting with %q: the other spellings are printed in full", rp, lp))
	}
}

func constStringTerm(t string) (string, bool) {
	if strings.HasPrefix(t, `"`) && strings.HasSuffix(t, `"`) && len(t) >= 2 {
		return t[1 : len(t)-1], true
	}
	return "", false
}

func c19r3(r *R) {
	dm := r.method("utils/cobrautil", "FlagsDescriber", "DescribeFlagsToMap")
	n := 0
	for _, fn := range withClosures(dm) {
		for _, c := range calls(fn, func(s string) bool { return strings.HasSuffix(s, ".Unredacted") && strings.HasPrefix(s, "invoke ") }) {
			n++
			g := guardedBy(c.(ssa.Instruction).Block(), func(s string) bool {
				return strings.HasSuffix(s, ".Unredacted") && !strings.HasPrefix(s, "!") && !strings.HasPrefix(s, "invoke")
			})
			r.check(g, "DescribeFlagsToMap#Unredacted()", c.Pos(), "unredacted value only under the Unredacted option", "the unredacted flag value is used without the Unredacted option being set")
		}
	}
	if n == 0 {
		r.bad("DescribeFlagsToMap#Unredacted()", dm.Pos(), "redaction switch not found (rule must follow the code)")
	}
	// census: no production store of true into FlagsDescriber.Unredacted
	cnt := 0
	for _, fn := range r.modFuncs() {
		if skipNonProd(fname(fn)) {
			continue
		}
		eachInstr(fn, func(ins ssa.Instruction) {
			st, ok := ins.(*ssa.Store)
			if !ok {
				return
			}
			if fa, ok := st.Addr.(*ssa.FieldAddr); ok && structName(fa.X.Type()) == "utils/cobrautil.FlagsDescriber" && fieldName(fa.X.Type(), fa.Field) == "Unredacted" {
				cnt++
				c, isC := st.Val.(*ssa.Const)
				r.check(isC && c.Value != nil && c.Value.String() == "false", fname(fn)+"#FlagsDescriber.Unredacted", st.Pos(), "stays false", "a describer is built with Unredacted switched on: the configuration dump prints secrets")
			}
		})
	}
	if cnt == 0 {
		r.ok("FlagsDescriber.Unredacted#never-set", dm.Pos(), "no production code sets Unredacted")
	}
	// the run command's dumps go through the describer
	re := r.method("command/run", "command", "runE")
	nd := 0
	for _, fn := range withClosures(re) {
		nd += len(calls(fn, func(s string) bool { return strings.Contains(s, "cobrautil.FlagsDescriber).DescribeFlags") }))
	}
	r.check(nd >= 2, "runE#config-dump", re.Pos(), "start-up log lines and /configz are produced by the redacting describer", "configuration dump no longer goes through FlagsDescriber")
}

func c19r4(r *R) {
	// (a) by type
	allowedBox := map[string]string{
		"(*martian/h2.Config).Proxy": "origin URL of an intercepted h2 session (no credentials; relay is unreachable in the forwarder binary)",
	}
	n := 0
	for _, fn := range r.modFuncs() {
		nm := fname(fn)
		if skipNonProd(nm) {
			continue
		}
		eachInstr(fn, func(ins ssa.Instruction) {
			mi, ok := ins.(*ssa.MakeInterface)
			if !ok {
				return
			}
			t := typeStr(mi.X.Type())
			if !(t == "*net/url.URL" || t == "net/url.URL" || t == "*net/url.Userinfo" || t == "net/url.Userinfo" || strings.HasSuffix(t, "forwarder.HostPortUser")) {
				return
			}
			// boxing into fmt.Stringer-like interfaces for flag values is the redacting path itself
			if it, ok := mi.Type().Underlying().(*types.Interface); ok && it.NumMethods() > 0 && !strings.Contains(typeStr(mi.Type()), "any") {
				if typeStr(mi.Type()) != "fmt.Stringer" && typeStr(mi.Type()) != "error" {
					return
				}
			}
			n++
			top := nm
			for k := range allowedBox {
				if strings.HasPrefix(nm, k) {
					top = k
				}
			}
			why, ok := allowedBox[top]
			r.check(ok, nm+"#boxes("+t+")", mi.Pos(), why, "a "+t+" value ("+describe(mi.X)+") is handed to a formatting/logging call as is: its String form includes the password - use Redacted()/the redactors")
		})
	}
	// (b) by source
	type src struct {
		callee  string
		allowed map[string]string
	}
	srcs := []src{
		{"(*net/url.Userinfo).Password", map[string]string{
			"(*dialvia.HTTPProxyDialer).DialContextR":  "builds Proxy-Authorization for the upstream hop",
			"(*dialvia.SOCKS5ProxyDialer).DialContext": "SOCKS5 authentication",
			"(*forwarder.HTTPProxy).basicAuth":         "expected password for the constant-time comparison",
			"(*forwarder.HTTPProxy).setBasicAuth":      "builds the site Authorization header",
			"bind.RedactUserinfo":                      "presence test only (R2 checks the value is unused)",
			"forwarder.RedactHostPortUser":             "presence test only",
			"(*forwarder.HostPortUser).String":         "the unredacted printer (its callers are checked below)",
			"(*forwarder.HTTPServer).configureHandler": "API server basic auth: expected password for comparison",
			"(*forwarder.HTTPServer).handler":          "API server basic auth: expected password for comparison",
			"forwarder.withMiddleware":                 "API server basic auth: expected password for comparison",
		}},
		{"(*net/url.Userinfo).String", map[string]string{}},
		{"(*forwarder.HostPortUser).String", map[string]string{}},
	}
	for _, s := range srcs {
		for _, fn := range r.modFuncs() {
			nm := fname(fn)
			if skipNonProd(nm) {
				continue
			}
			for _, c := range calls(fn, nameIs(s.callee)) {
				top := nm
				if fn.Parent() != nil {
					top = fname(fn.Parent())
				}
				why, ok := s.allowed[nm]
				if !ok {
					why, ok = s.allowed[top]
				}
				r.check(ok, nm+"#calls("+strings.TrimPrefix(s.callee, "(*net/url.")+")", c.Pos(), why, "the clear-text secret is obtained here ("+s.callee+"), outside the places that build or compare a credential")
			}
		}
	}
	// (c) key-file strings into log calls
	for _, fn := range r.modFuncs() {
		nm := fname(fn)
		if !strings.HasPrefix(nm, "(*forwarder.") && !strings.HasPrefix(nm, "forwarder.") {
			continue
		}
		eachInstr(fn, func(ins ssa.Instruction) {
			c, ok := ins.(ssa.CallInstruction)
			if !ok || !c.Common().IsInvoke() || !strings.HasSuffix(typeStr(c.Common().Value.Type()), "log.StructuredLogger") {
				return
			}
			for _, a := range c.Common().Args {
				for _, v := range append(variadicArgs(a), a) {
					d := describe(unbox(v))
					if strings.HasSuffix(d, "KeyFile") || strings.HasSuffix(d, "CertFile") {
						r.bad(nm+"#logs("+d[strings.LastIndex(d, ".")+1:]+")", c.Pos(), "a certificate/key file setting is logged verbatim: given as a data: URI it is the key material itself")
					} else if strings.HasSuffix(d, "KeyFile)") || strings.HasSuffix(d, "CertFile)") {
						r.check(strings.HasPrefix(d, "forwarder.redactFileOrBase64("), nm+"#logs-redacted("+d[strings.LastIndex(d, ".")+1:len(d)-1]+")", c.Pos(), "logged through the data: redactor", "key/cert setting logged through "+d)
					}
				}
			}
		})
	}
}

func c19r5(r *R) {
	fn := r.fn("bind", "httplogUpdate")
	type st struct {
		ins   *ssa.Store
		named bool
	}
	var stores []st
	markers := map[string]bool{}
	eachInstr(fn, func(ins ssa.Instruction) {
		s, ok := ins.(*ssa.Store)
		if !ok {
			return
		}
		a := describe(s.Addr)
		if !(strings.HasPrefix(a, "$0[") && strings.HasSuffix(a, "].Param")) {
			return
		}
		named := guardedBy(s.Block(), func(g string) bool {
			return !strings.HasPrefix(g, "!") && strings.Contains(g, " == ") && strings.Contains(g, "$0[") && strings.Contains(g, "$1[") && strings.Count(g, "].Name") == 2
		})
		stores = append(stores, st{s, named})
		if named {
			for _, o := range s.Block().Instrs {
				if m, ok := o.(*ssa.Store); ok {
					if ia, ok := m.Addr.(*ssa.IndexAddr); ok {
						if b, isC := m.Val.(*ssa.Const); isC && b.Value != nil && b.Value.String() == "true" {
							markers[describe(ia.X)] = true
						}
					}
				}
			}
		}
	})
	nNamed := 0
	for _, s := range stores {
		if s.named {
			nNamed++
			r.ok("httplogUpdate#named-store", s.ins.Pos(), "a module takes the mode of the entry that names it")
		}
	}
	if nNamed == 0 {
		r.bad("httplogUpdate#named-store", fn.Pos(), "no store applies an entry to the module it names")
	}
	for _, s := range stores {
		if s.named {
			continue
		}
		unmatched := guardedBy(s.ins.Block(), func(g string) bool {
			if !strings.HasPrefix(g, "!") {
				return false
			}
			for m := range markers {
				if strings.HasPrefix(g[1:], m+"[") {
					return true
				}
			}
			return false
		})
		before := true
		for _, o := range stores {
			if o.named && (reaches(o.ins, s.ins) || o.ins == s.ins) {
				before = false
			}
		}
		r.check(unmatched || before, "httplogUpdate#default-store", s.ins.Pos(), "the default reaches only modules no named entry matched", "a value that is not the module's own named entry is stored without checking that no named entry matched (and after named entries may have been applied): the default overrides `module:mode`")
	}
}
