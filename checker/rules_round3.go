package main

import (
	"fmt"
	"go/token"
	"regexp"
	"strings"

	"golang.org/x/tools/go/ssa"
)

// Rules written after the third seeding round.
func init() {
	register("C03", "R6", 2, "both sockets are closed when an upgrade tunnel ends: the response body closed on exit is the one the round trip returned (evaluated where the defer statement stands) - a deferred literal that reads res.Body when it runs closes the placeholder installed for the tunnel and leaves the upstream connection open", c03r6)
	register("C03", "R7", 5, "no early tunnel byte is consumed by the proxy: between reading a CONNECT request and handing its connection to the tunnel, nothing reads or closes the request body (closing a net/http request body drains it from the connection)", c03r7)
	register("C09", "R9", 1, "credit for every DATA frame: processFrame calls the peer's sendWindowUpdates for each *http2.DataFrame under no other condition (a frame dropped before that call is never credited back)", c09r9)
	register("C14", "R6", 2, "sortIpAddressList orders by the parsed addresses only: every decision of the comparator is computed from the elements' parsed net.IP (To4, byte comparison), not from their spelling or remembered flags", c14r6)
}

func c03r6(r *R) {
	for _, spec := range []struct{ typ, name string }{{"proxyConn", "handle"}, {"proxyHandler", "handleRequest"}} {
		fn := r.method("internal/martian", spec.typ, spec.name)
		key := spec.typ + "." + spec.name + "#response-body-closed"
		good, bad := 0, []string{}
		isRespBody := func(v ssa.Value) bool {
			d := describe(v)
			return strings.HasSuffix(d, ".Body") && strings.Contains(d, "roundTrip(")
		}
		eachInstr(fn, func(ins ssa.Instruction) {
			d, ok := ins.(*ssa.Defer)
			if !ok {
				return
			}
			if d.Common().IsInvoke() && d.Common().Method.Name() == "Close" && isRespBody(d.Common().Value) {
				good++
				return
			}
			mc, ok := d.Common().Value.(*ssa.MakeClosure)
			if !ok {
				return
			}
			lit := mc.Fn.(*ssa.Function)
			eachInstr(lit, func(li ssa.Instruction) {
				c, ok := li.(ssa.CallInstruction)
				if !ok || !c.Common().IsInvoke() || c.Common().Method.Name() != "Close" {
					return
				}
				// what is closed: a captured value (fixed when the literal was made) or a field read now?
				recv := c.Common().Value
				u, isLoad := recv.(*ssa.UnOp)
				if isLoad && u.Op == token.MUL {
					if fa, ok := u.X.(*ssa.FieldAddr); ok && fieldName(fa.X.Type(), fa.Field) == "Body" && typeStr(fa.X.Type()) == "*net/http.Response" {
						bad = append(bad, "a deferred literal closes res.Body as it is when the function returns ("+r.rel(c.Pos())+")")
						return
					}
					if fv, ok := u.X.(*ssa.FreeVar); ok {
						for i, f := range lit.FreeVars {
							if f == fv && i < len(mc.Bindings) {
								if a, ok := mc.Bindings[i].(*ssa.Alloc); ok {
									if sv := singleStore(a); sv != nil && isRespBody(sv) {
										good++
									}
								}
							}
						}
					}
				}
			})
		})
		if len(bad) > 0 {
			r.bad(key, fn.Pos(), strings.Join(bad, "; ")+": for an upgraded exchange that is the placeholder body, the upstream connection is never closed")
			continue
		}
		r.check(good > 0, key, fn.Pos(), "defer closes the body the round trip returned", "the round trip's response body is not closed on exit")
	}
}

func c03r7(r *R) {
	fns := []*ssa.Function{
		r.fn("internal/martian", "fixConnectReqContentLength"),
		r.method("internal/martian", "proxyConn", "handleConnectRequest"),
		r.method("internal/martian", "proxyHandler", "handleConnectRequest"),
		r.method("internal/martian", "Proxy", "Connect"),
		r.method("internal/martian", "Proxy", "connect"),
		r.method("internal/martian", "Proxy", "connectHTTP"),
		r.method("internal/martian", "Proxy", "connectSOCKS5"),
	}
	for _, fn := range fns {
		var bad []string
		for _, f := range withClosures(fn) {
			eachInstr(f, func(ins ssa.Instruction) {
				switch x := ins.(type) {
				case ssa.CallInstruction:
					cc := x.Common()
					vals := append([]ssa.Value{}, cc.Args...)
					if cc.IsInvoke() {
						vals = append(vals, cc.Value)
					}
					for _, v := range vals {
						d := describe(v)
						if strings.HasSuffix(d, ".Body") && isRequestTerm(f, d) {
							bad = append(bad, fmt.Sprintf("%s(%s) at %s", calleeName(cc), d, r.rel(x.Pos())))
						}
					}
				case *ssa.Store:
					if fa, ok := x.Addr.(*ssa.FieldAddr); ok && typeStr(fa.X.Type()) == "*net/http.Request" && fieldName(fa.X.Type(), fa.Field) == "Body" {
						bad = append(bad, "the request body is replaced at "+r.rel(x.Pos()))
					}
				}
			})
		}
		r.check(len(bad) == 0, fname(fn)+"#connect-body-untouched", fn.Pos(), "the CONNECT request's body is neither read, closed nor replaced here", "the CONNECT request body is touched ("+strings.Join(bad, "; ")+"): net/http drains a request body when it is closed, so bytes the client sent right after the CONNECT head (with a Content-Length) are discarded instead of tunnelled")
	}
}

// isRequestTerm: the term d ("$1.Body", "^0.Body") is a field of a *http.Request parameter or capture of f.
func isRequestTerm(f *ssa.Function, d string) bool {
	base := strings.TrimSuffix(d, ".Body")
	for i, p := range refParams(f) {
		if base == fmt.Sprintf("$%d", i) && typeStr(p.Type()) == "*net/http.Request" {
			return true
		}
	}
	for i, fv := range f.FreeVars {
		if base == fmt.Sprintf("^%d", i) && strings.Contains(typeStr(fv.Type()), "net/http.Request") {
			return true
		}
	}
	return false
}

func c09r9(r *R) {
	pf := r.method(h2pkg, "relay", "processFrame")
	n := 0
	eachInstr(pf, func(ins ssa.Instruction) {
		c, ok := ins.(*ssa.Call)
		if !ok || calleeName(c.Common()) != "(*martian/h2.relay).sendWindowUpdates" {
			return
		}
		n++
		var extra []string
		isData := false
		for _, g := range guardStrings(c.Block()) {
			gg := strings.TrimLeft(g, "!")
			if isFrameTypeCase(gg) {
				isData = isData || g == "$1.(*golang.org/x/net/http2.DataFrame)#1"
				continue
			}
			extra = append(extra, g)
		}
		arg := describe(refArgs(c.Common())[len(c.Common().Args)-1])
		const F = "$1.(*golang.org/x/net/http2.DataFrame)"
		argsOK := true // the frame itself, or (C09.R5 says which is which) values read from its header
		for _, a := range c.Common().Args[1:] {
			if d := describe(a); d != F && !strings.Contains(d, F+".FrameHeader") {
				argsOK = false
			}
		}
		good := isData && len(extra) == 0 && argsOK && describe(refArgs(c.Common())[0]) == "$0.peer"
		r.check(good, "processFrame#credit(DATA)", c.Pos(), "every DATA frame is credited back through the peer relay", "the credit for a DATA frame is sent only when "+strings.Join(extra, " ∧ ")+" (frame "+arg+"): octets of frames that fail the test are never credited back, the sender's connection window shrinks for good")
	})
	if n == 0 {
		r.bad("processFrame#credit(DATA)", pf.Pos(), "processFrame never credits received DATA back")
	}
}

func c14r6(r *R) {
	fn := r.method("pac", "ProxyResolver", "sortIPAddressList")
	var cmp *ssa.Function
	for _, lit := range anonFuncs(fn) {
		if len(litParams(lit)) == 2 && lit.Signature.Results().Len() == 1 && typeStr(lit.Signature.Results().At(0).Type()) == "bool" {
			cmp = lit
		}
	}
	if cmp == nil {
		r.missing("comparator literal of sortIPAddressList")
	}
	// every branch condition and every returned value depends on the elements only through their .IP
	var bad []string
	fromIP := func(v ssa.Value) bool {
		okAll := true
		backward(v, func(x ssa.Value) bool {
			switch y := x.(type) {
			case *ssa.Field:
				if fieldName(y.X.Type(), y.Field) != "IP" && strings.Contains(typeStr(y.X.Type()), "parsedIP") {
					okAll = false
				}
			case *ssa.FieldAddr:
				if fieldName(y.X.Type(), y.Field) != "IP" && strings.Contains(typeStr(y.X.Type()), "parsedIP") {
					okAll = false
				}
			case *ssa.Call:
				for _, a := range y.Common().Args {
					if !fromIPArg(a) {
						okAll = false
					}
				}
			}
			return false
		})
		return okAll
	}
	nTo4 := len(calls(cmp, nameIs("(net.IP).To4")))
	eachInstr(cmp, func(ins ssa.Instruction) {
		switch x := ins.(type) {
		case *ssa.If:
			if !fromIP(x.Cond) {
				bad = append(bad, "a branch of the comparator depends on something other than the parsed address: "+shorten(describe(x.Cond), 90))
			}
		case *ssa.Return:
			for _, v := range x.Results {
				if !fromIP(v) {
					bad = append(bad, "the comparator's result depends on something other than the parsed address: "+shorten(describe(v), 90))
				}
			}
		}
	})
	r.check(len(bad) == 0, "sortIPAddressList#comparator-inputs", cmp.Pos(), "the order is a function of the parsed addresses", strings.Join(dedupStrings(bad), "; "))
	r.check(nTo4 >= 2, "sortIPAddressList#family", cmp.Pos(), "address family decided by To4 on both elements", "the comparator does not classify both elements by To4(): an IPv6 address written with a dotted tail, or an IPv4-mapped one, is put in the wrong family")
}

func fromIPArg(a ssa.Value) bool {
	ok := true
	backward(a, func(x ssa.Value) bool {
		switch y := x.(type) {
		case *ssa.Field:
			if fieldName(y.X.Type(), y.Field) != "IP" && strings.Contains(typeStr(y.X.Type()), "parsedIP") {
				ok = false
			}
		case *ssa.FieldAddr:
			if fieldName(y.X.Type(), y.Field) != "IP" && strings.Contains(typeStr(y.X.Type()), "parsedIP") {
				ok = false
			}
		}
		return false
	})
	return ok
}

var frameTypeCaseRE = regexp.MustCompile(`^\$1\.\(\*golang\.org/x/net/http2\.\w+\)#1$`)

// isFrameTypeCase: the guard is the comma-ok of one case of processFrame's type switch.
func isFrameTypeCase(g string) bool { return frameTypeCaseRE.MatchString(g) }

func init() {
	register("C10", "R11", 3, "SETTINGS take effect on the right direction: header-table size, initial window and max frame size announced by an endpoint are applied to the peer relay (the one that sends towards that endpoint), each under its own setting identifier", c10r11)
	register("C10", "R12", 2, "the relay's own HPACK coders accept whatever table size the endpoints negotiate: since SETTINGS_HEADER_TABLE_SIZE is forwarded unchanged, decoder and encoder limits are the maximum (a smaller private cap makes the relay reject a size update the endpoints agreed on, and that direction stops)", c10r12)
	register("C13", "R7", 1, "dialled-connection gauge is conserved per label: the address whose label is incremented when a connection is dialled is the very variable whose label is decremented when it closes", c13r7)
}

func c10r11(r *R) {
	want := map[string]string{ // updater -> setting id (golang.org/x/net/http2)
		"(*martian/h2.relay).updateTableSize":         "1",
		"(*martian/h2.relay).updateInitialWindowSize": "4",
		"(*martian/h2.relay).updateMaxFrameSize":      "5",
	}
	seen := map[string]int{}
	for _, fn := range r.modFuncs() {
		if !strings.Contains(fname(fn), "martian/h2.") {
			continue
		}
		eachInstr(fn, func(ins ssa.Instruction) {
			c, ok := ins.(*ssa.Call)
			if !ok {
				return
			}
			cn := calleeName(c.Common())
			id, ok := want[cn]
			if !ok {
				return
			}
			seen[cn]++
			recv := resolveCaptured(describe(refArgs(c.Common())[0]), c.Parent())
			onPeer := strings.HasSuffix(recv, ".peer")
			underID := guardedBy(c.Block(), func(g string) bool {
				return !strings.HasPrefix(g, "!") && strings.Contains(g, ".ID == "+id+")")
			})
			short := cn[strings.LastIndex(cn, ".")+1:]
			var why []string
			if !onPeer {
				why = append(why, "applied to "+recv+" instead of the peer relay: the limit an endpoint announces would govern what is sent to the other endpoint")
			}
			if !underID {
				why = append(why, "not under setting identifier "+id)
			}
			r.check(len(why) == 0, fname(fn)+"#"+short, c.Pos(), "applied to the peer relay under setting "+id, strings.Join(why, "; "))
		})
	}
	for cn := range want {
		if seen[cn] == 0 {
			r.bad("settings#"+cn[strings.LastIndex(cn, ".")+1:], r.method(h2pkg, "relay", "processFrame").Pos(), "the setting is relayed but never applied to the relay's own state")
		}
	}
}

func c10r12(r *R) {
	nr := r.fn(h2pkg, "newRelay")
	n := 0
	eachInstr(nr, func(ins ssa.Instruction) {
		c, ok := ins.(*ssa.Call)
		if !ok {
			return
		}
		cn := calleeName(c.Common())
		if !strings.HasSuffix(cn, "hpack.Decoder).SetAllowedMaxDynamicTableSize") && !strings.HasSuffix(cn, "hpack.Encoder).SetMaxDynamicTableSizeLimit") {
			return
		}
		n++
		v, isC := constInt(refArgs(c.Common())[1])
		r.check(isC && v == 4294967295, "newRelay#"+cn[strings.LastIndex(cn, ".")+1:], c.Pos(), "no private cap on the HPACK dynamic table", fmt.Sprintf("HPACK table limit is %s while the endpoints' SETTINGS_HEADER_TABLE_SIZE is forwarded unchanged: a size update above it is a decoding error that stops this direction", describe(refArgs(c.Common())[1])))
	})
	if n < 2 {
		r.bad("newRelay#hpack-limits", nr.Pos(), "decoder/encoder table limits are not raised: the library default (4096) rejects the table sizes browsers announce")
	}
}

func c13r7(r *R) {
	dc := r.method(".", "Dialer", "DialContext")
	var dialAlloc, closeAlloc ssa.Value
	var dialTerm, closeTerm string
	byTerm := false
	eachInstr(dc, func(ins ssa.Instruction) {
		if c, ok := ins.(*ssa.Call); ok && calleeName(c.Common()) == "(*forwarder.dialerMetrics).dial" {
			a := refArgs(c.Common())[1]
			dialTerm = describe(a)
			if u, ok := a.(*ssa.UnOp); ok && u.Op == token.MUL {
				dialAlloc = u.X
			} else {
				dialAlloc = a
			}
		}
		if mc, ok := ins.(*ssa.MakeClosure); ok {
			lit := mc.Fn.(*ssa.Function)
			if lit.Synthetic != "" {
				// a method value of a small struct built here (the literal became a method): compare the values
				if m := boundTarget(lit); m != nil && isNewHelper(m) {
					for _, c := range calls(m, nameIs("(*forwarder.dialerMetrics).close")) {
						closeTerm = describe(refArgs(c.Common())[1])
						if b := closureBindings(m); len(b) > 0 {
							for k := len(b) - 1; k >= 0; k-- {
								closeTerm = strings.ReplaceAll(closeTerm, fmt.Sprintf("^%d", k), b[k])
							}
						}
						byTerm = true
					}
				}
				return
			}
			for _, c := range calls(lit, nameIs("(*forwarder.dialerMetrics).close")) {
				a := refArgs(c.Common())[1]
				closeTerm = describe(a)
				if u, ok := a.(*ssa.UnOp); ok && u.Op == token.MUL {
					if fv, ok := u.X.(*ssa.FreeVar); ok {
						for i, f := range lit.FreeVars {
							if f == fv && i < len(mc.Bindings) {
								closeAlloc = mc.Bindings[i]
							}
						}
					}
				}
			}
		}
	})
	if byTerm {
		r.check(dialTerm != "" && dialTerm == closeTerm, "Dialer.DialContext#gauge-label", dc.Pos(), "dial() and close() are given the same value ("+dialTerm+")", "dial() counts "+dialTerm+" but close() un-counts "+closeTerm+": the gauge of one address never returns to zero")
		return
	}
	if dialAlloc == nil || closeAlloc == nil {
		r.bad("Dialer.DialContext#gauge-label", dc.Pos(), "could not find the dial/close accounting pair (dial="+dialTerm+", close="+closeTerm+")")
		return
	}
	r.check(dialAlloc == closeAlloc, "Dialer.DialContext#gauge-label", dc.Pos(), "opened and closed under the same address variable", "a connection is counted as opened under "+dialTerm+" but as closed under a different variable ("+closeTerm+"): with a connect-to redirect the two labels differ and the active gauge drifts")
}

func init() {
	register("C16", "R7", 2, "every rule is applied to every message: Headers.ModifyRequest / ModifyResponse reach Header.Apply for each element under no condition but the loop over the rules (an empty or nil header map is a message like any other: name:value and name; must still add their field)", c16r7)
}

func c16r7(r *R) {
	for _, m := range []string{"ModifyRequest", "ModifyResponse"} {
		fn := r.method("header", "Headers", m)
		found := 0
		var bad []string
		var walk func(f *ssa.Function, depth int)
		walk = func(f *ssa.Function, depth int) {
			eachInstr(f, func(ins ssa.Instruction) {
				c, ok := ins.(*ssa.Call)
				if !ok {
					return
				}
				g := staticCallee(c.Common())
				if g == nil {
					return
				}
				isApply := calleeName(c.Common()) == "(*header.Header).Apply"
				inPkg := strings.Contains(fname(g), "header.") && !strings.Contains(fname(g), "martian/header") && inModule(g) && len(g.Blocks) > 0
				if !isApply && !(inPkg && depth < 2) {
					return
				}
				var extra []string
				for _, gs := range guardStrings(c.Block()) {
					gg := strings.TrimLeft(gs, "!")
					if strings.Contains(gg, "< builtin len($0))") || strings.HasPrefix(gg, "next(range($0))") {
						continue // the loop over the rules
					}
					extra = append(extra, gs)
				}
				if isApply {
					found++
					if len(extra) > 0 {
						bad = append(bad, "a rule is applied only when "+strings.Join(extra, " ∧ ")+" ("+r.rel(c.Pos())+")")
					}
					return
				}
				if len(extra) > 0 {
					// only matters if the callee leads to Apply
					if len(calls(g, nameIs("(*header.Header).Apply"))) > 0 {
						bad = append(bad, fname(g)+" is called only when "+strings.Join(extra, " ∧ "))
					}
				}
				walk(g, depth+1)
			})
		}
		walk(fn, 0)
		r.check(found > 0 && len(bad) == 0, "Headers."+m+"#all-rules-always", fn.Pos(), "each rule's Apply is reached for every message", strings.Join(bad, "; ")+func() string {
			if found == 0 {
				return "no rule is applied"
			}
			return ": messages that fail the test keep their header untouched although add/empty rules must still act"
		}())
	}
}

func init() {
	register("C15", "R6", 1, "the PROXY header is awaited under its own timeout: in the connection goroutine the address of the accepted connection (which on a PROXY-protocol listener reads the header under the header timeout) is asked for before the TLS handshake starts - otherwise the handshake's first read waits for the header and the handshake timeout cuts the peer off early", c15r6)
	register("C19", "R6", 8, "inline private keys never reach a message: the value of a key-file option (KeyFile, CAKeyFile - a path or a data: URI carrying the key itself) is only compared, loaded or passed through the redactor; it is never formatted, concatenated or boxed for a logger, in any function it is handed to", c19r6)
}

func c15r6(r *R) {
	hl := r.method("internal/martian", "Proxy", "handleLoop")
	var hs ssa.Instruction
	var addrCalls []ssa.Instruction
	eachInstr(hl, func(ins ssa.Instruction) {
		c, ok := ins.(*ssa.Call)
		if !ok {
			return
		}
		switch calleeName(c.Common()) {
		case "(*martian.proxyConn).maybeHandshakeTLS":
			hs = ins
		case "invoke net.Conn.RemoteAddr":
			if describe(c.Common().Value) == "$1" {
				addrCalls = append(addrCalls, ins)
			}
		}
	})
	if hs == nil {
		r.missing("call of maybeHandshakeTLS in handleLoop")
	}
	good := false
	for _, a := range addrCalls {
		if instrDominates(a, hs) {
			good = true
		}
	}
	r.check(good, "handleLoop#address-before-handshake", hs.Pos(), "conn.RemoteAddr() is evaluated before the TLS handshake", "the TLS handshake starts before the connection's address was asked for: on a TLS listener stacked on a PROXY-protocol listener the PROXY header is then awaited inside the handshake, under the handshake timeout instead of its own")
}

func c19r6(r *R) {
	keyField := func(name string) bool { return name == "KeyFile" || name == "CAKeyFile" }
	cleanSink := map[string]bool{"forwarder.redactFileOrBase64": true, "bind.RedactBase64": true}
	type src struct {
		v    ssa.Value
		what string
	}
	n := 0
	for _, fn := range r.modFuncs() {
		nm := fname(fn)
		if strings.HasPrefix(nm, "e2e/") || strings.Contains(nm, "utils/") || strings.HasPrefix(nm, "cmd/") {
			continue
		}
		var sources []src
		eachInstr(fn, func(ins ssa.Instruction) {
			u, ok := ins.(*ssa.UnOp)
			if !ok || u.Op != token.MUL {
				return
			}
			fa, ok := u.X.(*ssa.FieldAddr)
			if !ok || !keyField(fieldName(fa.X.Type(), fa.Field)) {
				return
			}
			sources = append(sources, src{u, fieldName(fa.X.Type(), fa.Field)})
		})
		for _, s := range sources {
			n++
			var bad []string
			seen := map[ssa.Value]bool{}
			var walk func(v ssa.Value, depth int)
			walk = func(v ssa.Value, depth int) {
				if seen[v] || depth > 4 || v.Referrers() == nil {
					return
				}
				seen[v] = true
				for _, ref := range *v.Referrers() {
					switch x := ref.(type) {
					case *ssa.MakeInterface:
						bad = append(bad, "boxed for a formatting/logging call at "+r.rel(x.Pos()))
					case *ssa.BinOp:
						if x.Op == token.ADD {
							bad = append(bad, "concatenated into a string at "+r.rel(x.Pos()))
						}
					case *ssa.Phi:
						walk(x, depth)
					case *ssa.Convert:
						walk(x, depth)
					case *ssa.ChangeType:
						walk(x, depth)
					case ssa.CallInstruction:
						g := staticCallee(x.Common())
						if g == nil || !inModule(g) || len(g.Blocks) == 0 || cleanSink[fname(g)] {
							continue
						}
						for i, a := range x.Common().Args {
							if a == v && i < len(g.Params) {
								walk(g.Params[i], depth+1)
							}
						}
					}
				}
			}
			walk(s.v, 0)
			r.check(len(bad) == 0, nm+"#"+s.what, s.v.(ssa.Instruction).Pos(), "compared, loaded or redacted only", "the "+s.what+" option's value is "+strings.Join(dedupStrings(bad), "; ")+": given as a data: URI it is the private key itself")
		}
	}
}

func init() {
	register("C01", "R10", 1, "no content coding is solicited on the client's behalf: the transport forwarder builds has DisableCompression set - otherwise net/http adds `Accept-Encoding: gzip` to every request that carries none", c01r10)
	register("C02", "R7", 1, "responses are relayed as framed by the origin: the transport's transparent decompression is off (DisableCompression) - with it on, a gzip reply that had a Content-Length comes back with Content-Encoding and Content-Length stripped and length unknown, and is written to a keep-alive client without any delimiter", c01r10)
}

func c01r10(r *R) {
	nt := r.fn(".", "NewHTTPTransport")
	ps, complete := enumPaths(nt, 512, 1)
	if !complete {
		r.undecided("NewHTTPTransport#paths", nt.Pos(), "too many paths")
		return
	}
	n := 0
	for _, p := range ps {
		if len(p.Ret) != 2 || p.Ret[1] != "nil" {
			continue
		}
		n++
		v := p.Mem[p.Ret[0]+".DisableCompression"]
		r.check(v == "true", fmt.Sprintf("NewHTTPTransport#no-transparent-gzip@%d", n), p.pos(), "DisableCompression: true", "the transport is built with DisableCompression="+map[bool]string{true: "unset", false: v}[v == ""]+": net/http then asks origins for gzip on its own and hands back a decompressed body of unknown length without Content-Length")
	}
	if n == 0 {
		r.bad("NewHTTPTransport#no-transparent-gzip", nt.Pos(), "no successful return found")
	}
}
