package main

import (
	"fmt"
	"go/constant"
	"go/token"
	"go/types"
	"strings"

	"golang.org/x/tools/go/ssa"
)

func init() {
	register("C04", "R1", 8, "no upstream sink without a passed check: on every path of the four handlers, every call that can reach the round tripper, the CONNECT dialler or the MITM hand-off is preceded by modifyRequest on the same request having returned nil", c04r1)
	register("C04", "R2", 3, "first failure aborts: the modifier group returns the first error unless error aggregation is on, and nothing in production code turns aggregation on; an installed group is consulted whenever it is non-nil", c04r2)
	register("C04", "R3", 6, "security modifiers come first: time frame, basic auth, localhost and deny-domains checks are added to the top group, each under its own configuration test only, before the header-rewriting stack; the top group is what is installed", c04r3)
	register("C04", "R4", 6, "each modifier refuses when its predicate fails with its own sentinel error; AuthenticatedRequest is true only when credentials were parsed and both constant-time comparisons against the configured user and password equal 1", c04r4)
	register("C04", "R5", 5, "error to status table: authentication error 407, deny error 403, prohibited error 451, martian ErrorStatus its own status; the 407 carries a Basic challenge and every error response the error header", c04r5)
	register("C04", "R6", 2, "own headers survive: the challenge set on a locally generated 407 is captured before and restored after the response modifiers (whose hop-by-hop removal deletes Proxy-Authenticate) and before the response is written", c04r6)
	register("C04", "R8", 5, "the deny list's and the time frame's verdicts are pure functions of their input: the domain matcher's decision tables (same analysis as C17.R2: no cached or spelling-dependent verdict); a time-frame entry matches iff the weekday equals and start ≤ hour < end, both read from the given time's wall-clock accessors; the allow check asks every entry about one clock reading", func(r *R) {
		c17r2(r)
		tm := r.method("ruleset", "TimeFrameEntry", "Match")
		mm, ok := decisionTable(tm, map[string]string{
			"((time.Time).Weekday($1) == $0.Weekday)": "day", "((time.Time).Hour($1) >= $0.HourStart)": "from", "((time.Time).Hour($1) < $0.HourEnd)": "before",
		}, 0, func(a map[string]bool) bool { return a["day"] && a["from"] && a["before"] })
		switch {
		case !ok:
			r.undecided("TimeFrameEntry.Match", tm.Pos(), strings.Join(mm, "; "))
		case len(mm) > 0:
			r.bad("TimeFrameEntry.Match", tm.Pos(), strings.Join(mm, "; "))
		default:
			r.ok("TimeFrameEntry.Match", tm.Pos(), "matches ⇔ weekday equal ∧ HourStart ≤ hour < HourEnd, weekday and hour of the same local time")
		}
		ta := r.fn("middleware", "TimeFrameAllows")
		ps, _ := enumPaths(ta, 64, 2)
		var why []string
		nTrue := 0
		for _, p := range ps {
			if p.Cut || len(p.Ret) != 1 {
				continue
			}
			matched := p.hasCond(func(c string) bool {
				return strings.HasPrefix(c, "(*ruleset.TimeFrameEntry).Match(") && strings.HasSuffix(c, ", dyn:middleware.getCurrentTime())")
			})
			if matched != (p.Ret[0] == "true") {
				why = append(why, fmt.Sprintf("some entry matched=%v but allowed=%s", matched, p.Ret[0]))
			}
			if p.Ret[0] == "true" {
				nTrue++
			}
			n := 0
			for _, e := range p.Events {
				if e.Kind == "call" && e.Desc == "dyn:middleware.getCurrentTime()" {
					n++
				}
			}
			if n != 1 {
				why = append(why, fmt.Sprintf("clock read %d times", n))
			}
		}
		r.check(nTrue > 0 && len(why) == 0, "middleware.TimeFrameAllows", ta.Pos(), "allowed ⇔ some entry matches the one clock reading", strings.Join(dedupStrings(why), "; "))
	})
	register("C04", "R7", 5, "localhost classifier structure: compared lower-cased against a list seeded with localhost, 0.0.0.0 and ::, plus lower-cased hosts-file aliases; IP literals by ParseIP+IsLoopback; every caller passes URL.Hostname()", c04r7)
}

// handler families shared by C04/C11/C12.
type handlerSpec struct {
	name   string
	entry  *ssa.Function
	inline map[string]bool
}

func handlerSpecs(r *R) []handlerSpec {
	return []handlerSpec{
		{"conn", r.method(mpkg, "proxyConn", "handle"), map[string]bool{"(*martian.proxyConn).handleConnectRequest": true}},
		{"handler", r.method(mpkg, "proxyHandler", "handleRequest"), map[string]bool{"(martian.proxyHandler).handleConnectRequest": true}},
	}
}

func isSinkEvent(e Event) (string, bool) {
	if e.Kind == "enter" {
		return "", false
	}
	ci, ok := e.Instr.(ssa.CallInstruction)
	if !ok || e.Kind != "call" {
		return "", false
	}
	switch cn := calleeName(ci.Common()); cn {
	case "(*martian.Proxy).roundTrip", "(*martian.Proxy).Connect", "(*martian.proxyConn).handleMITM", "(*martian.Proxy).connect", "(*martian.Proxy).connectHTTP", "(*martian.Proxy).connectSOCKS5":
		return cn, true
	}
	// direct use of the round tripper / dial function / connect hook
	d := describe(ci.Common().Value)
	if ci.Common().IsInvoke() && ci.Common().Method.Name() == "RoundTrip" {
		return "RoundTrip", true
	}
	if strings.HasSuffix(d, ".DialContext") || strings.HasSuffix(d, ".ConnectFunc") {
		return d, true
	}
	return "", false
}

func c04r1(r *R) {
	for _, h := range handlerSpecs(r) {
		ps, complete := enumPathsOpts(h.entry, 100000, 2, InlineOpts{Inline: func(c *ssa.Function) bool { return h.inline[fname(c)] }, Alias: false})
		if !complete {
			r.undecided(h.name+"#paths", h.entry.Pos(), "too many paths")
			continue
		}
		type agg struct {
			n   int
			bad string
			pos ssa.Instruction
		}
		sites := map[string]*agg{}
		for i := range ps {
			p := &ps[i]
			if p.Cut {
				continue
			}
			passed := "" // request term for which modifyRequest returned nil
			for _, e := range p.Events {
				if e.Kind == "call" && strings.HasPrefix(e.Desc, "(*martian.Proxy).modifyRequest($0.Proxy, ") {
					req := strings.TrimSuffix(strings.TrimPrefix(e.Desc, "(*martian.Proxy).modifyRequest($0.Proxy, "), ")")
					if p.holds("!(" + e.Desc + " != nil)") {
						passed = req
					}
				}
				name, ok := isSinkEvent(e)
				if !ok {
					continue
				}
				key := h.name + "#" + fname(e.Instr.Parent()) + "→" + strings.TrimPrefix(name, "(*martian.Proxy).")
				a := sites[key]
				if a == nil {
					a = &agg{pos: e.Instr}
					sites[key] = a
				}
				a.n++
				if passed == "" {
					a.bad = "reached on a path where no modifyRequest has succeeded: [" + strings.Join(p.Conds, " ∧ ") + "]"
				} else if !strings.Contains(e.Desc, passed) {
					a.bad = "the request that reaches the sink (" + e.Desc + ") is not the one that passed the checks (" + passed + ")"
				}
			}
		}
		for k, a := range sites {
			r.check(a.bad == "", k, a.pos.Pos(), fmt.Sprintf("on all %d paths preceded by a successful modifyRequest on the same request", a.n), a.bad)
		}
	}
	// the MITM'd session re-enters handle(): handleLoop calls handle in a loop and nothing else reads requests
	hl := r.method(mpkg, "Proxy", "handleLoop")
	n := len(callsToFunc(hl, r.method(mpkg, "proxyConn", "handle")))
	r.check(n == 1, "handleLoop#handle", hl.Pos(), "every request of a connection (also inside a MITM'd session) goes through handle()", "handleLoop does not serve requests through handle()")
	// who else may call the sinks: only the handler families
	allowed := map[string]bool{"(*martian.proxyConn).handle": true, "(*martian.proxyConn).handleConnectRequest": true, "(martian.proxyHandler).handleRequest": true, "(martian.proxyHandler).handleConnectRequest": true}
	for _, fn := range r.modFuncs() {
		if !strings.Contains(fname(fn), "martian.") {
			continue
		}
		for _, target := range []string{"(*martian.Proxy).roundTrip", "(*martian.Proxy).Connect", "(*martian.proxyConn).handleMITM"} {
			for _, c := range calls(fn, nameIs(target)) {
				r.check(allowed[fname(fn)], fname(fn)+"#calls("+strings.TrimPrefix(target, "(*martian.")+")", c.Pos(), "sink called from a checked handler", "upstream sink "+target+" is called from "+fname(fn)+", outside the handlers whose paths are checked")
			}
		}
	}
}

func c04r2(r *R) {
	g := r.method(mpkg+"/fifo", "group", "ModifyRequest")
	ps, _ := enumPaths(g, 256, 2)
	var why []string
	seenAbort := false
	for _, p := range ps {
		if p.Cut {
			continue
		}
		failed := ""
		for _, c := range p.Conds {
			if strings.HasPrefix(c, "(invoke martian.RequestModifier.ModifyRequest(") && strings.HasSuffix(c, " != nil)") {
				failed = strings.TrimSuffix(strings.TrimPrefix(c, "("), " != nil)")
				break
			}
		}
		if failed == "" || p.holds("$0.aggregateErrors") {
			continue
		}
		seenAbort = true
		// the first failure is returned and no further modifier runs
		n := 0
		for _, e := range p.Events {
			if e.Kind == "call" && strings.HasPrefix(e.Desc, "invoke martian.RequestModifier.ModifyRequest(") {
				n++
			}
		}
		idx := 0
		for _, e := range p.Events {
			if e.Kind == "call" && strings.HasPrefix(e.Desc, "invoke martian.RequestModifier.ModifyRequest(") {
				idx++
				if e.Desc == failed && idx != n {
					why = append(why, "modifiers keep running after the first error")
				}
			}
		}
		if len(p.Ret) != 1 || p.Ret[0] != failed {
			why = append(why, "first error is not what is returned: "+strings.Join(p.Ret, ","))
		}
	}
	r.check(seenAbort && len(why) == 0, "fifo.group.ModifyRequest#abort", g.Pos(), "first error returned immediately when aggregation is off", strings.Join(dedupStrings(why), "; "))
	// nobody turns aggregation on
	sa := r.method(mpkg+"/fifo", "Group", "SetAggregateErrors")
	n := 0
	for _, fn := range r.modFuncs() {
		for _, c := range callsToFunc(fn, sa) {
			n++
			r.bad(fname(fn)+"#SetAggregateErrors", c.Pos(), "error aggregation switched on: a failed access check no longer stops the request")
		}
		eachInstr(fn, func(ins ssa.Instruction) {
			st, ok := ins.(*ssa.Store)
			if !ok {
				return
			}
			if fa, ok := st.Addr.(*ssa.FieldAddr); ok && fieldName(fa.X.Type(), fa.Field) == "aggregateErrors" && structName(fa.X.Type()) == "martian/fifo.group" {
				if fn == sa || refName(fn) == "ToImmutable" {
					return
				}
				n++
				r.bad(fname(fn)+"#store(aggregateErrors)", st.Pos(), "aggregateErrors written outside SetAggregateErrors/ToImmutable")
			}
		})
	}
	if n == 0 {
		r.ok("SetAggregateErrors#no-production-caller", sa.Pos(), "no production caller of SetAggregateErrors, no other writer of the flag")
	}
	// Proxy.modifyRequest consults the modifier whenever one is installed
	mr := r.method(mpkg, "Proxy", "modifyRequest")
	ps, _ = enumPaths(mr, 16, 1)
	good := len(ps) == 2
	for _, p := range ps {
		if p.holds("($0.RequestModifier == nil)") {
			good = good && p.Ret[0] == "nil"
		} else {
			good = good && p.Ret[0] == "invoke martian.RequestModifier.ModifyRequest($0.RequestModifier, $1)"
		}
	}
	r.check(good, "Proxy.modifyRequest", mr.Pos(), "returns the installed modifier's verdict on the same request", "modifyRequest does not return the installed modifier's verdict")
}

type registration struct {
	group, arg string
	kind       string // request / response
	call       *ssa.Call
}

func registrations(fn *ssa.Function) []registration {
	var out []registration
	eachInstr(fn, func(ins ssa.Instruction) {
		c, ok := ins.(*ssa.Call)
		if !ok {
			return
		}
		switch calleeName(c.Common()) {
		case "(*martian/fifo.Group).AddRequestModifier":
			out = append(out, registration{describe(refArgs(c.Common())[0]), describe(refArgs(c.Common())[1]), "request", c})
		case "(*martian/fifo.Group).AddResponseModifier":
			out = append(out, registration{describe(refArgs(c.Common())[0]), describe(refArgs(c.Common())[1]), "response", c})
		}
	})
	return out
}

// before reports whether a is executed before b on every path that executes both.
func before(a, b ssa.Instruction) bool {
	return reaches(a, b) && !reaches(b, a)
}

func c04r3(r *R) {
	ms := r.method(".", "HTTPProxy", "middlewareStack")
	regs := registrations(ms)
	const top = "martian/fifo.NewGroup()"
	var stackReg *registration
	for i := range regs {
		if regs[i].group == top && regs[i].kind == "request" && strings.HasPrefix(regs[i].arg, "martian/httpspec.NewStack(") && strings.HasSuffix(regs[i].arg, "#0") {
			stackReg = &regs[i]
		}
	}
	if stackReg == nil {
		r.bad("middlewareStack#stack", ms.Pos(), "the httpspec stack is not added to the top group")
		return
	}
	want := map[string]string{
		"(*forwarder.HTTPProxy).allowWithinTimeFrame($0)":                            "(builtin len($0.config.AllowTimeFrame) > 0)",
		"(*forwarder.HTTPProxy).basicAuth($0, $0.config.HTTPServerConfig.BasicAuth)": "($0.config.HTTPServerConfig.BasicAuth != nil)",
		"(*forwarder.HTTPProxy).denyLocalhost($0)":                                   "($0.config.ProxyLocalhost == \"deny\")",
		"(*forwarder.HTTPProxy).denyDomains($0, $0.config.DenyDomains)":              "($0.config.DenyDomains != nil)",
	}
	seen := map[string]bool{}
	for _, g := range regs {
		if g.group != top || g.kind != "request" || g.call == stackReg.call {
			continue
		}
		if g.arg == "(*forwarder.HTTPProxy).basicAuth($0)" {
			// the constructor reads the configured credentials itself instead of being handed them (C04.R4 checks what it binds)
			g.arg = "(*forwarder.HTTPProxy).basicAuth($0, $0.config.HTTPServerConfig.BasicAuth)"
		}
		cond, isSec := want[g.arg]
		if !isSec {
			r.bad("middlewareStack#top("+g.arg+")", g.call.Pos(), "an unexpected request modifier runs in the security group")
			continue
		}
		seen[g.arg] = true
		gs := guardStrings(g.call.Block())
		field := cond[strings.Index(cond, "$0.config."):]
		field = strings.TrimRight(strings.Fields(field)[0], ")")
		onlyOwn, hasOwn := true, false
		for _, x := range gs {
			if x == cond {
				hasOwn = true
			} else if !strings.Contains(x, field) {
				onlyOwn = false
			}
		}
		onlyOwn = onlyOwn && hasOwn
		r.check(before(g.call, stackReg.call) && onlyOwn, "middlewareStack#top("+strings.TrimPrefix(g.arg[:strings.Index(g.arg, "(*forwarder.HTTPProxy).")+len("(*forwarder.HTTPProxy).")+strings.Index(g.arg[len("(*forwarder.HTTPProxy)."):], "(")], "(*forwarder.HTTPProxy).")+")", g.call.Pos(),
			"added before the stack, guarded only by "+cond, "security modifier must be added before the header-rewriting stack and be guarded by exactly its own configuration test; guards: "+strings.Join(gs, ","))
	}
	for k := range want {
		if !seen[k] {
			r.bad("middlewareStack#top("+k+")", ms.Pos(), "security modifier is not installed")
		}
	}
	// DenyProxyLocalhost is the zero value the guard compares with
	if c, ok := r.pkg(".").Pkg.Scope().Lookup("DenyProxyLocalhost").(*types.Const); ok {
		r.check(c.Val().ExactString() == "\"deny\"", "const DenyProxyLocalhost", c.Pos(), "guard constant", "DenyProxyLocalhost changed value; the guard table of the rule must be updated")
	}
	// the stack is unconditional and the top group is what is returned
	r.check(len(guardStrings(stackReg.call.Block())) == 0, "middlewareStack#stack-unconditional", stackReg.call.Pos(), "stack always installed", "the httpspec stack is installed conditionally")
	retOK := false
	for _, v := range returnValues(ms, 0) {
		if describe(v) == "(*martian/fifo.Group).ToImmutable("+top+")" {
			retOK = true
		}
	}
	r.check(retOK, "middlewareStack#returns-top", ms.Pos(), "the top group (immutable) is returned", "middlewareStack does not return the group that carries the security checks")
	// and installed as both request and response modifier
	np := r.fn(".", "NewHTTPProxy")
	found := 0
	for _, fn := range withClosures(np) {
		_ = fn
	}
	for _, fn := range r.modFuncs() {
		if !strings.HasPrefix(fname(fn), "(*forwarder.HTTPProxy).configureProxy") {
			continue
		}
		eachInstr(fn, func(ins ssa.Instruction) {
			st, ok := ins.(*ssa.Store)
			if !ok {
				return
			}
			a := describe(st.Addr)
			if (strings.HasSuffix(a, ".RequestModifier") || strings.HasSuffix(a, ".ResponseModifier")) && strings.Contains(describe(st.Val), "middlewareStack(") {
				found++
			}
		})
	}
	r.check(found == 2, "configureProxy#install", np.Pos(), "middlewareStack result installed as RequestModifier and ResponseModifier", "the security stack is not installed on the proxy")
}

func c04r4(r *R) {
	type spec struct{ fn, pred, sentinel string }
	for _, s := range []spec{
		{"basicAuth", "(*middleware.BasicAuth).AuthenticatedRequest(^0, $0, ^1, ^2)", "forwarder.ErrProxyAuthentication"},
		{"allowWithinTimeFrame", "middleware.TimeFrameAllows(^0.config.AllowTimeFrame)", "forwarder.ErrProxyOutsideAllowedTimeframe"},
		{"denyLocalhost", "!(*forwarder.HTTPProxy).isLocalhost(^0, (*net/url.URL).Hostname($0.URL))", "forwarder.ErrProxyLocalhost"},
		{"denyDomains", "!invoke forwarder.Matcher.Match(^0, (*net/url.URL).Hostname($0.URL))", "forwarder.ErrProxyDenied"},
	} {
		fn := r.method(".", "HTTPProxy", s.fn)
		if len(anonFuncs(fn)) != 1 {
			r.undecided("HTTPProxy."+s.fn, fn.Pos(), "expected one modifier closure")
			continue
		}
		lit := anonFuncs(fn)[0]
		ps, _ := enumPaths(lit, 64, 1)
		var why []string
		for _, p := range ps {
			pass := p.holds(s.pred) || strings.HasPrefix(s.pred, "!") && p.holds(s.pred[1:]) == false && p.holds("!"+s.pred[1:])
			if strings.HasPrefix(s.pred, "!") {
				pass = p.holds(s.pred)
			}
			switch {
			case pass && p.Ret[0] != "nil":
				why = append(why, "request that satisfies the check is refused")
			case !pass && p.Ret[0] != s.sentinel:
				why = append(why, "failing request returns "+p.Ret[0]+" instead of "+s.sentinel+" on ["+strings.Join(p.Conds, " ∧ ")+"]")
			}
		}
		r.check(len(ps) == 2 && len(why) == 0, "HTTPProxy."+s.fn+"#refuses", lit.Pos(), "predicate fails ⇒ "+s.sentinel+"; holds ⇒ nil", strings.Join(why, "; "))
		// the wrapper installed is the closure
		if s.fn == "basicAuth" {
			b := closureBindings(lit)
			good := len(b) == 3 && b[0] == "middleware.NewProxyBasicAuth()" && b[1] == "(*net/url.Userinfo).Username($1)" && b[2] == "(*net/url.Userinfo).Password($1)#0"
			if len(fn.Params) == 1 {
				// no parameter: the credentials are the configured ones, read in place
				const cfg = "$0.config.HTTPServerConfig.BasicAuth"
				good = len(b) == 3 && b[0] == "middleware.NewProxyBasicAuth()" && b[1] == "(*net/url.Userinfo).Username("+cfg+")" && b[2] == "(*net/url.Userinfo).Password("+cfg+")#0"
			}
			r.check(good, "HTTPProxy.basicAuth#bindings", lit.Pos(), "compares against the configured user name and password on the Proxy-Authorization header", "basic auth closure is bound to "+strings.Join(b, ", "))
		}
	}
	ar := r.method("middleware", "BasicAuth", "AuthenticatedRequest")
	const parsed = "(*middleware.BasicAuth).BasicAuth($0, $1)"
	mm, ok := decisionTable(ar, map[string]string{
		parsed + "#2": "ok",
		"(crypto/subtle.ConstantTimeCompare(" + parsed + "#0, $2) == 1)": "user",
		"(crypto/subtle.ConstantTimeCompare(" + parsed + "#1, $3) == 1)": "pass",
	}, 0, func(a map[string]bool) bool { return a["ok"] && a["user"] && a["pass"] })
	switch {
	case !ok:
		r.undecided("BasicAuth.AuthenticatedRequest", ar.Pos(), strings.Join(mm, "; "))
	case len(mm) > 0:
		r.bad("BasicAuth.AuthenticatedRequest", ar.Pos(), "authenticated must mean: credentials parsed ∧ ConstantTimeCompare(user, expected) == 1 ∧ ConstantTimeCompare(pass, expected) == 1, on the full byte strings: "+strings.Join(mm, "; "))
	default:
		r.ok("BasicAuth.AuthenticatedRequest", ar.Pos(), "true ⇔ parsed ∧ both constant-time comparisons equal 1")
	}
	var ps []Path
	// the header consulted is Proxy-Authorization
	nb := r.fn("middleware", "NewProxyBasicAuth")
	ps, _ = enumPaths(nb, 8, 1)
	good := len(ps) == 1 && ps[0].Mem[ps[0].Ret[0]+".header"] == `"Proxy-Authorization"`
	r.check(good, "middleware.NewProxyBasicAuth", nb.Pos(), "reads Proxy-Authorization", "proxy basic auth reads "+ps[0].Mem[ps[0].Ret[0]+".header"])
	ba := r.method("middleware", "BasicAuth", "BasicAuth")
	ps, _ = enumPaths(ba, 16, 1)
	good = true
	for _, p := range ps {
		if p.Ret[2] != "false" && !strings.HasPrefix(p.Ret[2], "middleware.parseBasicAuth((net/http.Header).Get($1.Header, $0.header))") {
			good = false
		}
	}
	r.check(good, "BasicAuth.BasicAuth", ba.Pos(), "credentials come from parseBasicAuth(Header.Get(ba.header))", "credentials are not taken from the configured header through parseBasicAuth")
}

func c04r5(r *R) {
	for _, s := range []struct{ fn, test, code string }{
		{"handleAuthenticationError", "errors.Is($1, forwarder.ErrProxyAuthentication)", "407"},
		{"handleDenyError", "errors.As:forwarder.denyError", "403"},
		{"handleProhibitedError", "errors.As:forwarder.prohibitedError", "451"},
	} {
		fn := r.fn(".", s.fn)
		ps, _ := enumPaths(fn, 16, 1)
		var why []string
		for _, p := range ps {
			hit := p.holds(s.test)
			if strings.HasPrefix(s.test, "errors.As:") {
				// errors.As into a local of the expected type, whatever the local is called
				hit = p.hasCond(func(c string) bool { return strings.HasPrefix(c, "errors.As($1, local:") }) && errorsAsTarget(fn) == strings.TrimPrefix(s.test, "errors.As:")
			}
			if hit && p.Ret[0] != s.code {
				why = append(why, "matching error maps to "+p.Ret[0])
			}
			if !hit && p.Ret[0] != "0" {
				why = append(why, "non-matching error maps to "+p.Ret[0])
			}
		}
		r.check(len(ps) == 2 && len(why) == 0, s.fn, fn.Pos(), "→ "+s.code, strings.Join(why, "; "))
	}
	ms := r.fn(".", "handleMartianErrorStatus")
	ps, _ := enumPaths(ms, 16, 1)
	good := false
	for _, p := range ps {
		if p.hasCond(func(c string) bool { return strings.HasPrefix(c, "errors.As($1, local:") }) {
			good = strings.HasPrefix(p.Ret[0], "local:") && strings.HasSuffix(p.Ret[0], ".Status") && strings.Contains(errorsAsTarget(ms), "ErrorStatus")
		}
	}
	r.check(good, "handleMartianErrorStatus", ms.Pos(), "→ the error's own status", "martian.ErrorStatus is not mapped to its status")
	// sentinel types
	for name, typ := range map[string]string{"ErrProxyLocalhost": "forwarder.denyError", "ErrProxyDenied": "forwarder.denyError", "ErrProxyOutsideAllowedTimeframe": "forwarder.prohibitedError", "ErrProxyAuthentication": "*errors.errorString"} {
		g, _ := refGlobal(r.pkg("."), name), true
		if g == nil {
			r.bad("sentinel "+name, r.pkg(".").Func("init").Pos(), "sentinel error missing")
			continue
		}
		got := typeStr(g.Type().(*types.Pointer).Elem())
		r.check(got == typ || name == "ErrProxyAuthentication" && got == "error", "sentinel "+name, g.Pos(), "dynamic type "+got, "sentinel has dynamic type "+got+", the status table expects "+typ)
	}
	// errorResponse: challenge on 407, error header always, handlers list contains the four classifiers
	er := r.method(".", "HTTPProxy", "errorResponse")
	var setPA, setEH *ssa.Call
	for _, c := range calls(er, nameIs("(net/http.Header).Set")) {
		k, _ := constString(refArgs(c.Common())[1])
		switch k {
		case "Proxy-Authenticate":
			setPA = c.(*ssa.Call)
		case "X-Forwarder-Error":
			setEH = c.(*ssa.Call)
		}
		if g, ok := refArgs(c.Common())[1].(*ssa.Const); ok && g.Value != nil && g.Value.Kind() == constant.String {
			_ = g
		}
	}
	okPA := setPA != nil && guardedBy(setPA.Block(), func(s string) bool { return strings.HasSuffix(s, " == 407)") && !strings.HasPrefix(s, "!") }) && strings.HasPrefix(describe(refArgs(setPA.Common())[2]), `fmt.Sprintf("Basic realm=%q"`)
	r.check(okPA, "errorResponse#challenge", er.Pos(), "Proxy-Authenticate: Basic realm=… set iff the status is 407", "the 407 response does not get a Basic challenge (or it is set for other statuses)")
	okEH := false
	if setEH != nil {
		// set on every path of errorResponse - also when the response is built by a helper split out of it: then on
		// every path of the helper, and the helper is called on every path
		okEH = true
		var at ssa.Instruction = setEH
		for i := 0; at.Parent() != er && i < 4; i++ {
			if escapesFromEntry(at.Parent(), at) {
				okEH = false
			}
			cs := soleCallSite(at.Parent())
			if cs == nil {
				okEH = false
				break
			}
			at = cs
		}
		if okEH && (at.Parent() != er || escapesFromEntry(er, at)) {
			okEH = false
		}
	}
	r.check(okEH, "errorResponse#error-header", er.Pos(), "X-Forwarder-Error set on every path", "X-Forwarder-Error is not set on every error response")
	handlers := errorHandlerList(r, er)
	have := strings.Join(handlers, ",")
	need := []string{"handleMartianErrorStatus", "handleAuthenticationError", "handleDenyError", "handleProhibitedError"}
	miss := ""
	for _, n := range need {
		if !strings.Contains(have, n) {
			miss += n + " "
		}
	}
	r.check(miss == "", "errorResponse#handlers", er.Pos(), "classifier list: "+have, "classifier(s) missing from errorResponse: "+miss)
}

func c04r6(r *R) {
	for _, recv := range []string{"proxyConn", "proxyHandler"} {
		fn := r.method(mpkg, recv, "writeErrorResponse")
		ps, _ := enumPaths(fn, 1024, 1)
		var why []string
		n, nRestored := 0, 0
		for _, p := range ps {
			ei := p.eventIndex(0, "call", prefix("(*martian.Proxy).errorResponse($0.Proxy, "))
			if ei < 0 {
				continue // relayed upstream response: not the proxy's own challenge
			}
			n++
			res := p.Events[ei].Desc
			cap := p.eventIndex(ei, "call", eq("(net/http.Header).Values("+res+".Header, \"Proxy-Authenticate\")"))
			mod := p.eventIndex(ei, "call", eq("(*martian.Proxy).modifyResponse($0.Proxy, "+res+")"))
			wr := p.eventIndex(ei, "call", contains(").writeResponse("))
			if cap < 0 || mod < 0 || wr < 0 || !(cap < mod && mod < wr) {
				why = append(why, "challenge not captured before the response modifiers run")
				continue
			}
			vals := p.Events[cap].Desc
			nonEmpty := p.holds("(builtin len(" + vals + ") > 0)")
			restored := false
			for i := mod; i < wr; i++ {
				if p.Events[i].Kind == "mapupdate" && p.Events[i].Desc == res+".Header[\"Proxy-Authenticate\"] = "+vals {
					restored = true
				}
			}
			if restored {
				nRestored++
			}
			if nonEmpty != restored {
				why = append(why, fmt.Sprintf("challenge present=%v but restored after the modifiers=%v", nonEmpty, restored))
			}
		}
		if nRestored == 0 {
			why = append(why, "the challenge is never restored after the response modifiers: hop-by-hop removal deletes Proxy-Authenticate from the proxy's own 407")
		}
		r.check(n > 0 && len(why) == 0, recv+".writeErrorResponse#challenge-survives", fn.Pos(), "Proxy-Authenticate captured before modifyResponse and restored before the write whenever it was set", strings.Join(dedupStrings(why), "; "))
	}
}

func c04r7(r *R) {
	il := r.method(".", "HTTPProxy", "isLocalhost")
	const low = "strings.ToLower($1)"
	mm, ok := decisionTable(il, map[string]string{
		"slices.Contains($0.localhost, " + low + ")": "listed", "(net.ParseIP(" + low + ") != nil)": "ip", "(net.IP).IsLoopback(net.ParseIP(" + low + "))": "loop",
	}, 0, func(a map[string]bool) bool { return a["listed"] || a["ip"] && a["loop"] })
	switch {
	case !ok:
		r.undecided("HTTPProxy.isLocalhost", il.Pos(), strings.Join(mm, "; "))
	case len(mm) > 0:
		r.bad("HTTPProxy.isLocalhost", il.Pos(), strings.Join(mm, "; "))
	default:
		r.ok("HTTPProxy.isLocalhost", il.Pos(), "localhost ⇔ lower-cased name in the list ∨ (IP literal ∧ loopback)")
	}
	// callers
	n := 0
	for _, fn := range r.modFuncs() {
		for _, c := range callsToFunc(fn, il) {
			n++
			d := describe(refArgs(c.Common())[1])
			r.check(strings.HasPrefix(d, "(*net/url.URL).Hostname("), fname(fn)+"#isLocalhost.arg", c.Pos(), "classified on "+d, "isLocalhost is given "+d+" (port and brackets must be removed: URL.Hostname())")
		}
	}
	if n < 2 {
		r.bad("isLocalhost#callers", il.Pos(), "expected the deny and the direct wrapper to classify hosts")
	}
	// seed list and aliases
	np := r.fn(".", "NewHTTPProxy")
	seed := map[string]bool{}
	aliasLower := false
	for _, fn := range r.modFuncs() {
		if !strings.HasPrefix(fname(fn), "forwarder.") && !strings.HasPrefix(fname(fn), "(*forwarder.") {
			continue
		}
		// composite literal stored into the localhost field
		eachInstr(fn, func(ins ssa.Instruction) {
			st, ok := ins.(*ssa.Store)
			if !ok {
				return
			}
			if fa, ok := st.Addr.(*ssa.FieldAddr); ok && fieldName(fa.X.Type(), fa.Field) == "localhost" {
				// a copy (slices.Clone) of a package-level list that is built once from literals
				if cl, ok := st.Val.(*ssa.Call); ok && calleeName(cl.Common()) == "slices.Clone" && len(cl.Common().Args) == 1 {
					if ld, ok := cl.Common().Args[0].(*ssa.UnOp); ok && ld.Op == token.MUL {
						if g, ok := ld.X.(*ssa.Global); ok {
							for _, nm := range globalStringList(g) {
								seed[nm] = true
							}
						}
					}
				}
				if sl, ok := st.Val.(*ssa.Slice); ok {
					if a, ok := sl.X.(*ssa.Alloc); ok {
						for _, ref := range *a.Referrers() {
							if ia, ok := ref.(*ssa.IndexAddr); ok {
								for _, rr := range *ia.Referrers() {
									if s2, ok := rr.(*ssa.Store); ok {
										if str, ok := constString(s2.Val); ok {
											seed[str] = true
										}
									}
								}
							}
						}
					}
				}
			}
		})
		for _, c := range calls(fn, nameIs("builtin append")) {
			if !strings.HasSuffix(describe(refArgs(c.Common())[0]), ".localhost") {
				continue
			}
			src := refArgs(c.Common())[1]
			// each alias appended on its own, lower-cased, in a loop over the aliases
			if va := variadicArgs(src); len(va) == 1 {
				if d := describe(va[0]); strings.HasPrefix(d, "strings.ToLower(") && strings.Contains(d, "LocalhostAliases()") && reaches(c.(ssa.Instruction), c.(ssa.Instruction)) {
					aliasLower = true
				}
			}
			// every element of src was overwritten by its lower-cased form in a loop before the append
			eachInstr(fn, func(ins ssa.Instruction) {
				st, ok := ins.(*ssa.Store)
				if !ok {
					return
				}
				ia, ok := st.Addr.(*ssa.IndexAddr)
				if !ok || ia.X != src {
					return
				}
				if describe(st.Val) == "strings.ToLower("+describe(ia)+")" && reaches(st, st) && before(st, c.(ssa.Instruction)) {
					aliasLower = true
				}
			})
		}
	}
	r.check(seed["localhost"] && seed["0.0.0.0"] && seed["::"], "NewHTTPProxy#localhost-seed", np.Pos(), "list seeded with localhost, 0.0.0.0, ::", fmt.Sprintf("localhost list seed is %v", seed))
	r.check(aliasLower, "NewHTTPProxy#aliases-lowercased", np.Pos(), "hosts-file aliases appended lower-cased", "hosts-file aliases are not appended lower-cased (isLocalhost compares the lower-cased name)")
}

// errorsAsTarget names the type of the variable errors.As fills in fn ("" when there is none or several).
func errorsAsTarget(fn *ssa.Function) string {
	out := ""
	for _, c := range calls(fn, nameIs("errors.As")) {
		a := unbox(refArgs(c.Common())[1])
		p, ok := a.Type().Underlying().(*types.Pointer)
		if !ok {
			return ""
		}
		t := typeStr(p.Elem())
		if out != "" && out != t {
			return ""
		}
		out = t
	}
	return out
}
