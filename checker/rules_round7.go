package main

import (
	"fmt"
	"go/constant"
	"go/token"
	"go/types"
	"regexp"
	"strconv"
	"strings"

	"golang.org/x/tools/go/ssa"
)

// Rules written after the seventh seeding round.
func init() {
	// decisions that already existed, claimed for the property a seed broke them under
	register("C01", "R15", 4, "site credentials are attached for every spelling of the target, IPv6 literals included (the C06.R4 decision: the lookup key is the URL's own host:port, default port by scheme)", c06r4)
	register("C05", "R14", 10, "the port of an origin-form request's Host is kept (the C01.R4 decision: URL.Host is filled with the Host header as it is, only when empty)", c01r4)
	register("C06", "R11", 10, "site credentials are matched against the host the request is sent to (the C01.R1 decision: nothing rewrites URL.Host after the modifiers ran)", c01r1)
	register("C08", "R11", 1, "a peer that stalls inside its PROXY header delays only its own connection (the C12.R16 decision: no call that waits for the header is made under the proxy-wide connsMu)", noConnCallsUnderConnsMu)

	register("C02", "R11", 2, "logging does not alias the message: the header and trailer maps the logger keeps are deep copies (Header.Clone) of the message's - a shallow copy shares the value slices, and masking a logged value would rewrite the field that is relayed", logKeepsDeepCopies)
	register("C05", "R13", 1, "the PAC script is shown the URL that is being routed: FindProxyForURL hands the script u.String() of the URL it was given (scheme, host and port as they are)", pacSeesTheURL)
	register("C14", "R12", 1, "the script's url argument is the request URL unchanged (same decision as C05.R13)", pacSeesTheURL)
	register("C06", "R12", 1, "a PAC-selected proxy gets the credentials configured for that proxy: in pacProxy the credential table is consulted with the proxy's URL, never with the request's", pacProxyCredentialsByProxy)
	register("C07", "R11", 1, "a certificate handed to a handshake is never reused for another host: mitm.Config.cert builds each tls.Certificate as a fresh value (not taken from a pool or another recycled object)", freshLeafCertificate)
	register("C03", "R15", 1, "inside a MITM session the tunnel runs over the TLS connection: in handleMITM the connection kept in the proxyConn is the very connection the buffered reader and writer are reset to (an upgrade tunnel copies through p.conn; the raw socket underneath would carry plaintext into the client's TLS stream)", mitmConnIsBuffered)
	register("C10", "R17", 2, "no queued frame is stranded: emitEligibleFrames stops only at the end of the queue or at a frame whose flow-control size exceeds a window (a frame of size 0 passes a window of 0), and sendQueuedFramesUnderWindowSize visits every stream's queue (no return inside the loop)", gateStopsOnlyForSize)
	register("C09", "R13", 2, "credit that arrives is applied to every waiting stream (same decision as C10.R17)", gateStopsOnlyForSize)
	register("C12", "R18", 1, "a reply that breaks off is not delivered as a complete one (handler mode): in proxyHandler.writeResponse every path on which copying the body failed ends in panic(http.ErrAbortHandler), whatever the error", handlerAbortsOnCopyError)
	register("C12", "R19", 1, "an upstream proxy that accepts and then stays silent is cut off: in DialContextR the wait for the CONNECT reply (and the header callback) runs under the context bounded by the dialer's Timeout, not only the TCP dial", connectReplyBounded)
	register("C13", "R11", 1, "a refused upstream CONNECT still hands back what was dialled: on every path of connectHTTP after DialContextR the connection it returned is passed to the caller (which closes it) or closed there", connectHTTPKeepsConn)
	register("C14", "R13", 1, "myIpAddressEx lists every global unicast address and myIpAddress the IPv4 ones: in myIPAddress an address is kept iff it is global unicast and (the flag asks for all families or it is IPv4) - nothing else decides", ownAddressFilter)
	register("C15", "R11", 1, "the accept back-off is bounded: the delay Serve sleeps for is clamped from above (min, or compare-and-assign) by the one-second ceiling, so a burst of EMFILE does not keep a well-behaved client waiting long after it is over", acceptBackoffClamped)
}

func logKeepsDeepCopies(r *R) {
	n := 0
	for _, fn := range r.modFuncsAll() {
		if !strings.Contains(fname(fn), "httplog.") {
			continue
		}
		eachInstr(fn, func(ins ssa.Instruction) {
			st, ok := ins.(*ssa.Store)
			if !ok {
				return
			}
			if ts := typeStr(st.Val.Type()); ts != "net/http.Header" && ts != "map[string][]string" {
				return
			}
			fa, ok := st.Addr.(*ssa.FieldAddr)
			if !ok || strings.HasPrefix(structName(fa.X.Type()), "net/http.") {
				return
			}
			n++
			d := describe(st.Val)
			good := strings.HasPrefix(d, "(net/http.Header).Clone(") && (strings.HasSuffix(d, ".Header)") || strings.HasSuffix(d, ".Trailer)"))
			r.check(good, fmt.Sprintf("%s#keeps(%s)", fname(fn), fieldName(fa.X.Type(), fa.Field)), st.Pos(), "kept as "+shorten(d, 60), "the logger keeps "+shorten(d, 90)+" - not a Header.Clone of the message's map: a copy that shares the value slices lets a change made for the log (masking) reach the relayed message")
		})
	}
	if n == 0 {
		r.bad("httplog#kept-headers", token.NoPos, "the logger keeps no header maps")
	}
}

func pacSeesTheURL(r *R) {
	fn := r.method("pac", "ProxyResolver", "FindProxyForURL")
	ps, complete := enumPaths(fn, 1024, 1)
	if !complete {
		r.undecided("ProxyResolver.FindProxyForURL#url-argument", fn.Pos(), "too many paths")
		return
	}
	const want = "(*github.com/dop251/goja.Runtime).ToValue($0.vm, (*net/url.URL).String($1))"
	var why []string
	n := 0
	for _, p := range ps {
		ci := p.eventIndex(0, "call", prefix("dyn:$0.fn("))
		if ci < 0 {
			continue
		}
		n++
		a := splitArgs(p.Events[ci].Desc)
		// the arguments after `this` travel in the variadic slice: its first element
		if len(a) >= 2 && strings.HasSuffix(a[1], "[:]") {
			if v, ok := p.Mem[strings.TrimSuffix(a[1], "[:]")+"[0]"]; ok {
				a[1] = v
			}
		}
		if len(a) < 2 || a[1] != want {
			got := "<missing>"
			if len(a) >= 2 {
				got = a[1]
			}
			why = append(why, "the script is called with url = "+shorten(got, 110))
		}
	}
	r.check(n > 0 && len(why) == 0, "ProxyResolver.FindProxyForURL#url-argument", fn.Pos(), "url argument = u.String()", strings.Join(dedupStrings(why), "; "))
}

func pacProxyCredentialsByProxy(r *R) {
	fn := r.method(".", "HTTPProxy", "pacProxy")
	n := 0
	eachInstr(fn, func(ins ssa.Instruction) {
		c, ok := ins.(*ssa.Call)
		if !ok || calleeName(c.Common()) != "(*forwarder.CredentialsMatcher).MatchURL" {
			return
		}
		n++
		arg := describe(refArgs(c.Common())[1])
		// the proxy's URL is the URL() of an entry the script's answer produced (the answer itself is computed from the request's URL)
		ofProxy := strings.HasPrefix(arg, "(pac.Proxy).URL(") || !strings.Contains(arg, "$1") && (strings.Contains(arg, "pac.Prox") || strings.Contains(arg, ".URL("))
		fromRequest := strings.HasPrefix(arg, "$1") || strings.Contains(arg, "$1.URL") && !strings.HasPrefix(arg, "(pac.Proxy).URL(")
		r.check(!fromRequest && ofProxy, "pacProxy#credentials-lookup", c.Pos(), "table consulted with the selected proxy's URL", "the credential table is consulted with "+shorten(arg, 80)+": the PAC-selected proxy is sent the credentials of the request's target (and its own entry is ignored)")
	})
	if n == 0 {
		r.bad("pacProxy#credentials-lookup", fn.Pos(), "pacProxy does not consult the credential table")
	}
}

func freshLeafCertificate(r *R) {
	fn := r.method(mpkg+"/mitm", "Config", "cert")
	n := 0
	var why []string
	for _, rv := range returnValues(fn, 0) {
		if k, ok := rv.(*ssa.Const); ok && k.IsNil() {
			continue
		}
		n++
		fresh, recycled := false, ""
		backward(rv, func(v ssa.Value) bool {
			switch x := v.(type) {
			case *ssa.Alloc:
				if strings.HasSuffix(typeStr(x.Type()), "crypto/tls.Certificate") {
					fresh = true
				}
			case *ssa.Call:
				cn := calleeName(x.Common())
				if cn == "(*sync.Pool).Get" {
					recycled = cn
				}
			}
			return false
		})
		// a certificate served from the cache is the one made for this host earlier: allowed
		fromCache := strings.Contains(describe(rv), "Cache") || strings.Contains(describe(rv), ".certs")
		if recycled != "" {
			why = append(why, "the certificate comes from "+recycled+": an object another handshake may still be using is overwritten for a different host")
		} else if !fresh && !fromCache {
			why = append(why, "the certificate returned is "+shorten(describe(rv), 80)+", neither built here nor the cached one")
		}
	}
	r.check(n > 0 && len(why) == 0, "mitm.cert#fresh-certificate", fn.Pos(), "each generated tls.Certificate is a fresh value", strings.Join(dedupStrings(why), "; "))
}

func gateStopsOnlyForSize(r *R) {
	gate := r.method(h2pkg, "outputBuffer", "emitEligibleFrames")
	ps, complete := enumPaths(gate, 256, 1)
	if !complete {
		r.undecided("emitEligibleFrames#stops", gate.Pos(), "too many paths")
	} else {
		var why []string
		for _, p := range ps {
			for _, c := range p.Conds {
				k, _ := normCond(c)
				switch {
				case strings.Contains(k, "(*container/list.List).Front(") && strings.HasSuffix(k, " == nil)"), strings.Contains(k, "(*container/list.Element).Next(") && strings.HasSuffix(k, " == nil)"):
				case strings.Contains(k, "flowControlSize(") && (strings.Contains(k, " <= ") || strings.Contains(k, " < ")):
					if !strings.HasPrefix(k, "(invoke martian/h2.queuedFrame.flowControlSize(") {
						why = append(why, "emission depends on "+shorten(c, 90))
					}
				default:
					why = append(why, "emission stops (or goes on) depending on "+shorten(c, 90)+": a frame whose flow-control size is 0 must pass whatever the windows are")
				}
			}
		}
		r.check(len(ps) >= 3 && len(why) == 0, "emitEligibleFrames#stops", gate.Pos(), "stops only at the end of the queue or at a frame larger than a window", strings.Join(dedupStrings(why), "; "))
	}
	sq := r.method(h2pkg, "relay", "sendQueuedFramesUnderWindowSize")
	var why []string
	loops := 0
	eachInstr(sq, func(ins ssa.Instruction) {
		if c, ok := ins.(*ssa.Call); ok && strings.HasSuffix(calleeName(c.Common()), ".emitEligibleFrames") && reaches(c, c) {
			loops++
		}
	})
	for _, ret := range returnsOf(sq) {
		for _, g := range guardsUp(ret) {
			if gg := strings.TrimLeft(g, "!"); strings.HasPrefix(gg, "next(range(") && strings.HasSuffix(gg, "#0") && !strings.Contains(gg, " ") {
				continue // the loop's own "more elements" test
			}
			why = append(why, "a return is taken when "+shorten(g, 80)+": the streams not yet visited keep their frames although the credit that arrived covers them")
		}
	}
	r.check(loops > 0 && len(why) == 0, "sendQueuedFramesUnderWindowSize#visits-all", sq.Pos(), "every stream's queue is re-examined", strings.Join(dedupStrings(why), "; ")+map[bool]string{true: "the queues are not re-examined in a loop", false: ""}[loops == 0])
}

func handlerAbortsOnCopyError(r *R) {
	fn := r.method(mpkg, "proxyHandler", "writeResponse")
	ps, complete := enumPaths(fn, 50000, 1)
	if !complete {
		r.undecided("proxyHandler.writeResponse#abort-on-copy-error", fn.Pos(), "too many paths")
		return
	}
	var why []string
	n := 0
	for _, p := range ps {
		failed := false
		for _, c := range p.Conds {
			if strings.HasPrefix(c, "(martian.copyBody(") && strings.HasSuffix(c, " != nil)") {
				failed = true
			}
		}
		if !failed {
			continue
		}
		n++
		if !(len(p.Ret) == 1 && strings.HasPrefix(p.Ret[0], "<panic") && strings.Contains(p.Ret[0], "ErrAbortHandler")) {
			why = append(why, "after a failed body copy the handler returns normally on ["+shorten(strings.Join(p.Conds[len(p.Conds)-min(2, len(p.Conds)):], " ∧ "), 160)+"]: net/http then terminates the response properly and the client takes the truncated body for complete")
		}
	}
	r.check(n > 0 && len(why) == 0, "proxyHandler.writeResponse#abort-on-copy-error", fn.Pos(), fmt.Sprintf("%d failing paths, all abort the handler", n), strings.Join(dedupStrings(why), "; "))
}

func connectReplyBounded(r *R) {
	fn := r.method("dialvia", "HTTPProxyDialer", "DialContextR")
	ps, complete := enumPaths(fn, 20000, 1)
	if !complete {
		r.undecided("DialContextR#reply-bounded", fn.Pos(), "too many paths")
		return
	}
	var why []string
	n := 0
	for _, p := range ps {
		if !p.holds("($0.Timeout > 0)") {
			continue
		}
		for _, c := range p.Conds {
			i := strings.Index(c, "select(<-invoke context.Context.Done(")
			if i < 0 {
				continue
			}
			n++
			rest := c[i+len("select(<-invoke context.Context.Done("):]
			if !strings.HasPrefix(rest, "context.WithTimeout($1, $0.Timeout)#0") {
				why = append(why, "with a Timeout configured the wait for the CONNECT reply watches "+shorten(rest, 60)+", not the context bounded by the Timeout")
			}
			break
		}
	}
	r.check(n > 0 && len(why) == 0, "DialContextR#reply-bounded", fn.Pos(), "the reply wait is bounded by Timeout", strings.Join(dedupStrings(why), "; ")+map[bool]string{true: "no bounded wait found", false: ""}[n == 0])
}

func connectHTTPKeepsConn(r *R) {
	fn := r.method(mpkg, "Proxy", "connectHTTP")
	ps, complete := enumPaths(fn, 4096, 1)
	if !complete {
		r.undecided("connectHTTP#conn-kept", fn.Pos(), "too many paths")
		return
	}
	var why []string
	n := 0
	for _, p := range ps {
		di := p.eventIndex(0, "call", prefix("(*dialvia.HTTPProxyDialer).DialContextR("))
		if di < 0 || len(p.Ret) != 3 {
			continue
		}
		n++
		conn := p.Events[di].Desc + "#1"
		handed := p.Ret[1] == conn
		closed := p.eventIndex(di, "call", func(s string) bool { return strings.HasSuffix(s, ".Close("+conn+")") }) >= 0
		if !handed && !closed {
			why = append(why, "a path returns "+shorten(p.Ret[1], 40)+" for the connection and does not close what DialContextR returned: ["+shorten(strings.Join(p.Conds[len(p.Conds)-min(2, len(p.Conds)):], " ∧ "), 160)+"]")
		}
	}
	r.check(n > 0 && len(why) == 0, "connectHTTP#conn-kept", fn.Pos(), fmt.Sprintf("%d paths after the dial, the connection handed on (or closed) on each", n), strings.Join(dedupStrings(why), "; "))
}

func ownAddressFilter(r *R) {
	// judged from the two script functions: whatever they call to list the host's addresses (today
	// myIPAddress(false) / myIPAddress(true)) is walked with their own argument
	for _, c := range []struct {
		method string
		all    bool
	}{{"myIPAddress", false}, {"myIPAddressEx", true}} {
		m := r.method("pac", "ProxyResolver", c.method)
		id := "pac." + c.method + "#filter"
		var entry *ssa.Function
		var site ssa.CallInstruction
		for _, b := range m.Blocks {
			for _, ins := range b.Instrs {
				if call, ok := ins.(ssa.CallInstruction); ok {
					if g := staticCallee(call.Common()); g != nil && g.Pkg == m.Pkg && listsInterfaces(g, 0) {
						entry, site = g, call
					}
				}
			}
		}
		if entry == nil {
			r.undecided(id, m.Pos(), "no call that enumerates the interfaces (net.Interfaces) found in the script function")
			continue
		}
		// literal booleans the script function passes: the family flag, under whatever name
		flags := map[string]bool{}
		for i, a := range site.Common().Args {
			if k, ok := a.(*ssa.Const); ok && k.Value != nil && k.Value.Kind() == constant.Bool && i < len(entry.Params) {
				flags[describe(entry.Params[i])] = constant.BoolVal(k.Value)
			}
		}
		// other literal arguments (an enumeration instead of the flag): tests of them are decided by this caller too
		consts := map[string]string{}
		for i, a := range site.Common().Args {
			if k, ok := a.(*ssa.Const); ok && k.Value != nil && k.Value.Kind() != constant.Bool && i < len(entry.Params) {
				consts[describe(entry.Params[i])] = describe(a)
			}
		}
		boolParams := 0
		for _, q := range entry.Params {
			if types.Identical(q.Type().Underlying(), types.Typ[types.Bool]) {
				boolParams++
			}
		}
		if boolParams != len(flags) {
			r.undecided(id, site.Pos(), "the family flag handed to "+entry.Name()+" is not a literal")
			continue
		}
		ps, complete := enumPathsInline(entry, 4096, 1, func(f *ssa.Function) bool { return f.Pkg == m.Pkg && listsInterfaces(f, 0) })
		if !complete {
			r.undecided(id, entry.Pos(), "too many paths")
			continue
		}
		var why []string
		kept, dropped := 0, 0
		for _, p := range ps {
			var unicast, v4 *bool
			feasible := true
			allFam := false
			for _, cd := range p.Conds {
				k, pol := normCond(cd)
				b := pol
				if v, ok := flags[k]; ok || k == "true" || k == "false" {
					if !ok {
						v = k == "true"
					}
					if pol != v {
						feasible = false // not the path this caller takes
					}
					allFam = allFam || v
					continue
				}
				if m := paramEqLiteral.FindStringSubmatch(k); m != nil {
					if cv, ok := consts[m[1]]; ok {
						if (cv == m[2]) != pol {
							feasible = false
						}
						continue
					}
				}
				switch {
				case strings.Contains(k, "(net.IP).IsGlobalUnicast("):
					unicast = &b
				case strings.Contains(k, "(net.IP).To4(") && strings.HasSuffix(k, " == nil)"):
					nb := !pol
					v4 = &nb
				case strings.Contains(k, "#1") && strings.Contains(k, ".(*net.IPNet)"), strings.Contains(k, "next(range("), strings.Contains(k, "net.Interfaces()"), strings.Contains(k, ".Addrs("), strings.Contains(k, "builtin len("), strings.Contains(k, ".Flags & 1)"), paramNilTest.MatchString(k):
				default:
					why = append(why, "whether an address is listed also depends on "+shorten(cd, 80))
				}
			}
			if !feasible {
				continue
			}
			if unicast == nil {
				continue
			}
			appended := p.eventIndex(0, "call", prefix("builtin append(")) >= 0
			if *unicast && !allFam && v4 == nil && !c.all {
				why = append(why, "an address is "+map[bool]string{true: "listed", false: "left out"}[appended]+" without its family being tested")
				continue
			}
			want := *unicast && (c.all || v4 != nil && *v4)
			if appended {
				kept++
			} else {
				dropped++
			}
			if appended != want {
				why = append(why, fmt.Sprintf("an address with unicast=%v, ipv4=%v is %s (all families wanted: %v)", *unicast, v4 != nil && *v4, map[bool]string{true: "listed", false: "left out"}[appended], c.all))
			}
		}
		if len(why) == 0 && (kept == 0 || dropped == 0) {
			why = append(why, fmt.Sprintf("%d paths list an address and %d leave one out: the global-unicast test is not on the way", kept, dropped))
		}
		r.check(len(why) == 0, id, entry.Pos(), "listed iff global unicast and (all families or IPv4)", strings.Join(dedupStrings(why), "; "))
	}
}

// a parameter of the entry compared with nil (a preset list, a test hook): decided before any address is looked at
var paramNilTest = regexp.MustCompile(`^\(?\$\d+(\.[A-Za-z_.]+)? == nil\)?$`)

var paramEqLiteral = regexp.MustCompile(`^\((\$\d+) == ([^ ()]+)\)$`)

// listsInterfaces: g (or a function of its package it calls, three levels deep) calls net.Interfaces.
func listsInterfaces(g *ssa.Function, depth int) bool {
	for _, b := range g.Blocks {
		for _, ins := range b.Instrs {
			call, ok := ins.(ssa.CallInstruction)
			if !ok {
				continue
			}
			h := staticCallee(call.Common())
			if h == nil {
				continue
			}
			if h.Pkg != nil && h.Pkg.Pkg.Path() == "net" && h.Name() == "Interfaces" {
				return true
			}
			if depth < 3 && h.Pkg == g.Pkg && h != g && listsInterfaces(h, depth+1) {
				return true
			}
		}
	}
	return false
}

func acceptBackoffClamped(r *R) {
	fn := r.method(mpkg, "Proxy", "Serve")
	n := 0
	isCeil := func(v ssa.Value) bool {
		k, ok := constInt(v)
		return ok && k > 0 && k <= 1_000_000_000
	}
	eachInstr(fn, func(ins ssa.Instruction) {
		c, ok := ins.(*ssa.Call)
		if !ok || calleeName(c.Common()) != "time.Sleep" {
			return
		}
		n++
		v := c.Common().Args[0]
		good := clampedBy(v, isCeil)
		if !good {
			// the delay computed by a helper split out of the loop: every value it returns is clamped
			if hc, ok := v.(*ssa.Call); ok {
				if g := staticCallee(hc.Common()); g != nil && isNewHelper(g) {
					rv := returnValues(g, 0)
					good = len(rv) > 0
					for _, x := range rv {
						if !clampedBy(x, isCeil) {
							good = false
						}
					}
					if !good {
						good = everyReturnAtMostASecond(g)
					}
				}
			}
		}
		r.check(good, "Proxy.Serve#backoff-ceiling", c.Pos(), "the delay is clamped to at most one second", "the accept back-off "+shorten(describe(v), 90)+" is not clamped from above: after a few consecutive temporary errors the loop sleeps for seconds or minutes while clients wait in the backlog")
	})
	if n == 0 {
		r.bad("Proxy.Serve#backoff-ceiling", fn.Pos(), "the accept loop does not back off")
	}
}

func mitmConnIsBuffered(r *R) {
	fn := r.method(mpkg, "proxyConn", "handleMITM")
	ps, complete := enumPaths(fn, 50000, 1)
	if !complete {
		r.undecided("handleMITM#conn-is-buffered", fn.Pos(), "too many paths")
		return
	}
	var why []string
	n := 0
	for _, p := range ps {
		ri := p.eventIndex(0, "call", prefix("(*bufio.Reader).Reset($0.brw.Reader, "))
		if ri < 0 {
			continue
		}
		x := strings.TrimSuffix(strings.TrimPrefix(p.Events[ri].Desc, "(*bufio.Reader).Reset($0.brw.Reader, "), ")")
		if !strings.HasPrefix(x, "crypto/tls.Server(") {
			continue // the client went on in plain text: the readers replay what was peeked in front of the same socket
		}
		n++
		conn, set := p.Mem["$0.conn"]
		if !set {
			conn = "$0.conn (unchanged: the raw client connection)"
		}
		if conn != x {
			why = append(why, "the readers are reset to "+shorten(x, 70)+" but the connection kept for tunnelling is "+shorten(conn, 70))
		}
	}
	r.check(n > 0 && len(why) == 0, "handleMITM#conn-is-buffered", fn.Pos(), fmt.Sprintf("%d paths switch to TLS, p.conn is the connection the readers use on each", n), strings.Join(dedupStrings(why), "; "))
}

// everyReturnAtMostASecond: the helper keeps the delay in a field; judged per path - what it returns is a literal of
// at most a second, or a value the path has just compared with such a literal and found not above it.
func everyReturnAtMostASecond(g *ssa.Function) bool {
	ps, complete := enumPaths(g, 1024, 1)
	if !complete || len(ps) == 0 {
		return false
	}
	small := func(lit string) bool {
		n, err := strconv.ParseInt(lit, 10, 64)
		return err == nil && n > 0 && n <= 1_000_000_000
	}
	for _, p := range ps {
		if len(p.Ret) == 0 || p.Ret[0] == "<panic>" {
			continue
		}
		ret := p.Ret[0]
		if small(ret) {
			continue
		}
		ok := false
		for _, c := range p.Conds {
			k, pol := normCond(c)
			for _, op := range []string{" <= ", " < "} {
				if pol && strings.HasPrefix(k, "("+ret+op) && small(strings.TrimSuffix(strings.TrimPrefix(k, "("+ret+op), ")")) {
					ok = true
				}
			}
		}
		if !ok {
			return false
		}
	}
	return true
}
