package main

import (
	"fmt"
	"strings"

	"golang.org/x/tools/go/ssa"
)

func init() {
	register("C15", "R1", 6, "the accept goroutine never waits for a peer: between Accept and the hand-off to the connection's own goroutine, Serve and the stacked listeners' Accept methods call no method of the accepted connection (a PROXY-protocol conn answers RemoteAddr only after the peer sent its header) and perform no handshake or read; nothing peer-dependent runs under the proxy-wide connection lock (C11.R1)", c15r1)
	register("C15", "R2", 6, "deadline ordering in readRequest: idle deadline set before waiting for the first byte; the header deadline is computed from a clock reading taken after the first byte arrived, set before the head is parsed; afterwards the whole-request deadline (possibly none) replaces it; idle uses IdleTimeout→ReadTimeout, header uses ReadHeaderTimeout→ReadTimeout", c15r2)
	register("C15", "R3", 2, "handshakes run in the connection's goroutine under their timeout: the listener TLS handshake and the MITM handshake use a context bounded by the configured timeout when it is positive", c15r3)
	register("C15", "R5", 5, "no client deadline is armed while the origin works: the connection's deadlines are set only by readRequest (read side: idle, header, whole request) and by writeResponse (write side: armed from the clock immediately before the response is written, cleared when it returns); a deadline armed anywhere else keeps running during the upstream exchange and cuts off a client whose origin is merely slow", c15r5)
	register("C15", "R4", 7, "wiring: martian's IdleTimeout, ReadHeaderTimeout, ReadTimeout, WriteTimeout, TLS and MITM handshake timeouts are assigned from the like-named configuration fields; the PROXY header timeout reaches proxyproto.Listener", c15r4)
}

func c15r1(r *R) {
	sv := r.method(mpkg, "Proxy", "Serve")
	// the accepted conn value
	var conn ssa.Value
	eachInstr(sv, func(ins ssa.Instruction) {
		if ex, ok := ins.(*ssa.Extract); ok && ex.Index == 0 {
			if c, ok := ex.Tuple.(*ssa.Call); ok && calleeName(c.Common()) == "invoke net.Listener.Accept" {
				conn = ex
			}
		}
	})
	if conn == nil {
		r.missing("accepted conn in Serve")
	}
	n := 0
	handed := false
	for _, ref := range *conn.Referrers() {
		switch x := ref.(type) {
		case *ssa.Go:
			n++
			ok := calleeName(x.Common()) == "(*martian.Proxy).handleLoop"
			handed = handed || ok
			r.check(ok, "Serve#hand-off", x.Pos(), "accepted conn handed to its own goroutine", "accepted conn handed to "+calleeName(x.Common()))
		case *ssa.DebugRef:
		case ssa.CallInstruction:
			n++
			if x.Common().IsInvoke() && x.Common().Value == conn {
				r.bad("Serve#conn."+x.Common().Method.Name(), x.Pos(), "the accept loop calls "+x.Common().Method.Name()+" on the accepted connection: with the PROXY protocol enabled this waits for the peer's header, so one stalled peer delays every later accept")
			} else {
				r.bad("Serve#conn-passed-to("+calleeName(x.Common())+")", x.Pos(), "the accepted connection is used in the accept loop before the hand-off")
			}
		default:
			// any other use (e.g. boxing for a log argument) of the conn before the hand-off
			if v, ok := ref.(ssa.Value); ok {
				for _, rr := range *v.Referrers() {
					if c, ok := rr.(ssa.CallInstruction); ok {
						if _, isGo := rr.(*ssa.Go); !isGo {
							n++
							r.bad("Serve#conn-used-by("+calleeName(c.Common())+")", rr.Pos(), "the accepted connection is used in the accept loop before the hand-off")
						}
					}
				}
			}
		}
	}
	if !handed {
		r.bad("Serve#hand-off", sv.Pos(), "accepted connections are not handed to a goroutine of their own")
	}
	// the stacked listeners
	for _, l := range []struct{ pkg, typ string }{{".", "Listener"}, {"ratelimit", "Listener"}, {"proxyproto", "Listener"}} {
		fn := r.method(l.pkg, l.typ, "Accept")
		var bad []string
		eachInstr(fn, func(ins ssa.Instruction) {
			c, ok := ins.(ssa.CallInstruction)
			if !ok {
				return
			}
			cn := calleeName(c.Common())
			switch {
			case strings.HasPrefix(cn, "invoke net.Conn."):
				bad = append(bad, cn)
			case strings.Contains(cn, "Handshake") || strings.Contains(cn, "readHeader") || strings.Contains(cn, ".Peek") || cn == "io.ReadFull" || strings.HasSuffix(cn, ".Read"):
				bad = append(bad, cn)
			}
		})
		name := shortPkg(modPath+"/"+l.pkg) + "." + l.typ
		if l.pkg == "." {
			name = "forwarder." + l.typ
		}
		r.check(len(bad) == 0, name+".Accept#non-blocking", fn.Pos(), "wraps the accepted conn without touching the peer", "Accept waits for the peer: "+strings.Join(bad, ", "))
	}
	// TLS handshake happens in the connection goroutine
	mh := r.method(mpkg, "proxyConn", "maybeHandshakeTLS")
	callers := 0
	for _, fn := range r.modFuncs() {
		for range callsToFunc(fn, mh) {
			callers++
			r.check(fname(fn) == "(*martian.Proxy).handleLoop", fname(fn)+"#maybeHandshakeTLS", fn.Pos(), "handshake runs in the connection goroutine", "listener TLS handshake is performed in "+fname(fn))
		}
	}
	if callers == 0 {
		r.bad("maybeHandshakeTLS#caller", mh.Pos(), "listener TLS handshake is never performed by the connection goroutine")
	}
	c11r1lockOnly(r)
}

// c11r1lockOnly re-checks the "nothing peer-dependent under connsMu" clause under this rule.
func c11r1lockOnly(r *R) {
	hl := r.method(mpkg, "Proxy", "handleLoop")
	fns := []*ssa.Function{hl}
	eachInstr(hl, func(ins ssa.Instruction) {
		if c, ok := ins.(*ssa.Call); ok {
			if sc := staticCallee(c.Common()); sc != nil && strings.HasPrefix(fname(sc), "(*martian.Proxy).") && len(sc.Blocks) > 0 && refName(sc) != "closing" {
				fns = append(fns, sc)
			}
		}
	})
	for _, fn := range fns {
		ls := lockset(fn)
		eachInstr(fn, func(ins ssa.Instruction) {
			c, ok := ins.(ssa.CallInstruction)
			if !ok || !holdsSuffix(ls[ins], ".connsMu") {
				return
			}
			if _, isDefer := ins.(*ssa.Defer); isDefer {
				return
			}
			cn := calleeName(c.Common())
			allowed := cn == "(*sync.Mutex).Unlock" || cn == "(*sync/atomic.Int32).Add" || cn == "builtin delete" || cn == "builtin len"
			r.check(allowed, fname(fn)+"#under-connsMu("+cn+")", ins.Pos(), "bookkeeping only", cn+" is called while the proxy-wide connection lock is held: if it waits for the peer every other connection waits too")
		})
	}
}

func c15r2(r *R) {
	rr := r.method(mpkg, "proxyConn", "readRequest")
	// instruction-level: identify the three SetReadDeadline calls, Peek, ReadRequest. A deadline set through a
	// helper split out of readRequest counts at the place the helper is called, with the argument it is given.
	type deadline struct {
		site ssa.Instruction
		arg  ssa.Value
	}
	var sets []deadline
	var peek, read *ssa.Call
	eachInstr(rr, func(ins ssa.Instruction) {
		c, ok := ins.(*ssa.Call)
		if !ok {
			return
		}
		switch calleeName(c.Common()) {
		case "invoke net.Conn.SetReadDeadline":
			arg := refArgs(c.Common())[0]
			for i := 0; i < 3; i++ {
				prm, isP := arg.(*ssa.Parameter)
				if !isP {
					break
				}
				a, ok := resolveParam(prm)
				if !ok {
					break
				}
				arg = a
			}
			sets = append(sets, deadline{siteOf(ins), arg})
		case "(*bufio.Reader).Peek":
			if c.Parent() == rr {
				peek = c
			}
		case "net/http.ReadRequest":
			if c.Parent() == rr {
				read = c
			}
		}
	})
	if len(sets) != 3 || peek == nil || read == nil {
		r.bad("readRequest#shape", rr.Pos(), fmt.Sprintf("expected three SetReadDeadline calls, a Peek and a ReadRequest; found %d deadlines", len(sets)))
		return
	}
	idle, hdr, whole := sets[0], sets[1], sets[2]
	r.check(instrDominates(idle.site, peek) && describe(refArgs(peek.Common())[1]) == "1", "readRequest#idle-before-wait", idle.site.Pos(), "idle deadline armed before waiting for the first byte", "the wait for the next request is not covered by the idle deadline")
	r.check(instrDominates(peek, hdr.site) && instrDominates(hdr.site, read), "readRequest#header-deadline-window", hdr.site.Pos(), "header deadline armed after the first byte and before the head is parsed", "header deadline is not armed between the first byte and the parse")
	r.check(instrDominates(read, whole.site), "readRequest#whole-after-head", whole.site.Pos(), "whole-request deadline replaces the header deadline after the head", "deadline not re-armed after the head")
	// clock readings
	clockOf := func(v ssa.Value) []*ssa.Call {
		var out []*ssa.Call
		backwardAll(v, func(x ssa.Value) {
			if c, ok := x.(*ssa.Call); ok && calleeName(c.Common()) == "time.Now" {
				out = append(out, c)
			}
		})
		return out
	}
	for _, s := range []struct {
		name string
		call deadline
		dur  string
	}{{"header", hdr, "(*martian.Proxy).readHeaderTimeout($0.Proxy)"}, {"whole-request", whole, "$0.Proxy.ReadTimeout"}} {
		clocks := clockOf(s.call.arg)
		okc := len(clocks) > 0
		for _, c := range clocks {
			if !instrDominates(peek, c) {
				okc = false
			}
		}
		d := describe(s.call.arg)
		dur := s.dur
		usesDur := strings.Contains(d, dur) || dependsOn(s.call.arg, func(v ssa.Value) bool { return describe(v) == dur })
		r.check(okc && usesDur, "readRequest#"+s.name+"-deadline-base", s.call.site.Pos(), "computed from a clock reading taken after the first byte, plus "+s.dur, "the "+s.name+" deadline is "+d+"; it must be counted from a clock reading taken after the first byte of the request arrived, with "+s.dur)
	}
	d := describe(idle.arg)
	r.check(strings.Contains(d, "(*martian.Proxy).idleTimeout($0.Proxy)") || dependsOn(idle.arg, func(v ssa.Value) bool { return describe(v) == "(*martian.Proxy).idleTimeout($0.Proxy)" }), "readRequest#idle-duration", idle.site.Pos(), "idle deadline uses idleTimeout()", "idle deadline is "+d)
	// zero deadline when the timeout is not positive
	for idx, s := range []struct {
		call deadline
		cond string
	}{{idle, "((*martian.Proxy).idleTimeout($0.Proxy) > 0)"}, {hdr, "((*martian.Proxy).readHeaderTimeout($0.Proxy) > 0)"}} {
		phi, ok := s.call.arg.(*ssa.Phi)
		good := false
		if ok {
			for i, e := range phi.Edges {
				if _, isC := e.(*ssa.Const); isC || strings.HasPrefix(describe(e), "local:") {
					continue
				}
				pred := phi.Block().Preds[i]
				good = guardedBy(pred, eq(s.cond))
			}
		}
		if !ok && !strings.Contains(describe(s.call.arg), "phi(") {
			// the deadline does not merge right here (it comes out of a helper or a struct): decide it on the paths
			good = zeroWhenOffOnPaths(rr, s.cond, idx)
		}
		r.check(good || !ok && strings.Contains(describe(s.call.arg), "phi("), "readRequest#zero-when-off("+s.cond+")", s.call.site.Pos(), "a non-positive timeout means no deadline", "deadline armed although the timeout is not positive")
	}
	// fallbacks
	for _, s := range []struct{ fn, own string }{{"idleTimeout", "$0.IdleTimeout"}, {"readHeaderTimeout", "$0.ReadHeaderTimeout"}} {
		fn := r.method(mpkg, "Proxy", s.fn)
		ps, _ := enumPaths(fn, 8, 1)
		good := len(ps) == 2
		for _, p := range ps {
			if p.holds("(" + s.own + " > 0)") {
				good = good && p.Ret[0] == s.own
			} else {
				good = good && p.Ret[0] == "$0.ReadTimeout"
			}
		}
		r.check(good, "Proxy."+s.fn, fn.Pos(), s.own+" when positive, else ReadTimeout", s.fn+" fallback changed")
	}
}

// backwardAll visits every value in the provenance of v (through phis, loads of locals, calls' operands).
func backwardAll(v ssa.Value, visit func(ssa.Value)) {
	dependsOn(v, func(x ssa.Value) bool { visit(x); return false })
}

func c15r3(r *R) {
	mh := r.method(mpkg, "proxyConn", "maybeHandshakeTLS")
	ps, _ := enumPaths(mh, 64, 1)
	var why []string
	n := 0
	for _, p := range ps {
		hi := p.eventIndex(0, "call", prefix("(*crypto/tls.Conn).HandshakeContext("))
		if hi < 0 {
			continue
		}
		n++
		pos := p.holds("($0.Proxy.TLSHandshakeTimeout > 0)")
		bounded := strings.Contains(p.Events[hi].Desc, "context.WithTimeout(context.Background(), $0.Proxy.TLSHandshakeTimeout)#0")
		if pos != bounded {
			why = append(why, fmt.Sprintf("timeout positive=%v but handshake bounded by it=%v", pos, bounded))
		}
	}
	r.check(n >= 2 && len(why) == 0, "maybeHandshakeTLS#timeout", mh.Pos(), "handshake context bounded by TLSHandshakeTimeout when positive", strings.Join(why, "; "))
	hm := r.method(mpkg, "proxyConn", "handleMITM")
	// path by path (whatever shape the code has: if/else, default then override, a helper): the handshake context
	// is WithTimeout(…, MITMTLSHandshakeTimeout) exactly on the paths where that timeout is positive
	good := false
	{
		hps, complete := enumPaths(hm, 50000, 1)
		nm, nBounded := 0, 0
		okAll := complete
		for _, p := range hps {
			hi := p.eventIndex(0, "call", prefix("(*crypto/tls.Conn).HandshakeContext("))
			if hi < 0 {
				continue
			}
			nm++
			pos := p.holds("($0.Proxy.MITMTLSHandshakeTimeout > 0)")
			d := p.Events[hi].Desc
			bounded := strings.Contains(d, "context.WithTimeout(") && strings.Contains(d, ", $0.Proxy.MITMTLSHandshakeTimeout)#0")
			if pos != bounded {
				okAll = false
			}
			if bounded {
				nBounded++
			}
		}
		good = okAll && nm >= 2 && nBounded >= 1 // a handshake that is never bounded is not bounded "when the timeout is positive"
	}
	r.check(good, "handleMITM#handshake-timeout", hm.Pos(), "MITM handshake bounded by MITMTLSHandshakeTimeout when positive", "the MITM handshake is not bounded by its configured timeout")
}

func c15r4(r *R) {
	want := map[string]string{
		".proxy.IdleTimeout":             ".config.HTTPServerConfig.IdleTimeout",
		".proxy.ReadHeaderTimeout":       ".config.HTTPServerConfig.ReadHeaderTimeout",
		".proxy.ReadTimeout":             ".config.HTTPServerConfig.ReadTimeout",
		".proxy.WriteTimeout":            ".config.HTTPServerConfig.WriteTimeout",
		".proxy.TLSHandshakeTimeout":     ".config.HTTPServerConfig.TLSServerConfig.HandshakeTimeout",
		".proxy.MITMTLSHandshakeTimeout": ".config.HTTPServerConfig.TLSServerConfig.HandshakeTimeout",
	}
	seen := map[string]bool{}
	for _, fn := range r.modFuncs() {
		if !strings.HasPrefix(fname(fn), "(*forwarder.HTTPProxy).configureProxy") {
			continue
		}
		eachInstr(fn, func(ins ssa.Instruction) {
			st, ok := ins.(*ssa.Store)
			if !ok {
				return
			}
			a := describe(st.Addr)
			// a field of the martian.Proxy being configured, whether it is reached through hp.proxy or is the literal
			// that becomes hp.proxy
			if fa, ok := st.Addr.(*ssa.FieldAddr); ok && structName(fa.X.Type()) == "martian.Proxy" {
				a = ".proxy." + fieldName(fa.X.Type(), fa.Field)
			}
			for suffix, src := range want {
				if strings.HasSuffix(a, suffix) {
					seen[suffix] = true
					v := describe(st.Val)
					r.check(strings.HasSuffix(v, src), "configureProxy#"+strings.TrimPrefix(suffix, ".proxy."), st.Pos(), "← "+strings.TrimPrefix(src, ".config."), strings.TrimPrefix(suffix, ".proxy.")+" is wired from "+v+", expected "+src)
				}
			}
		})
	}
	for k := range want {
		if !seen[k] {
			r.bad("configureProxy#"+strings.TrimPrefix(k, ".proxy."), r.method(".", "HTTPProxy", "configureProxy").Pos(), "timeout is not wired to the proxy")
		}
	}
	// PROXY header timeout
	found := false
	for _, fn := range r.modFuncs() {
		eachInstr(fn, func(ins ssa.Instruction) {
			st, ok := ins.(*ssa.Store)
			if !ok {
				return
			}
			if fa, ok := st.Addr.(*ssa.FieldAddr); ok && structName(fa.X.Type()) == "proxyproto.Listener" && fieldName(fa.X.Type(), fa.Field) == "ReadHeaderTimeout" {
				found = true
				r.check(strings.HasSuffix(describe(st.Val), "ProxyProtocolConfig.ReadHeaderTimeout"), fname(fn)+"#proxyproto.ReadHeaderTimeout", st.Pos(), "← ProxyProtocolConfig.ReadHeaderTimeout", "PROXY header timeout wired from "+describe(st.Val))
			}
		})
	}
	if !found {
		r.bad("Listener.Listen#proxyproto.ReadHeaderTimeout", r.method(".", "Listener", "Listen").Pos(), "PROXY header timeout is not passed to the listener")
	}
}

func c15r5(r *R) {
	// census: only readRequest (read side) and writeResponse (write side) touch the client connection's deadlines.
	// Calls are attributed to the reference function they belong to (its literals and split-out helpers included).
	type site struct{ fn, method string }
	allowed := map[site]int{
		{"(*martian.proxyConn).readRequest", "SetReadDeadline"}:    3,
		{"(*martian.proxyConn).writeResponse", "SetWriteDeadline"}: 2, // armed, and cleared on exit
	}
	got := map[site]int{}
	for _, fn := range r.modFuncs() {
		n := fname(fn)
		if !(strings.HasPrefix(n, "(*martian.") || strings.HasPrefix(n, "martian.") || strings.HasPrefix(n, "(martian.")) {
			continue
		}
		eachInstr(fn, func(ins ssa.Instruction) {
			c, ok := ins.(ssa.CallInstruction)
			if !ok {
				return
			}
			m := methodName(c.Common())
			if m != "SetDeadline" && m != "SetReadDeadline" && m != "SetWriteDeadline" {
				return
			}
			s := site{outerName(n), m}
			got[s]++
			if _, ok := allowed[s]; !ok {
				r.bad(n+"#"+m, c.Pos(), m+" is called outside the two places that own the client connection's deadlines; a deadline armed here keeps running while the origin is answering (or is never cleared)")
				return
			}
			r.ok(fmt.Sprintf("%s#%s@%d", s.fn, m, got[s]), c.Pos(), "deadline call in the function that owns this side's deadlines (ordering and values decided below / by C15.R2)")
		})
	}
	for s, want := range allowed {
		if got[s] != want {
			r.bad(s.fn+"#"+s.method+"#count", r.method("internal/martian", "proxyConn", "writeResponse").Pos(), fmt.Sprintf("%s calls %s %d times, the reviewed code does so %d times: a deadline is no longer armed or cleared where it was", s.fn, s.method, got[s], want))
		}
	}
	// the write deadline, path by path: armed with now+WriteTimeout before the first write exactly when the
	// timeout is positive, and cleared (zero time) after the last write on the way out
	wr := r.method("internal/martian", "proxyConn", "writeResponse")
	// the deferred literal that clears the deadline is walked where the defers run
	ps, complete := enumPathsInline(wr, 20000, 1, func(c *ssa.Function) bool { return c.Parent() == wr })
	if !complete {
		r.undecided("writeResponse#arm-write-clear", wr.Pos(), "too many paths")
		return
	}
	var why []string
	nOn := 0
	for _, p := range ps {
		on, known := p.outcome("($0.Proxy.WriteTimeout > 0)")
		if !known {
			on, known = p.outcome("($0.WriteTimeout > 0)")
		}
		var sets []int
		firstWrite, lastWrite := -1, -1
		for i, e := range p.Events {
			if e.Kind != "call" {
				continue
			}
			switch {
			case strings.HasPrefix(e.Desc, "invoke net.Conn.SetWriteDeadline("):
				sets = append(sets, i)
			case strings.HasPrefix(e.Desc, "(*net/http.Response).Write(") || strings.Contains(e.Desc, "writeHeaderOnlyResponse(") || strings.Contains(e.Desc, "writeUpgradeResponse(") || strings.HasPrefix(e.Desc, "(*bufio.Writer).Flush("):
				if firstWrite < 0 {
					firstWrite = i
				}
				lastWrite = i
			}
		}
		argOf := func(i int) string {
			d := p.Events[i].Desc
			return strings.TrimSuffix(d[strings.Index(d, ", ")+2:], ")")
		}
		switch {
		case known && on:
			nOn++
			if len(sets) < 2 {
				why = append(why, fmt.Sprintf("with a positive WriteTimeout the deadline is set %d times on a path (armed and cleared expected)", len(sets)))
				continue
			}
			arm, clr := argOf(sets[0]), argOf(sets[len(sets)-1])
			if arm != "(time.Time).Add(time.Now(), $0.Proxy.WriteTimeout)" && arm != "(time.Time).Add(time.Now(), $0.WriteTimeout)" {
				why = append(why, "write deadline armed with "+shorten(arm, 70))
			}
			if firstWrite >= 0 && sets[0] > firstWrite {
				why = append(why, "the write deadline is armed after a write")
			}
			if clr != "nil" || lastWrite >= 0 && sets[len(sets)-1] < lastWrite {
				why = append(why, "the write deadline is not cleared after the last write (last call sets "+shorten(clr, 50)+")")
			}
		default:
			for _, i := range sets {
				if a := argOf(i); a != "nil" {
					why = append(why, "a write deadline ("+shorten(a, 60)+") is armed although WriteTimeout is not known to be positive")
				}
			}
		}
	}
	r.check(nOn > 0 && len(why) == 0, "writeResponse#arm-write-clear", wr.Pos(), fmt.Sprintf("%d paths with a positive WriteTimeout: armed with now+WriteTimeout before the first write, cleared after the last", nOn), strings.Join(dedupStrings(why), "; "))
}

// zeroWhenOffOnPaths: on every path of readRequest the idx-th read deadline that is set is computed from
// the clock exactly when cond holds (a non-positive timeout leaves the zero time, i.e. no deadline).
func zeroWhenOffOnPaths(rr *ssa.Function, cond string, idx int) bool {
	ps, _ := enumPaths(rr, 20000, 1)
	n := 0
	for _, p := range ps {
		var args []string
		for _, e := range p.Events {
			if e.Kind == "call" && strings.HasPrefix(e.Desc, "invoke net.Conn.SetReadDeadline(") {
				i := strings.Index(e.Desc, ", ")
				args = append(args, strings.TrimSuffix(e.Desc[i+2:], ")"))
			}
		}
		if idx >= len(args) {
			continue
		}
		n++
		fromClock := strings.Contains(args[idx], "time.Now()")
		if fromClock != p.holds(cond) {
			return false
		}
	}
	return n > 0
}

// boundedByHelper: ctx comes out of a helper split out of the handshake code - `helper(parent, timeout)`
// returning context.WithTimeout(parent, timeout) when timeout > 0 and parent otherwise - and the timeout it is
// given is the configured one.
func boundedByHelper(ctx ssa.Value, wantTimeout string) bool {
	idx := 0
	if ex, ok := ctx.(*ssa.Extract); ok {
		idx = ex.Index
		ctx = ex.Tuple
	}
	c, ok := ctx.(*ssa.Call)
	if !ok {
		return false
	}
	g := staticCallee(c.Common())
	if g == nil || !isNewHelper(g) {
		return false
	}
	// which parameter is the timeout: the one whose argument here is the configured timeout
	tp := -1
	for i, a := range c.Common().Args {
		if describe(a) == wantTimeout {
			tp = i
		}
	}
	if tp < 0 || tp >= len(g.Params) {
		return false
	}
	sawBounded, sawPlain := false, false
	for _, b := range g.Blocks {
		for _, ins := range b.Instrs {
			ret, ok := ins.(*ssa.Return)
			if !ok || idx >= len(ret.Results) {
				continue
			}
			var vals []ssa.Value
			var preds []*ssa.BasicBlock
			if phi, ok := ret.Results[idx].(*ssa.Phi); ok {
				vals, preds = phi.Edges, phi.Block().Preds
			} else {
				vals, preds = []ssa.Value{ret.Results[idx]}, []*ssa.BasicBlock{b}
			}
			for i, v := range vals {
				var wt *ssa.Call
				if ex, ok := v.(*ssa.Extract); ok {
					wt, _ = ex.Tuple.(*ssa.Call)
				}
				positive := guardedBy(preds[i], func(gs string) bool {
					k, pol := normCond(gs)
					l, op, rr, ok := splitTop(k)
					return ok && !pol && op == "<=" && rr == "0" && l == describeRaw(g.Params[tp])
				})
				if wt != nil && calleeName(wt.Common()) == "context.WithTimeout" && refArgs(wt.Common())[1] == ssa.Value(g.Params[tp]) && positive {
					sawBounded = true
				} else if _, isParam := v.(*ssa.Parameter); isParam && !positive {
					sawPlain = true
				}
			}
		}
	}
	return sawBounded && sawPlain
}

// describeRaw prints a parameter as $k regardless of call-site substitutions.
func describeRaw(p *ssa.Parameter) string {
	for i, q := range p.Parent().Params {
		if q == p {
			return fmt.Sprintf("$%d", i)
		}
	}
	return "$?"
}
