package main

import (
	"strings"

	"golang.org/x/tools/go/ssa"
)

func init() {
	register("C17", "R1", 1, "where rule sources ((*regexp.Regexp).String()) are concatenated into one pattern that is compiled, each operand is bracketed by a non-capturing group, so that one rule's flags/alternation cannot change another's meaning", c17r1)
	register("C17", "R2", 3, "decision tables of match/Match/Inverse: match = not(exclude set and exclude matches) and include set and include matches; Match negates iff inverse; Inverse copies both expressions and flips the flag", c17r2)
	register("C17", "R3", 4, "list partition: items with Exclude go to the exclude argument, the others to the include argument; '-' is cut once and the remainder compiled; an empty include list is an error", c17r3)
	register("C17", "R4", 3, "deny/direct/mitm domain lists are built by NewRegexpMatcherFromList and matched on URL.Hostname()", c17r4)
}

func isRegexpString(v ssa.Value) bool {
	c, ok := v.(*ssa.Call)
	return ok && calleeName(c.Common()) == "(*regexp.Regexp).String"
}

func c17r1(r *R) {
	pkg := r.pkg("ruleset")
	for _, m := range pkg.Members {
		top, ok := m.(*ssa.Function)
		if !ok {
			continue
		}
		for _, fn := range withClosures(top) {
			compiles := len(calls(fn, nameIs("regexp.MustCompile", "regexp.Compile"))) > 0
			if !compiles {
				continue
			}
			for _, c := range calls(fn, nameIs("(*regexp.Regexp).String")) {
				src := c.(*ssa.Call)
				key := fname(fn) + "#operand(" + describe(src) + ")"
				refs := *src.Referrers()
				decided := false
				for _, ref := range refs {
					switch u := ref.(type) {
					case *ssa.Call:
						if calleeName(u.Common()) != "(*strings.Builder).WriteString" {
							continue
						}
						decided = true
						// previous and next write to the same builder inside the block
						b := u.Block()
						var prev, next string
						havePrev, haveNext := false, false
						idx := instrIndex(u)
						for i := idx - 1; i >= 0 && !havePrev; i-- {
							if w, ok := b.Instrs[i].(*ssa.Call); ok && calleeName(w.Common()) == "(*strings.Builder).WriteString" && refArgs(w.Common())[0] == refArgs(u.Common())[0] {
								prev, havePrev = constString(refArgs(w.Common())[1])
								break
							}
						}
						for i := idx + 1; i < len(b.Instrs) && !haveNext; i++ {
							if w, ok := b.Instrs[i].(*ssa.Call); ok && calleeName(w.Common()) == "(*strings.Builder).WriteString" && refArgs(w.Common())[0] == refArgs(u.Common())[0] {
								next, haveNext = constString(refArgs(w.Common())[1])
								break
							}
						}
						good := havePrev && haveNext && strings.HasSuffix(prev, "(?:") && strings.HasPrefix(next, ")")
						r.check(good, key, u.Pos(),
							"operand is written between \"(?:\" and \")\"",
							"rule source is concatenated into the combined pattern without its own group: an inline flag or a top-level alternation of one rule changes how the other rules are read")
					case *ssa.BinOp:
						decided = true
						// the whole concatenation, described
						top := ssa.Value(u)
						for {
							up := false
							for _, rr := range *top.Referrers() {
								if bo, ok := rr.(*ssa.BinOp); ok {
									top, up = bo, true
								}
							}
							if !up {
								break
							}
						}
						d := describe(top)
						good := strings.Contains(d, "\"(?:\" + "+describe(src)+") + \")")
						r.check(good, key, u.Pos(), "operand concatenated as \"(?:\"+src+\")\"", "rule source concatenated without its own group: "+d)
					}
				}
				if !decided {
					r.undecided(key, src.Pos(), "rule source flows into a compiled pattern through a construct the rule does not know")
				}
			}
		}
	}
}

func c17r2(r *R) {
	match := r.methodOpt("ruleset", "RegexpMatcher", "match")
	if match == nil {
		c17r2Inlined(r) // the private helper was merged into Match
		return
	}
	atoms := map[string]string{
		"($0.exclude != nil)": "E", "(*regexp.Regexp).MatchString($0.exclude, $1)": "EM",
		"($0.include != nil)": "I", "(*regexp.Regexp).MatchString($0.include, $1)": "IM",
		"($0.exclude == nil)": "notE", "($0.include == nil)": "notI",
	}
	// == nil spellings are mapped by negation below
	norm := map[string]string{}
	for k, v := range atoms {
		if !strings.HasPrefix(v, "not") {
			norm[k] = v
		}
	}
	mm, ok := decisionTable(match, norm, 0, func(a map[string]bool) bool {
		return !(a["E"] && a["EM"]) && a["I"] && a["IM"]
	})
	construct := "ruleset.(*RegexpMatcher).match"
	switch {
	case !ok:
		r.undecided(construct, match.Pos(), strings.Join(mm, "; "))
	case len(mm) > 0:
		r.bad(construct, match.Pos(), "decision table differs from 'no exclude rule matches and some include rule matches': "+strings.Join(mm, "; "))
	default:
		r.ok(construct, match.Pos(), "16 assignments of {exclude set, exclude matches, include set, include matches} agree with the specification")
	}

	Match := r.method("ruleset", "RegexpMatcher", "Match")
	mm, ok = decisionTable(Match, map[string]string{"$0.inverse": "inv", "(*ruleset.RegexpMatcher).match($0, $1)": "m"}, 0, func(a map[string]bool) bool {
		return a["m"] != a["inv"]
	})
	switch {
	case !ok:
		r.undecided("ruleset.(*RegexpMatcher).Match", Match.Pos(), strings.Join(mm, "; "))
	case len(mm) > 0:
		r.bad("ruleset.(*RegexpMatcher).Match", Match.Pos(), "Match must be match XOR inverse: "+strings.Join(mm, "; "))
	default:
		r.ok("ruleset.(*RegexpMatcher).Match", Match.Pos(), "Match = match XOR inverse on the same receiver and argument")
	}

	inv := r.method("ruleset", "RegexpMatcher", "Inverse")
	ps, complete := enumPaths(inv, 16, 1)
	if !complete || len(ps) != 1 {
		r.undecided("ruleset.(*RegexpMatcher).Inverse", inv.Pos(), "expected a single straight-line path")
		return
	}
	p := ps[0]
	base := p.Ret[0]
	good := p.Mem[base+".include"] == "$0.include" && p.Mem[base+".exclude"] == "$0.exclude" && p.Mem[base+".inverse"] == "!$0.inverse"
	r.check(good, "ruleset.(*RegexpMatcher).Inverse", inv.Pos(), "copies include and exclude, stores !inverse",
		"Inverse must copy include and exclude and flip inverse; got include="+p.Mem[base+".include"]+" exclude="+p.Mem[base+".exclude"]+" inverse="+p.Mem[base+".inverse"])
}

func c17r3(r *R) {
	fl := r.fn("ruleset", "NewRegexpMatcherFromList")
	cs := callsToFunc(fl, r.fn("ruleset", "NewRegexpMatcher"))
	if len(cs) != 1 {
		r.undecided("NewRegexpMatcherFromList#NewRegexpMatcher", fl.Pos(), "expected exactly one call of NewRegexpMatcher")
	} else {
		args := cs[0].Common().Args
		for i, want := range []string{"include", "exclude"} {
			n := 0
			okAll := true
			var why string
			backward(args[i], func(v ssa.Value) bool {
				c, ok := v.(*ssa.Call)
				if !ok || calleeName(c.Common()) != "builtin append" {
					return false
				}
				n++
				gs := guardsUp(c)
				excl, incl := false, false
				for _, s := range gs {
					if strings.HasSuffix(s, ".Exclude") {
						if strings.HasPrefix(s, "!") {
							incl = true
						} else {
							excl = true
						}
					}
				}
				va := variadicArgs(refArgs(c.Common())[1])
				elemOK := len(va) == 1 && strings.HasSuffix(describe(va[0]), ".Regexp")
				// ... and by nothing else: any further condition lets an item fall into neither list
				for _, g := range gs {
					gg := strings.TrimLeft(g, "!")
					if strings.HasSuffix(gg, ".Exclude") || strings.Contains(gg, "builtin len($0)") || strings.HasPrefix(gg, "next(range($0))") {
						continue
					}
					okAll = false
					why = "append at " + r.rel(c.Pos()) + " happens only when " + g + ": a rule that fails this test is dropped from the list"
				}
				if why != "" {
					return false
				}
				if want == "exclude" && !excl || want == "include" && !incl || !elemOK {
					okAll = false
					why = "append at " + r.rel(c.Pos()) + " feeds the " + want + " argument but is guarded by " + strings.Join(gs, ",") + " elem=" + describe(refArgs(c.Common())[1])
				}
				return false
			})
			r.check(okAll && n > 0, "NewRegexpMatcherFromList#"+want, cs[0].Pos(), want+" argument collects exactly the items whose Exclude flag is "+map[string]string{"include": "false", "exclude": "true"}[want], "list partition broken: "+why)
		}
	}
	// ParseRegexpListItem
	pf := r.fn("ruleset", "ParseRegexpListItem")
	ps, complete := enumPaths(pf, 64, 1)
	good := complete
	var why []string
	nOK := 0
	for _, p := range ps {
		if p.Ret[1] == "nil" {
			nOK++
			base := p.Ret[0]
			// the pattern that is compiled and the flag, in either spelling: CutPrefix, or HasPrefix plus slicing
			re, ex := p.Mem[base+".Regexp"], p.Mem[base+".Exclude"]
			const cut = "strings.CutPrefix($0, \"-\")"
			const has = "strings.HasPrefix($0, \"-\")"
			pat := ""
			switch {
			case re == "regexp.Compile("+cut+"#0)#0" && ex == cut+"#1":
				pat = cut + "#0"
			case p.holds(has) && (re == "regexp.Compile($0[1:])#0" || re == "regexp.Compile(strings.TrimPrefix($0, \"-\"))#0") && (ex == "true" || ex == has):
				pat = strings.TrimSuffix(strings.TrimPrefix(re, "regexp.Compile("), ")#0")
			case p.holds("!"+has) && re == "regexp.Compile($0)#0" && (ex == "false" || ex == has):
				pat = "$0"
			}
			if pat == "" {
				good = false
				why = append(why, "success path stores Regexp="+re+" Exclude="+ex)
			} else if !p.holds("!(regexp.Compile(" + pat + ")#1 != nil)") {
				good = false
				why = append(why, "success not guarded by Compile error == nil")
			}
		}
	}
	r.check(good && (nOK == 1 || nOK == 2), "ruleset.ParseRegexpListItem", pf.Pos(), "one leading '-' cut (strings.CutPrefix), remainder compiled, flag = whether the prefix was present", "ParseRegexpListItem shape: "+strings.Join(why, "; "))

	// ErrNoIncludeRules on empty include
	nm := r.fn("ruleset", "NewRegexpMatcher")
	ps, _ = enumPaths(nm, 64, 1)
	good = false
	bad := ""
	for _, p := range ps {
		empty := p.hasCond(func(c string) bool { return c == "(builtin len($0) == 0)" })
		if empty && len(p.Ret) == 2 && p.Ret[1] == "ruleset.ErrNoIncludeRules" {
			good = true
		}
		if empty && len(p.Ret) == 2 && p.Ret[1] == "nil" {
			bad = "empty include list is accepted"
		}
		if !empty && len(p.Ret) == 2 && p.Ret[1] == "nil" {
			base := p.Ret[0]
			// by value flow in the function itself, or (the literal is built by a shared constructor) by the terms the
			// returned matcher's fields hold on this path
			inc, exc := p.Mem[base+".include"], p.Mem[base+".exclude"]
			byTerms := strings.HasSuffix(inc, "($0)") && strings.HasSuffix(exc, "($1)") && strings.TrimSuffix(inc, "($0)") == strings.TrimSuffix(exc, "($1)")
			if !(fieldFromParam(nm, "include", 0, 1) && fieldFromParam(nm, "exclude", 1, 0)) && !byTerms {
				bad = "matcher built with include=" + p.Mem[base+".include"] + " exclude=" + p.Mem[base+".exclude"]
			}
		}
	}
	r.check(good && bad == "", "ruleset.NewRegexpMatcher", nm.Pos(), "empty include list yields ErrNoIncludeRules; include built from arg 0, exclude from arg 1", "NewRegexpMatcher: "+bad)
}

func c17r4(r *R) {
	// every construction of a RegexpMatcher outside package ruleset goes through NewRegexpMatcherFromList
	target := r.fn("ruleset", "NewRegexpMatcherFromList")
	direct := r.fn("ruleset", "NewRegexpMatcher")
	n := 0
	for _, fn := range r.modFuncs() {
		if strings.HasPrefix(fname(fn), "ruleset.") || strings.HasPrefix(fname(fn), "(*ruleset.") {
			continue
		}
		for _, c := range callsToFunc(fn, direct) {
			r.bad(fname(fn)+"#NewRegexpMatcher", c.Pos(), "domain list built without the '-' partition of NewRegexpMatcherFromList")
		}
		for _, c := range callsToFunc(fn, target) {
			n++
			r.ok(fname(fn)+"#NewRegexpMatcherFromList", c.Pos(), "list built through the partitioning constructor")
		}
	}
	// Match call sites in the proxy: argument is URL.Hostname()
	for _, fn := range r.modFuncs() {
		if !strings.HasPrefix(fname(fn), "(*forwarder.HTTPProxy)") {
			continue
		}
		eachInstr(fn, func(ins ssa.Instruction) {
			c, ok := ins.(ssa.CallInstruction)
			if !ok {
				return
			}
			cn := calleeName(c.Common())
			if cn != "(*ruleset.RegexpMatcher).Match" && !(c.Common().IsInvoke() && strings.HasSuffix(cn, "forwarder.Matcher.Match")) {
				return
			}
			args := callArgs(c.Common())
			d := describe(args[len(args)-1])
			r.check(strings.HasPrefix(d, "(*net/url.URL).Hostname("), fname(fn)+"#Match", c.Pos(), "matched on "+d, "domain list must be matched on the URL's host name without port, got "+d)
		})
	}
}

// fieldFromParam: every value fn stores into the named field of a RegexpMatcher it builds is computed
// from parameter own and not from parameter other (followed through calls: a result depends on its operands).
func fieldFromParam(fn *ssa.Function, field string, own, other int) bool {
	n := 0
	good := true
	for _, b := range fn.Blocks {
		for _, ins := range b.Instrs {
			st, ok := ins.(*ssa.Store)
			if !ok {
				continue
			}
			fa, ok := st.Addr.(*ssa.FieldAddr)
			if !ok || structName(fa.X.Type()) != "ruleset.RegexpMatcher" || fieldName(fa.X.Type(), fa.Field) != field {
				continue
			}
			n++
			usesOwn := dependsOn(st.Val, func(v ssa.Value) bool { return v == ssa.Value(fn.Params[own]) })
			usesOther := dependsOn(st.Val, func(v ssa.Value) bool { return v == ssa.Value(fn.Params[other]) })
			if !usesOwn || usesOther {
				good = false
			}
		}
	}
	return n > 0 && good
}

// c17r2Inlined decides Match when the include/exclude test is written inside it: one table over five atoms.
func c17r2Inlined(r *R) {
	Match := r.method("ruleset", "RegexpMatcher", "Match")
	atoms := map[string]string{
		"($0.exclude != nil)": "E", "(*regexp.Regexp).MatchString($0.exclude, $1)": "EM",
		"($0.include != nil)": "I", "(*regexp.Regexp).MatchString($0.include, $1)": "IM",
		"$0.inverse": "inv",
	}
	mm, ok := decisionTable(Match, atoms, 0, func(a map[string]bool) bool {
		return (!(a["E"] && a["EM"]) && a["I"] && a["IM"]) != a["inv"]
	})
	switch {
	case !ok:
		r.undecided("ruleset.(*RegexpMatcher).Match", Match.Pos(), strings.Join(mm, "; "))
	case len(mm) > 0:
		r.bad("ruleset.(*RegexpMatcher).Match", Match.Pos(), "Match must be (no exclude rule matches and some include rule matches) XOR inverse: "+strings.Join(mm, "; "))
	default:
		r.ok("ruleset.(*RegexpMatcher).match", Match.Pos(), "include/exclude test written inside Match: 32 assignments agree with the specification")
		r.ok("ruleset.(*RegexpMatcher).Match", Match.Pos(), "Match = (included and not excluded) XOR inverse")
	}
	inv := r.method("ruleset", "RegexpMatcher", "Inverse")
	ps, _ := enumPaths(inv, 8, 1)
	good := len(ps) == 1
	if good {
		base := ps[0].Ret[0]
		good = ps[0].Mem[base+".include"] == "$0.include" && ps[0].Mem[base+".exclude"] == "$0.exclude" && ps[0].Mem[base+".inverse"] == "!$0.inverse"
	}
	r.check(good, "ruleset.(*RegexpMatcher).Inverse", inv.Pos(), "copies include and exclude, flips inverse", "Inverse must copy include and exclude and flip inverse")
}
