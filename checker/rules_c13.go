package main

import (
	"fmt"
	"go/types"
	"sort"
	"strings"

	"golang.org/x/tools/go/ssa"
)

const mpkg = "internal/martian"

func init() {
	register("C13", "R1", 20, "exactly one completion report (traceWroteResponse) on every interprocedural path from a successfully read request to the handler's exit, none when no request was read; decided per path class (call chain × response class) for the connection handler and the http.Handler variant", c13r1)
}

func relevantC13(x string) bool {
	for _, w := range []string{"StatusCode", ".Method", "ProtoMajor"} {
		if strings.Contains(x, w) {
			return true
		}
	}
	return false
}

type pathClass struct {
	chain string
	count int
	facts string
	ret   string
}

// classify summarises a path: chain of inlined calls that contain or precede
// the report, the number of reports, and the relevant facts.
func classifyPath(p *Path, isEvent func(Event) bool, keep func(string) bool) pathClass {
	var chain []string
	n := 0
	for _, e := range p.Events {
		if e.Kind == "enter" {
			chain = append(chain, strings.TrimPrefix(strings.TrimPrefix(e.Desc, "(*martian.proxyConn)."), "(martian.proxyHandler)."))
		}
		if isEvent(e) {
			n++
			chain = append(chain, "REPORT")
		}
	}
	var fs []string
	seen := map[string]bool{}
	for _, c := range p.Conds {
		if keep(c) && !seen[c] {
			seen[c] = true
			fs = append(fs, c)
		}
	}
	sort.Strings(fs)
	return pathClass{strings.Join(chain, "→"), n, strings.Join(fs, " ∧ "), strings.Join(p.Ret, ",")}
}

func c13r1(r *R) {
	isReport := func(e Event) bool {
		if e.Kind != "call" {
			return false
		}
		ci, ok := e.Instr.(ssa.CallInstruction)
		return ok && calleeName(ci.Common()) == "(*martian.Proxy).traceWroteResponse"
	}
	type fam struct {
		name   string
		entry  *ssa.Function
		inline []string
		readOK string // condition that says the request was read
	}
	fams := []fam{
		{"conn", r.method(mpkg, "proxyConn", "handle"), []string{"(*martian.proxyConn).handleConnectRequest", "(*martian.proxyConn).handleMITM", "(*martian.proxyConn).tunnel", "(*martian.proxyConn).handleUpgradeResponse", "(*martian.proxyConn).writeErrorResponse", "(*martian.proxyConn).writeResponse", "martian.skipTraceWroteResponse", "(*martian.Proxy).errorResponse", "martian.newConnectResponse", "martian/proxyutil.NewResponse"}, "!((*martian.proxyConn).readRequest($0)#1 != nil)"},
		{"handler", r.method(mpkg, "proxyHandler", "handleRequest"), []string{"(martian.proxyHandler).handleConnectRequest", "(martian.proxyHandler).tunnel", "(martian.proxyHandler).handleUpgradeResponse", "(martian.proxyHandler).writeErrorResponse", "(martian.proxyHandler).writeResponse", "(*martian.proxyConn).writeResponse", "martian.skipTraceWroteResponse", "(*martian.Proxy).errorResponse", "martian.newConnectResponse", "martian/proxyutil.NewResponse"}, ""},
	}
	for _, f := range fams {
		inl := map[string]bool{}
		for _, n := range f.inline {
			inl[n] = true
		}
		ps, complete := enumPathsOpts(f.entry, 300000, 2, InlineOpts{
			Inline: func(c *ssa.Function) bool {
				if inl[fname(c)] {
					return true
				}
				// function literals of family members (deferred reports)
				if c.Parent() != nil && (inl[fname(c.Parent())] || c.Parent() == f.entry) {
					return true
				}
				// a helper of the package that itself reports (extracted "finish" functions)
				if strings.Contains(fname(c), "martian.") && refName(c) != "traceWroteResponse" && len(calls(c, nameIs("(*martian.Proxy).traceWroteResponse"))) > 0 {
					return true
				}
				return false
			},
			Relevant:    relevantC13,
			Interesting: isReport,
			Alias:       true,
			OnCall: func(c *ssa.Call, m *CallModel) {
				// assumption (checked by C13.R2): hooks and Connect return a response bound to the request they were given
				d := describe(c.Common().Value)
				// C13.R2 checks that panicBody is stored only by the upgrade hand-over: no other response carries it
				if cn := calleeName(c.Common()); cn == "(*martian.Proxy).roundTrip" || cn == "(*martian.Proxy).Connect" {
					m.Fact("("+m.Result+"#0.Body == martian.panicBody)", false)
				} else if cn == "martian.maybeConnectErrorResponse" || strings.HasSuffix(d, ".ErrorResponse") {
					m.Fact("("+m.Result+".Body == martian.panicBody)", false)
				}
				switch {
				case strings.HasSuffix(d, ".ErrorResponse") && len(m.Args) == 2:
					m.Set(m.Result+".Request", m.Args[0])
					// assumption (checked by C12.R2): locally generated error responses carry a 4xx/5xx status
					m.Set(m.Result+".StatusCode", "500")
				case calleeName(c.Common()) == "(*martian.Proxy).Connect" && len(m.Args) == 4:
					m.Set(m.Result+"#0.Request", m.Args[2])
				case calleeName(c.Common()) == "martian.maybeConnectErrorResponse":
					// checked by C13.R2: OnProxyConnectResponse yields an error only for a non-2xx reply
					m.Fact("(("+m.Result+".StatusCode / 100) == 2)", false)
				}
			},
		})
		if !complete {
			r.undecided(f.name+"#paths", f.entry.Pos(), "path enumeration exceeded its budget")
			continue
		}
		keep := func(c string) bool {
			return relevantC13(c) || strings.Contains(c, "readRequest(") || strings.Contains(c, "closing(") || strings.Contains(c, ".Close") && !strings.Contains(c, "Body") || strings.Contains(c, "skipTrace") || strings.Contains(c, "Hijack")
		}
		classes := map[pathClass]*Path{}
		witness := map[pathClass]string{}
		counts := map[pathClass]int{}
		for i := range ps {
			p := &ps[i]
			if p.Cut {
				continue // prefix of a longer path through a loop that contains no report (checked below)
			}
			if _, isPanic := p.Exit.(*ssa.Panic); isPanic && !strings.Contains(p.Ret[0], "ErrAbortHandler") {
				continue // compiler-generated panics (e.g. select fallthrough)
			}
			c := classifyPath(p, isReport, keep)
			if p.hasCond(func(x string) bool { return strings.HasPrefix(x, "(*martian.Proxy).closing(") }) {
				// shutdown in progress: outside the property's quantifier (one named exemption)
				c = pathClass{chain: "closing()", count: c.count}
			}
			witnessFacts := c.facts
			c.facts, c.ret = statusClass(p), ""
			if f.readOK != "" && !p.holds(f.readOK) {
				c.ret = "no request read"
			}
			if old, ok := witness[c]; !ok || len(witnessFacts) < len(old) {
				witness[c] = witnessFacts
			}
			if _, ok := classes[c]; !ok {
				classes[c] = p
			}
			counts[c]++
		}
		// no report may sit in a loop of an analysed function (cut paths are ignored above)
		for _, fn := range append([]*ssa.Function{f.entry}, familyFuncs(r, inl)...) {
			for _, c := range calls(fn, nameIs("(*martian.Proxy).traceWroteResponse")) {
				if reaches(c.(ssa.Instruction), c.(ssa.Instruction)) {
					r.undecided(f.name+"#report-in-loop", c.Pos(), "a completion report inside a loop cannot be counted by this rule")
				}
			}
		}
		var keys []pathClass
		for k := range classes {
			keys = append(keys, k)
		}
		sort.Slice(keys, func(i, j int) bool {
			if keys[i].chain != keys[j].chain {
				return keys[i].chain < keys[j].chain
			}
			if keys[i].facts != keys[j].facts {
				return keys[i].facts < keys[j].facts
			}
			return keys[i].count < keys[j].count
		})
		for _, k := range keys {
			p := classes[k]
			want := 1
			if k.ret != "" {
				want = 0
			}
			key := fmt.Sprintf("%s:%s[status=%s,reports=%d]", f.name, k.chain, k.facts, k.count)
			if k.ret != "" {
				key = fmt.Sprintf("%s:%s[%s,reports=%d]", f.name, k.chain, k.ret, k.count)
			}
			msg := fmt.Sprintf("%d report(s) on %d path(s); shortest witness: %s", k.count, counts[k], witness[k])
			switch {
			case k.chain == "closing()":
				r.ok(key, p.pos(), "exempt: shutdown in progress (closing() observed true) is outside the property's quantifier; "+msg)
			case k.count == want:
				r.ok(key, p.pos(), msg)
			default:
				r.bad(key, p.pos(), fmt.Sprintf("request read but reported complete %d time(s) (want %d) on %d path(s) of this class; shortest witness: %s", k.count, want, counts[k], witness[k]))
			}
		}
	}
}

func familyFuncs(r *R, names map[string]bool) []*ssa.Function {
	var out []*ssa.Function
	for _, fn := range r.modFuncs() {
		if names[fname(fn)] || fn.Parent() != nil && names[fname(fn.Parent())] {
			out = append(out, fn)
		}
	}
	return out
}

// statusClass labels a path by what it knows about the status of the response(s) it wrote.
func statusClass(p *Path) string {
	is101, is2xx := false, false
	for _, c := range p.Conds {
		if strings.HasPrefix(c, "!") {
			continue
		}
		if strings.HasSuffix(c, ".StatusCode == 101)") {
			is101 = true
		}
		if strings.HasSuffix(c, ".StatusCode / 100) == 2)") {
			is2xx = true
		}
	}
	switch {
	case is101:
		return "101"
	case is2xx:
		return "2xx"
	}
	return "other"
}

func init() {
	register("C13", "R2", 8, "assumptions of R1, checked: the upgrade marker body is stored only by the upgrade hand-over; an upstream CONNECT reply becomes an error only when it is not 2xx; every response a handler writes is bound to the request that handler read (round-trip results and relayed CONNECT rejections are rebound, constructors receive the handler's request)", c13r2)
	register("C13", "R3", 6, "metrics binding: ReadRequest increments and WroteResponse decrements the same in-flight gauge with labels computed by the same function from the same request; WroteResponse increments the total counter once; the trace hooks call them exactly when a request/response is present", c13r3)
	register("C13", "R4", 4, "close callbacks fire once: a closeListener's onClose is invoked only through sync.Once.Do after the underlying close; both wrapper kinds built by Builder route Close to it", c13r4)
	register("C13", "R5", 8, "accept/dial pairing: accept() is followed on the same path by a wrapper whose OnClose is the listener's close(); dial(a) by a wrapper whose OnClose calls close(a) with the same address; error paths count an error and neither; untracked dials count nothing", c13r5)
	register("C13", "R6", 3, "byte counters: Read adds the returned n to rx, Write and ReadFrom add it to tx, and the underlying results are returned unchanged", c13r6)
}

func c13r2(r *R) {
	// (a) who stores panicBody
	n := 0
	for _, fn := range r.modFuncs() {
		eachInstr(fn, func(ins ssa.Instruction) {
			st, ok := ins.(*ssa.Store)
			if !ok || describe(st.Val) != "martian.panicBody" {
				return
			}
			n++
			okSite := refName(fn) == "handleUpgradeResponse" && strings.HasSuffix(describe(st.Addr), ".Body")
			r.check(okSite, fname(fn)+"#store(panicBody)", st.Pos(), "upgrade hand-over marks the response whose body went to the tunnel", "the upgrade marker body is stored outside the upgrade hand-over: skipTraceWroteResponse would treat that response as tunnelled")
		})
	}
	if n < 2 {
		r.bad("store(panicBody)", r.pkg(mpkg).Func("init").Pos(), "upgrade hand-over no longer marks the response")
	}
	// the marker is set before the tunnel writes the response
	for _, recv := range []string{"proxyConn", "proxyHandler"} {
		fn := r.method(mpkg, recv, "handleUpgradeResponse")
		var st ssa.Instruction
		eachInstr(fn, func(ins ssa.Instruction) {
			if s, ok := ins.(*ssa.Store); ok && describe(s.Val) == "martian.panicBody" {
				st = s
			}
		})
		for _, c := range calls(fn, nameHasSuffix(recv+").tunnel")) {
			r.check(st != nil && instrDominates(st, c.(ssa.Instruction)), recv+".handleUpgradeResponse#mark-before-tunnel", c.Pos(), "marker stored before tunnel()", "tunnel() is entered before the response is marked as handed over")
		}
	}
	// skipTraceWroteResponse decision table
	sk, takesErr := tunnelPredicate(r)
	if sk == nil {
		return
	}
	atoms := map[string]string{
		`($0.Request.Method == "CONNECT")`: "connect", "(($0.StatusCode / 100) == 2)": "2xx",
		"($0.StatusCode == 101)": "101", "($0.Body == martian.panicBody)": "handed",
	}
	if takesErr {
		atoms["($1 != nil)"] = "err"
	}
	mm, ok := decisionTable(sk, atoms, 0, func(a map[string]bool) bool {
		return !a["err"] && (a["connect"] && a["2xx"] || a["101"] && a["handed"])
	})
	if ok && !takesErr {
		// the error test was moved to the callers: each must ask the predicate only when nothing failed
		// (or report completion with a literal nil, having no error to report)
		mm = append(mm, predicateAskedOnlyWithoutError(r, sk)...)
	}
	switch {
	case !ok:
		r.undecided("skipTraceWroteResponse#table", sk.Pos(), strings.Join(mm, "; "))
	case len(mm) > 0:
		r.bad("skipTraceWroteResponse#table", sk.Pos(), "completion may be deferred to the tunnel only for an error-free CONNECT 2xx or a 101 whose body was handed over: "+strings.Join(mm, "; "))
	default:
		r.ok("skipTraceWroteResponse#table", sk.Pos(), "skip ⇔ no error ∧ (CONNECT∧2xx ∨ 101∧body handed to the tunnel)")
	}
	// (b) OnProxyConnectResponse
	oc := r.fn(mpkg, "OnProxyConnectResponse")
	ps, _ := enumPaths(oc, 256, 1)
	var why []string
	for _, p := range ps {
		is2xx := p.holds("(($3.StatusCode / 100) == 2)")
		if is2xx != (p.Ret[0] == "nil") {
			why = append(why, "2xx="+fmt.Sprint(is2xx)+" returns "+p.Ret[0])
		}
	}
	r.check(len(ps) > 1 && len(why) == 0, "OnProxyConnectResponse#non-2xx-only", oc.Pos(), "error (carrying the reply) ⇔ upstream CONNECT reply is not 2xx", strings.Join(why, "; "))
	// (c) rebinding
	for _, spec := range []struct{ recv, fn, req string }{{"proxyConn", "handle", ""}, {"proxyHandler", "handleRequest", "$2"}} {
		fn := r.method(mpkg, spec.recv, spec.fn)
		found := false
		eachInstr(fn, func(ins ssa.Instruction) {
			st, ok := ins.(*ssa.Store)
			if !ok || !strings.HasSuffix(describe(st.Addr), "roundTrip($0.Proxy, "+describe(st.Val)+")#0.Request") {
				return
			}
			found = true
			// dominates every write of that response
			good := true
			for _, c := range calls(fn, nameHasSuffix(").writeResponse", ").handleUpgradeResponse", ").modifyResponse")) {
				if !instrDominates(st, c.(ssa.Instruction)) {
					good = false
				}
			}
			r.check(good, spec.recv+"."+spec.fn+"#rebind(round-trip result)", st.Pos(), "res.Request = req precedes every use of the response", "round-trip result is written before it is bound to the client's request")
		})
		if !found {
			r.bad(spec.recv+"."+spec.fn+"#rebind(round-trip result)", fn.Pos(), "the round-trip result is not rebound to the request that was read (Transport may have replaced res.Request)")
		}
	}
	for _, recv := range []string{"proxyConn", "proxyHandler"} {
		fn := r.method(mpkg, recv, "writeErrorResponse")
		ps, _ := enumPaths(fn, 512, 1)
		reqP := "$1"
		if recv == "proxyHandler" {
			reqP = "$2"
		}
		var why []string
		nRelayed, nLocal := 0, 0
		for _, p := range ps {
			relayed := p.hasCond(func(c string) bool {
				return strings.HasPrefix(c, "(martian.maybeConnectErrorResponse(") && strings.HasSuffix(c, " != nil)")
			})
			wi := p.eventIndex(0, "call", contains(").writeResponse("))
			if wi < 0 {
				why = append(why, "a path writes nothing")
				continue
			}
			if relayed {
				nRelayed++
				bound := false
				for k, v := range p.Mem {
					if strings.HasPrefix(k, "martian.maybeConnectErrorResponse(") && strings.HasSuffix(k, ".Request") && v == reqP {
						bound = true
					}
				}
				if !bound {
					why = append(why, "relayed CONNECT rejection is written without being bound to the client's request")
				}
			} else {
				nLocal++
				if p.eventIndex(0, "call", eq("(*martian.Proxy).errorResponse($0.Proxy, "+reqP+", "+map[bool]string{true: "$2", false: "$3"}[recv == "proxyConn"]+")")) < 0 {
					why = append(why, "local error response is not built for the client's request")
				}
			}
		}
		r.check(nRelayed > 0 && nLocal > 0 && len(why) == 0, recv+".writeErrorResponse#bound", fn.Pos(), "both kinds of error response are bound to the handler's request", strings.Join(dedupStrings(why), "; "))
	}
	// Connect results
	ch := r.method(mpkg, "Proxy", "connectHTTP")
	ps, _ = enumPaths(ch, 512, 1)
	why = nil
	nres := 0
	for _, p := range ps {
		if len(p.Ret) != 3 || p.Ret[0] == "nil" || strings.HasSuffix(p.Ret[0], "#0") && !p.hasCond(func(c string) bool { return strings.HasSuffix(c, "#0 != nil)") && !strings.HasPrefix(c, "!") }) {
			continue
		}
		nres++
		if p.Ret[0] == "martian.newConnectResponse($1)" {
			continue
		}
		if p.Mem[p.Ret[0]+".Request"] != "$1" {
			why = append(why, "returns "+p.Ret[0]+" with Request "+p.Mem[p.Ret[0]+".Request"])
		}
	}
	r.check(nres >= 2 && len(why) == 0, "Proxy.connectHTTP#bound", ch.Pos(), "every response returned is newConnectResponse(req) or rebound to req", strings.Join(dedupStrings(why), "; "))
	// forwarder's ErrorResponse hook builds the response for the request it was given
	er := r.method(".", "HTTPProxy", "errorResponse")
	okHook := false
	for _, c := range calls(er, nameIs("martian/proxyutil.NewResponse")) {
		okHook = describe(refArgs(c.Common())[2]) == "$1"
	}
	r.check(okHook, "HTTPProxy.errorResponse#bound", er.Pos(), "error response built with proxyutil.NewResponse(code, body, req)", "forwarder's error response is not bound to the failing request")
}

func c13r3(r *R) {
	rr := r.method("middleware", "Prometheus", "ReadRequest")
	wr := r.method("middleware", "Prometheus", "WroteResponse")
	ps, _ := enumPaths(rr, 8, 1)
	const lab = "(*middleware.Prometheus).labels($0, "
	good := len(ps) == 1 && ps[0].eventIndex(0, "call", prefix("(*github.com/prometheus/client_golang/prometheus.GaugeVec).WithLabelValues($0.requestsInFlight, "+lab+"$1)")) >= 0 &&
		ps[0].eventIndex(0, "call", prefix("invoke github.com/prometheus/client_golang/prometheus.Gauge.Inc(")) >= 0 &&
		ps[0].eventIndex(0, "call", contains(".Dec(")) < 0
	r.check(good, "Prometheus.ReadRequest", rr.Pos(), "in-flight gauge +1 with labels(req)", "ReadRequest must increment requestsInFlight with labels(req) exactly once")
	ps, _ = enumPaths(wr, 8, 1)
	good = false
	var why string
	if len(ps) == 1 {
		p := ps[0]
		nDec, nInc, nIncTotal, nDecAll := 0, 0, 0, 0
		for _, e := range p.Events {
			if e.Kind != "call" {
				continue
			}
			if strings.HasPrefix(e.Desc, "invoke github.com/prometheus/client_golang/prometheus.Gauge.Dec((*github.com/prometheus/client_golang/prometheus.GaugeVec).WithLabelValues($0.requestsInFlight, "+lab+"$1.Request)") {
				nDec++
			}
			if strings.Contains(e.Desc, "Gauge.Inc(") {
				nInc++
			}
			if strings.Contains(e.Desc, "Gauge.Dec(") {
				nDecAll++
			}
			if strings.HasPrefix(e.Desc, "invoke github.com/prometheus/client_golang/prometheus.Counter.Inc((*github.com/prometheus/client_golang/prometheus.CounterVec).WithLabelValues($0.requestsTotal, ") {
				nIncTotal++
			}
		}
		good = nDec == 1 && nDecAll == 1 && nInc == 0 && nIncTotal == 1
		why = fmt.Sprintf("in-flight decrements=%d (want 1, labels(res.Request)), increments=%d (want 0), total increments=%d (want 1)", nDec, nInc, nIncTotal)
	}
	r.check(good, "Prometheus.WroteResponse", wr.Pos(), "in-flight gauge -1 with labels(res.Request); total +1", why)
	lb := r.method("middleware", "Prometheus", "labels")
	ps, _ = enumPaths(lb, 16, 1)
	r.check(len(ps) >= 1, "Prometheus.labels", lb.Pos(), "one label function shared by both hooks", "labels missing")
	// hooks in middlewareStack
	ms := r.method(".", "HTTPProxy", "middlewareStack")
	nHooks := 0
	for _, lit := range anonFuncs(ms) {
		if len(litParams(lit)) != 1 {
			continue
		}
		t := typeStr(litParams(lit)[0].Type())
		var field, meth string
		switch t {
		case "martian.ReadRequestInfo":
			field, meth = "Req", "(*middleware.Prometheus).ReadRequest"
		case "martian.WroteResponseInfo":
			field, meth = "Res", "(*middleware.Prometheus).WroteResponse"
		default:
			continue
		}
		nHooks++
		ps, _ := enumPaths(lit, 16, 1)
		var why []string
		for _, p := range ps {
			present := p.hasCond(func(c string) bool { return strings.HasSuffix(c, "."+field+" != nil)") && !strings.HasPrefix(c, "!") })
			called := p.eventIndex(0, "call", prefix(meth+"(")) >= 0
			if present != called {
				why = append(why, fmt.Sprintf("%s present=%v but hook called=%v", field, present, called))
			}
			if called {
				i := p.eventIndex(0, "call", prefix(meth+"("))
				if !strings.HasSuffix(p.Events[i].Desc, "."+field+")") {
					why = append(why, "hook called with "+p.Events[i].Desc)
				}
			}
		}
		r.check(len(ps) == 2 && len(why) == 0, "middlewareStack#trace."+field, lit.Pos(), meth+" called iff info."+field+" != nil", strings.Join(why, "; "))
		// installed in the matching slot
		installed := false
		eachInstr(ms, func(ins ssa.Instruction) {
			if st, ok := ins.(*ssa.Store); ok && isClosureOf(describe(st.Val), lit) {
				want := map[string]string{"Req": ".ReadRequest", "Res": ".WroteResponse"}[field]
				installed = strings.HasSuffix(describe(st.Addr), want)
			}
		})
		r.check(installed, "middlewareStack#install."+field, lit.Pos(), "hook installed in the matching ProxyTrace slot", "trace hook installed in the wrong slot")
	}
	if nHooks != 2 {
		r.bad("middlewareStack#trace-hooks", ms.Pos(), "expected a ReadRequest and a WroteResponse hook")
	}
}

func c13r4(r *R) {
	cl := r.method("conntrack", "closeListener", "Close")
	ps, _ := enumPaths(cl, 16, 1)
	good := len(ps) == 1
	if good {
		ev := ps[0].effects()
		good = len(ev) == 2 && ev[0] == "dyn:$0.close()" && ev[1] == "(*sync.Once).Do($0.once, $0.onClose)" && ps[0].Ret[0] == "dyn:$0.close()"
	}
	r.check(good, "closeListener.Close", cl.Pos(), "close the conn, then once.Do(onClose); the close error is returned", "Close must close the underlying conn on every call and run onClose through sync.Once only")
	// no other invocation of an onClose field
	n := 0
	for _, fn := range r.modFuncs() {
		if !strings.Contains(fname(fn), "conntrack.") {
			continue
		}
		eachInstr(fn, func(ins ssa.Instruction) {
			c, ok := ins.(ssa.CallInstruction)
			if !ok {
				return
			}
			// direct dynamic call of the field
			if _, isFn := c.Common().Value.(*ssa.Function); !isFn && !c.Common().IsInvoke() {
				if strings.HasSuffix(describe(c.Common().Value), ".onClose") {
					r.bad(fname(fn)+"#call(onClose)", c.Pos(), "onClose invoked directly: two concurrent Close calls would both run it")
				}
			}
			for i, a := range c.Common().Args {
				if strings.HasSuffix(describe(a), ".onClose") {
					n++
					r.check(calleeName(c.Common()) == "(*sync.Once).Do" && i == 1 && fn == cl, fname(fn)+"#pass(onClose)", c.Pos(), "passed to sync.Once.Do of the same listener", "onClose handed to "+calleeName(c.Common()))
				}
			}
		})
	}
	// loads of the field other than those
	for _, fn := range r.modFuncs() {
		for _, ins := range fieldAccesses(fn, "conntrack.closeListener", "onClose") {
			if fn == cl || refName(fn) == "BuildWithObserver" {
				continue
			}
			r.bad(fname(fn)+"#access(onClose)", ins.Pos(), "close callback accessed outside the once-only path")
		}
		for _, ins := range fieldAccesses(fn, "conntrack.closeListener", "once") {
			if fn != cl {
				r.bad(fname(fn)+"#access(once)", ins.Pos(), "the Once guarding the close callback is touched outside Close")
			}
		}
	}
	// both wrapper kinds route Close to closeListener.Close
	cc := r.method("conntrack", "closeConn", "Close")
	ps, _ = enumPaths(cc, 8, 1)
	r.check(len(ps) == 1 && ps[0].Ret[0] == "(*conntrack.closeListener).Close($0.l)", "closeConn.Close", cc.Pos(), "delegates to its closeListener", "closeConn.Close does not go through the once-only listener")
	bw := r.method("conntrack", "Builder", "BuildWithObserver")
	nAnon := 0
	eachInstr(bw, func(ins ssa.Instruction) {
		a, ok := ins.(*ssa.Alloc)
		if !ok {
			return
		}
		pt, ok := a.Type().Underlying().(*types.Pointer)
		if !ok {
			return
		}
		st, ok := pt.Elem().Underlying().(*types.Struct)
		if !ok || st.NumFields() != 2 || !st.Field(1).Embedded() || st.Field(1).Name() != "closeListener" {
			return
		}
		nAnon++
		sel := r.SSA.MethodSets.MethodSet(a.Type()).Lookup(r.pkg("conntrack").Pkg, "Close")
		good := sel != nil && strings.HasSuffix(sel.Obj().(*types.Func).FullName(), "closeListener).Close")
		r.check(good, "Builder#traffic-wrapper.Close", a.Pos(), "promoted Close is closeListener.Close", "the traffic-tracking wrapper's Close does not resolve to the once-only listener")
	})
	if nAnon != 1 {
		r.bad("Builder#traffic-wrapper", bw.Pos(), "traffic+close wrapper not found")
	}
	// listeners are built with close = the conn's Close and onClose = b.OnClose
	ps, _ = enumPaths(bw, 64, 1)
	var why []string
	for _, p := range ps {
		onc := p.hasCond(func(c string) bool {
			return c == "($0.OnClose != nil)" || c == "!($0.OnClose == nil)" || c == "(local:b.OnClose != nil)" || c == "!(local:b.OnClose == nil)"
		})
		found := false
		for k, v := range p.Mem {
			if strings.HasSuffix(k, ".onClose") {
				found = true
				if v != "$0.OnClose" && v != "local:b.OnClose" {
					why = append(why, "onClose := "+v)
				}
				base := strings.TrimSuffix(k, ".onClose")
				if !strings.HasPrefix(p.Mem[base+".close"], "closure:") && !strings.Contains(p.Mem[base+".close"], "Close") {
					why = append(why, "close := "+p.Mem[base+".close"])
				}
			}
		}
		if onc != found {
			why = append(why, fmt.Sprintf("OnClose set=%v but listener built=%v", onc, found))
		}
	}
	r.check(len(why) == 0, "Builder#listener-fields", bw.Pos(), "a close listener is built iff OnClose is set, with close = conn.Close and onClose = OnClose", strings.Join(dedupStrings(why), "; "))
}

func c13r5(r *R) {
	acc := r.method(".", "Listener", "Accept")
	ps, _ := enumPaths(acc, 64, 1)
	for i, p := range ps {
		key := fmt.Sprintf("Listener.Accept#path%d", i)
		failed := p.hasCond(func(c string) bool { return c == "(invoke net.Listener.Accept($0.listener)#1 != nil)" })
		ai := p.eventIndex(0, "call", eq("(*forwarder.listenerMetrics).accept($0.metrics)"))
		ei := p.eventIndex(0, "call", eq("(*forwarder.listenerMetrics).error($0.metrics)"))
		bi := p.eventIndex(0, "call", prefix("(conntrack.Builder).Build("))
		if failed {
			r.check(ai < 0 && ei >= 0 && bi < 0 && p.Ret[0] == "nil", key, p.pos(), "accept error: error counted, nothing else", "accept error path must count an error and not an accepted connection")
			continue
		}
		var why []string
		if ai < 0 || ei >= 0 {
			why = append(why, "accepted connection not counted exactly as accepted")
		}
		if bi < ai {
			why = append(why, "wrapper not built after accept()")
		} else {
			cl := strings.TrimSuffix(strings.TrimPrefix(p.Events[bi].Desc, "(conntrack.Builder).Build("), ", invoke net.Listener.Accept($0.listener)#0)")
			oc := p.Mem[cl+".OnClose"]
			if !strings.Contains(oc, "listenerMetrics).close") {
				why = append(why, "OnClose is "+oc+" instead of the listener's close()")
			}
			if !strings.HasSuffix(p.Mem[cl+".TrackTraffic"], ".TrackTraffic") || !strings.HasPrefix(p.Mem[cl+".TrackTraffic"], "$0.") {
				why = append(why, "TrackTraffic is "+p.Mem[cl+".TrackTraffic"])
			}
			if !strings.Contains(p.Ret[0], p.Events[bi].Desc) {
				why = append(why, "Accept returns "+p.Ret[0]+" which is not (built on) the tracked wrapper")
			}
		}
		r.check(len(why) == 0, key, p.pos(), "accept() then tracked wrapper with OnClose=metrics.close, returned (under TLS when configured)", strings.Join(why, "; "))
	}
	// the bound method value really is close of the same metrics object
	dl := r.method(".", "Dialer", "DialContext")
	ps, _ = enumPaths(dl, 256, 1)
	lit := anonFuncs(dl)
	for i, p := range ps {
		key := fmt.Sprintf("Dialer.DialContext#path%d", i)
		di := p.eventIndex(0, "call", prefix("(*forwarder.dialerMetrics).dial($0.metrics, "))
		ei := p.eventIndex(0, "call", prefix("(*forwarder.dialerMetrics).error($0.metrics, "))
		bi := p.eventIndex(0, "call", prefix("(conntrack.Builder).Build("))
		ci := p.eventIndex(0, "call", prefix("(*forwarder.Dialer).dialContext($0, $1, "))
		if ci < 0 {
			r.bad(key, p.pos(), "path does not dial")
			continue
		}
		dargs := strings.TrimSuffix(strings.TrimPrefix(p.Events[ci].Desc, "(*forwarder.Dialer).dialContext($0, $1, "), ")")
		addr := dargs[strings.LastIndex(dargs, ", ")+2:]
		if strings.HasPrefix(dargs, "dyn:") { // redirected: both come from rd(...)
			addr = "dyn:$0.rd($2, $3)#1"
		}
		disabled := p.hasCond(func(c string) bool {
			return strings.HasSuffix(c, ".(forwarder.DialConnTrack) == 1)") && !strings.HasPrefix(c, "!")
		})
		failed := p.hasCond(func(c string) bool { return c == "("+p.Events[ci].Desc+"#1 != nil)" })
		switch {
		case disabled:
			r.check(di < 0 && ei < 0 && bi < 0, key, p.pos(), "tracking disabled: raw conn, nothing counted", "untracked dial must not touch the gauges")
		case failed:
			r.check(di < 0 && bi < 0 && ei >= 0 && strings.HasSuffix(p.Events[ei].Desc, ", "+addr+")") && p.Ret[0] == "nil", key, p.pos(), "dial error: error(addr) only", "dial error path must count error(addr) and return no conn")
		default:
			var why []string
			if di < 0 || !strings.HasSuffix(p.Events[di].Desc, ", "+addr+")") {
				why = append(why, "dial("+addr+") not counted")
			}
			if bi < 0 || bi < di {
				why = append(why, "tracked wrapper not built after dial()")
			} else {
				cl := p.Events[bi].Desc[len("(conntrack.Builder).Build("):strings.Index(p.Events[bi].Desc, ", ")]
				oc := p.Mem[cl+".OnClose"]
				if len(lit) != 1 || !isClosureOf(oc, lit[0]) {
					why = append(why, "OnClose is "+oc)
				} else {
					b := closureBindings(lit[0])
					lp, _ := enumPaths(lit[0], 8, 1)
					// the effect, with what the literal captured written in: close(<dialer>.metrics, <the dialled address>)
					eff := ""
					if len(lp) == 1 && len(lp[0].effects()) == 1 {
						eff = lp[0].effects()[0]
						for k := len(b) - 1; k >= 0; k-- {
							eff = strings.ReplaceAll(eff, fmt.Sprintf("^%d", k), b[k])
						}
					}
					okc := false
					if rest, ok := strings.CutPrefix(eff, "(*forwarder.dialerMetrics).close($0.metrics, "); ok {
						x := strings.TrimSuffix(rest, ")")
						// the address variable (C13.R7 decides that it is the one dial() counted), on this path or merged
						okc = x == "local:address" || x == "$3" || x == addr || strings.HasPrefix(x, "phi(") && strings.Contains(x, addr)
					}
					if !okc {
						why = append(why, "OnClose does not call close(address) on the dialer's metrics (it does: "+shorten(eff, 120)+")")
					}
					// the captured address is the dialled one
					bv := bindingValues(lit[0])
					if len(bv) == 2 {
						if a, ok := bv[1].(*ssa.Alloc); ok {
							_ = a
						}
					}
				}
				if p.Ret[0] != p.Events[bi].Desc {
					why = append(why, "returns "+p.Ret[0]+" instead of the tracked wrapper")
				}
			}
			if ei >= 0 {
				why = append(why, "success path counts an error")
			}
			r.check(len(why) == 0, key, p.pos(), "dial(addr) then tracked wrapper whose OnClose calls close(addr)", strings.Join(why, "; "))
		}
	}
	// metric bodies
	for _, spec := range []struct {
		typ, m string
		want   []string
	}{
		{"listenerMetrics", "accept", []string{"Counter.Inc($0.accepted)", "Gauge.Inc($0.active)"}},
		{"listenerMetrics", "close", []string{"Gauge.Dec($0.active)"}},
		{"dialerMetrics", "dial", []string{"Counter.Inc((*github.com/prometheus/client_golang/prometheus.CounterVec).WithLabelValues($0.dialed,", "Gauge.Inc((*github.com/prometheus/client_golang/prometheus.GaugeVec).WithLabelValues($0.active,"}},
		{"dialerMetrics", "close", []string{"Gauge.Dec((*github.com/prometheus/client_golang/prometheus.GaugeVec).WithLabelValues($0.active,"}},
	} {
		fn := r.method(".", spec.typ, spec.m)
		ps, _ := enumPaths(fn, 8, 1)
		good := len(ps) == 1
		if good {
			var mut []string
			for _, e := range ps[0].Events {
				if e.Kind == "call" && (strings.Contains(e.Desc, ".Inc(") || strings.Contains(e.Desc, ".Dec(") || strings.Contains(e.Desc, ".Add(") || strings.Contains(e.Desc, ".Sub(") || strings.Contains(e.Desc, ".Set(")) {
					mut = append(mut, e.Desc)
				}
			}
			good = len(mut) == len(spec.want)
			for i := range mut {
				if good && !strings.Contains(mut[i], spec.want[i]) {
					good = false
				}
			}
		}
		r.check(good, spec.typ+"."+spec.m, fn.Pos(), "updates "+strings.Join(spec.want, " and "), spec.typ+"."+spec.m+" must update exactly: "+strings.Join(spec.want, "; "))
	}
	// dial and close label the gauge the same way
	dm := r.method(".", "dialerMetrics", "dial")
	cm := r.method(".", "dialerMetrics", "close")
	lab := func(fn *ssa.Function) string {
		for _, c := range calls(fn, nameIs("forwarder.addr2Host")) {
			return describe(refArgs(c.Common())[0])
		}
		return ""
	}
	r.check(lab(dm) == "$1" && lab(cm) == "$1", "dialerMetrics#same-label", dm.Pos(), "dial and close label the active gauge with addr2Host(addr)", "dial and close derive the gauge label differently")
}

func c13r6(r *R) {
	for _, spec := range []struct{ m, call, ctr string }{
		{"Read", "invoke net.Conn.Read($0.Conn, $1)", "rx"},
		{"Write", "invoke net.Conn.Write($0.Conn, $1)", "tx"},
		{"ReadFrom", "invoke io.ReaderFrom.ReadFrom($0.Conn.(io.ReaderFrom), $1)", "tx"},
	} {
		fn := r.method("conntrack", "conn", spec.m)
		// the observer's add helpers are walked in place: what counts is the counter that is incremented
		ps, _ := enumPathsInline(fn, 8, 1, func(c *ssa.Function) bool { return strings.HasPrefix(fname(c), "(*conntrack.Observer).") })
		good := len(ps) == 1
		if good {
			var ev []string
			for _, e := range ps[0].effects() {
				if !strings.HasPrefix(e, "enter ") { // the marker of a helper walked in place
					ev = append(ev, e)
				}
			}
			good = len(ev) == 2 && ev[0] == spec.call && ev[1] == "(*sync/atomic.Uint64).Add($0.o."+spec.ctr+", "+spec.call+"#0)" &&
				ps[0].Ret[0] == spec.call+"#0" && ps[0].Ret[1] == spec.call+"#1"
		}
		seenEv := ""
		if len(ps) == 1 {
			seenEv = strings.Join(ps[0].effects(), " ; ")
		}
		r.check(good, "conntrack.conn."+spec.m, fn.Pos(), spec.ctr+" += the n returned by the underlying call; results passed through", "byte counter does not add exactly the n the underlying "+spec.m+" returned to "+spec.ctr+" (effects: "+seenEv+")")
	}
	// the accessors report those counters
	for m, ctr := range map[string]string{"Rx": "rx", "Tx": "tx"} {
		fn := r.method("conntrack", "Observer", m)
		ps, _ := enumPaths(fn, 4, 1)
		r.check(len(ps) == 1 && ps[0].Ret[0] == "(*sync/atomic.Uint64).Load($0."+ctr+")", "conntrack.Observer."+m, fn.Pos(), m+"() reads "+ctr, m+"() does not report the "+ctr+" counter")
	}
}

// tunnelPredicate finds the function that decides whether the completion report is left to the tunnel:
// skipTraceWroteResponse(res, err), or - when the error test was moved out to its callers - the one new
// function of a response that tests the hand-over marker.
func tunnelPredicate(r *R) (*ssa.Function, bool) {
	p := r.pkg(mpkg)
	if f := p.Func("skipTraceWroteResponse"); f != nil && len(f.Blocks) > 0 {
		return f, len(f.Params) == 2
	}
	if f := refFuncLookup(p.Pkg.Path(), "", "skipTraceWroteResponse"); f != nil {
		return f, len(f.Params) == 2
	}
	var found []*ssa.Function
	for _, m := range p.Members {
		f, ok := m.(*ssa.Function)
		if !ok || !isNewHelper(f) || len(f.Params) != 1 || f.Signature.Results().Len() != 1 || !types.Identical(f.Signature.Results().At(0).Type().Underlying(), types.Typ[types.Bool]) {
			continue
		}
		marker := false
		for _, b := range f.Blocks {
			for _, ins := range b.Instrs {
				if u, ok := ins.(*ssa.UnOp); ok {
					if g, ok := u.X.(*ssa.Global); ok && g.Name() == "panicBody" {
						marker = true
					}
				}
			}
		}
		if marker {
			found = append(found, f)
		}
	}
	if len(found) == 1 {
		return found[0], false
	}
	r.missing("func %s.%s", mpkg, "skipTraceWroteResponse")
	return nil, false
}

func predicateAskedOnlyWithoutError(r *R, sk *ssa.Function) (why []string) {
	sites := 0
	for _, m := range r.pkg(mpkg).Members {
		var fns []*ssa.Function
		switch x := m.(type) {
		case *ssa.Function:
			fns = withClosures(x)
		case *ssa.Type:
			for _, T := range []types.Type{x.Type(), types.NewPointer(x.Type())} {
				ms := r.SSA.MethodSets.MethodSet(T)
				for i := 0; i < ms.Len(); i++ {
					if f := r.SSA.MethodValue(ms.At(i)); f != nil && f.Synthetic == "" && f.Pkg == r.pkg(mpkg) {
						fns = append(fns, withClosures(f)...)
					}
				}
			}
		}
		for _, f := range fns {
			var ask *ssa.Call
			var reports []*ssa.Call
			for _, b := range f.Blocks {
				for _, ins := range b.Instrs {
					c, ok := ins.(*ssa.Call)
					if !ok {
						continue
					}
					if staticCallee(c.Common()) == sk {
						ask = c
					} else if strings.HasSuffix(calleeName(c.Common()), ").traceWroteResponse") {
						reports = append(reports, c)
					}
				}
			}
			if ask == nil {
				continue
			}
			sites++
			for _, rep := range reports {
				if !reaches(ask, rep) {
					continue // reported before the predicate is consulted: not the report it decides about
				}
				args := rep.Common().Args
				e := args[len(args)-1]
				if k, ok := e.(*ssa.Const); ok && k.IsNil() {
					continue
				}
				want := "(" + describe(e) + " == nil)"
				okGuard := false
				for _, g := range guardStrings(ask.Block()) {
					if k, pol := normCond(g); k == want && pol {
						okGuard = true
					}
				}
				if !okGuard {
					why = append(why, fname(f)+": the predicate is consulted although "+shorten(describe(e), 40)+" may be set - a failed write would not be reported")
				}
			}
		}
	}
	if sites < 2 {
		why = append(why, fmt.Sprintf("the predicate is consulted in %d functions, expected both writeResponse implementations", sites))
	}
	return why
}
