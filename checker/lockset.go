package main

import (
	"sort"
	"strings"

	"golang.org/x/tools/go/ssa"
)

// lockset computes, for every instruction of fn, the set of mutexes that are
// held on every path reaching it (must-hold, intersection at joins). Locks are
// named by the described address of the mutex ("$0.flowMu"). Lock/RLock add,
// Unlock/RUnlock remove; a deferred Unlock keeps the lock until the exit.
func lockset(fn *ssa.Function) map[ssa.Instruction]map[string]bool {
	return locksetDeep(fn, 0)
}

// locksetDeep also covers the instructions of helpers that are new with respect to the reference tree and
// are reached from fn: a called helper runs with the caller's locks (a `go` or `defer` one does not).
func locksetDeep(fn *ssa.Function, depth int) map[ssa.Instruction]map[string]bool {
	rec := locksetOf(fn, ambientLocks(fn, 0))
	if !haveReference || depth > 3 {
		return rec
	}
	for _, b := range fn.Blocks {
		for _, ins := range b.Instrs {
			c, ok := ins.(ssa.CallInstruction)
			if !ok {
				continue
			}
			g := staticCallee(c.Common())
			if g == nil || !isNewHelper(g) || g == fn {
				continue
			}
			_, isCall := ins.(*ssa.Call)
			// functions handed to the helper run where the helper calls them, under its locks and the caller's
			gl := locksetOf(g, nil)
			for i, a := range c.Common().Args {
				if i >= len(g.Params) {
					break
				}
				var h *ssa.Function
				switch v := a.(type) {
				case *ssa.Function:
					h = v
				case *ssa.MakeClosure:
					h, _ = v.Fn.(*ssa.Function)
				}
				if h == nil || len(h.Blocks) == 0 || h == fn {
					continue
				}
				for _, pr := range *g.Params[i].Referrers() {
					d, ok := pr.(*ssa.Call)
					if !ok || d.Common().Value != ssa.Value(g.Params[i]) {
						continue
					}
					around := map[string]bool{}
					for l := range gl[d] {
						around[l] = true
					}
					if isCall {
						for l := range rec[ins] {
							around[l] = true
						}
					}
					for k, v := range locksetOf(h, around) {
						if _, dup := rec[k]; !dup {
							rec[k] = v
						}
					}
				}
			}
			for _, h := range withClosures(g) {
				sub := locksetDeep(h, depth+1)
				for k, v := range sub {
					if _, dup := rec[k]; dup {
						continue
					}
					m := map[string]bool{}
					for l := range v {
						m[l] = true
					}
					if isCall && h == g {
						for l := range rec[ins] {
							m[l] = true // held by the caller around the call (named in the caller's terms)
						}
					}
					rec[k] = m
				}
			}
		}
	}
	return rec
}

// ambientLocks: fn is a function literal (or a new function) whose only use is as an argument of helpers that are
// new with respect to the reference tree, and those helpers do nothing with that parameter but call it: the locks
// held at every such call (in the helper, plus those the helper's caller holds) are held while fn runs. This is the
// `withLock(func(){...})` shape a lock/do/unlock sequence is refactored into.
func ambientLocks(fn *ssa.Function, depth int) map[string]bool {
	if !haveReference || depth > 2 || fn.Parent() == nil {
		return nil
	}
	var result map[string]bool
	first := true
	meet := func(m map[string]bool) {
		if first {
			result, first = m, false
			return
		}
		for k := range result {
			if !m[k] {
				delete(result, k)
			}
		}
	}
	parent := fn.Parent()
	found := false
	for _, b := range parent.Blocks {
		for _, ins := range b.Instrs {
			mc, ok := ins.(*ssa.MakeClosure)
			if !ok || mc.Fn != ssa.Value(fn) {
				continue
			}
			found = true
			for _, ref := range *mc.Referrers() {
				c, ok := ref.(*ssa.Call)
				if !ok {
					if _, dbg := ref.(*ssa.DebugRef); dbg {
						continue
					}
					return nil
				}
				g := staticCallee(c.Common())
				if g == nil || !isNewHelper(g) {
					return nil
				}
				outer := locksetDeepAmbient(parent, depth+1)[c]
				gl := locksetOf(g, nil)
				for i, a := range c.Common().Args {
					if a != ssa.Value(mc) || i >= len(g.Params) {
						continue
					}
					prm := g.Params[i]
					for _, pr := range *prm.Referrers() {
						d, ok := pr.(*ssa.Call)
						if !ok || d.Common().Value != ssa.Value(prm) {
							if _, dbg := pr.(*ssa.DebugRef); dbg {
								continue
							}
							return nil // the helper does something else with the function: stored, passed on, run later
						}
						m := map[string]bool{}
						for l := range gl[d] {
							m[l] = true
						}
						for l := range outer {
							m[l] = true
						}
						meet(m)
					}
				}
			}
		}
	}
	if !found {
		return nil
	}
	return result
}

// locksetDeepAmbient: the lock sets of fn, starting from the locks that surround fn itself.
func locksetDeepAmbient(fn *ssa.Function, depth int) map[ssa.Instruction]map[string]bool {
	return locksetOf(fn, ambientLocks(fn, depth))
}

func locksetOf(fn *ssa.Function, initial map[string]bool) map[ssa.Instruction]map[string]bool {
	type set = map[string]bool
	in := map[*ssa.BasicBlock]set{}
	copySet := func(s set) set {
		n := set{}
		for k := range s {
			n[k] = true
		}
		return n
	}
	lockName := func(c *ssa.CallCommon) (string, int) {
		name := calleeName(c)
		var op int
		switch name {
		case "(*sync.Mutex).Lock", "(*sync.RWMutex).Lock", "(*sync.RWMutex).RLock":
			op = 1
		case "(*sync.Mutex).Unlock", "(*sync.RWMutex).Unlock", "(*sync.RWMutex).RUnlock":
			op = -1
		default:
			return "", 0
		}
		return describe(c.Args[0]), op
	}
	transfer := func(b *ssa.BasicBlock, s set, record map[ssa.Instruction]set) set {
		s = copySet(s)
		for _, ins := range b.Instrs {
			if record != nil {
				record[ins] = copySet(s)
			}
			switch x := ins.(type) {
			case *ssa.Call:
				if n, op := lockName(x.Common()); op == 1 {
					s[n] = true
				} else if op == -1 {
					delete(s, n)
				} else if g := staticCallee(x.Common()); g != nil && g != fn && haveReference && isNewHelper(g) && len(g.Blocks) > 0 {
					// a helper the reference tree does not have: a wrapper that returns with a mutex held on all its
					// paths acquires it for the caller, one that unlocks releases it (named in the caller's terms)
					acq, rel := lockSummary(g)
					for _, n := range rel {
						delete(s, substLockName(n, x.Common()))
					}
					for _, n := range acq {
						s[substLockName(n, x.Common())] = true
					}
				}
			case *ssa.Defer:
				// deferred unlock: lock stays held; nothing to do
			}
		}
		return s
	}
	// iterate to fixpoint (must analysis: start with "all" = nil meaning unvisited)
	visited := map[*ssa.BasicBlock]bool{}
	work := []*ssa.BasicBlock{fn.Blocks[0]}
	in[fn.Blocks[0]] = set{}
	for k := range initial {
		in[fn.Blocks[0]][k] = true
	}
	visited[fn.Blocks[0]] = true
	for len(work) > 0 {
		b := work[0]
		work = work[1:]
		out := transfer(b, in[b], nil)
		for _, s := range b.Succs {
			if !visited[s] {
				visited[s] = true
				in[s] = copySet(out)
				work = append(work, s)
				continue
			}
			changed := false
			for k := range in[s] {
				if !out[k] {
					delete(in[s], k)
					changed = true
				}
			}
			if changed {
				work = append(work, s)
			}
		}
	}
	rec := map[ssa.Instruction]set{}
	for _, b := range fn.Blocks {
		if visited[b] {
			transfer(b, in[b], rec)
		}
	}
	return rec
}

func heldString(s map[string]bool) string {
	var out []string
	for k := range s {
		out = append(out, k)
	}
	sort.Strings(out)
	return "{" + strings.Join(out, ",") + "}"
}

func holdsSuffix(s map[string]bool, suffix string) bool {
	for k := range s {
		if strings.HasSuffix(k, suffix) {
			return true
		}
	}
	return false
}

// fieldAccesses lists the instructions of fn that take the address of (or
// read) the named field of the struct type named typ.
func fieldAccesses(fn *ssa.Function, typ, field string) []ssa.Instruction {
	var out []ssa.Instruction
	eachInstr(fn, func(ins ssa.Instruction) {
		switch x := ins.(type) {
		case *ssa.FieldAddr:
			if structName(x.X.Type()) == typ && fieldName(x.X.Type(), x.Field) == field {
				out = append(out, ins)
			}
		case *ssa.Field:
			if structName(x.X.Type()) == typ && fieldName(x.X.Type(), x.Field) == field {
				out = append(out, ins)
			}
		}
	})
	return out
}

func structName(t interface{ String() string }) string {
	s := t.String()
	s = strings.TrimPrefix(s, "*")
	return canon(shortName(s))
}

var (
	lockSummaries   = map[*ssa.Function][2][]string{}
	lockSummaryBusy = map[*ssa.Function]bool{}
)

// lockSummary: the mutexes g holds at every one of its returns (acquired) and those it unlocks without holding
// them at every return (released), in g's own terms.
func lockSummary(g *ssa.Function) (acquired, released []string) {
	if v, ok := lockSummaries[g]; ok {
		return v[0], v[1]
	}
	if lockSummaryBusy[g] {
		return nil, nil
	}
	lockSummaryBusy[g] = true
	defer delete(lockSummaryBusy, g)
	rec := locksetOf(g, nil)
	var held map[string]bool
	for _, ret := range returnsOf(g) {
		cur := rec[ret]
		if held == nil {
			held = map[string]bool{}
			for k := range cur {
				held[k] = true
			}
			continue
		}
		for k := range held {
			if !cur[k] {
				delete(held, k)
			}
		}
	}
	// a deferred unlock runs at the return: not held afterwards
	unl := map[string]bool{}
	for _, b := range g.Blocks {
		for _, ins := range b.Instrs {
			c, ok := ins.(ssa.CallInstruction)
			if !ok {
				continue
			}
			switch calleeName(c.Common()) {
			case "(*sync.Mutex).Unlock", "(*sync.RWMutex).Unlock", "(*sync.RWMutex).RUnlock":
				n := describe(c.Common().Args[0])
				unl[n] = true
				if _, isDefer := ins.(*ssa.Defer); isDefer {
					delete(held, n)
				}
			}
		}
	}
	for k := range held {
		acquired = append(acquired, k)
	}
	for k := range unl {
		if !held[k] {
			released = append(released, k)
		}
	}
	sort.Strings(acquired)
	sort.Strings(released)
	lockSummaries[g] = [2][]string{acquired, released}
	return acquired, released
}

// substLockName rewrites a mutex named by a parameter of the callee ("$0.mu") into the caller's term for the argument.
func substLockName(n string, c *ssa.CallCommon) string {
	if !strings.HasPrefix(n, "$") {
		return n
	}
	i := 1
	for i < len(n) && n[i] >= '0' && n[i] <= '9' {
		i++
	}
	k := 0
	for _, ch := range n[1:i] {
		k = k*10 + int(ch-'0')
	}
	if i == 1 || k >= len(c.Args) {
		return n
	}
	return describe(c.Args[k]) + n[i:]
}
