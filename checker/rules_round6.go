package main

import (
	"fmt"
	"go/token"
	"strings"

	"golang.org/x/tools/go/ssa"
)

// Rules written after the sixth seeding round.
func init() {
	// decisions that already existed, claimed for the property a seed broke them under
	register("C01", "R13", 6, "configured request-header rules change exactly the named field (the C16.R1 decision, claimed here: `-name` removes that field only, not every field whose name starts with it)", c16r1)
	register("C03", "R14", 4, "a rate-limited listener passes tunnel bytes through unchanged: Read/Write hand on the caller's buffer and return the underlying results (the C20.R4 decision)", c20r4)
	register("C05", "R10", 5, "hosts-file aliases are recognised as localhost in direct mode (the C04.R7 decision: stored lower-cased, compared lower-cased)", c04r7)
	register("C05", "R11", 3, "a PAC entry without a usable host:port fails the request (the C14.R5 decision: an entry is accepted only when net.SplitHostPort splits it)", c14r5)
	register("C07", "R9", 3, "mitm-domains rules are applied as written (the C17.R2 decision: Match hands the name to the compiled rules unchanged)", c17r2)
	register("C10", "R15", 1, "an announced SETTINGS_INITIAL_WINDOW_SIZE is always recorded (the C09.R10 decision: later streams' frames are released against it)", initialWindowRecorded)

	register("C01", "R14", 4, "what the modifiers see is the request as it will be sent: the URL's scheme and host are filled in before the request modifiers run - fixRequestScheme precedes modifyRequest in both front ends, and readRequest fills an empty URL.Host from Host", normalisedBeforeModifiers)
	register("C04", "R10", 4, "host-based controls see the target of origin-form requests too (same decision as C01.R14: URL.Host and scheme are set before the security modifiers run)", normalisedBeforeModifiers)
	register("C02", "R10", 2, "body logging does not change the body: where the logger reads a message body it puts back a reader over the very bytes it read", bodyRestoredAsRead)
	register("C07", "R10", 1, "leaf validity is the configured validity: newMartianMITMConfig hands SetValidity the Validity option itself, not a value derived from other options", validityAsConfigured)
	register("C08", "R10", 2, "a v1 address is accepted whenever it parses: at the address positions parseV1Header rejects a field only when net.ParseIP fails (an IPv4-mapped address in a TCP6 line is well-formed)", v1AddressAcceptedIfParsed)
	register("C09", "R11", 1, "an announced SETTINGS_MAX_FRAME_SIZE is always recorded: updateMaxFrameSize stores the value unconditionally (16384, the default, is a legal value to return to)", maxFrameSizeRecorded)
	register("C09", "R12", 2, "header block fragments fit the receiver's frame size: the first fragment's limit is the max frame size less the HEADERS priority / PUSH_PROMISE promised-id octets, the continuation limit is the max frame size itself", headerFragmentLimits)
	register("C10", "R16", 2, "a large header block is relayed, not rejected by the receiver (same decision as C09.R12)", headerFragmentLimits)
	register("C11", "R9", 1, "Close closes every accepted socket: no return of Proxy.Close depends on the result of closing one connection", closeVisitsAll)
	register("C12", "R16", 1, "a silent peer cannot stall the others: while Proxy.connsMu is held no method of an accepted connection other than Close is called (RemoteAddr blocks until a PROXY header arrives)", noConnCallsUnderConnsMu)
	register("C13", "R10", 1, "a failed upstream CONNECT leaves nothing open: every return of DialContextR that hands back no connection after the dial succeeded has closed it", dialerClosesOnFailure)
	register("C14", "R10", 1, "a pool is built only for a script a resolver can be built for: NewProxyResolverPool constructs a ProxyResolver first and returns its error", poolValidatesByConstruction)
	register("C14", "R11", 1, "a well-formed result entry is never rejected: parseProxy returns an error only for a missing separator or a host:port that does not split", parseProxyRejectsOnlyMalformed)
	register("C15", "R10", 1, "the listener handshake is bounded: with TLS configured, Listener.Accept returns the tls.Conn itself (martian bounds the handshake only when it finds a *tls.Conn on top)", tlsConnOnTop)
	register("C18", "R8", 1, "a CONNECT forwarded to any upstream proxy carries the request's (Via-stamped) header: on every path of connectHTTP that dials, ProxyConnectHeader is the clone of the request header", connectHeaderOnEveryPath)
	register("C06", "R10", 1, "the header cloned into an upstream CONNECT is the one the hop-by-hop strip already cleaned, whatever the upstream's scheme (same decision as C18.R8)", connectHeaderOnEveryPath)
	register("C19", "R9", 1, "errors mode dumps headers only for 5xx exchanges: in both loggers the guarded header dump is skipped exactly when Status < 500 (a 101 upgrade carries the injected Authorization)", errorsModeOnly5xx)
	register("C19", "R10", 1, "inline key material is never handed to something that quotes its input: in ReadFileOrBase64 the data: branch passes the value only to the module's own decoder, as the opaque part of a URL it builds itself (a parser's error would echo the key into the start-up log)", dataValueNotParsed)
}

func normalisedBeforeModifiers(r *R) {
	for _, s := range []struct{ recv, fn string }{{"proxyConn", "handle"}, {"proxyHandler", "handleRequest"}} {
		fn := r.method(mpkg, s.recv, s.fn)
		var fix, mod ssa.Instruction
		eachInstr(fn, func(ins ssa.Instruction) {
			c, ok := ins.(*ssa.Call)
			if !ok {
				return
			}
			switch {
			case strings.HasSuffix(calleeName(c.Common()), ".fixRequestScheme") && fix == nil:
				fix = c
			case strings.HasSuffix(calleeName(c.Common()), ".modifyRequest") && mod == nil:
				mod = c
			}
		})
		key := s.recv + "." + s.fn + "#scheme-before-modifiers"
		switch {
		case mod == nil:
			r.bad(key, fn.Pos(), "the request modifiers are not run here")
		case fix == nil:
			r.bad(key, mod.Pos(), "the URL scheme is not filled in before the request modifiers run: for origin-form requests they see an empty scheme (X-Forwarded-Proto, default ports of site credentials)")
		default:
			r.check(instrDominates(fix, mod), key, fix.Pos(), "fixRequestScheme precedes modifyRequest", "fixRequestScheme does not precede the request modifiers on every path")
		}
	}
	rr := r.method(mpkg, "proxyConn", "readRequest")
	n := 0
	for _, w := range messageWrites(rr) {
		if w.what == "field:URL.Host" {
			n++
		}
	}
	r.check(n > 0, "readRequest#URL.Host-filled", rr.Pos(), "an empty URL.Host is filled from Host when the request is read", "readRequest no longer fills URL.Host from Host: the security modifiers (localhost, deny-domains) see an empty host name for origin-form requests")
	// ... and nothing on the round-trip side fills it later instead
	rt := r.method(mpkg, "Proxy", "roundTrip")
	late := 0
	for _, w := range messageWrites(rt) {
		if w.what == "field:URL.Host" || w.what == "field:URL.Scheme" {
			late++
		}
	}
	r.check(late == 0, "Proxy.roundTrip#no-late-normalisation", rt.Pos(), "roundTrip does not rewrite URL.Host / URL.Scheme", "roundTrip fills in the URL's host or scheme: that happens after the modifiers have looked at the request")
}

func bodyRestoredAsRead(r *R) {
	n := 0
	for _, fn := range r.modFuncsAll() {
		if !strings.Contains(fname(fn), "httplog.") {
			continue
		}
		eachInstr(fn, func(ins ssa.Instruction) {
			st, ok := ins.(*ssa.Store)
			if !ok || !strings.HasSuffix(describe(st.Addr), ".Body") {
				return
			}
			fa, ok := st.Addr.(*ssa.FieldAddr)
			if q, isParam := st.Addr.(*ssa.Parameter); !ok && isParam {
				// a helper that restores through a pointer it was handed: the field is the one named at the call
				if v, found := resolveParam(q); found {
					fa, ok = v.(*ssa.FieldAddr)
				}
			}
			if !ok {
				return
			}
			sn := structName(fa.X.Type())
			if sn != "net/http.Request" && sn != "net/http.Response" {
				return
			}
			n++
			d := describe(st.Val)
			src := describe(fa) // X.Body
			want := "io.NopCloser(bytes.NewReader(io.ReadAll(" + src + ")#0))"
			r.check(d == want, fname(fn)+"#restore("+sn+".Body)", st.Pos(), "body restored from the bytes read", "the message body is replaced by "+shorten(d, 100)+", not by a reader over what io.ReadAll returned: the message that goes on is not the one that arrived")
		})
	}
	if n == 0 {
		r.bad("httplog#body-restore", token.NoPos, "the logger reads bodies but never restores them")
	}
}

func validityAsConfigured(r *R) {
	fn := r.fn(".", "newMartianMITMConfig")
	n := 0
	eachInstr(fn, func(ins ssa.Instruction) {
		c, ok := ins.(*ssa.Call)
		if !ok || !strings.HasSuffix(calleeName(c.Common()), ".SetValidity") {
			return
		}
		n++
		d := describe(refArgs(c.Common())[1])
		g := guardsAt(c)
		var cond []string
		for _, x := range g {
			if !strings.Contains(x, "#1 != nil)") && !strings.Contains(x, "IsCA") { // error checks on the way are not conditions on the value
				cond = append(cond, x)
			}
		}
		r.check(d == "$0.Validity" && len(cond) == 0, "newMartianMITMConfig#validity", c.Pos(), "SetValidity($0.Validity)", "leaf validity is set to "+shorten(d, 80)+map[bool]string{true: " under " + strings.Join(cond, " ∧ "), false: ""}[len(cond) > 0]+" instead of the configured Validity")
	})
	if n == 0 {
		r.bad("newMartianMITMConfig#validity", fn.Pos(), "the configured validity is never applied")
	}
}

func v1AddressAcceptedIfParsed(r *R) {
	pv := r.fn("proxyproto", "parseV1Header")
	lits := anonFuncs(pv)
	if len(lits) != 1 {
		r.undecided("parseV1Header#address-rejection", pv.Pos(), "expected one field callback")
		return
	}
	ps, _ := enumPaths(lits[0], 512, 1)
	for _, pos := range []string{"0", "1"} {
		var why []string
		n := 0
		for _, p := range ps {
			if !p.holds("($0 == "+pos+")") || len(p.Ret) != 1 || p.Ret[0] == "nil" {
				continue
			}
			n++
			for _, c := range p.Conds {
				k, _ := normCond(c)
				if strings.HasPrefix(k, "($0 == ") || strings.Contains(k, "net.ParseIP($1)") && strings.HasSuffix(k, " == nil)") && !strings.Contains(k, "To4") {
					continue
				}
				why = append(why, "an address field is rejected when "+shorten(c, 90))
			}
			if !p.holds("!(net.ParseIP($1) != nil)") {
				why = append(why, "an address field is rejected although it parsed")
			}
		}
		r.check(n > 0 && len(why) == 0, "parseV1Header#rejects-only-unparsable("+pos+")", lits[0].Pos(), "rejected only when net.ParseIP fails", strings.Join(dedupStrings(why), "; "))
	}
}

func maxFrameSizeRecorded(r *R) {
	fn := r.methodOpt(h2pkg, "relay", "updateMaxFrameSize")
	if fn == nil {
		if inlinedWrapper("(*martian/h2.relay).updateMaxFrameSize") {
			r.ok("updateMaxFrameSize#recorded", token.NoPos, "written out at its call site as atomic.StoreUint32(&maxFrameSize, v)")
			return
		}
		r.missing("method martian/h2.relay.updateMaxFrameSize")
	}
	n := 0
	eachInstr(fn, func(ins ssa.Instruction) {
		c, ok := ins.(*ssa.Call)
		if !ok || calleeName(c.Common()) != "sync/atomic.StoreUint32" || describe(c.Common().Args[0]) != "$0.maxFrameSize" {
			return
		}
		n++
		g := guardsUp(c)
		r.check(len(g) == 0 && describe(c.Common().Args[1]) == "$1", "updateMaxFrameSize#recorded", c.Pos(), "maxFrameSize = v, unconditionally", "the announced frame size is recorded only when "+strings.Join(g, " ∧ ")+" (value "+describe(c.Common().Args[1])+")")
	})
	if n == 0 {
		r.bad("updateMaxFrameSize#recorded", fn.Pos(), "the announced max frame size is never stored")
	}
}

func headerFragmentLimits(r *R) {
	const M = "sync/atomic.LoadUint32($0.maxFrameSize)"
	for _, s := range []struct{ fn, typ, meta string }{{"header", "queuedHeaderFrame", "5"}, {"pushPromise", "queuedPushPromiseFrame", "4"}} {
		fn := r.method(h2pkg, "relay", s.fn)
		n := 0
		eachInstr(fn, func(ins ssa.Instruction) {
			c, ok := ins.(*ssa.Call)
			if !ok || calleeName(c.Common()) != "martian/h2.splitIntoChunks" {
				return
			}
			n++
			first, cont := describe(refArgs(c.Common())[0]), describe(refArgs(c.Common())[1])
			var why []string
			if cont != M {
				why = append(why, "continuation fragments are limited to "+shorten(cont, 70)+", not to the max frame size")
			}
			deducts := strings.Contains(first, "("+M+" - "+s.meta+")") || strings.Contains(first, M+" - ") && strings.Contains(first, s.meta)
			if !strings.Contains(first, M) || !deducts {
				why = append(why, "the first fragment is limited to "+shorten(first, 90)+": the "+s.meta+" octets that precede the fragment in the frame are not deducted")
			}
			r.check(len(why) == 0, "relay."+s.fn+"#fragment-limits", c.Pos(), "first ≤ max-"+s.meta+" (when present), continuation ≤ max", strings.Join(why, "; "))
		})
		if n == 0 {
			r.bad("relay."+s.fn+"#fragment-limits", fn.Pos(), "the header block is not split with splitIntoChunks")
		}
	}
}

func closeVisitsAll(r *R) {
	fn := r.method(mpkg, "Proxy", "Close")
	closes := 0
	eachInstr(fn, func(ins ssa.Instruction) {
		if c, ok := ins.(*ssa.Call); ok && calleeName(c.Common()) == "invoke net.Conn.Close" {
			closes++
		}
	})
	var why []string
	for _, ret := range returnsOf(fn) {
		for _, g := range guardsUp(ret) {
			if strings.Contains(g, "net.Conn.Close(") {
				why = append(why, "a return at "+r.rel(ret.Pos())+" is taken when "+shorten(g, 80)+": connections not yet visited stay open")
			}
		}
	}
	r.check(closes > 0 && len(why) == 0, "Proxy.Close#visits-all", fn.Pos(), "no return depends on one connection's Close result", strings.Join(dedupStrings(why), "; ")+map[bool]string{true: "Close closes no connection", false: ""}[closes == 0])
}

func noConnCallsUnderConnsMu(r *R) {
	total := 0
	var why []string
	for _, fn := range r.modFuncsAll() {
		nm := fname(fn)
		if !strings.Contains(nm, "martian.") || strings.Contains(nm, "martian/") {
			continue
		}
		for _, f := range append([]*ssa.Function{fn}, anonFuncs(fn)...) {
			ls := lockset(f)
			eachInstr(f, func(ins ssa.Instruction) {
				c, ok := ins.(*ssa.Call)
				if !ok || !holdsSuffix(ls[ins], ".connsMu") {
					return
				}
				cn := calleeName(c.Common())
				if !strings.HasPrefix(cn, "invoke net.Conn.") {
					return
				}
				total++
				if cn != "invoke net.Conn.Close" {
					why = append(why, fmt.Sprintf("%s calls %s at %s while holding connsMu", fname(f), strings.TrimPrefix(cn, "invoke "), r.rel(c.Pos())))
				}
			})
		}
	}
	r.check(total > 0 && len(why) == 0, "martian#connsMu-critical-sections", token.NoPos, fmt.Sprintf("%d connection calls under connsMu, all Close", total), strings.Join(dedupStrings(why), "; ")+": on a PROXY-protocol listener that call waits for the peer's header, and every other connection waits for the mutex")
}

func dialerClosesOnFailure(r *R) {
	fn := r.method("dialvia", "HTTPProxyDialer", "DialContextR")
	ps, complete := enumPaths(fn, 20000, 1)
	if !complete {
		r.undecided("DialContextR#close-on-failure", fn.Pos(), "too many paths")
		return
	}
	var why []string
	n := 0
	for _, p := range ps {
		di := p.eventIndex(0, "call", prefix("dyn:$0.dial("))
		if di < 0 || len(p.Ret) != 3 {
			continue
		}
		dialT := p.Events[di].Desc
		if failed, known := p.outcome("(" + dialT + "#1 != nil)"); !known || failed {
			continue
		}
		if p.Ret[1] != "nil" {
			continue // the connection is handed to the caller
		}
		n++
		closed := p.eventIndex(di, "call", func(s string) bool {
			return strings.HasPrefix(s, "invoke net.Conn.Close(") && strings.Contains(s, dialT+"#0")
		}) >= 0
		if !closed {
			why = append(why, "a failure return leaves the connection to the upstream proxy open: ["+shorten(strings.Join(p.Conds[len(p.Conds)-min(2, len(p.Conds)):], " ∧ "), 200)+"]")
		}
	}
	r.check(n > 0 && len(why) == 0, "DialContextR#close-on-failure", fn.Pos(), fmt.Sprintf("%d failure paths after a successful dial, the connection closed on each", n), strings.Join(dedupStrings(why), "; "))
}

func poolValidatesByConstruction(r *R) {
	fn := r.fn("pac", "NewProxyResolverPool")
	ps, complete := enumPaths(fn, 256, 1)
	if !complete {
		r.undecided("NewProxyResolverPool#validates", fn.Pos(), "too many paths")
		return
	}
	var why []string
	okN, errN := 0, 0
	for _, p := range ps {
		if len(p.Ret) != 2 {
			continue
		}
		ci := p.eventIndex(0, "call", prefix("pac.NewProxyResolver($0, $1, "))
		if p.Ret[1] == "nil" {
			okN++
			if ci < 0 {
				why = append(why, "a pool is returned without a resolver having been constructed from the script")
				continue
			}
			if failed, known := p.outcome("(" + p.Events[ci].Desc + "#1 != nil)"); !known || failed {
				why = append(why, "a pool is returned although constructing a resolver was not seen to succeed")
			}
		} else if ci >= 0 && p.Ret[1] == p.Events[ci].Desc+"#1" {
			errN++
		}
	}
	r.check(okN > 0 && errN > 0 && len(why) == 0, "NewProxyResolverPool#validates", fn.Pos(), "resolver constructed first; its error is the pool's error", strings.Join(dedupStrings(why), "; ")+map[bool]string{true: "the construction error is not returned", false: ""}[errN == 0])
}

func parseProxyRejectsOnlyMalformed(r *R) {
	pp := r.fn("pac", "parseProxy")
	ps, complete := enumPaths(pp, 256, 1)
	if !complete {
		r.undecided("parseProxy#rejections", pp.Pos(), "too many paths")
		return
	}
	const in = "strings.TrimSpace($0)"
	cut := "strings.Cut(" + in + ", \" \")"
	split := "net.SplitHostPort(" + cut + "#1)"
	var why []string
	n := 0
	for _, p := range ps {
		if len(p.Ret) != 2 || p.Ret[1] == "nil" {
			continue
		}
		n++
		justified := p.holds("!"+cut+"#2") || p.holds("("+split+"#2 != nil)")
		if !justified {
			why = append(why, "an entry is rejected although it has a separator and its host:port splits: ["+shorten(strings.Join(p.Conds, " ∧ "), 220)+"]")
		}
	}
	r.check(n >= 2 && len(why) == 0, "parseProxy#rejections", pp.Pos(), fmt.Sprintf("%d rejecting paths: missing separator or host:port that does not split", n), strings.Join(dedupStrings(why), "; "))
}

func tlsConnOnTop(r *R) {
	fn := r.method(".", "Listener", "Accept")
	ps, complete := enumPaths(fn, 512, 1)
	if !complete {
		r.undecided("Listener.Accept#tls-on-top", fn.Pos(), "too many paths")
		return
	}
	var why []string
	n := 0
	for _, p := range ps {
		if len(p.Ret) != 2 || p.Ret[1] != "nil" {
			continue
		}
		if !p.holds("($0.TLSConfig != nil)") {
			continue
		}
		n++
		if !strings.HasPrefix(p.Ret[0], "crypto/tls.Server(") {
			why = append(why, "with TLS configured Accept returns "+shorten(p.Ret[0], 90)+": the *tls.Conn is not on top, so the proxy does not run (and bound) the handshake itself")
		}
	}
	r.check(n > 0 && len(why) == 0, "Listener.Accept#tls-on-top", fn.Pos(), "tls.Server(...) is what Accept returns", strings.Join(dedupStrings(why), "; "))
}

func connectHeaderOnEveryPath(r *R) {
	fn := r.method(mpkg, "Proxy", "connectHTTP")
	ps, complete := enumPaths(fn, 4096, 1)
	if !complete {
		r.undecided("connectHTTP#header-on-every-path", fn.Pos(), "too many paths")
		return
	}
	var why []string
	n := 0
	for _, p := range ps {
		di := p.eventIndex(0, "call", prefix("(*dialvia.HTTPProxyDialer).DialContextR("))
		if di < 0 {
			continue
		}
		n++
		a := splitArgs(p.Events[di].Desc)
		if len(a) == 0 {
			continue
		}
		h := p.Mem[a[0]+".ProxyConnectHeader"]
		if h != "(net/http.Header).Clone($1.Header)" {
			scheme := "http"
			if p.holds(`($2.Scheme == "https")`) {
				scheme = "https"
			}
			why = append(why, "for an "+scheme+" upstream the CONNECT is sent with header "+map[bool]string{true: "<none>", false: shorten(h, 60)}[h == ""]+" instead of the clone of the request header")
		}
	}
	r.check(n >= 2 && len(why) == 0, "connectHTTP#header-on-every-path", fn.Pos(), fmt.Sprintf("%d dialling paths, each with ProxyConnectHeader = clone of the request header", n), strings.Join(dedupStrings(why), "; "))
}

func errorsModeOnly5xx(r *R) {
	guarded := 0
	var why []string
	for _, name := range []string{"structuredLogFunc", "logFunc"} {
		fn := r.methodOpt("httplog", "Logger", name)
		if fn == nil {
			continue
		}
		for _, lit := range anonFuncs(fn) {
			eachInstr(lit, func(ins ssa.Instruction) {
				c, ok := ins.(*ssa.Call)
				if !ok {
					return
				}
				cn := calleeName(c.Common())
				if !strings.HasSuffix(cn, ".WithHeaders") && !strings.HasSuffix(cn, ".Dump") {
					return
				}
				g := guardsAt(c)
				if len(g) == 0 {
					return // headers / body mode: asked for
				}
				guarded++
				for _, x := range g {
					k, pol := normCond(x)
					if !(strings.HasSuffix(k, ".Status < 500)") && !pol) {
						why = append(why, fname(lit)+" dumps headers when "+shorten(x, 70))
					}
				}
			})
		}
	}
	r.check(guarded >= 2 && len(why) == 0, "httplog#errors-mode", token.NoPos, fmt.Sprintf("%d guarded header dumps, each only when !(Status < 500)", guarded), strings.Join(dedupStrings(why), "; ")+map[bool]string{true: fmt.Sprintf("only %d guarded header dumps found (errors mode of both loggers expected)", guarded), false: ""}[guarded < 2])
}

func dataValueNotParsed(r *R) {
	fn := r.fn(".", "ReadFileOrBase64")
	var why []string
	n := 0
	eachInstr(fn, func(ins ssa.Instruction) {
		c, ok := ins.(*ssa.Call)
		if !ok {
			return
		}
		inData := false
		for _, g := range guardsAt(c) {
			if g == `strings.HasPrefix($0, "data:")` {
				inData = true
			}
		}
		if !inData {
			return
		}
		uses := false
		for _, a := range c.Common().Args {
			if dependsOn(a, func(v ssa.Value) bool { p, ok := v.(*ssa.Parameter); return ok && p.Parent().Params[0] == p && p.Parent() == fn }) {
				uses = true
			}
		}
		if !uses {
			return
		}
		n++
		g := staticCallee(c.Common())
		if g != nil && inModule(g) {
			return // the module's own decoder
		}
		res := c.Common().Signature().Results()
		for i := 0; i < res.Len(); i++ {
			if typeStr(res.At(i).Type()) == "error" {
				why = append(why, calleeName(c.Common())+" is given the data: value and can fail: its error text quotes what it was given")
			}
		}
	})
	r.check(n > 0 && len(why) == 0, "ReadFileOrBase64#data-branch", fn.Pos(), "the value goes to the module's decoder only", strings.Join(dedupStrings(why), "; ")+map[bool]string{true: "the data: branch does not use the value", false: ""}[n == 0])
}
