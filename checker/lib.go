package main

import (
	"strconv"
	"fmt"
	"go/constant"
	"go/token"
	"go/types"
	"sort"
	"strings"

	"golang.org/x/tools/go/ssa"
)

// ---------------------------------------------------------------------------
// Anchors

func (r *R) pkg(rel string) *ssa.Package {
	path := modPath
	if rel != "" && rel != "." {
		path += "/" + rel
	}
	for _, p := range r.SSA.AllPackages() {
		if p.Pkg.Path() == path {
			return p
		}
	}
	r.missing("package %s", path)
	return nil
}

// fn resolves a package-level function.
func (r *R) fn(pkgRel, name string) *ssa.Function {
	p := r.pkg(pkgRel)
	if f := p.Func(name); f != nil && len(f.Blocks) > 0 {
		return f
	}
	if f := refFuncLookup(p.Pkg.Path(), "", name); f != nil {
		return f // renamed since the reference tree
	}
	r.missing("func %s.%s", pkgRel, name)
	return nil
}

// method resolves a method of a named type (pointer or value receiver).
func (r *R) method(pkgRel, typ, name string) *ssa.Function {
	f := r.methodOpt(pkgRel, typ, name)
	if f == nil {
		r.missing("method %s.%s.%s", pkgRel, typ, name)
	}
	return f
}

func (r *R) methodOpt(pkgRel, typ, name string) *ssa.Function {
	p := r.pkg(pkgRel)
	if f := refFuncLookup(p.Pkg.Path(), typ, name); f != nil {
		return f // method (or its receiver type) renamed since the reference tree
	}
	if n, ok := curRenames.typeOld2New[p.Pkg.Path()+"."+typ]; ok {
		typ = n[strings.LastIndex(n, ".")+1:]
	}
	obj := p.Pkg.Scope().Lookup(typ)
	if obj == nil {
		return nil
	}
	tn, ok := obj.(*types.TypeName)
	if !ok {
		return nil
	}
	for _, T := range []types.Type{types.NewPointer(tn.Type()), tn.Type()} {
		ms := r.SSA.MethodSets.MethodSet(T)
		for i := 0; i < ms.Len(); i++ {
			sel := ms.At(i)
			if sel.Obj().Name() != name || sel.Obj().Pkg() != p.Pkg {
				continue
			}
			// only methods declared on this type (not promoted)
			if len(sel.Index()) != 1 {
				continue
			}
			if f := r.SSA.MethodValue(sel); f != nil && len(f.Blocks) > 0 && f.Synthetic == "" {
				return f
			}
			// value-receiver method reached through pointer: wrapper; take the declared one
			if f := r.SSA.FuncValue(sel.Obj().(*types.Func)); f != nil && len(f.Blocks) > 0 {
				return f
			}
		}
	}
	return nil
}

func (r *R) namedType(pkgRel, typ string) *types.Named {
	p := r.pkg(pkgRel)
	if n, ok := curRenames.typeOld2New[p.Pkg.Path()+"."+typ]; ok {
		typ = n[strings.LastIndex(n, ".")+1:]
	}
	obj := p.Pkg.Scope().Lookup(typ)
	if obj == nil {
		r.missing("type %s.%s", pkgRel, typ)
	}
	n, ok := obj.Type().(*types.Named)
	if !ok {
		r.missing("named type %s.%s", pkgRel, typ)
	}
	return n
}

// withClosures returns fn and every function literal nested in it.
func withClosures(fn *ssa.Function) []*ssa.Function {
	out := []*ssa.Function{fn}
	for _, a := range fn.AnonFuncs {
		out = append(out, withClosures(a)...)
	}
	return out
}

// modFuncs returns every function (incl. literals and generic instances) whose
// source lives in the module, sorted by position; test files are not loaded.
func (r *R) modFuncs() []*ssa.Function { return r.modFuncsOpt(false) }

// modFuncsAll also lists helpers that are new with respect to the reference
// tree as units of their own (for rules that follow values, which do not carry
// over a call boundary by themselves).
func (r *R) modFuncsAll() []*ssa.Function { return r.modFuncsOpt(true) }

func (r *R) modFuncsOpt(withNew bool) []*ssa.Function {
	var out []*ssa.Function
	for f := range r.AllFuncs {
		if len(f.Blocks) == 0 || f.Synthetic != "" && f.Parent() == nil && !strings.HasPrefix(f.Synthetic, "package initializer") {
			continue // wrappers and bound-method thunks have no source of their own
		}
		if inModule(f) && (withNew || !isNewHelperOrInside(f)) {
			out = append(out, f)
		}
	}
	sort.Slice(out, func(i, j int) bool {
		if out[i].Pos() != out[j].Pos() {
			return out[i].Pos() < out[j].Pos()
		}
		return out[i].String() < out[j].String()
	})
	return out
}

func inModule(f *ssa.Function) bool {
	for f.Parent() != nil {
		f = f.Parent()
	}
	if o := f.Origin(); o != nil {
		f = o
	}
	if f.Pkg != nil {
		return strings.HasPrefix(f.Pkg.Pkg.Path(), modPath)
	}
	if f.Object() != nil && f.Object().Pkg() != nil {
		return strings.HasPrefix(f.Object().Pkg().Path(), modPath)
	}
	return false
}

// fname is a short stable name of a function: martian.(*proxyConn).handle,
// martian.(*proxyConn).handle$1 for literals.
func fname(f *ssa.Function) string {
	if f == nil {
		return "<nil>"
	}
	s := f.String()
	if len(curRenames.funcAlias) > 0 {
		root := f
		for root.Parent() != nil {
			root = root.Parent()
		}
		if old, ok := curRenames.funcAlias[root]; ok {
			s = old + strings.TrimPrefix(s, root.String())
		}
	}
	return canon(shortenFull(s))
}

// ---------------------------------------------------------------------------
// Calls

// calleeName names the resolved callee of a call:
//
//	static function/method  -> its name with the module prefix removed, e.g. (net/http.Header).Set, io.ReadFull, (*martian/h2.relay).data
//	interface method        -> "invoke " + interface type + "." + method
//	closure / func value    -> "dynamic"
//	builtin                 -> "builtin " + name
func calleeName(c *ssa.CallCommon) string {
	if c.IsInvoke() {
		return "invoke " + types.TypeString(c.Value.Type(), shortQual) + "." + c.Method.Name()
	}
	switch v := c.Value.(type) {
	case *ssa.Function:
		return fname(origin(v))
	case *ssa.Builtin:
		return "builtin " + v.Name()
	case *ssa.MakeClosure:
		return fname(v.Fn.(*ssa.Function))
	}
	return "dynamic"
}

func origin(f *ssa.Function) *ssa.Function {
	if o := f.Origin(); o != nil {
		return o
	}
	return f
}

// staticCallee returns the called function when it is statically known
// (function, method, or immediately applied closure).
func staticCallee(c *ssa.CallCommon) *ssa.Function {
	if c.IsInvoke() {
		return nil
	}
	switch v := c.Value.(type) {
	case *ssa.Function:
		return v
	case *ssa.MakeClosure:
		return v.Fn.(*ssa.Function)
	}
	return nil
}

// methodName is the bare method/function name of a call.
func methodName(c *ssa.CallCommon) string {
	if c.IsInvoke() {
		return c.Method.Name()
	}
	if f := staticCallee(c); f != nil {
		return f.Name()
	}
	if b, ok := c.Value.(*ssa.Builtin); ok {
		return b.Name()
	}
	return ""
}

// callArgs returns the arguments including the receiver as element 0 for
// methods and interface invocations.
func callArgs(c *ssa.CallCommon) []ssa.Value {
	if c.IsInvoke() {
		return append([]ssa.Value{c.Value}, c.Args...)
	}
	return c.Args
}

func eachInstr(fn *ssa.Function, f func(ins ssa.Instruction)) {
	eachInstrDeep(fn, f, map[*ssa.Function]bool{fn: true}, 0)
}

// eachInstrDeep also visits the instructions of helpers that did not exist in
// the reference tree and are called (or referenced as values) from fn: code
// moved into a new helper still belongs to the function it was moved out of.
func eachInstrDeep(fn *ssa.Function, f func(ins ssa.Instruction), seen map[*ssa.Function]bool, depth int) {
	var helpers []*ssa.Function
	for _, b := range fn.Blocks {
		for _, ins := range b.Instrs {
			f(ins)
			if !haveReference || depth > 3 {
				continue
			}
			if c, ok := ins.(ssa.CallInstruction); ok { // call, go, defer
				if g := staticCallee(c.Common()); g != nil && isNewHelper(g) && !seen[g] {
					// walk the helper here, with its parameters standing for this call's arguments
					sub := map[*ssa.Parameter]string{}
					for i, a := range c.Common().Args {
						if i < len(g.Params) {
							sub[g.Params[i]] = describe(a)
						}
					}
					vsub := map[*ssa.Parameter]ssa.Value{}
					for i, a := range c.Common().Args {
						if i < len(g.Params) {
							vsub[g.Params[i]] = a
						}
					}
					paramSubstStack = append(paramSubstStack, sub)
					paramValueStack = append(paramValueStack, vsub)
					callSiteStack = append(callSiteStack, ins)
					seen[g] = true
					for _, h := range withClosures(g) {
						eachInstrDeep(h, f, seen, depth+1)
					}
					delete(seen, g)
					paramSubstStack = paramSubstStack[:len(paramSubstStack)-1]
					paramValueStack = paramValueStack[:len(paramValueStack)-1]
					callSiteStack = callSiteStack[:len(callSiteStack)-1]
					continue
				}
			}
			// inside a walked-in helper: a call of the function it was handed is a call of that function
			if c, ok := ins.(ssa.CallInstruction); ok && len(paramValueStack) > 0 {
				if p, ok := c.Common().Value.(*ssa.Parameter); ok && !c.Common().IsInvoke() {
					if fv, ok := resolveParam(p); ok {
						var h *ssa.Function
						var binds []ssa.Value
						switch v := fv.(type) {
						case *ssa.Function:
							h = v
						case *ssa.MakeClosure:
							h, _ = v.Fn.(*ssa.Function)
							binds = v.Bindings
						}
						if h != nil && len(h.Blocks) > 0 && !seen[h] {
							sub := map[*ssa.Parameter]string{}
							vsub := map[*ssa.Parameter]ssa.Value{}
							for i, a := range c.Common().Args {
								if i < len(h.Params) {
									sub[h.Params[i]] = describe(a)
									vsub[h.Params[i]] = a
								}
							}
							fsub := map[*ssa.FreeVar]string{}
							for i, b := range binds {
								if i < len(h.FreeVars) {
									fsub[h.FreeVars[i]] = describe(b)
									// a variable assigned once and only read by the literal: its value
									if a, ok := b.(*ssa.Alloc); ok {
										if sv := wholeStore(a); sv != nil && !storesThrough(h, h.FreeVars[i]) {
											fsub[h.FreeVars[i]] = describe(sv)
										}
									}
								}
							}
							paramSubstStack = append(paramSubstStack, sub)
							paramValueStack = append(paramValueStack, vsub)
							freeVarSubstStack = append(freeVarSubstStack, fsub)
							callSiteStack = append(callSiteStack, ins)
							seen[h] = true
							eachInstrDeep(h, f, seen, depth+1)
							delete(seen, h)
							paramSubstStack = paramSubstStack[:len(paramSubstStack)-1]
							paramValueStack = paramValueStack[:len(paramValueStack)-1]
							freeVarSubstStack = freeVarSubstStack[:len(freeVarSubstStack)-1]
							callSiteStack = callSiteStack[:len(callSiteStack)-1]
							continue
						}
					}
				}
			}
			for _, op := range ins.Operands(nil) {
				var g *ssa.Function
				switch v := (*op).(type) {
				case *ssa.Function:
					g = v
				case *ssa.MakeClosure:
					g, _ = v.Fn.(*ssa.Function)
				}
				if g != nil && g.Synthetic != "" {
					g = boundTarget(g) // bound-method wrapper / thunk: the method itself
				}
				if g != nil && !seen[g] && isNewHelper(g) {
					seen[g] = true
					helpers = append(helpers, g)
				}
			}
		}
	}
	for _, g := range helpers {
		for _, h := range withClosures(g) {
			if h == g || !seen[h] {
				seen[h] = true
				eachInstrDeep(h, f, seen, depth+1)
			}
		}
	}
}

// boundTarget: for a synthetic bound-method wrapper or thunk, the declared method it calls.
func boundTarget(w *ssa.Function) *ssa.Function {
	var out *ssa.Function
	for _, b := range w.Blocks {
		for _, ins := range b.Instrs {
			if c, ok := ins.(ssa.CallInstruction); ok {
				if sc := c.Common().StaticCallee(); sc != nil && sc.Synthetic == "" {
					out = sc
				}
			}
		}
	}
	return out
}

// calls returns the call instructions (call, go, defer) of fn whose resolved
// callee name satisfies match, in block/instruction order.
func calls(fn *ssa.Function, match func(name string) bool) []ssa.CallInstruction {
	var out []ssa.CallInstruction
	eachInstr(fn, func(ins ssa.Instruction) {
		if c, ok := ins.(ssa.CallInstruction); ok {
			if match(calleeName(c.Common())) {
				out = append(out, c)
			}
		}
	})
	return out
}

func nameIs(names ...string) func(string) bool {
	return func(s string) bool {
		for _, n := range names {
			if s == n {
				return true
			}
		}
		return false
	}
}

func nameHasSuffix(suffixes ...string) func(string) bool {
	return func(s string) bool {
		for _, n := range suffixes {
			if strings.HasSuffix(s, n) {
				return true
			}
		}
		return false
	}
}

// callsToFunc returns the calls in fn whose static callee is target.
func callsToFunc(fn *ssa.Function, target *ssa.Function) []ssa.CallInstruction {
	var out []ssa.CallInstruction
	eachInstr(fn, func(ins ssa.Instruction) {
		if c, ok := ins.(ssa.CallInstruction); ok {
			if sc := staticCallee(c.Common()); sc != nil && origin(sc) == origin(target) {
				out = append(out, c)
			}
		}
	})
	return out
}

// ---------------------------------------------------------------------------
// Dominance and paths

func instrIndex(ins ssa.Instruction) int {
	for i, x := range ins.Block().Instrs {
		if x == ins {
			return i
		}
	}
	return -1
}

// instrDominates reports whether a is executed on every path reaching b.
func instrDominates(a, b ssa.Instruction) bool {
	a, b = liftToCommon(a, b)
	if a.Block() == b.Block() {
		return instrIndex(a) < instrIndex(b)
	}
	return a.Block().Dominates(b.Block())
}

// edgeDominates reports whether every path from the entry to target uses the
// CFG edge from -> from.Succs[succ].
func edgeDominates(from *ssa.BasicBlock, succ int, target *ssa.BasicBlock) bool {
	fn := from.Parent()
	if len(from.Succs) > 1 && from.Succs[0] == from.Succs[1] {
		return false
	}
	seen := map[*ssa.BasicBlock]bool{}
	var stack []*ssa.BasicBlock
	stack = append(stack, fn.Blocks[0])
	if fn.Recover != nil {
		// recover block is entered outside normal control flow
		stack = append(stack, fn.Recover)
	}
	for len(stack) > 0 {
		b := stack[len(stack)-1]
		stack = stack[:len(stack)-1]
		if seen[b] {
			continue
		}
		seen[b] = true
		if b == target {
			return false
		}
		for i, s := range b.Succs {
			if b == from && i == succ {
				continue
			}
			stack = append(stack, s)
		}
	}
	return true
}

// Guard is a branch outcome that holds whenever a block executes.
type Guard struct {
	Cond ssa.Value
	Pol  bool // true: cond held; false: cond failed
	If   *ssa.If
}

// guards returns every branch outcome that dominates block b, with negations
// stripped (a dominating false edge of !c is reported as c held).
func guards(b *ssa.BasicBlock) []Guard {
	var out []Guard
	for _, blk := range b.Parent().Blocks {
		if len(blk.Instrs) == 0 {
			continue
		}
		iff, ok := blk.Instrs[len(blk.Instrs)-1].(*ssa.If)
		if !ok {
			continue
		}
		for i := 0; i < 2; i++ {
			if edgeDominates(blk, i, b) {
				c, pol := stripNot(iff.Cond, i == 0)
				out = append(out, Guard{c, pol, iff})
			}
		}
	}
	return out
}

func stripNot(c ssa.Value, pol bool) (ssa.Value, bool) {
	for {
		u, ok := c.(*ssa.UnOp)
		if !ok || u.Op != token.NOT {
			return c, pol
		}
		c, pol = u.X, !pol
	}
}

// guardStrings describes the guards of b: "cond" for held, "!(cond)" for failed.
func guardStrings(b *ssa.BasicBlock) []string {
	var out []string
	for _, g := range guards(b) {
		s := describe(g.Cond)
		if !g.Pol {
			s = "!" + s
		}
		out = append(out, spellCond(s))
		if g.Pol {
			out = append(out, impliedByPredicate(g.Cond)...)
		}
	}
	return out
}

// impliedByPredicate: cond is a call of a boolean helper that is new with respect to the reference tree and all of
// whose returns but one are the literal false: when the call yields true, that one returned expression was true
// (and so were the conditions under which it is returned). The expression is printed with the helper's parameters
// standing for the call's arguments - a test moved into a predicate function still guards what it guarded.
func impliedByPredicate(cond ssa.Value) []string {
	c, ok := cond.(*ssa.Call)
	if !ok {
		return nil
	}
	g := staticCallee(c.Common())
	if g == nil || !isNewHelper(g) || g.Signature.Results().Len() != 1 || len(describeDepthGuard) > 3 {
		return nil
	}
	if bt, ok := g.Signature.Results().At(0).Type().Underlying().(*types.Basic); !ok || bt.Info()&types.IsBoolean == 0 {
		return nil
	}
	var exprs []ssa.Value
	var at []*ssa.Return
	for _, ret := range returnsOf(g) {
		v := ret.Results[0]
		if k, ok := v.(*ssa.Const); ok && k.Value != nil && k.Value.ExactString() == "false" {
			continue
		}
		exprs = append(exprs, v)
		at = append(at, ret)
	}
	if len(exprs) != 1 {
		return nil
	}
	sub := map[*ssa.Parameter]string{}
	vsub := map[*ssa.Parameter]ssa.Value{}
	for i, a := range c.Common().Args {
		if i < len(g.Params) {
			sub[g.Params[i]] = describe(a)
			vsub[g.Params[i]] = a
		}
	}
	paramSubstStack = append(paramSubstStack, sub)
	paramValueStack = append(paramValueStack, vsub)
	describeDepthGuard = append(describeDepthGuard, g)
	var out []string
	if k, ok := exprs[0].(*ssa.Const); !ok || k.Value == nil || k.Value.ExactString() != "true" {
		out = append(out, spellCond(describe(exprs[0])))
	}
	out = append(out, guardStrings(at[0].Block())...)
	describeDepthGuard = describeDepthGuard[:len(describeDepthGuard)-1]
	paramSubstStack = paramSubstStack[:len(paramSubstStack)-1]
	paramValueStack = paramValueStack[:len(paramValueStack)-1]
	return out
}

// guardedBy reports whether some guard of block b, described, satisfies pred.
func guardedBy(b *ssa.BasicBlock, pred func(desc string) bool) bool {
	for _, s := range guardStrings(b) {
		if pred(s) {
			return true
		}
	}
	return false
}

func has(sub ...string) func(string) bool {
	return func(s string) bool {
		for _, x := range sub {
			if !strings.Contains(s, x) {
				return false
			}
		}
		return true
	}
}

// succInstrs iterates over the instructions after ins in program order along
// every path; visit returns true to stop exploring beyond that instruction.
// It returns a witness path (block indices) to the first function exit that was
// reached without visit returning true, or "" when every path was stopped.
func escapes(from ssa.Instruction, stop func(ssa.Instruction) bool) string {
	type item struct {
		b    *ssa.BasicBlock
		i    int
		path string
	}
	seen := map[*ssa.BasicBlock]bool{}
	work := []item{{from.Block(), instrIndex(from) + 1, fmt.Sprintf("b%d", from.Block().Index)}}
	for len(work) > 0 {
		it := work[len(work)-1]
		work = work[:len(work)-1]
		stopped := false
		for _, ins := range it.b.Instrs[it.i:] {
			if stop(ins) {
				stopped = true
				break
			}
			switch ins.(type) {
			case *ssa.Return:
				return it.path + "→return@" + posLine(ins)
			case *ssa.Panic:
				// a panic is not a normal exit; treated as stopped
				stopped = true
			}
			if stopped {
				break
			}
		}
		if stopped {
			continue
		}
		for _, s := range it.b.Succs {
			if !seen[s] {
				seen[s] = true
				work = append(work, item{s, 0, fmt.Sprintf("%s→b%d", it.path, s.Index)})
			}
		}
	}
	return ""
}

func posLine(ins ssa.Instruction) string {
	fn := ins.Parent()
	if fn == nil || fn.Prog == nil {
		return "?"
	}
	pos := ins.Pos()
	if !pos.IsValid() {
		// returns in functions with defers carry NoPos: search backwards
		for i := instrIndex(ins) - 1; i >= 0 && !pos.IsValid(); i-- {
			pos = ins.Block().Instrs[i].Pos()
		}
	}
	if !pos.IsValid() {
		return "?"
	}
	return fmt.Sprintf("L%d", fn.Prog.Fset.Position(pos).Line)
}

// reaches reports whether some path leads from just after a to b.
func reaches(a, b ssa.Instruction) bool {
	if a.Parent() != b.Parent() {
		la, lb := liftToCommon(a, b)
		if la == lb && la != nil && a != b {
			// both inside the same walked-in helper call: decide inside the helper when they share it
			return false
		}
		a, b = la, lb
	}
	if a.Block() == b.Block() && instrIndex(a) < instrIndex(b) {
		return true
	}
	seen := map[*ssa.BasicBlock]bool{}
	work := append([]*ssa.BasicBlock(nil), a.Block().Succs...)
	for len(work) > 0 {
		blk := work[len(work)-1]
		work = work[:len(work)-1]
		if seen[blk] {
			continue
		}
		seen[blk] = true
		if blk == b.Block() {
			return true
		}
		work = append(work, blk.Succs...)
	}
	return false
}

// ---------------------------------------------------------------------------
// Values

func constString(v ssa.Value) (string, bool) {
	c, ok := v.(*ssa.Const)
	if !ok || c.Value == nil || c.Value.Kind() != constant.String {
		return "", false
	}
	return constant.StringVal(c.Value), true
}

func constInt(v ssa.Value) (int64, bool) {
	switch x := v.(type) {
	case *ssa.Const:
		if x.Value == nil || x.Value.Kind() != constant.Int {
			return 0, false
		}
		return x.Int64(), true
	case *ssa.Convert:
		return constInt(x.X)
	case *ssa.ChangeType:
		return constInt(x.X)
	}
	return 0, false
}

func isNilConst(v ssa.Value) bool {
	c, ok := v.(*ssa.Const)
	return ok && c.Value == nil
}

// describe renders the provenance of a value as an access path / expression
// over parameters ($0 is the receiver), free variables (^n), globals,
// constants and calls. Loads are transparent (a field address and the value
// loaded from it print the same), conversions and interface boxing too.
// Local variables with a single store print as the stored value.
func describe(v ssa.Value) string { return describeN(v, 0, map[ssa.Value]bool{}) }

func describeN(v ssa.Value, depth int, onpath map[ssa.Value]bool) string {
	if v == nil {
		return "<nil>"
	}
	if depth > 12 {
		return "…"
	}
	if onpath[v] {
		return "<cycle>"
	}
	onpath[v] = true
	defer delete(onpath, v)
	d := func(x ssa.Value) string { return describeN(x, depth+1, onpath) }
	if u, ok := v.(*ssa.UnOp); ok && u.Op == token.MUL {
		if a, ok := u.X.(*ssa.Alloc); ok {
			if st := singleStore(a); st != nil {
				return d(st)
			}
		}
	}
	if x, ok := v.(*ssa.Phi); ok {
		var parts []string
		for _, e := range x.Edges {
			parts = append(parts, d(e))
		}
		sort.Strings(parts)
		parts = dedup(parts)
		if len(parts) == 1 {
			return parts[0]
		}
		return "phi(" + strings.Join(parts, "|") + ")"
	}
	return describeShallow(v, d)
}

// describeShallow renders one node given a describer for its operands.
func describeShallow(v ssa.Value, d func(ssa.Value) string) string {
	switch x := v.(type) {
	case *ssa.Parameter:
		for k := len(paramSubstStack) - 1; k >= 0; k-- {
			if t, ok := paramSubstStack[k][x]; ok {
				return t // a helper scanned at one of its call sites: the argument it was given
			}
		}
		if t, ok := paramAlias[x]; ok {
			return t // a method used as a method value, read like the function literal it replaces
		}
		if a := soleCallArg(x); a != nil && len(describeDepthGuard) < 4 {
			// a helper split out of one place: its parameter is the argument it is given there
			describeDepthGuard = append(describeDepthGuard, x.Parent())
			t := describe(a)
			describeDepthGuard = describeDepthGuard[:len(describeDepthGuard)-1]
			return t
		}
		// a literal whose only use is to be handed to a new helper that calls it in one place: its parameter is
		// what the helper passes there
		if a := litSoleDynamicArg(x); a != nil && len(describeDepthGuard) < 4 {
			describeDepthGuard = append(describeDepthGuard, x.Parent())
			t := describe(a)
			describeDepthGuard = describeDepthGuard[:len(describeDepthGuard)-1]
			return t
		}
		if k := commonConstArg(x); k != nil {
			return describe(k) // a parameter the reference does not have, given the same constant by every caller
		}
		for i, p := range refParams(x.Parent()) {
			if p == x {
				return fmt.Sprintf("$%d", i)
			}
		}
		return "$?"
	case *ssa.FreeVar:
		for k := len(freeVarSubstStack) - 1; k >= 0; k-- {
			if t, ok := freeVarSubstStack[k][x]; ok {
				return t // a literal handed to a helper and scanned where the helper calls it: what it captured
			}
		}
		for i, p := range x.Parent().FreeVars {
			if p == x {
				return fmt.Sprintf("^%d", i)
			}
		}
		return "^?"
	case *ssa.Const:
		if x.Value == nil {
			return "nil"
		}
		if x.Value.Kind() == constant.String {
			return fmt.Sprintf("%q", constant.StringVal(x.Value))
		}
		return x.Value.ExactString()
	case *ssa.Global:
		if old, ok := curRenames.globalAlias[x]; ok {
			return shortPkg(x.Pkg.Pkg.Path()) + "." + old
		}
		return shortPkg(x.Pkg.Pkg.Path()) + "." + x.Name()
	case *ssa.Function:
		return "func:" + fname(x)
	case *ssa.Builtin:
		return "builtin:" + x.Name()
	case *ssa.FieldAddr:
		if t, ok := boundFieldTerm(x.X, x.Field); ok {
			return t
		}
		if isGroupField(x.X.Type(), x.Field) {
			return d(x.X) // a field that only groups reference fields is transparent
		}
		if pre, ok := groupingLocal(x.X); ok {
			return pre + fieldName(x.X.Type(), x.Field) // locals gathered into a local struct of a new type
		}
		return d(x.X) + "." + fieldName(x.X.Type(), x.Field)
	case *ssa.Field:
		if t, ok := boundFieldTerm(x.X, x.Field); ok {
			return t
		}
		if v := carrierFieldValue(x.X, x.Field, 0); v != nil {
			return d(v)
		}
		if isGroupField(x.X.Type(), x.Field) {
			return d(x.X) // a field that only groups reference fields is transparent
		}
		if pre, ok := groupingLocal(x.X); ok {
			return pre + fieldName(x.X.Type(), x.Field) // locals gathered into a local struct of a new type
		}
		return d(x.X) + "." + fieldName(x.X.Type(), x.Field)
	case *ssa.UnOp:
		switch x.Op {
		case token.MUL:
			if fa, ok := x.X.(*ssa.FieldAddr); ok {
				if v := carrierFieldValue(fa.X, fa.Field, 0); v != nil {
					return d(v) // a field of a small new struct assigned once where it is built: that value
				}
			}
			return d(x.X)
		case token.ARROW:
			return "<-" + d(x.X)
		}
		return x.Op.String() + d(x.X)
	case *ssa.Alloc:
		return "local:" + localName(x)
	case *ssa.BinOp:
		// x + 0, x - 0, x | 0: the value is x (a helper given a zero offset)
		ys := d(x.Y)
		if ys == "0" && (x.Op == token.ADD || x.Op == token.SUB || x.Op == token.OR || x.Op == token.XOR) {
			return d(x.X)
		}
		xs := d(x.X)
		// string(b) == "lit" is bytes.Equal(b, []byte("lit")): one spelling
		if x.Op == token.EQL || x.Op == token.NEQ {
			bs := func(v ssa.Value) (ssa.Value, bool) {
				if cv, ok := v.(*ssa.Convert); ok {
					if sl, ok := cv.X.Type().Underlying().(*types.Slice); ok {
						if b, ok := sl.Elem().Underlying().(*types.Basic); ok && b.Kind() == types.Uint8 {
							if t, ok := cv.Type().Underlying().(*types.Basic); ok && t.Info()&types.IsString != 0 {
								return cv.X, true
							}
						}
					}
				}
				return nil, false
			}
			a, aok := bs(x.X)
			b, bok := bs(x.Y)
			var eq string
			switch {
			case aok && bok:
				eq = "bytes.Equal(" + d(a) + ", " + d(b) + ")"
			case aok:
				eq = "bytes.Equal(" + d(a) + ", " + ys + ")"
			case bok:
				eq = "bytes.Equal(" + d(b) + ", " + xs + ")"
			}
			if eq != "" {
				if x.Op == token.NEQ {
					return "!" + eq
				}
				return eq
			}
		}
		// arithmetic on two literals is the literal result (a bound chosen per case and adjusted later)
		if isNumLit(xs) && isNumLit(ys) {
			a, _ := strconv.ParseInt(xs, 10, 64)
			b, _ := strconv.ParseInt(ys, 10, 64)
			switch x.Op {
			case token.ADD:
				return strconv.FormatInt(a+b, 10)
			case token.SUB:
				return strconv.FormatInt(a-b, 10)
			case token.MUL:
				return strconv.FormatInt(a*b, 10)
			}
		}
		return "(" + xs + " " + x.Op.String() + " " + ys + ")"
	case *ssa.Call:
		return describeCall(x.Common(), d)
	case *ssa.Extract:
		if ta, ok := x.Tuple.(*ssa.TypeAssert); ok && x.Index == 0 {
			return d(ta) // the value of a comma-ok assertion prints like the plain assertion
		}
		if lk, ok := x.Tuple.(*ssa.Lookup); ok && x.Index == 0 && lk.CommaOk {
			return d(lk.X) + "[" + d(lk.Index) + "]" // the value of `v, ok := m[k]` prints like m[k]
		}
		return d(x.Tuple) + "#" + fmt.Sprint(x.Index)
	case *ssa.Lookup:
		return d(x.X) + "[" + d(x.Index) + "]"
	case *ssa.IndexAddr:
		return d(x.X) + "[" + d(x.Index) + "]"
	case *ssa.Index:
		return d(x.X) + "[" + d(x.Index) + "]"
	case *ssa.Slice:
		s := d(x.X) + "["
		if x.Low != nil {
			s += d(x.Low)
		}
		s += ":"
		if x.High != nil {
			s += d(x.High)
		}
		return s + "]"
	case *ssa.MakeInterface:
		return d(x.X)
	case *ssa.ChangeInterface:
		return d(x.X)
	case *ssa.ChangeType:
		return d(x.X)
	case *ssa.Convert:
		return d(x.X)
	case *ssa.SliceToArrayPointer:
		return d(x.X)
	case *ssa.MultiConvert:
		return d(x.X)
	case *ssa.TypeAssert:
		return d(x.X) + ".(" + types.TypeString(x.AssertedType, shortQual) + ")"
	case *ssa.MakeClosure:
		return "closure:" + fname(x.Fn.(*ssa.Function))
	case *ssa.MakeSlice:
		return "make(" + types.TypeString(x.Type(), shortQual) + "," + d(x.Len) + ")"
	case *ssa.MakeMap:
		return "makemap#" + x.Name()
	case *ssa.MakeChan:
		return "makechan#" + x.Name()
	case *ssa.Next:
		return "next(" + d(x.Iter) + ")"
	case *ssa.Range:
		return "range(" + d(x.X) + ")"
	case *ssa.Select:
		var st []string
		for _, c := range x.States {
			if c.Dir == types.RecvOnly {
				st = append(st, "<-"+d(c.Chan))
			} else {
				st = append(st, d(c.Chan)+"<-")
			}
		}
		return "select(" + strings.Join(st, ", ") + ")"
	}
	return fmt.Sprintf("<%T>", v)
}

func describeCall(c *ssa.CallCommon, d func(ssa.Value) string) string {
	// a helper that is new with respect to the reference tree and just computes a value: print the value
	if g := staticCallee(c); g != nil && isNewHelper(g) && g.Signature.Results().Len() == 1 && len(describeDepthGuard) < 4 {
		if rv := returnValues(g, 0); len(rv) == 1 {
			sub := map[*ssa.Parameter]string{}
			for i, a := range c.Args {
				if i < len(g.Params) {
					sub[g.Params[i]] = d(a)
				}
			}
			paramSubstStack = append(paramSubstStack, sub)
			describeDepthGuard = append(describeDepthGuard, g)
			t := describe(rv[0])
			describeDepthGuard = describeDepthGuard[:len(describeDepthGuard)-1]
			paramSubstStack = paramSubstStack[:len(paramSubstStack)-1]
			return t
		}
	}
	var args []string
	ca := callArgs(c)
	if !c.IsInvoke() {
		ca = refArgs(c)
		// parameters the reference function does not have are not part of the call as the reference spells it
		if g := staticCallee(c); g != nil {
			if n, ok := curRenames.paramRefN[g]; ok && n < len(ca) {
				ca = ca[:n]
			}
		}
	}
	for _, a := range ca {
		args = append(args, d(a))
	}
	name := calleeName(c)
	if name == "dynamic" {
		name = "dyn:" + d(c.Value)
	}
	if len(curRenames.wrapFold) > 0 {
		if t, ok := foldWrapper(shortName(name), args); ok {
			return t
		}
	}
	return shortName(name) + "(" + strings.Join(args, ", ") + ")"
}

func shortPkg(p string) string {
	p = strings.TrimPrefix(p, modPath+"/internal/")
	p = strings.TrimPrefix(p, modPath+"/")
	if p == modPath {
		return "forwarder"
	}
	return p
}

func shortQual(p *types.Package) string { return shortPkg(p.Path()) }

func shortName(s string) string {
	s = strings.ReplaceAll(s, modPath+"/internal/", "")
	s = strings.ReplaceAll(s, modPath+"/", "")
	s = strings.ReplaceAll(s, modPath+".", "forwarder.")
	return s
}

func dedup(s []string) []string {
	var out []string
	for i, x := range s {
		if i == 0 || x != s[i-1] {
			out = append(out, x)
		}
	}
	return out
}

func fieldName(t types.Type, i int) string {
	if p, ok := t.Underlying().(*types.Pointer); ok {
		t = p.Elem()
	}
	st, ok := t.Underlying().(*types.Struct)
	if !ok || i >= st.NumFields() {
		return fmt.Sprintf("f%d", i)
	}
	if old, ok := curRenames.fieldAlias[st.Field(i)]; ok {
		return old
	}
	return st.Field(i).Name()
}

// singleStore returns the only value stored to a local, if there is exactly one
// store and the address does not escape to calls.
func singleStore(a *ssa.Alloc) ssa.Value {
	var val ssa.Value
	n := 0
	for _, ref := range *a.Referrers() {
		switch x := ref.(type) {
		case *ssa.Store:
			if x.Addr == a {
				n++
				val = x.Val
			} else {
				return nil // address stored somewhere
			}
		case *ssa.UnOp, *ssa.DebugRef:
		case *ssa.MakeClosure:
			// captured by reference: fine as long as the literal never assigns it
			for i, b := range x.Bindings {
				if b != ssa.Value(a) {
					continue
				}
				if closureStoresTo(x.Fn.(*ssa.Function), i) {
					return nil
				}
			}
		default:
			return nil
		}
	}
	if n == 1 {
		return val
	}
	return nil
}

// closureStoresTo reports whether lit (or a literal nested in it that captures
// the same variable) assigns its i-th free variable.
func closureStoresTo(lit *ssa.Function, i int) bool {
	fv := lit.FreeVars[i]
	for _, ref := range *fv.Referrers() {
		switch x := ref.(type) {
		case *ssa.Store:
			if x.Addr == fv {
				return true
			}
		case *ssa.MakeClosure:
			for j, b := range x.Bindings {
				if b == ssa.Value(fv) && closureStoresTo(x.Fn.(*ssa.Function), j) {
					return true
				}
			}
		case *ssa.UnOp, *ssa.DebugRef:
		default:
			return true
		}
	}
	return false
}

// stores returns every value stored to the local a.
func storesTo(a *ssa.Alloc) []ssa.Value {
	var out []ssa.Value
	for _, ref := range *a.Referrers() {
		if st, ok := ref.(*ssa.Store); ok && st.Addr == a {
			out = append(out, st.Val)
		}
	}
	return out
}

// backward walks the provenance of v: through phis, conversions, boxing,
// loads of locals (all stores), extracts, and returns true if visit returns
// true for any node. Each node is visited once.
func backward(v ssa.Value, visit func(ssa.Value) bool) bool {
	seen := map[ssa.Value]bool{}
	var walk func(ssa.Value) bool
	walk = func(v ssa.Value) bool {
		if v == nil || seen[v] {
			return false
		}
		seen[v] = true
		if visit(v) {
			return true
		}
		switch x := v.(type) {
		case *ssa.Parameter:
			if a, ok := resolveParam(x); ok {
				return walk(a)
			}
		case *ssa.Phi:
			for _, e := range x.Edges {
				if walk(e) {
					return true
				}
			}
		case *ssa.MakeInterface:
			return walk(x.X)
		case *ssa.ChangeInterface:
			return walk(x.X)
		case *ssa.ChangeType:
			return walk(x.X)
		case *ssa.Convert:
			return walk(x.X)
		case *ssa.TypeAssert:
			return walk(x.X)
		case *ssa.Extract:
			// a result of a helper split out of the function: what the helper returns there
			if hc, ok := x.Tuple.(*ssa.Call); ok {
				if g := staticCallee(hc.Common()); g != nil && isNewHelper(g) {
					for _, rv := range returnValues(g, x.Index) {
						if walk(rv) {
							return true
						}
					}
					return false
				}
			}
			return walk(x.Tuple)
		case *ssa.Slice:
			return walk(x.X)
		case *ssa.UnOp:
			if x.Op == token.MUL {
				if a, ok := x.X.(*ssa.Alloc); ok {
					for _, s := range storesTo(a) {
						if walk(s) {
							return true
						}
					}
					return false
				}
				// a field of a local struct (variables gathered into a struct): every store to that field,
				// also those made by helpers split out of the function that are handed the struct
				if fa, ok := x.X.(*ssa.FieldAddr); ok {
					if a, ok := fa.X.(*ssa.Alloc); ok && !a.Heap || ok && localOnly(a) {
						for _, s := range fieldStoresOf(a, fa.Field, 0) {
							if walk(s) {
								return true
							}
						}
						return false
					}
				}
			}
			return walk(x.X)
		case *ssa.BinOp:
			return walk(x.X) || walk(x.Y)
		case *ssa.FieldAddr:
			return walk(x.X)
		case *ssa.Field:
			return walk(x.X)
		case *ssa.IndexAddr:
			return walk(x.X)
		case *ssa.Index:
			return walk(x.X)
		case *ssa.Lookup:
			return walk(x.X)
		}
		return false
	}
	return walk(v)
}

// dependsOn reports whether v's value is computed from something satisfying
// pred, also through call arguments (a call result depends on its operands).
func dependsOn(v ssa.Value, pred func(ssa.Value) bool) bool {
	seen := map[ssa.Value]bool{}
	var walk func(ssa.Value) bool
	walk = func(v ssa.Value) bool {
		if v == nil || seen[v] {
			return false
		}
		seen[v] = true
		if pred(v) {
			return true
		}
		if a, ok := v.(*ssa.Alloc); ok {
			for _, s := range storesTo(a) {
				if walk(s) {
					return true
				}
			}
			// stores through element/field addresses of the local
			for _, ref := range *a.Referrers() {
				switch x := ref.(type) {
				case *ssa.IndexAddr:
					for _, rr := range *x.Referrers() {
						if st, ok := rr.(*ssa.Store); ok && walk(st.Val) {
							return true
						}
					}
				case *ssa.FieldAddr:
					for _, rr := range *x.Referrers() {
						if st, ok := rr.(*ssa.Store); ok && walk(st.Val) {
							return true
						}
					}
				}
			}
			return false
		}
		if prm, ok := v.(*ssa.Parameter); ok {
			if a, ok := resolveParam(prm); ok {
				return walk(a) // parameter of a helper walked in place / split out of one place
			}
		}
		ins, ok := v.(ssa.Instruction)
		if !ok {
			return false
		}
		if c, ok := v.(*ssa.Call); ok {
			// a helper that is new with respect to the reference tree: its result depends on what it returns
			if g := staticCallee(c.Common()); g != nil && isNewHelper(g) {
				for i := 0; i < g.Signature.Results().Len(); i++ {
					for _, rv := range returnValues(g, i) {
						if walk(rv) {
							return true
						}
					}
				}
			}
		}
		for _, op := range ins.Operands(nil) {
			if *op != nil && walk(*op) {
				return true
			}
		}
		return false
	}
	return walk(v)
}

// variadicArgs looks through the `new [n]T; stores; slice` pattern go/ssa
// uses for variadic calls and returns the stored operands.
func variadicArgs(v ssa.Value) []ssa.Value {
	sl, ok := v.(*ssa.Slice)
	if !ok {
		return nil
	}
	a, ok := sl.X.(*ssa.Alloc)
	if !ok {
		return nil
	}
	type iv struct {
		idx int64
		v   ssa.Value
	}
	var items []iv
	for _, ref := range *a.Referrers() {
		ia, ok := ref.(*ssa.IndexAddr)
		if !ok {
			continue
		}
		idx, _ := constInt(ia.Index)
		for _, rr := range *ia.Referrers() {
			if st, ok := rr.(*ssa.Store); ok && st.Addr == ia {
				items = append(items, iv{idx, st.Val})
			}
		}
	}
	sort.Slice(items, func(i, j int) bool { return items[i].idx < items[j].idx })
	var out []ssa.Value
	for _, it := range items {
		out = append(out, it.v)
	}
	return out
}

// unbox strips interface boxing and conversions.
func unbox(v ssa.Value) ssa.Value {
	for {
		switch x := v.(type) {
		case *ssa.MakeInterface:
			v = x.X
		case *ssa.ChangeInterface:
			v = x.X
		case *ssa.ChangeType:
			v = x.X
		default:
			return v
		}
	}
}

// returns lists the Return instructions of fn.
func returnsOf(fn *ssa.Function) []*ssa.Return {
	var out []*ssa.Return
	for _, b := range fn.Blocks { // fn's own returns only: helpers walked in place return to fn, not from it
		for _, ins := range b.Instrs {
			if r, ok := ins.(*ssa.Return); ok {
				out = append(out, r)
			}
		}
	}
	return out
}

// returnValues resolves the i-th result of every return of fn, looking through
// the spill slots go/ssa introduces for functions with defers / named results.
func returnValues(fn *ssa.Function, i int) []ssa.Value {
	var out []ssa.Value
	for _, ret := range returnsOf(fn) {
		if i >= len(ret.Results) {
			continue
		}
		out = append(out, ret.Results[i])
	}
	return out
}

func typeStr(t types.Type) string { return canon(types.TypeString(t, shortQual)) }

func posOf(v any) token.Pos {
	switch x := v.(type) {
	case ssa.Instruction:
		if x.Pos().IsValid() {
			return x.Pos()
		}
		if val, ok := x.(ssa.Value); ok {
			return valuePos(val)
		}
		return x.Parent().Pos()
	case ssa.Value:
		return valuePos(x)
	case *ssa.Function:
		return x.Pos()
	}
	return token.NoPos
}

func valuePos(v ssa.Value) token.Pos {
	if v.Pos().IsValid() {
		return v.Pos()
	}
	if ins, ok := v.(ssa.Instruction); ok {
		for _, op := range ins.Operands(nil) {
			if *op != nil && (*op).Pos().IsValid() {
				return (*op).Pos()
			}
		}
		if ins.Parent() != nil {
			return ins.Parent().Pos()
		}
	}
	return token.NoPos
}

func sortStrings(s []string) { sort.Strings(s) }

// describePointee describes what a pointer argument points to: for the
// address of a local with one store, the stored value.
func describePointee(v ssa.Value) string {
	if a, ok := v.(*ssa.Alloc); ok {
		if st := storesTo(a); len(st) == 1 {
			return describe(st[0])
		}
	}
	return describe(v)
}

// resolveParam: while a new helper is walked at one of its call sites, the argument a parameter stands for.
func resolveParam(p *ssa.Parameter) (ssa.Value, bool) {
	for k := len(paramValueStack) - 1; k >= 0; k-- {
		if v, ok := paramValueStack[k][p]; ok {
			return v, true
		}
	}
	if a := soleCallArg(p); a != nil {
		return a, true
	}
	return nil, false
}

// soleCallArg: p is a parameter of a helper that is new with respect to the reference tree and is called
// from exactly one place in the module: the argument passed there.
func soleCallArg(p *ssa.Parameter) ssa.Value {
	g := p.Parent()
	if !isNewHelper(g) || curProgram == nil {
		return nil
	}
	site, ok := soleSite[g]
	if !ok {
		var sites []ssa.CallInstruction
		for f := range curProgram.AllFuncs {
			if !inModule(f) {
				continue
			}
			for _, b := range f.Blocks {
				for _, ins := range b.Instrs {
					if c, ok := ins.(ssa.CallInstruction); ok && staticCallee(c.Common()) == g {
						sites = append(sites, c)
					}
				}
			}
		}
		if len(sites) == 1 {
			site = sites[0]
		}
		soleSite[g] = site
	}
	if site == nil {
		return nil
	}
	for i, q := range g.Params {
		if q == p && i < len(site.Common().Args) {
			return site.Common().Args[i]
		}
	}
	return nil
}

// commonConstArg: p is a parameter that was added to an unexported function the reference tree has (its
// reference position lies after the reference parameters), the function is only ever called directly, and
// every call in the module passes the same constant: that constant.
func commonConstArg(p *ssa.Parameter) *ssa.Const {
	g := p.Parent()
	if curProgram == nil || g == nil {
		return nil
	}
	n, ok := curRenames.paramRefN[g]
	if !ok {
		return nil
	}
	if k, ok := commonConst[p]; ok {
		return k
	}
	var res *ssa.Const
	defer func() { commonConst[p] = res }()
	if g.Object() == nil || g.Object().Exported() {
		return nil
	}
	idx := -1
	for i, q := range g.Params {
		if q == p {
			idx = i
		}
	}
	perm := curRenames.paramPerm[g]
	if idx < 0 || idx >= len(perm) || perm[idx] < n {
		return nil
	}
	var found *ssa.Const
	sites := 0
	for f := range curProgram.AllFuncs {
		if !inModule(f) {
			continue
		}
		for _, b := range f.Blocks {
			for _, ins := range b.Instrs {
				for _, op := range ins.Operands(nil) {
					if *op != ssa.Value(g) {
						continue
					}
					c, isCall := ins.(ssa.CallInstruction)
					if !isCall || c.Common().Value != ssa.Value(g) {
						return nil // used as a value: callers unknown
					}
				}
				c, isCall := ins.(ssa.CallInstruction)
				if !isCall || staticCallee(c.Common()) != g || idx >= len(c.Common().Args) {
					continue
				}
				k, isConst := c.Common().Args[idx].(*ssa.Const)
				if !isConst || k.Value == nil {
					return nil
				}
				if found != nil && (found.Value.ExactString() != k.Value.ExactString() || !types.Identical(found.Type(), k.Type())) {
					return nil
				}
				found = k
				sites++
			}
		}
	}
	if sites == 0 {
		return nil
	}
	res = found
	return res
}

var commonConst = map[*ssa.Parameter]*ssa.Const{}

var (
	soleSite   = map[*ssa.Function]ssa.CallInstruction{}
	curProgram *Program
)

// siteOf: the instruction of the function being scanned that stands for ins - ins itself, or, while a new
// helper is walked in place, the outermost call that led into it.
func siteOf(ins ssa.Instruction) ssa.Instruction {
	if len(callSiteStack) > 0 {
		return callSiteStack[0]
	}
	return ins
}

// guardsAt: the branch conditions that hold at ins, including those that hold at the call sites through
// which a new helper containing ins is being walked.
func guardsAt(ins ssa.Instruction) []string {
	var out []string
	for _, cs := range callSiteStack {
		out = append(out, guardStrings(cs.Block())...)
	}
	return append(out, guardStrings(ins.Block())...)
}

// holdsAmong reports whether cond (any spelling) is among the given conditions.
func holdsAmong(conds []string, cond string) bool {
	ck, cp := normCond(cond)
	for _, g := range conds {
		if gk, gp := normCond(g); gk == ck && gp == cp {
			return true
		}
	}
	return false
}

var describeDepthGuard []*ssa.Function

var (
	callSiteStack   []ssa.Instruction
	paramValueStack []map[*ssa.Parameter]ssa.Value
	paramSubstStack []map[*ssa.Parameter]string
	paramAlias      = map[*ssa.Parameter]string{}
	boundSite       = map[*ssa.Function]ssa.Value{} // new method used as a method value (or through an interface) -> the receiver it is bound to
)

// anonFuncs returns the function literals of fn, also those that moved into a
// helper extracted from fn, and the new methods/functions fn uses as function
// values (a literal turned into a method value). A bound method is presented
// like the literal it replaces: its receiver reads as the captured variable ^0
// and its remaining parameters as $0, $1, ...
func anonFuncs(fn *ssa.Function) []*ssa.Function {
	out := append([]*ssa.Function{}, fn.AnonFuncs...)
	if !haveReference {
		return out
	}
	seen := map[*ssa.Function]bool{}
	for _, b := range fn.Blocks {
		for _, ins := range b.Instrs {
			if c, ok := ins.(*ssa.Call); ok {
				if g := staticCallee(c.Common()); g != nil && isNewHelper(g) && !seen[g] {
					seen[g] = true
					out = append(out, anonFuncs(g)...)
				}
			}
			switch x := ins.(type) {
			case *ssa.Defer, *ssa.Go:
				// `defer p.cleanup(x)` / `go p.work(x)` where the callee is a literal that became a method
				if g := staticCallee(x.(ssa.CallInstruction).Common()); g != nil && isNewHelper(g) && !seen[g] {
					seen[g] = true
					out = append(out, g)
					out = append(out, anonFuncs(g)...)
				}
			}
			// a literal that became a named type with one method, used through an interface where the literal
			// (wrapped in a func adapter) was used: the method is the literal, the receiver what it captured
			if mi, ok := ins.(*ssa.MakeInterface); ok {
				if m := soleMethodOfNewType(fn.Prog, mi.X.Type()); m != nil && !seen[m] {
					seen[m] = true
					boundSite[m] = mi.X
					for i, p := range m.Params {
						if i == 0 {
							paramAlias[p] = "^0"
						} else {
							paramAlias[p] = fmt.Sprintf("$%d", i-1)
						}
					}
					if _, has := curRenames.funcAlias[m]; !has && len(fn.AnonFuncs) == 0 {
						root := fn.String()
						if old, ok := curRenames.funcAlias[fn]; ok {
							root = old
						}
						curRenames.funcAlias[m] = root + "$1" // the only literal the reference function had
					}
					out = append(out, m)
				}
			}
			for _, op := range ins.Operands(nil) {
				switch v := (*op).(type) {
				case *ssa.MakeClosure:
					w, _ := v.Fn.(*ssa.Function)
					if w == nil || w.Synthetic == "" {
						continue
					}
					m := boundTarget(w)
					if m == nil || !isNewHelper(m) || seen[m] || len(v.Bindings) != 1 {
						continue
					}
					seen[m] = true
					boundSite[m] = v.Bindings[0]
					for i, p := range m.Params {
						if i == 0 {
							paramAlias[p] = "^0"
						} else {
							paramAlias[p] = fmt.Sprintf("$%d", i-1)
						}
					}
					out = append(out, m)
				case *ssa.Function:
					if isNewHelper(v) && !seen[v] {
						if _, isCall := ins.(ssa.CallInstruction); isCall && staticCallee(ins.(ssa.CallInstruction).Common()) == v {
							continue // called, not used as a value
						}
						seen[v] = true
						out = append(out, v)
					}
				}
			}
		}
	}
	return out
}

// litParams: the parameters of a literal; for a bound method, without the receiver.
func litParams(f *ssa.Function) []*ssa.Parameter {
	if _, ok := boundSite[f]; ok && len(f.Params) > 0 {
		return f.Params[1:]
	}
	return f.Params
}

// boundFieldTerm: base is the receiver of a new method that is only used as a
// method value on a struct built right there (a function literal turned into a
// method of a small carrier struct). The field then stands for the value the
// literal would have captured: the one stored into that field where the
// carrier is built, described in the building function's terms.
func boundFieldTerm(base ssa.Value, field int) (string, bool) {
	if len(boundSite) == 0 {
		return "", false
	}
	var recv *ssa.Parameter
	switch b := base.(type) {
	case *ssa.Parameter:
		recv = b
	case *ssa.Alloc: // a value receiver spilled into a local
		if p, ok := wholeStore(b).(*ssa.Parameter); ok {
			recv = p
		}
	case *ssa.UnOp:
		if a, ok := b.X.(*ssa.Alloc); ok {
			if p, ok := wholeStore(a).(*ssa.Parameter); ok {
				recv = p
			}
		}
	}
	if recv == nil || len(recv.Parent().Params) == 0 || recv.Parent().Params[0] != recv {
		return "", false
	}
	mc, ok := boundSite[recv.Parent()]
	if !ok || carrierOf(mc) == nil {
		return "", false
	}
	// the literal this method replaces would have captured that value: it reads as captured variable #field
	return fmt.Sprintf("^%d", field), true
}

// carrierOf: the local struct a method value is bound to, when the receiver is a struct built right there.
func carrierOf(recv ssa.Value) *ssa.Alloc {
	if recv == nil {
		return nil
	}
	var carrier *ssa.Alloc
	switch v := recv.(type) {
	case *ssa.Alloc:
		carrier = v
	case *ssa.UnOp:
		carrier, _ = v.X.(*ssa.Alloc)
	}
	// `rh := T{...}`: the literal is built in a temporary and copied into the variable
	for i := 0; carrier != nil && i < 3; i++ {
		u, ok := wholeStore(carrier).(*ssa.UnOp)
		if !ok {
			break
		}
		a, ok := u.X.(*ssa.Alloc)
		if !ok {
			break
		}
		carrier = a
	}
	if carrier == nil || carrier.Referrers() == nil {
		return nil
	}
	p, ok := carrier.Type().Underlying().(*types.Pointer)
	if !ok {
		return nil
	}
	if _, ok := p.Elem().Underlying().(*types.Struct); !ok {
		return nil
	}
	// only field stores and loads: a struct that exists to carry the captured values
	for _, ref := range *carrier.Referrers() {
		switch ref.(type) {
		case *ssa.FieldAddr, *ssa.UnOp, *ssa.DebugRef, *ssa.MakeClosure, *ssa.Store, *ssa.MakeInterface:
		default:
			return nil
		}
	}
	return carrier
}

// carrierBindings: what the carrier's fields hold, by field index, in the building function's terms.
func carrierBindings(recv ssa.Value) []string {
	carrier := carrierOf(recv)
	if carrier == nil {
		return nil
	}
	st := carrier.Type().Underlying().(*types.Pointer).Elem().Underlying().(*types.Struct)
	out := make([]string, st.NumFields())
	for i := range out {
		out[i] = "<zero>"
	}
	for _, ref := range *carrier.Referrers() {
		fa, ok := ref.(*ssa.FieldAddr)
		if !ok || fa.Referrers() == nil {
			continue
		}
		for _, rr := range *fa.Referrers() {
			if sv, ok := rr.(*ssa.Store); ok && sv.Addr == fa && fa.Field < len(out) {
				out[fa.Field] = describe(sv.Val)
			}
		}
	}
	return out
}

// wholeStore: the only value stored into the local as a whole (stores through field addresses do not count).
func wholeStore(a *ssa.Alloc) ssa.Value {
	var val ssa.Value
	n := 0
	if a.Referrers() == nil {
		return nil
	}
	for _, ref := range *a.Referrers() {
		if st, ok := ref.(*ssa.Store); ok && st.Addr == ssa.Value(a) {
			val = st.Val
			n++
		}
	}
	if n == 1 {
		return val
	}
	return nil
}

// isClosureOf: the described value is the function literal f, or f (a method) taken as a method value.
func isClosureOf(desc string, f *ssa.Function) bool {
	return desc == "closure:"+fname(f) || desc == "closure:"+fname(f)+"$bound" || desc == "func:"+fname(f)
}

// refFieldName: the field's name in the reference vocabulary.
func refFieldName(v *types.Var) string {
	if old, ok := curRenames.fieldAlias[v]; ok {
		return old
	}
	return v.Name()
}

// soleCallSite: the only static call of a helper that is new with respect to the reference tree (or nil).
func soleCallSite(g *ssa.Function) ssa.CallInstruction {
	for g != nil && g.Parent() != nil {
		g = g.Parent()
	}
	if g == nil || !isNewHelper(g) || len(g.Params) == 0 && g.Signature.Recv() == nil {
		if g == nil || !isNewHelper(g) {
			return nil
		}
	}
	if len(g.Params) > 0 {
		soleCallArg(g.Params[0]) // fills the cache
		return soleSite[g]
	}
	if site, ok := soleSite[g]; ok {
		return site
	}
	var sites []ssa.CallInstruction
	if curProgram != nil {
		for f := range curProgram.AllFuncs {
			if !inModule(f) {
				continue
			}
			for _, b := range f.Blocks {
				for _, ins := range b.Instrs {
					if c, ok := ins.(ssa.CallInstruction); ok && staticCallee(c.Common()) == g {
						sites = append(sites, c)
					}
				}
			}
		}
	}
	var site ssa.CallInstruction
	if len(sites) == 1 {
		site = sites[0]
	}
	soleSite[g] = site
	return site
}

// liftToCommon: when a and b stand in different functions because one of them was moved into a helper that
// has a single call site, the call site stands for it - order and dominance are then decided in one function.
func liftToCommon(a, b ssa.Instruction) (ssa.Instruction, ssa.Instruction) {
	if a == nil || b == nil || a.Parent() == b.Parent() || !haveReference {
		return a, b
	}
	chain := func(x ssa.Instruction) []ssa.Instruction {
		out := []ssa.Instruction{x}
		for i := 0; i < 4; i++ {
			s := soleCallSite(x.Parent())
			if s == nil {
				break
			}
			x = s
			out = append(out, x)
		}
		return out
	}
	ca, cb := chain(a), chain(b)
	for _, x := range ca {
		for _, y := range cb {
			if x.Parent() == y.Parent() {
				return x, y
			}
		}
	}
	return a, b
}

// localOnly: the allocation is used only through its fields and as an argument of helpers that are new with
// respect to the reference tree (a local struct whose address goes to split-out helpers).
func localOnly(a *ssa.Alloc) bool {
	for _, ref := range *a.Referrers() {
		switch x := ref.(type) {
		case *ssa.FieldAddr, *ssa.DebugRef:
		case *ssa.Store:
			if x.Addr != ssa.Value(a) {
				return false
			}
		case *ssa.UnOp:
		case ssa.CallInstruction:
			if !isNewHelper(staticCallee(x.Common())) {
				return false
			}
		default:
			return false
		}
	}
	return true
}

// fieldStoresOf lists the values stored into field `field` of the struct root points to, in root's function and
// in new helpers that receive root.
func fieldStoresOf(root ssa.Value, field int, depth int) []ssa.Value {
	var out []ssa.Value
	refs := root.Referrers()
	if refs == nil || depth > 3 {
		return nil
	}
	for _, ref := range *refs {
		switch x := ref.(type) {
		case *ssa.FieldAddr:
			if x.Field != field || x.X != root {
				continue
			}
			for _, rr := range *x.Referrers() {
				if st, ok := rr.(*ssa.Store); ok && st.Addr == ssa.Value(x) {
					out = append(out, st.Val)
				}
			}
		case ssa.CallInstruction:
			g := staticCallee(x.Common())
			if !isNewHelper(g) {
				continue
			}
			for j, a := range x.Common().Args {
				if a == root && j < len(g.Params) {
					out = append(out, fieldStoresOf(g.Params[j], field, depth+1)...)
				}
			}
		}
	}
	return out
}

// guardsUp: the conditions under which ins runs, including those of the call sites of the helpers it was moved
// into (helpers new with respect to the reference tree that are called from one place).
func guardsUp(ins ssa.Instruction) []string {
	out := guardStrings(ins.Block())
	for i := 0; i < 4; i++ {
		s := soleCallSite(ins.Parent())
		if s == nil {
			break
		}
		out = append(out, guardStrings(s.Block())...)
		ins = s
	}
	return out
}

// isGroupField: field i of t is a by-value field of a new struct type that only regroups reference fields.
func isGroupField(t types.Type, i int) bool {
	if len(curRenames.groupField) == 0 {
		return false
	}
	if p, ok := t.Underlying().(*types.Pointer); ok {
		t = p.Elem()
	}
	st, ok := t.Underlying().(*types.Struct)
	return ok && i < st.NumFields() && curRenames.groupField[st.Field(i)]
}

// refArgs returns the arguments of a static call in the parameter order the callee has in the reference tree
// (a function whose parameters were only reordered is read in its reference order; see paramPerm).
func refArgs(c *ssa.CallCommon) []ssa.Value {
	g := staticCallee(c)
	if g == nil {
		return c.Args
	}
	perm, ok := curRenames.paramPerm[g]
	if !ok || len(perm) != len(c.Args) {
		return c.Args
	}
	out := make([]ssa.Value, len(c.Args))
	for i, a := range c.Args {
		out[perm[i]] = a
	}
	return out
}

// refParams: the parameters of f in reference order.
func refParams(f *ssa.Function) []*ssa.Parameter {
	perm, ok := curRenames.paramPerm[f]
	if !ok || len(perm) != len(f.Params) {
		return f.Params
	}
	out := make([]*ssa.Parameter, len(f.Params))
	for i, p := range f.Params {
		out[perm[i]] = p
	}
	return out
}

// localName: the name of a local, in the reference tree's spelling when it was only renamed.
func localName(a *ssa.Alloc) string {
	if old, ok := curRenames.localAlias[a]; ok {
		return old
	}
	return a.Comment
}

var freeVarSubstStack []map[*ssa.FreeVar]string

// groupingLocal: v is a local (or a captured local) struct of a type the reference tree does not have - variables
// of the function gathered into one struct. Its fields read like the variables they replace: "local:" / "^".
func groupingLocal(v ssa.Value) (string, bool) {
	if !haveReference {
		return "", false
	}
	var pre string
	switch x := v.(type) {
	case *ssa.Alloc:
		if x.Comment == "" || x.Comment == "complit" || strings.HasPrefix(x.Comment, "new") {
			return "", false
		}
		pre = "local:"
	case *ssa.FreeVar:
		pre = "^"
	default:
		return "", false
	}
	p, ok := v.Type().Underlying().(*types.Pointer)
	if !ok {
		return "", false
	}
	named, ok := p.Elem().(*types.Named)
	if !ok || named.Obj().Pkg() == nil {
		return "", false
	}
	if _, ok := named.Underlying().(*types.Struct); !ok {
		return "", false
	}
	if !isNewType(named) {
		return "", false
	}
	return pre, true
}

// funcArgs: the functions (literals, functions, method expressions) a call is handed as arguments.
func funcArgs(c *ssa.CallCommon) []*ssa.Function {
	var out []*ssa.Function
	for _, a := range c.Args {
		var h *ssa.Function
		switch v := a.(type) {
		case *ssa.Function:
			h = v
		case *ssa.MakeClosure:
			h, _ = v.Fn.(*ssa.Function)
		}
		if h != nil && len(h.Blocks) > 0 {
			out = append(out, h)
		}
	}
	return out
}

// storesThrough: the literal (or a literal inside it) assigns the captured variable.
func storesThrough(lit *ssa.Function, fv *ssa.FreeVar) bool {
	if fv.Referrers() == nil {
		return false
	}
	for _, ref := range *fv.Referrers() {
		switch x := ref.(type) {
		case *ssa.Store:
			if x.Addr == ssa.Value(fv) {
				return true
			}
		case *ssa.MakeClosure:
			return true // handed on: not followed
		}
	}
	return false
}

// carrierFieldValue: base is (the address of, or a copy of) a local struct of a type the reference tree does not
// have, and field f of it is assigned exactly once, where the struct is built, and never through anything else.
// Returns that value (nil when this cannot be said). Copies are followed: a value receiver spilled into a local,
// a parameter of a helper walked in place.
func carrierFieldValue(base ssa.Value, f int, depth int) ssa.Value {
	if !haveReference || depth > 6 || base == nil {
		return nil
	}
	switch x := base.(type) {
	case *ssa.Alloc:
		p, ok := x.Type().Underlying().(*types.Pointer)
		if !ok {
			return nil
		}
		named, ok := p.Elem().(*types.Named)
		if !ok || !isNewType(named) {
			return nil
		}
		if _, ok := named.Underlying().(*types.Struct); !ok {
			return nil
		}
		var fieldStores, whole []ssa.Value
		for _, ref := range *x.Referrers() {
			switch r := ref.(type) {
			case *ssa.FieldAddr:
				if r.Field != f {
					continue
				}
				for _, rr := range *r.Referrers() {
					switch y := rr.(type) {
					case *ssa.Store:
						if y.Addr == ssa.Value(r) {
							fieldStores = append(fieldStores, y.Val)
						}
					case *ssa.UnOp, *ssa.DebugRef:
					default:
						return nil // the field's address goes somewhere
					}
				}
			case *ssa.Store:
				if r.Addr == ssa.Value(x) {
					whole = append(whole, r.Val)
				} else {
					return nil
				}
			case *ssa.UnOp, *ssa.DebugRef:
			case *ssa.MakeClosure:
				// bound as a method-value receiver: methods of a value type cannot assign the original
				if _, isPtrRecv := x.Type().Underlying().(*types.Pointer).Elem().Underlying().(*types.Pointer); isPtrRecv {
					return nil
				}
			case ssa.CallInstruction:
				return nil // its address is handed to a call
			default:
				return nil
			}
		}
		switch {
		case len(fieldStores) == 1 && len(whole) == 0:
			return fieldStores[0]
		case len(fieldStores) == 0 && len(whole) == 1:
			return carrierFieldValue(whole[0], f, depth+1)
		}
		return nil
	case *ssa.UnOp:
		if x.Op == token.MUL {
			return carrierFieldValue(x.X, f, depth+1)
		}
	case *ssa.Parameter:
		if a, ok := resolveParam(x); ok {
			return carrierFieldValue(a, f, depth+1)
		}
	}
	return nil
}

// soleMethodOfNewType: t (or *t) is a named type the reference tree does not have, with exactly one method declared
// in the module; returns that method.
func soleMethodOfNewType(prog *ssa.Program, t types.Type) *ssa.Function {
	base := t
	if p, ok := t.Underlying().(*types.Pointer); ok {
		base = p.Elem()
	}
	named, ok := base.(*types.Named)
	if !ok || !isNewType(named) || named.NumMethods() != 1 {
		return nil
	}
	ms := prog.MethodSets.MethodSet(t)
	if ms.Len() != 1 {
		return nil
	}
	m := prog.MethodValue(ms.At(0))
	if m == nil || len(m.Blocks) == 0 || !inModule(m) {
		return nil
	}
	return m
}

// resolveCaptured: inside a method that stands for a literal (a method value on a carrier struct), a term that
// starts with a captured-variable reference ^k is rewritten with what the carrier's field k was given.
func resolveCaptured(term string, host *ssa.Function) string {
	if !strings.HasPrefix(term, "^") || host == nil {
		return term
	}
	if _, bound := boundSite[host]; !bound {
		return term
	}
	var k int
	if n, _ := fmt.Sscanf(term, "^%d", &k); n != 1 {
		return term
	}
	b := closureBindings(host)
	if k >= len(b) || b[k] == "<zero>" {
		return term
	}
	return b[k] + strings.TrimPrefix(term, fmt.Sprintf("^%d", k))
}

// litSoleDynamicArg: p is a parameter of a function literal that is used only as an argument of a helper new with
// respect to the reference tree, and that helper calls the corresponding parameter in exactly one place: the
// argument it passes there (nil otherwise).
func litSoleDynamicArg(p *ssa.Parameter) ssa.Value {
	lit := p.Parent()
	if !haveReference || lit.Parent() == nil {
		return nil
	}
	idx := -1
	for i, q := range lit.Params {
		if q == p {
			idx = i
		}
	}
	var found ssa.Value
	n := 0
	for _, b := range lit.Parent().Blocks {
		for _, ins := range b.Instrs {
			mc, ok := ins.(*ssa.MakeClosure)
			if !ok || mc.Fn != ssa.Value(lit) {
				continue
			}
			for _, ref := range *mc.Referrers() {
				c, ok := ref.(ssa.CallInstruction)
				if !ok {
					if _, dbg := ref.(*ssa.DebugRef); dbg {
						continue
					}
					return nil
				}
				g := staticCallee(c.Common())
				if g == nil || !isNewHelper(g) {
					return nil
				}
				for i, a := range c.Common().Args {
					if a != ssa.Value(mc) || i >= len(g.Params) {
						continue
					}
					for _, gf := range withClosures(g) {
						for _, gb := range gf.Blocks {
							for _, gi := range gb.Instrs {
								d, ok := gi.(ssa.CallInstruction)
								if !ok {
									continue
								}
								callee := d.Common().Value
								if ld, isLoad := callee.(*ssa.UnOp); isLoad && ld.Op == token.MUL {
									callee = ld.X // a captured parameter lives in a cell: the call goes through a load
								}
								if fv, isFV := callee.(*ssa.FreeVar); isFV {
									// the helper's own literal calls it: the free variable bound to the parameter
									callee = freeVarBinding(fv)
								}
								if callee == ssa.Value(g.Params[i]) && idx < len(d.Common().Args) {
									n++
									found = d.Common().Args[idx]
								}
							}
						}
					}
				}
			}
		}
	}
	if n == 1 {
		return found
	}
	return nil
}

// freeVarBinding: the value bound to a free variable where its literal is created (nil when not found).
func freeVarBinding(fv *ssa.FreeVar) ssa.Value {
	lit := fv.Parent()
	if lit.Parent() == nil {
		return nil
	}
	idx := -1
	for i, f := range lit.FreeVars {
		if f == fv {
			idx = i
		}
	}
	for _, b := range lit.Parent().Blocks {
		for _, ins := range b.Instrs {
			if mc, ok := ins.(*ssa.MakeClosure); ok && mc.Fn == ssa.Value(lit) && idx < len(mc.Bindings) {
				v := mc.Bindings[idx]
				if a, ok := v.(*ssa.Alloc); ok {
					if w := wholeStore(a); w != nil {
						return w
					}
				}
				return v
			}
		}
	}
	return nil
}
