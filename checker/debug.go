package main

import (
	"fmt"
	"strings"

	"golang.org/x/tools/go/ssa"
)

// dumpFunc prints a function the way the rules see it (debugging aid).
func dumpFunc(P *Program, spec string) {
	for f := range P.AllFuncs {
		if !inModule(f) || len(f.Blocks) == 0 {
			continue
		}
		if !strings.HasSuffix(fname(f), spec) {
			continue
		}
		fmt.Printf("=== %s  (%s)\n", fname(f), P.rel(f.Pos()))
		for _, b := range f.Blocks {
			fmt.Printf(" b%d  preds=%v succs=%v guards=%v\n", b.Index, idx(b.Preds), idx(b.Succs), guardStrings(b))
			for _, ins := range b.Instrs {
				s := ins.String()
				if v, ok := ins.(ssa.Value); ok {
					s = v.Name() + " = " + s + "      ⟦" + describe(v) + "⟧"
				} else if c, ok := ins.(ssa.CallInstruction); ok {
					s += "      ⟦" + describeCall(c.Common(), describe) + "⟧"
				} else if st, ok := ins.(*ssa.Store); ok {
					s += "      ⟦" + describe(st.Addr) + " := " + describe(st.Val) + "⟧"
				} else if iff, ok := ins.(*ssa.If); ok {
					s += "      ⟦" + describe(iff.Cond) + "⟧"
				}
				fmt.Printf("    %-4s %s\n", posLine(ins), s)
			}
		}
	}
}

func idx(bs []*ssa.BasicBlock) []int {
	var out []int
	for _, b := range bs {
		out = append(out, b.Index)
	}
	return out
}
