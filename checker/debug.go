package main

import (
	"fmt"
	"strings"

	"golang.org/x/tools/go/ssa"
)

// dumpFunc prints a function the way the rules see it (debugging aid).
func dumpFunc(P *Program, spec string) {
	for f := range P.AllFuncs {
		if !inModule(f) || len(f.Blocks) == 0 {
			continue
		}
		if !strings.HasSuffix(fname(f), spec) {
			continue
		}
		fmt.Printf("=== %s  (%s)\n", fname(f), P.rel(f.Pos()))
		for _, b := range f.Blocks {
			fmt.Printf(" b%d  preds=%v succs=%v guards=%v\n", b.Index, idx(b.Preds), idx(b.Succs), guardStrings(b))
			for _, ins := range b.Instrs {
				s := ins.String()
				if v, ok := ins.(ssa.Value); ok {
					s = v.Name() + " = " + s + "      ⟦" + describe(v) + "⟧"
				} else if c, ok := ins.(ssa.CallInstruction); ok {
					s += "      ⟦" + describeCall(c.Common(), describe) + "⟧"
				} else if st, ok := ins.(*ssa.Store); ok {
					s += "      ⟦" + describe(st.Addr) + " := " + describe(st.Val) + "⟧"
				} else if iff, ok := ins.(*ssa.If); ok {
					s += "      ⟦" + describe(iff.Cond) + "⟧"
				}
				fmt.Printf("    %-4s %s\n", posLine(ins), s)
			}
		}
	}
}

func idx(bs []*ssa.BasicBlock) []int {
	var out []int
	for _, b := range bs {
		out = append(out, b.Index)
	}
	return out
}

// dumpIPaths: -dump "ipaths:<fn suffix>:<inline name fragment>,<fragment>..." ; prints per path the
// conditions and the events matching -dump's third field "…:<event fragment>".
func dumpIPaths(P *Program, spec string) {
	parts := strings.Split(spec, ":")
	var frags []string
	if len(parts) > 1 {
		frags = strings.Split(parts[1], ",")
	}
	ev := ""
	if len(parts) > 2 {
		ev = parts[2]
	}
	for f := range P.AllFuncs {
		if !inModule(f) || len(f.Blocks) == 0 || !strings.HasSuffix(fname(f), parts[0]) {
			continue
		}
		ps, ok := enumPathsOpts(f, 400000, 1, InlineOpts{Inline: func(c *ssa.Function) bool {
			for _, fr := range frags {
				if fr != "" && strings.Contains(fname(c), fr) {
					return true
				}
			}
			return false
		}, Relevant: func(x string) bool {
			for _, w := range []string{"StatusCode", ".Method"} {
				if strings.Contains(x, w) {
					return true
				}
			}
			return false
		}, Interesting: func(e Event) bool { return e.Kind == "call" && ev != "" && strings.Contains(e.Desc, ev) }})
		fmt.Printf("=== %s: %d paths complete=%v\n", fname(f), len(ps), ok)
		hist := map[string]int{}
		for _, p := range ps {
			n := 0
			for _, e := range p.Events {
				if ev != "" && e.Kind == "call" && strings.Contains(e.Desc, ev) {
					n++
				}
			}
			hist[fmt.Sprintf("count=%d cut=%v ret=%v", n, p.Cut, p.Ret)]++
		}
		for k, v := range hist {
			fmt.Printf("  %6d  %s\n", v, k)
		}
	}
}

// dumpGuards prints, for every call in the named function, the branch conditions that dominate it.
func dumpGuards(P *Program, suffix string) {
	for f := range P.AllFuncs {
		if !strings.HasSuffix(fname(f), suffix) || len(f.Blocks) == 0 {
			continue
		}
		eachInstr(f, func(ins ssa.Instruction) {
			if c, ok := ins.(*ssa.Call); ok {
				fmt.Printf("%s  %s\n    guards=%v\n", P.rel(c.Pos()), calleeName(c.Common()), guardStrings(c.Block()))
			}
		})
	}
}
