package main

import (
	"fmt"
	"strings"

	"golang.org/x/tools/go/ssa"
)

func init() {
	register("C11", "R1", 4, "registration pairing in handleLoop: a connection is entered in the set and counted under connsMu before anything else; on every exit it is closed first, then the count is decremented, then (under the lock) removed from the set - the decrement is never behind connsMu, which Shutdown holds while it waits", c11r1)
	register("C11", "R2", 5, "nothing new is forwarded: in handle() every upstream sink is reached only after closing() was observed false after the request was read; handleLoop checks closing() before serving a fresh connection; Serve checks it before every Accept", c11r2)
	register("C11", "R3", 4, "a connection ends after its in-flight reply once shutdown began: closing() ⇒ Close ⇒ Connection: close ⇒ errClose (same analysis as C02.R3)", c02r3)
	register("C11", "R4", 5, "Shutdown's result: nil only when the open-connection count was observed zero, the context's error only from its Done arm; the closing signal is closed exactly once through closeOnce by Shutdown and Close; Close closes every connection in the set under the lock", c11r4)
	register("C11", "R5", 4, "orchestration: on stop the listeners are closed before Proxy.Shutdown is called, Proxy.Close is called when Shutdown fails, idle upstream connections are closed afterwards; serve goroutines treat net.ErrClosed as success", c11r5)
}

func c11r1(r *R) {
	hl := r.method(mpkg, "Proxy", "handleLoop")
	ps, complete := enumPathsInline(hl, 4096, 2, func(c *ssa.Function) bool { return c.Parent() == hl })
	if !complete {
		r.undecided("handleLoop#paths", hl.Pos(), "too many paths")
		return
	}
	n := 0
	bad := map[string]bool{}
	for _, p := range ps {
		if p.Cut {
			continue
		}
		n++
		// prologue: first effects
		ev := p.effects("time.Now")
		want := []string{"(*sync.Mutex).Lock($0.connsMu)", "mapupdate $0.conns[$1] = nil", "(*sync/atomic.Int32).Add($0.connsWg, 1)", "(*sync.Mutex).Unlock($0.connsMu)"}
		for i, w := range want {
			if i >= len(ev) || ev[i] != w {
				bad["registration is not the first thing the connection goroutine does (expected lock, insert, count, unlock): "+strings.Join(ev[:min(len(ev), 5)], "; ")] = true
				break
			}
		}
		// epilogue: what runs when the defers run, in order (function literals are walked inline)
		ri := -1
		for i, e := range p.Events {
			if e.Kind == "rundefers" {
				ri = i
			}
		}
		if ri < 0 {
			bad["an exit path runs no deferred clean-up"] = true
			continue
		}
		ci, di, li, xi := -1, -1, -1, -1
		for i := ri; i < len(p.Events); i++ {
			e := p.Events[i]
			d := strings.TrimPrefix(e.Desc, "deferred ")
			switch {
			case e.Kind == "call" && d == "invoke net.Conn.Close($1)":
				ci = i
			case e.Kind == "call" && d == "(*sync/atomic.Int32).Add($0.connsWg, -1)":
				di = i
			case e.Kind == "call" && d == "(*sync.Mutex).Lock($0.connsMu)" && li < 0:
				li = i
			case e.Kind == "call" && d == "builtin delete($0.conns, $1)":
				xi = i
			}
		}
		if ci < 0 || di < 0 || xi < 0 || li < 0 {
			bad["an exit path does not close, un-count and un-register the connection"] = true
			continue
		}
		if !(ci < di) {
			bad["the open-connection count is decremented before the connection is closed: Shutdown may report success while the socket is still open"] = true
		}
		if !(di < li) {
			bad["the count is decremented behind the connection-set lock: Shutdown holds connsMu while it waits for zero, so it would never see this connection finish"] = true
		}
		if !(li < xi) {
			bad["the connection is removed from the set without connsMu"] = true
		}
	}
	var why []string
	for k := range bad {
		why = append(why, k)
	}
	r.check(n >= 4 && len(why) == 0, "handleLoop#register-close-uncount-unregister", hl.Pos(), fmt.Sprintf("all %d exits: Close → Add(-1) → locked delete; registration first", n), strings.Join(why, "; "))
	// the removal closure
	for _, lit := range anonFuncs(hl) {
		// while connsMu is held inside a deferred literal only the removal may happen
		ls := lockset(lit)
		good := true
		eachInstr(lit, func(ins ssa.Instruction) {
			c, ok := ins.(*ssa.Call)
			if !ok || !holdsSuffix(ls[ins], ".connsMu") {
				return
			}
			cn := calleeName(c.Common())
			if cn != "builtin delete" && cn != "(*sync.Mutex).Unlock" {
				good = false
			}
		})
		r.check(good, "handleLoop$removal", lit.Pos(), "under connsMu only delete(conns, conn)", "the deferred clean-up does more than the removal while holding connsMu (anything done here waits for Shutdown to return)")
	}
	// no peer-dependent call while the proxy-wide lock is held, in handleLoop and the helpers it calls
	fns := []*ssa.Function{hl}
	eachInstr(hl, func(ins ssa.Instruction) {
		if c, ok := ins.(*ssa.Call); ok {
			if sc := staticCallee(c.Common()); sc != nil && strings.HasPrefix(fname(sc), "(*martian.Proxy).") && len(sc.Blocks) > 0 && refName(sc) != "closing" {
				fns = append(fns, sc)
			}
		}
	})
	nChecked := 0
	for _, fn := range fns {
		ls := lockset(fn)
		eachInstr(fn, func(ins ssa.Instruction) {
			c, ok := ins.(ssa.CallInstruction)
			if !ok || !holdsSuffix(ls[ins], ".connsMu") {
				return
			}
			if _, isDefer := ins.(*ssa.Defer); isDefer {
				return
			}
			cn := calleeName(c.Common())
			nChecked++
			allowed := cn == "(*sync.Mutex).Unlock" || cn == "(*sync/atomic.Int32).Add" || cn == "builtin delete" || cn == "builtin len"
			r.check(allowed, fname(fn)+"#under-connsMu("+cn+")", ins.Pos(), "bookkeeping only", cn+" is called while the proxy-wide connection lock is held: if it waits for the peer (e.g. RemoteAddr on a PROXY-protocol conn) every other connection waits too")
		})
	}
}

func c11r2(r *R) {
	h := handlerSpecs(r)[0]
	ps, complete := enumPathsOpts(h.entry, 100000, 2, InlineOpts{Inline: func(c *ssa.Function) bool { return h.inline[fname(c)] }})
	if !complete {
		r.undecided("handle#paths", h.entry.Pos(), "too many paths")
		return
	}
	sites := map[string]string{}
	pos := map[string]ssa.Instruction{}
	for i := range ps {
		p := &ps[i]
		if p.Cut {
			continue
		}
		ri := p.eventIndex(0, "call", eq("(*martian.proxyConn).readRequest($0)"))
		ci := p.eventIndex(ri+1, "call", eq("(*martian.Proxy).closing($0.Proxy)"))
		for j, e := range p.Events {
			name, ok := isSinkEvent(e)
			if !ok {
				continue
			}
			key := "handle#" + fname(e.Instr.Parent()) + "→" + strings.TrimPrefix(name, "(*martian.Proxy).")
			pos[key] = e.Instr
			if _, seen := sites[key]; !seen {
				sites[key] = ""
			}
			if !(ri >= 0 && ci > ri && ci < j && p.holds("!(*martian.Proxy).closing($0.Proxy)")) {
				sites[key] = "reached without having observed closing() == false after the request was read: a request sent after shutdown began is forwarded"
			}
		}
	}
	for k, v := range sites {
		r.check(v == "", k, pos[k].Pos(), "only after closing() was false for this request", v)
	}
	if len(sites) < 3 {
		r.bad("handle#sinks", h.entry.Pos(), "expected round trip, CONNECT and MITM sinks")
	}
	// handleLoop: closing() before the connection is served
	hl := r.method(mpkg, "Proxy", "handleLoop")
	var cl, np ssa.Instruction
	for _, c := range calls(hl, nameIs("(*martian.Proxy).closing")) {
		cl = c.(ssa.Instruction)
	}
	for _, c := range calls(hl, nameIs("martian.newProxyConn")) {
		np = c.(ssa.Instruction)
	}
	r.check(cl != nil && np != nil && instrDominates(cl, np) && guardedBy(np.Block(), eq("!(*martian.Proxy).closing($0)")), "handleLoop#closing-before-serve", hl.Pos(), "a connection accepted during shutdown is closed without service", "a fresh connection is served without checking the closing state")
	// Serve: closing() before each Accept
	sv := r.method(mpkg, "Proxy", "Serve")
	var acc ssa.Instruction
	eachInstr(sv, func(ins ssa.Instruction) {
		if c, ok := ins.(*ssa.Call); ok && calleeName(c.Common()) == "invoke net.Listener.Accept" {
			acc = ins
		}
	})
	okServe := acc != nil && guardedBy(acc.Block(), eq("!(*martian.Proxy).closing($0)")) && reaches(acc, acc)
	r.check(okServe, "Serve#closing-before-accept", sv.Pos(), "the accept loop stops once closing", "Serve accepts without checking the closing state in every iteration")
	// closing() is a non-blocking receive on closeCh
	cf := r.method(mpkg, "Proxy", "closing")
	cps, _ := enumPaths(cf, 8, 1)
	okc := len(cps) == 2
	for _, p := range cps {
		got := p.hasCond(func(c string) bool { return strings.HasPrefix(c, "(select(<-$0.closeCh)#0 == 0)") })
		if got != (p.Ret[0] == "true") {
			okc = false
		}
	}
	var sel *ssa.Select
	eachInstr(cf, func(ins ssa.Instruction) {
		if s, ok := ins.(*ssa.Select); ok {
			sel = s
		}
	})
	r.check(okc && sel != nil && !sel.Blocking, "Proxy.closing", cf.Pos(), "true ⇔ closeCh is closed (non-blocking)", "closing() no longer reflects the close signal")
}

func c11r4(r *R) {
	sd := r.method(mpkg, "Proxy", "Shutdown")
	ps, _ := enumPaths(sd, 4096, 2)
	var why []string
	nNil, nErr := 0, 0
	for _, p := range ps {
		if p.Cut || len(p.Ret) != 1 || strings.HasPrefix(p.Ret[0], "<panic") {
			continue
		}
		switch {
		case p.Ret[0] == "nil":
			nNil++
			if !p.hasCond(func(c string) bool { return strings.HasPrefix(c, "((*sync/atomic.Int32).Load($0.connsWg) == 0)") }) {
				why = append(why, "reports success without having seen the open-connection count at zero")
			}
		case p.Ret[0] == "invoke context.Context.Err($1)":
			nErr++
			if !p.hasCond(func(c string) bool {
				return strings.HasPrefix(c, "(select(<-invoke context.Context.Done($1),") && strings.HasSuffix(c, "#0 == 0)")
			}) {
				why = append(why, "returns the context's error outside its Done arm")
			}
		default:
			why = append(why, "returns "+p.Ret[0])
		}
		if p.eventIndex(0, "call", prefix("(*sync.Once).Do($0.closeOnce, ")) < 0 {
			why = append(why, "closing signal not raised")
		}
	}
	r.check(nNil > 0 && nErr > 0 && len(why) == 0, "Proxy.Shutdown#result", sd.Pos(), "nil ⇔ count seen zero; ctx.Err() only when the context ended", strings.Join(dedupStrings(why), "; "))
	// close(closeCh) only inside closeOnce closures
	n := 0
	for _, fn := range r.modFuncs() {
		if !strings.HasPrefix(fname(fn), "(*martian.Proxy).") {
			continue
		}
		for _, c := range calls(fn, nameIs("builtin close")) {
			if !strings.HasSuffix(describe(refArgs(c.Common())[0]), ".closeCh") {
				continue
			}
			n++
			okOnce := false
			lit := c.Parent() // the function the close really stands in (a literal, possibly inside a helper split out of fn)
			if par := lit.Parent(); par != nil {
				for _, b := range par.Blocks {
					for _, ins := range b.Instrs {
						d, ok := ins.(ssa.CallInstruction)
						if !ok || calleeName(d.Common()) != "(*sync.Once).Do" {
							continue
						}
						if strings.HasSuffix(describe(refArgs(d.Common())[0]), ".closeOnce") && isClosureOf(describe(refArgs(d.Common())[1]), lit) {
							okOnce = true
						}
					}
				}
			}
			if lit.Parent() == nil && isNewHelper(lit) {
				// the literal became a method handed to closeOnce.Do as a method value: every use of that method is such
				// a hand-over, and it is never called directly
				uses, direct := 0, 0
				for _, g := range r.modFuncsAll() {
					for _, b := range g.Blocks {
						for _, ins := range b.Instrs {
							d, ok := ins.(ssa.CallInstruction)
							if !ok {
								continue
							}
							if staticCallee(d.Common()) == lit {
								direct++
							}
							if calleeName(d.Common()) == "(*sync.Once).Do" && strings.HasSuffix(describe(refArgs(d.Common())[0]), ".closeOnce") && isClosureOf(describe(refArgs(d.Common())[1]), lit) {
								uses++
							}
						}
					}
				}
				okOnce = uses > 0 && direct == 0
			}
			r.check(okOnce, fname(fn)+"#close(closeCh)", c.Pos(), "closed through closeOnce", "closeCh is closed outside closeOnce: Shutdown followed by Close would panic on a double close")
		}
	}
	if n < 2 {
		r.bad("close(closeCh)", sd.Pos(), "Shutdown and Close must both raise the closing signal")
	}
	// Close closes every tracked connection under the lock
	cl := r.method(mpkg, "Proxy", "Close")
	ls := lockset(cl)
	found := false
	eachInstr(cl, func(ins ssa.Instruction) {
		c, ok := ins.(*ssa.Call)
		if !ok || calleeName(c.Common()) != "invoke net.Conn.Close" {
			return
		}
		d := describe(c.Common().Value)
		found = strings.HasPrefix(d, "next(range($0.conns))") && ls[ins]["$0.connsMu"] && reaches(ins, ins)
	})
	r.check(found, "Proxy.Close#closes-all", cl.Pos(), "every member of the connection set is closed, under connsMu", "Close does not close every tracked connection")
	// Shutdown holds the lock while waiting (new registrations wait until it returns and then see closing)
	lsd := lockset(sd)
	held := true
	eachInstr(sd, func(ins ssa.Instruction) {
		if c, ok := ins.(*ssa.Call); ok && calleeName(c.Common()) == "(*sync/atomic.Int32).Load" {
			// the read that decides "drained": compared with zero
			deciding := false
			for _, ref := range *c.Referrers() {
				if bo, ok := ref.(*ssa.BinOp); ok && bo.Op.String() == "==" {
					deciding = true
				}
			}
			if deciding {
				held = held && lsd[ins]["$0.connsMu"]
			}
		}
	})
	r.check(held, "Proxy.Shutdown#counts-under-lock", sd.Pos(), "count is read with connsMu held: no connection can register in between", "Shutdown reads the count without connsMu")
}

func c11r5(r *R) {
	run := r.method(".", "HTTPProxy", "run")
	var stop, serve *ssa.Function
	for _, lit := range anonFuncs(run) {
		if len(calls(lit, nameIs("(*martian.Proxy).Shutdown"))) > 0 {
			stop = lit
		}
		if len(calls(lit, nameIs("(*martian.Proxy).Serve"))) > 0 {
			serve = lit
		}
	}
	if stop == nil || serve == nil {
		r.missing("shutdown and serve goroutines of HTTPProxy.run")
	}
	ps, _ := enumPaths(stop, 256, 1)
	var why []string
	for _, p := range ps {
		ci := p.eventIndex(0, "call", prefix("(*forwarder.HTTPProxy).Close("))
		si := p.eventIndex(0, "call", prefix("(*martian.Proxy).Shutdown("))
		fi := p.eventIndex(0, "call", prefix("(*martian.Proxy).Close("))
		ii := p.eventIndex(0, "call", prefix("(*net/http.Transport).CloseIdleConnections("))
		if !(ci >= 0 && si > ci) {
			why = append(why, "listeners are not closed before the graceful drain starts")
		}
		failed := si >= 0 && p.holds("("+p.Events[max(si, 0)].Desc+" != nil)")
		if failed != (fi > si) {
			why = append(why, fmt.Sprintf("Shutdown failed=%v but forced Close called=%v", failed, fi > si))
		}
		if ii >= 0 && ii < si {
			why = append(why, "idle upstream connections closed before the drain")
		}
		isT := p.hasCond(func(c string) bool {
			return strings.HasSuffix(c, ".(*net/http.Transport)#1") && !strings.HasPrefix(c, "!")
		})
		if isT && ii < 0 {
			why = append(why, "idle upstream connections are not closed")
		}
	}
	r.check(len(ps) >= 2 && len(why) == 0, "HTTPProxy.run#stop-order", stop.Pos(), "close listeners → Shutdown → (Close on failure) → close idle upstream connections", strings.Join(dedupStrings(why), "; "))
	ps, _ = enumPaths(serve, 64, 1)
	why = nil
	for _, p := range ps {
		closed := p.hasCond(func(c string) bool {
			return strings.HasPrefix(c, "errors.Is(") && strings.HasSuffix(c, ", net.ErrClosed)")
		})
		if closed && p.Ret[0] != "nil" {
			why = append(why, "listener closed is reported as a failure")
		}
		if !closed && !strings.HasPrefix(p.Ret[0], "(*martian.Proxy).Serve(") {
			why = append(why, "serve error swallowed: "+p.Ret[0])
		}
	}
	r.check(len(ps) == 2 && len(why) == 0, "HTTPProxy.run#serve-result", serve.Pos(), "net.ErrClosed → nil, other errors returned", strings.Join(why, "; "))
	// the shutdown context is bounded by the configured timeout
	sc := r.fn(".", "shutdownContext")
	found := false
	for _, c := range calls(sc, nameIs("context.WithTimeout")) {
		d := describe(refArgs(c.Common())[1])
		found = (d == "$0.ShutdownTimeout" || d == "local:cfg.ShutdownTimeout") && guardedBy(c.Block(), eq("("+d+" > 0)"))
	}
	r.check(found, "shutdownContext#timeout", sc.Pos(), "drain bounded by ShutdownTimeout when set", "graceful drain is not bounded by the configured timeout")
	// Proxy.Serve closes its listener on return
	sv := r.method(mpkg, "Proxy", "Serve")
	dl := false
	eachInstr(sv, func(ins ssa.Instruction) {
		if d, ok := ins.(*ssa.Defer); ok && describeCall(d.Common(), describe) == "invoke net.Listener.Close($1)" {
			dl = true
		}
	})
	r.check(dl, "Proxy.Serve#defer-close-listener", sv.Pos(), "listener closed when Serve returns", "Serve leaves its listener open")
}
