package main

import (
	"fmt"
	"strings"

	"golang.org/x/tools/go/ssa"
)

func init() {
	register("C20", "R1", 6, "direction wiring: --read-limit → ListenerConfig.ReadLimit → first limit of ratelimit.NewListener → txLimiter → consulted only in Conn.Write; --write-limit → WriteLimit → second limit → rxLimiter → consulted only in Conn.Read", c20r1)
	register("C20", "R2", 4, "zero means off: a limiter exists only for a positive limit; a conn waits only when its limiter exists and bytes were moved; the listener is wrapped only when some limit is positive", c20r2)
	register("C20", "R3", 3, "shared buckets that never switch off: both limiters are created once per listener and every accepted conn gets those same pointers; waiting uses a context that is never cancelled (a cancelled context makes WaitN return at once)", c20r3)
	register("C20", "R4", 4, "data untouched, nothing bypasses: Read/Write return the underlying results and pass the caller's slice unchanged; the accepted conn hides ReadFrom/WriteTo (empty connfu.Config), otherwise io.Copy would move bytes past the limiter", c20r4)
}

func c20r1(r *R) {
	// flag binding
	found := map[string]bool{}
	for _, fn := range r.modFuncs() {
		if !strings.HasPrefix(fname(fn), "bind.") {
			continue
		}
		eachInstr(fn, func(ins ssa.Instruction) {
			c, ok := ins.(*ssa.Call)
			if !ok || !strings.HasSuffix(calleeName(c.Common()), "pflag.FlagSet).Var") {
				return
			}
			args := c.Common().Args
			name := describe(args[2])
			dst := describe(args[1])
			for flag, field := range map[string]string{`"read-limit")`: ".ReadLimit", `"write-limit")`: ".WriteLimit"} {
				if strings.HasSuffix(name, flag) {
					found[flag] = true
					r.check(strings.HasSuffix(dst, field), "bind#"+strings.Trim(flag, `")`), c.Pos(), "bound to ListenerConfig"+field, "flag "+flag+" is bound to "+dst)
				}
			}
		})
	}
	r.check(len(found) == 2, "bind#limit-flags", r.pkg("bind").Func("init").Pos(), "both limit flags are registered", "read-limit/write-limit flag registration not found")
	// Listen → NewListener
	ln := r.method(".", "Listener", "Listen")
	n := 0
	for _, c := range calls(ln, nameIs("ratelimit.NewListener")) {
		n++
		a := c.Common().Args
		r.check(strings.HasSuffix(describe(a[1]), ".ReadLimit") && strings.HasSuffix(describe(a[2]), ".WriteLimit"), "Listener.Listen#NewListener(args)", c.Pos(), "NewListener(l, ReadLimit, WriteLimit)", "limits passed as ("+describe(a[1])+", "+describe(a[2])+"): the directions are swapped or wrong")
	}
	if n == 0 {
		r.bad("Listener.Listen#NewListener", ln.Pos(), "rate limiting listener is never installed")
	}
	// NewListener: readLimit → tx, writeLimit → rx
	nl := r.fn("ratelimit", "NewListener")
	ps, _ := enumPaths(nl, 64, 1)
	var why []string
	for _, p := range ps {
		l := p.Ret[0]
		tx, rx := p.Mem[l+".txLimiter"], p.Mem[l+".rxLimiter"]
		wantTx, wantRx := "nil", "nil"
		if p.holds("($1 > 0)") {
			wantTx = "ratelimit.newRateLimiter($1)"
		}
		if p.holds("($2 > 0)") {
			wantRx = "ratelimit.newRateLimiter($2)"
		}
		if tx == "" {
			tx = "nil" // the field is never assigned on this path: the zero value
		}
		if rx == "" {
			rx = "nil"
		}
		if tx != wantTx || rx != wantRx {
			why = append(why, fmt.Sprintf("readLimit>0=%v writeLimit>0=%v: tx=%s rx=%s, expected tx=%s rx=%s", p.holds("($1 > 0)"), p.holds("($2 > 0)"), tx, rx, wantTx, wantRx))
		}
		if p.Mem[l+".Listener"] != "$0" {
			why = append(why, "wrapped listener is "+p.Mem[l+".Listener"])
		}
	}
	r.check(len(ps) == 4 && len(why) == 0, "ratelimit.NewListener#directions", nl.Pos(), "readLimit bounds what the proxy sends (tx), writeLimit what it receives (rx); limiter only when positive", strings.Join(why, "; "))
	// Conn.Read uses rx, Conn.Write uses tx
	for _, s := range []struct{ m, lim, other string }{{"Read", "rxLimiter", "txLimiter"}, {"Write", "txLimiter", "rxLimiter"}} {
		fn := r.method("ratelimit", "Conn", s.m)
		uses := map[string]bool{}
		eachInstr(fn, func(ins ssa.Instruction) {
			if fa, ok := ins.(*ssa.FieldAddr); ok {
				if d := describe(fa); strings.HasPrefix(d, "$0.") { // fields of the Conn, also when grouped into a nested struct
					uses[strings.TrimPrefix(d, "$0.")] = true
				}
			}
		})
		r.check(uses[s.lim] && !uses[s.other], "ratelimit.Conn."+s.m+"#limiter", fn.Pos(), s.m+" consults "+s.lim+" only", fmt.Sprintf("%s consults %v", s.m, uses))
	}
}

func c20r2(r *R) {
	for _, s := range []struct{ m, lim string }{{"Read", "rxLimiter"}, {"Write", "txLimiter"}} {
		fn := r.method("ratelimit", "Conn", s.m)
		ps, _ := enumPaths(fn, 64, 1)
		io := "invoke net.Conn." + s.m + "($0.Conn, $1)"
		var why []string
		for _, p := range ps {
			moved := p.holds("(" + io + "#0 > 0)")
			has := p.holds("($0." + s.lim + " != nil)")
			wi := p.eventIndex(0, "call", prefix("(*golang.org/x/time/rate.Limiter).WaitN($0."+s.lim+", "))
			if (moved && has) != (wi >= 0) {
				why = append(why, fmt.Sprintf("bytes moved=%v limiter set=%v but waited=%v", moved, has, wi >= 0))
			}
			if wi >= 0 && !strings.HasSuffix(p.Events[wi].Desc, ", "+io+"#0)") {
				why = append(why, "waits for "+p.Events[wi].Desc+" instead of the n just transferred")
			}
		}
		r.check(len(ps) >= 3 && len(why) == 0, "ratelimit.Conn."+s.m+"#wait", fn.Pos(), "waits for exactly n tokens iff n > 0 and the limiter exists", strings.Join(dedupStrings(why), "; "))
	}
	ln := r.method(".", "Listener", "Listen")
	lps, _ := enumPaths(ln, 4096, 1)
	okGuard, nW := true, 0
	for _, p := range lps {
		if len(p.Ret) != 1 || p.Ret[0] != "nil" {
			continue
		}
		pos := p.hasCond(func(c string) bool {
			return (strings.HasSuffix(c, "ReadLimit > 0)") || strings.HasSuffix(c, "WriteLimit > 0)")) && !strings.HasPrefix(c, "!")
		})
		wrapped := p.eventIndex(0, "call", prefix("ratelimit.NewListener(")) >= 0
		if wrapped {
			nW++
		}
		if pos != wrapped {
			okGuard = false
		}
	}
	r.check(okGuard && nW > 0, "Listener.Listen#wrap-iff-limited", ln.Pos(), "wrapped iff a limit is positive", "rate limiting listener installed although no limit is positive, or not installed although one is")
	nr := r.fn("ratelimit", "newRateLimiter")
	ps, _ := enumPaths(nr, 16, 1)
	var why []string
	for _, p := range ps {
		want := "($0 / 64)"
		if p.holds("(($0 / 64) < 4194304)") {
			want = "4194304"
		}
		if p.Ret[0] != "golang.org/x/time/rate.NewLimiter($0, "+want+")" && p.Ret[0] != "golang.org/x/time/rate.NewLimiter($0, builtin max(($0 / 64), 4194304))" && p.Ret[0] != "golang.org/x/time/rate.NewLimiter($0, builtin max(4194304, ($0 / 64)))" {
			why = append(why, "limiter is "+p.Ret[0])
		}
	}
	r.check((len(ps) == 2 || len(ps) == 1) && len(why) == 0, "ratelimit.newRateLimiter", nr.Pos(), "rate = bandwidth bytes/s, burst = max(4 MiB, bandwidth/64)", strings.Join(why, "; "))
}

func c20r3(r *R) {
	ac := r.method("ratelimit", "Listener", "Accept")
	ps, _ := enumPaths(ac, 64, 1)
	var why []string
	n := 0
	for _, p := range ps {
		if len(p.Ret) != 2 || p.Ret[1] != "nil" {
			continue
		}
		n++
		var conn string
		for k, v := range p.Mem {
			if strings.HasSuffix(k, ".rxLimiter") && strings.HasPrefix(k, "local:") {
				conn = strings.TrimSuffix(k, ".rxLimiter")
				if v != "$0.rxLimiter" {
					why = append(why, "rx limiter of the conn is "+v)
				}
			}
		}
		if conn == "" {
			why = append(why, "accepted conn is not wrapped")
			continue
		}
		if p.Mem[conn+".txLimiter"] != "$0.txLimiter" {
			why = append(why, "tx limiter of the conn is "+p.Mem[conn+".txLimiter"])
		}
		if p.Mem[conn+".Conn"] != "invoke net.Listener.Accept($0.Listener)#0" {
			why = append(why, "wrapped conn is "+p.Mem[conn+".Conn"])
		}
	}
	r.check(n == 1 && len(why) == 0, "ratelimit.Listener.Accept#shared", ac.Pos(), "every accepted conn shares the listener's two limiters", strings.Join(why, "; "))
	// limiters are written only by NewListener
	for _, fn := range r.modFuncs() {
		if !strings.Contains(fname(fn), "ratelimit.") {
			continue
		}
		eachInstr(fn, func(ins ssa.Instruction) {
			st, ok := ins.(*ssa.Store)
			if !ok {
				return
			}
			if fa, ok := st.Addr.(*ssa.FieldAddr); ok && structName(fa.X.Type()) == "ratelimit.Listener" && strings.HasSuffix(fieldName(fa.X.Type(), fa.Field), "Limiter") {
				r.check(refName(fn) == "NewListener", fname(fn)+"#store("+fieldName(fa.X.Type(), fa.Field)+")", st.Pos(), "created once per listener", "listener limiter replaced after construction")
			}
		})
	}
	// the wait context is never cancelled: a package-level context (whatever it is called) that is assigned
	// context.Background() exactly once, or context.Background() itself
	for _, m := range []string{"Read", "Write"} {
		fn := r.method("ratelimit", "Conn", m)
		for _, c := range calls(fn, nameIs("(*golang.org/x/time/rate.Limiter).WaitN")) {
			av := refArgs(c.Common())[1]
			ctx := describe(av)
			okCtx := ctx == "context.Background()"
			if u, ok := av.(*ssa.UnOp); ok {
				if g, ok := u.X.(*ssa.Global); ok {
					val, n := "", 0
					for _, f := range r.modFuncsAll() {
						eachInstr(f, func(ins ssa.Instruction) {
							if st, ok := ins.(*ssa.Store); ok && st.Addr == ssa.Value(g) {
								n++
								val = describe(st.Val)
							}
						})
					}
					okCtx = n == 1 && val == "context.Background()"
					ctx += fmt.Sprintf(" (= %s, %d assignments)", val, n)
				}
			}
			r.check(okCtx, "ratelimit.Conn."+m+"#wait-context", c.Pos(), "waits on a background context", "WaitN is given "+ctx+": once that context is cancelled every wait returns immediately (its error is ignored) and the limit stops applying")
		}
	}
}

func c20r4(r *R) {
	for _, m := range []string{"Read", "Write"} {
		fn := r.method("ratelimit", "Conn", m)
		ps, _ := enumPaths(fn, 64, 1)
		io := "invoke net.Conn." + m + "($0.Conn, $1)"
		good := len(ps) > 0
		for _, p := range ps {
			if p.eventIndex(0, "call", eq(io)) != 0 || p.Ret[0] != io+"#0" || p.Ret[1] != io+"#1" {
				good = false
			}
		}
		r.check(good, "ratelimit.Conn."+m+"#passthrough", fn.Pos(), "caller's slice passed on, (n, err) returned unchanged", m+" does not pass the caller's buffer and results through unchanged")
	}
	ac := r.method("ratelimit", "Listener", "Accept")
	n := 0
	eachInstr(ac, func(ins ssa.Instruction) {
		c, ok := ins.(*ssa.Call)
		if !ok || !strings.HasPrefix(calleeName(c.Common()), "github.com/saucelabs/connfu.") {
			return
		}
		n++
		cn := calleeName(c.Common())
		if cn != "github.com/saucelabs/connfu.CombineWithConfig" {
			r.bad("ratelimit.Listener.Accept#hide-fast-paths", c.Pos(), cn+" re-exposes the inner conn's ReadFrom/WriteTo: io.Copy then splices bytes past the limiter (tunnels and large bodies are not throttled)")
			return
		}
		// the config argument is the zero value
		cfg := refArgs(c.Common())[2]
		zero := false
		switch x := cfg.(type) {
		case *ssa.Const:
			zero = true
		case *ssa.UnOp:
			if a, ok := x.X.(*ssa.Alloc); ok {
				zero = len(storesTo(a)) == 0
				for _, ref := range *a.Referrers() {
					if fa, isFA := ref.(*ssa.FieldAddr); isFA {
						// a field written out as its zero value is still the zero value
						for _, rr := range *fa.Referrers() {
							st, isStore := rr.(*ssa.Store)
							if !isStore {
								continue
							}
							if k, isConst := st.Val.(*ssa.Const); !isConst || !(k.Value == nil || k.Value.ExactString() == "false" || k.Value.ExactString() == "0") {
								zero = false
							}
						}
					}
				}
			}
		}
		r.check(zero, "ratelimit.Listener.Accept#hide-fast-paths", c.Pos(), "combined with an empty connfu.Config: no ReadFrom/WriteTo exposed", "connfu config enables fast paths that bypass the limiter")
	})
	if n == 0 {
		r.bad("ratelimit.Listener.Accept#combine", ac.Pos(), "accepted conn is not combined through connfu with fast paths hidden")
	}
	// Conn itself defines no ReadFrom/WriteTo
	for _, m := range []string{"ReadFrom", "WriteTo"} {
		r.check(r.methodOpt("ratelimit", "Conn", m) == nil, "ratelimit.Conn#no-"+m, ac.Pos(), "no "+m+" on the limited conn", "ratelimit.Conn implements "+m+": it must count those bytes too")
	}
}
