package main

import (
	"regexp"
	"strings"

	"golang.org/x/tools/go/ssa"
)

func init() {
	register("C18", "R1", 5, "check before append, refusal carries 400: when the existing Via chain contains this instance's tag the modifier returns ErrorStatus{Status: 400} and writes no header; otherwise the new element (received protocol version, space, tag) is appended after the existing chain", c18r1)
	register("C18", "R2", 2, "the whole Via chain is inspected and kept: the value searched for the tag and written back is built from every Via field line (Header.Values), never from Header.Get, which sees only the first line", c18r2)
	register("C18", "R3", 4, "instance-unique tag: the production constructor takes 10 bytes from crypto/rand, hex-encodes them and builds name-boundary; nothing in production code constructs the modifier with a caller-chosen boundary", c18r3)
	register("C18", "R4", 6, "a refusal causes no upstream contact and maps to its status: modifier error ⇒ no sink (same analysis as C04.R1) and martian.ErrorStatus ⇒ its Status", func(r *R) {
		c04r1(r)
		ms := r.fn(".", "handleMartianErrorStatus")
		ps, _ := enumPaths(ms, 16, 1)
		good := false
		for _, p := range ps {
			if p.holds("errors.As($1, local:martianErr)") {
				good = p.Ret[0] == "local:martianErr.Status"
			}
		}
		r.check(good, "handleMartianErrorStatus", ms.Pos(), "ErrorStatus → its own status", "martian.ErrorStatus is not mapped to its status")
	})
	register("C18", "R5", 4, "membership: the production request chain contains the Via modifier unconditionally (for CONNECT and non-CONNECT alike), after hop-by-hop removal, built with the configured proxy name", c18r5)
}

const viaChain = `strings.Join((net/http.Header).Values($1.Header, "Via"), ", ")`

func c18r1(r *R) {
	fn := r.method(mpkg+"/header", "ViaModifier", "ModifyRequest")
	ps, complete := enumPaths(fn, 512, 1)
	if !complete {
		r.undecided("ViaModifier.ModifyRequest", fn.Pos(), "too many paths")
		return
	}
	// find the chain term: the first argument of strings.Contains(_, $0.tag)
	chain := ""
	for _, p := range ps {
		for _, e := range p.Events {
			if e.Kind == "call" && strings.HasPrefix(e.Desc, "strings.Contains(") && strings.HasSuffix(e.Desc, ", $0.tag)") {
				chain = strings.TrimSuffix(strings.TrimPrefix(e.Desc, "strings.Contains("), ", $0.tag)")
			}
		}
	}
	if chain == "" {
		r.bad("ViaModifier.ModifyRequest#loop-test", fn.Pos(), "the existing Via chain is never searched for this instance's tag")
		return
	}
	versions := map[string]string{"20": `"2.0"`, "11": `"1.1"`, "10": `"1.0"`}
	nLoop, nFwd := 0, 0
	for i, p := range ps {
		_ = i
		writes := func() (seq []string, hdr []string) {
			for _, e := range p.Events {
				if e.Kind != "call" {
					continue
				}
				switch {
				case builderCall(e.Desc, "(*strings.Builder).WriteString(") != "":
					seq = append(seq, flattenConcat(builderCall(e.Desc, "(*strings.Builder).WriteString("))...)
				case builderCall(e.Desc, "(*strings.Builder).WriteByte(") != "":
					seq = append(seq, "byte:"+builderCall(e.Desc, "(*strings.Builder).WriteByte("))
				case builderCall(e.Desc, "fmt.Fprintf(") != "":
					seq = append(seq, "fprintf")
				case strings.HasPrefix(e.Desc, "(net/http.Header).Set(") || strings.HasPrefix(e.Desc, "(net/http.Header).Add(") || strings.HasPrefix(e.Desc, "(net/http.Header).Del("):
					hdr = append(hdr, e.Desc)
				}
			}
			return
		}
		seq, hdr := writes()
		looped := p.holds("strings.Contains(" + chain + ", $0.tag)")
		if looped {
			nLoop++
			st := p.Mem[p.Ret[0]+".Status"]
			r.check(st == "400" && len(hdr) == 0 && strings.HasPrefix(p.Ret[0], "local:complit"), "ViaModifier.ModifyRequest#loop→400", p.pos(), "loop: ErrorStatus{Status: 400}, no header written", "on a detected loop the modifier must return ErrorStatus 400 and leave Via untouched; got status "+st+", writes "+strings.Join(hdr, ";"))
			continue
		}
		if len(p.Ret) != 1 || p.Ret[0] != "nil" {
			r.bad("ViaModifier.ModifyRequest#forward", p.pos(), "a request without this instance's tag is refused: "+p.Ret[0])
			continue
		}
		nFwd++
		var want []string
		if p.holds("(" + chain + ` != "")`) {
			want = append(want, chain, `", "`)
		}
		ver := "fprintf"
		for code, lit := range versions {
			if p.holds("((($1.ProtoMajor * 10) + $1.ProtoMinor) == " + code + ")") {
				ver = lit
			}
		}
		want = append(want, ver, "byte:32", "$0.tag")
		good := strings.Join(seq, "|") == strings.Join(want, "|") && len(hdr) == 1 && viaSetFromBuilder.MatchString(hdr[0])
		r.check(good, "ViaModifier.ModifyRequest#append["+ver+"]", p.pos(), "Via := existing chain + \", \" + version + \" \" + tag", "new Via value is built as ["+strings.Join(seq, " ")+"] and written by "+strings.Join(hdr, ";")+"; expected ["+strings.Join(want, " ")+"]")
	}
	if nLoop == 0 || nFwd < 4 {
		r.bad("ViaModifier.ModifyRequest#paths", fn.Pos(), "expected a loop path and one append path per protocol version")
	}
}

func c18r2(r *R) {
	fn := r.method(mpkg+"/header", "ViaModifier", "ModifyRequest")
	// the value searched
	for _, c := range calls(fn, nameIs("strings.Contains")) {
		d := describe(refArgs(c.Common())[0])
		all := strings.Contains(d, `(net/http.Header).Values($1.Header, "Via")`) || strings.Contains(d, `$1.Header["Via"]`)
		r.check(all && !strings.Contains(d, "Header).Get("), "ViaModifier#searched-chain", c.Pos(), "searches "+d, "the loop test searches "+d+": Header.Get returns only the first Via field line, a tag on a later line is missed")
	}
	for _, c := range calls(fn, nameIs("(net/http.Header).Get")) {
		if k, _ := constString(refArgs(c.Common())[1]); k == "Via" {
			r.bad("ViaModifier#Get(Via)", c.Pos(), "Via read with Header.Get: only the first field line is seen and Set then drops the others")
		}
	}
	// same rule for the other list field rewritten from its old value
	fm := r.fn(mpkg+"/header", "NewForwardedModifier")
	for _, lit := range anonFuncs(fm) {
		for _, c := range calls(lit, nameIs("(net/http.Header).Set")) {
			k, _ := constString(refArgs(c.Common())[1])
			if k != "X-Forwarded-For" {
				continue
			}
			d := describe(refArgs(c.Common())[2])
			good := strings.Contains(d, `(net/http.Header).Values($0.Header, "X-Forwarded-For")`) && !strings.Contains(d, `(net/http.Header).Get($0.Header, "X-Forwarded-For")`)
			r.check(good, "ForwardedModifier#X-Forwarded-For", c.Pos(), "new value built from every existing field line", "X-Forwarded-For rebuilt from Header.Get: later field lines are dropped")
		}
	}
}

func c18r3(r *R) {
	nv := r.fn(mpkg+"/header", "NewViaModifier")
	ps, _ := enumPaths(nv, 8, 1)
	r.check(len(ps) == 1 && ps[0].Ret[0] == "martian/header.NewViaModifierWithBoundary($0, martian/header.randomBoundary())", "NewViaModifier", nv.Pos(), "boundary = randomBoundary()", "NewViaModifier does not use a random boundary")
	rb := r.fn(mpkg+"/header", "randomBoundary")
	ps, _ = enumPaths(rb, 16, 1)
	good := false
	bufName := ""
	for _, p := range ps {
		if len(p.Ret) == 1 && !strings.HasPrefix(p.Ret[0], "<panic") {
			// the local's name is free; the same array must be filled and encoded
			if m := regexp.MustCompile(`^encoding/hex\.EncodeToString\(local:(\w+)\[:\]\)$`).FindStringSubmatch(p.Ret[0]); m != nil {
				bufName = m[1]
				good = p.eventIndex(0, "call", eq("io.ReadFull(crypto/rand.Reader, local:"+bufName+"[:])")) >= 0 &&
					p.hasCond(func(c string) bool { return strings.HasPrefix(c, "!(io.ReadFull(crypto/rand.Reader,") })
			}
		}
	}
	var n int
	eachInstr(rb, func(ins ssa.Instruction) {
		if a, ok := ins.(*ssa.Alloc); ok && localName(a) == bufName {
			if typeStr(a.Type()) == "*[10]byte" {
				n = 10
			}
		}
	})
	r.check(good && n == 10, "randomBoundary", rb.Pos(), "10 bytes from crypto/rand, hex-encoded, failure is fatal", "boundary is not 10 crypto/rand bytes hex-encoded")
	wb := r.fn(mpkg+"/header", "NewViaModifierWithBoundary")
	ps, _ = enumPaths(wb, 8, 1)
	r.check(len(ps) == 1 && ps[0].Mem[ps[0].Ret[0]+".tag"] == `(($0 + "-") + $1)`, "NewViaModifierWithBoundary", wb.Pos(), "tag = name-boundary", "tag is "+ps[0].Mem[ps[0].Ret[0]+".tag"])
	cnt := 0
	for _, fn := range r.modFuncs() {
		for _, c := range callsToFunc(fn, wb) {
			cnt++
			r.check(fn == nv, fname(fn)+"#NewViaModifierWithBoundary", c.Pos(), "only the random-boundary constructor uses it", "a Via modifier is built with a caller-chosen boundary: two instances may share a tag")
		}
	}
	// tag is never reassigned
	for _, fn := range r.modFuncs() {
		eachInstr(fn, func(ins ssa.Instruction) {
			if st, ok := ins.(*ssa.Store); ok {
				if fa, ok := st.Addr.(*ssa.FieldAddr); ok && structName(fa.X.Type()) == "martian/header.ViaModifier" && fieldName(fa.X.Type(), fa.Field) == "tag" && fn != wb {
					r.bad(fname(fn)+"#store(tag)", st.Pos(), "instance tag rewritten after construction")
				}
			}
		})
	}
}

// stackOrder returns the request modifiers NewStack adds to the outer group, in order.
func stackOrder(r *R) (*ssa.Function, []registration) {
	ns := r.fn(mpkg+"/httpspec", "NewStack")
	var out []registration
	for _, g := range registrations(ns) {
		if g.kind == "request" {
			out = append(out, g)
		}
	}
	return ns, out
}

func c18r5(r *R) {
	ns, regs := stackOrder(r)
	idx := map[string]int{}
	for i, g := range regs {
		idx[g.arg] = i + 1
		if len(guardStrings(g.call.Block())) != 0 {
			r.bad("NewStack#conditional("+g.arg+")", g.call.Pos(), "a core request modifier is installed conditionally")
		}
	}
	via, hbh := idx["martian/header.NewViaModifier($0)"], idx["martian/header.NewHopByHopModifier()"]
	r.check(via > 0 && hbh > 0 && hbh < via, "NewStack#via", ns.Pos(), "Via modifier installed unconditionally after hop-by-hop removal, with the given name", "the Via modifier is missing from the request chain or runs before hop-by-hop removal")
	vm := r.method(mpkg+"/header", "ViaModifier", "ModifyRequest")
	skip := false
	for _, b := range vm.Blocks {
		for _, g := range guardStrings(b) {
			if strings.Contains(g, ".Method") {
				skip = true
			}
		}
	}
	r.check(!skip, "ViaModifier#all-methods", vm.Pos(), "no request method is exempt from the loop check", "the Via modifier treats some request methods differently")
	ms := r.method(".", "HTTPProxy", "middlewareStack")
	ok := false
	for _, c := range calls(ms, nameIs("martian/httpspec.NewStack")) {
		ok = describe(refArgs(c.Common())[0]) == "$0.config.Name"
	}
	// the CONNECT sent to an upstream proxy carries the client's (already modified, Via-tagged) CONNECT header
	dl := r.method("dialvia", "HTTPProxyDialer", "DialContextR")
	var base, dyn *ssa.Call
	for _, c := range calls(dl, nameIs("maps.Copy")) {
		switch d := describe(refArgs(c.Common())[1]); {
		case d == "$0.ProxyConnectHeader":
			base = c.(*ssa.Call)
		case strings.HasPrefix(d, "dyn:$0.GetProxyConnectHeader("):
			dyn = c.(*ssa.Call)
		}
	}
	var wr ssa.Instruction
	for _, c := range calls(dl, nameIs("(*net/http.Request).Write")) {
		wr = c.(ssa.Instruction)
	}
	merged := base != nil && wr != nil && instrDominates(base, wr) && (dyn == nil || before(base, dyn) && describe(refArgs(base.Common())[0]) == describe(refArgs(dyn.Common())[0]))
	r.check(merged, "DialContextR#connect-header", dl.Pos(), "ProxyConnectHeader copied into the CONNECT request on every path; dynamic headers are merged over it", "the client's CONNECT header (with this instance's Via element) does not always reach the upstream proxy: dynamic connect headers replace it instead of being merged")
	r.check(ok, "middlewareStack#NewStack(name)", ms.Pos(), "stack built with the configured proxy name", "the production stack is not built by httpspec.NewStack(config.Name)")
}

// flattenConcat splits a string concatenation term "((a + b) + c)" into its operands.
func flattenConcat(t string) []string {
	l, op, r, ok := splitTop(t)
	if !ok || op != "+" {
		return []string{t}
	}
	return append(flattenConcat(l), flattenConcat(r)...)
}

var viaSetFromBuilder = regexp.MustCompile(`^\(net/http\.Header\)\.Set\(\$1\.Header, "Via", \(\*strings\.Builder\)\.String\(local:\w+\)\)$`)

// builderCall: desc is prefix + "local:<name>, " + rest + ")" (a call on the function's string builder,
// whatever the local is called); it returns rest, or "".
func builderCall(desc, prefix string) string {
	if !strings.HasPrefix(desc, prefix+"local:") || !strings.HasSuffix(desc, ")") {
		return ""
	}
	rest := desc[len(prefix)+len("local:"):]
	i := strings.Index(rest, ", ")
	if i < 0 {
		return ""
	}
	for _, ch := range rest[:i] {
		if !(ch == '_' || ch >= '0' && ch <= '9' || ch >= 'a' && ch <= 'z' || ch >= 'A' && ch <= 'Z') {
			return ""
		}
	}
	return strings.TrimSuffix(rest[i+2:], ")")
}
