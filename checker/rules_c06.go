package main

import (
	"fmt"
	"strconv"
	"strings"

	"golang.org/x/tools/go/ssa"
)

func init() {
	register("C06", "R1", 4, "the client's Proxy-Authorization never leaves: it is in the hop-by-hop table, the upstream CONNECT header is a clone of the request header after the modifiers ran (C04.R1 orders modifyRequest before every sink), and nothing copies the incoming value back", c06r1)
	register("C06", "R2", 4, "who may write credential headers: Proxy-Authorization is written only on the CONNECT request to the upstream proxy (from the proxy URL's userinfo) and by the Kerberos upstream injector (plain http, non-CONNECT, proxy selected); Authorization only by setBasicAuth and the SPNEGO injector", c06r2)
	register("C06", "R3", 3, "never override the client: SetBasicAuth runs only when the request has no Authorization and a credentials entry matches the request URL, with that entry's user and password", c06r3)
	register("C06", "R4", 9, "lookup precedence: exact host:port, then *:port, then host:*, then *:*; the constructor files entries under the same keys the lookup reads; MatchURL supplies 80/443 by scheme", c06r4)
	register("C06", "R5", 6, "upstream credential selection: userinfo of the configured proxy URL wins and the credentials table is consulted only when it has none; for PAC proxies the matching entry is used; both drop credentials under Kerberos upstream authentication", c06r5)
}

func hopByHopTable(r *R) (map[string]bool, ssa.Instruction) {
	p := r.pkg(mpkg + "/header")
	g, _ := refGlobal(p, "hopByHopHeaders"), true
	if g == nil {
		r.missing("header.hopByHopHeaders")
	}
	out := map[string]bool{}
	var at ssa.Instruction
	eachInstr(p.Func("init"), func(ins ssa.Instruction) {
		st, ok := ins.(*ssa.Store)
		if !ok {
			return
		}
		if st.Addr == g {
			at = st
			return
		}
		if s, ok := constString(st.Val); ok {
			if ia, ok := st.Addr.(*ssa.IndexAddr); ok {
				if a, ok := ia.X.(*ssa.Alloc); ok && a.Comment == "slicelit" {
					out[s] = true
				}
			}
		}
	})
	for _, fn := range r.modFuncs() {
		if fn.Name() == "init" {
			continue
		}
		eachInstr(fn, func(ins ssa.Instruction) {
			if st, ok := ins.(*ssa.Store); ok && st.Addr == g {
				r.missing("single initialisation of hopByHopHeaders (also stored in " + fname(fn) + ")")
			}
		})
	}
	return out, at
}

func c06r1(r *R) {
	tab, at := hopByHopTable(r)
	r.check(tab["Proxy-Authorization"], "hopByHopHeaders[Proxy-Authorization]", posOf(at), "client credentials for this hop are removed before forwarding", "Proxy-Authorization is not in the hop-by-hop table: the client's proxy credentials would be forwarded")
	// stripped for every request, whatever its method
	hm := r.method(mpkg+"/header", "hopByHopModifier", "ModifyRequest")
	hps, _ := enumPaths(hm, 64, 1)
	okAll := len(hps) > 0
	for _, p := range hps {
		if p.eventIndex(0, "call", eq("martian/header.removeHopByHopHeaders($1.Header)")) < 0 {
			okAll = false
		}
	}
	r.check(okAll, "hopByHopModifier.ModifyRequest#unconditional", hm.Pos(), "hop-by-hop removal runs on every path (CONNECT included: its header is cloned to an upstream proxy)", "hop-by-hop removal is skipped for some requests: a client's Proxy-Authorization on such a request is cloned into the CONNECT sent upstream")
	// nobody else removes the client's credential instead (two sites that must not disagree)
	for _, fn := range requestPathFuncs(r) {
		for _, w := range messageWrites(fn) {
			if w.what == "header:Del Proxy-Authorization" {
				r.bad(fname(fn)+"#Del(Proxy-Authorization)", w.at.Pos(), "Proxy-Authorization is removed here instead of by the hop-by-hop modifier: configurations that do not run this code forward it")
			}
		}
	}
	ch := r.method(mpkg, "Proxy", "connectHTTP")
	n := 0
	eachInstr(ch, func(ins ssa.Instruction) {
		st, ok := ins.(*ssa.Store)
		if !ok || !strings.HasSuffix(describe(st.Addr), ".ProxyConnectHeader") {
			return
		}
		n++
		r.check(describe(st.Val) == "(net/http.Header).Clone($1.Header)", "connectHTTP#ProxyConnectHeader", st.Pos(), "clone of the (already modified) request header", "upstream CONNECT header is "+describe(st.Val))
	})
	if n == 0 {
		r.bad("connectHTTP#ProxyConnectHeader", ch.Pos(), "upstream CONNECT header no longer derives from the request header")
	}
	// no Set/Add of Proxy-Authorization whose value comes from the incoming request's own header
	cnt := 0
	for _, fn := range r.modFuncs() {
		for _, c := range calls(fn, nameIs("(net/http.Header).Set", "(net/http.Header).Add")) {
			k, _ := constString(refArgs(c.Common())[1])
			if k != "Proxy-Authorization" {
				continue
			}
			cnt++
			v := describe(refArgs(c.Common())[2])
			r.check(!strings.Contains(v, `"Proxy-Authorization")`), fname(fn)+"#value-not-from-client", c.Pos(), "value does not derive from a received Proxy-Authorization", "Proxy-Authorization is re-added from the value the client sent: "+v)
		}
	}
}

func c06r2(r *R) {
	type site struct {
		fn, key string
	}
	allowed := map[site]string{
		{"(*dialvia.HTTPProxyDialer).DialContextR", "Proxy-Authorization"}:                                 "CONNECT request addressed to the upstream proxy",
		{"(*forwarder.HTTPProxy).injectKerberosUpstreamProxyAuthorizationHeader$1", "Proxy-Authorization"}: "Kerberos token for the selected upstream proxy",
		{"(*forwarder.KerberosClient).GetProxyAuthHeader", "Proxy-Authorization"}:                          "Kerberos token for the CONNECT header to the upstream proxy",
		{"(*forwarder.HTTPProxy).injectKerberosSPNEGOAuthentication$1", "Authorization"}:                   "SPNEGO token for a configured host",
		{"(*forwarder.HTTPProxy).setBasicAuth", "Authorization"}:                                           "site credentials",
	}
	skipPkg := func(fn *ssa.Function) bool {
		n := fname(fn)
		for _, p := range []string{"e2e/", "bench/", "loadgen/", "utils/", "(*utils/", "command/", "(*command/"} {
			if strings.HasPrefix(n, p) || strings.HasPrefix(n, "("+p) {
				return true
			}
		}
		return false
	}
	seen := map[site]bool{}
	for _, fn := range r.modFuncs() {
		if skipPkg(fn) {
			continue
		}
		eachInstr(fn, func(ins ssa.Instruction) {
			var key string
			switch x := ins.(type) {
			case *ssa.Call:
				switch calleeName(x.Common()) {
				case "(net/http.Header).Set", "(net/http.Header).Add":
					key, _ = constString(refArgs(x.Common())[1])
				case "(*net/http.Request).SetBasicAuth":
					key = "Authorization"
				}
			case *ssa.MapUpdate:
				if typeStr(x.Map.Type()) == "net/http.Header" {
					key, _ = constString(x.Key)
				}
			}
			if key != "Proxy-Authorization" && key != "Authorization" {
				return
			}
			s := site{fname(fn), key}
			why, ok := allowed[s]
			if !ok {
				// the literal may have become a method used as a method value: it is then scanned as part of the
				// function that builds the modifier
				for a, w := range allowed {
					if a.key == key && outerName(a.fn) == fname(fn) && a.fn != fname(fn) {
						s, why, ok = a, w, true
					}
				}
			}
			seen[s] = true
			r.check(ok, fname(fn)+"#writes("+key+")", ins.Pos(), why, "credential header "+key+" is written here, outside the hops that own a credential")
		})
	}
	for s := range allowed {
		if !seen[s] && !strings.Contains(s.fn, "Kerberos") {
			r.bad(s.fn+"#writes("+s.key+")", r.pkg(".").Func("init").Pos(), "expected credential writer not found (renamed?)")
		}
	}
	// dialvia: value from the proxy URL's userinfo, on the request written to the proxy connection
	dl := r.method("dialvia", "HTTPProxyDialer", "DialContextR")
	for _, c := range calls(dl, nameIs("(net/http.Header).Add")) {
		if k, _ := constString(refArgs(c.Common())[1]); k != "Proxy-Authorization" {
			continue
		}
		v := describe(refArgs(c.Common())[2])
		good := strings.Contains(v, "(*net/url.Userinfo).Username($0.proxyURL.User)") && strings.Contains(v, "(*net/url.Userinfo).Password($0.proxyURL.User)#0") &&
			guardedBy(c.Block(), eq("($0.proxyURL.User != nil)"))
		r.check(good, "DialContextR#proxy-credentials", c.Pos(), "Basic credentials of the proxy URL, only when it has userinfo", "Proxy-Authorization for the upstream CONNECT is "+v)
	}
	// Kerberos upstream injector guard
	ku := r.method(".", "HTTPProxy", "injectKerberosUpstreamProxyAuthorizationHeader")
	for _, lit := range anonFuncs(ku) {
		for _, c := range calls(lit, nameIs("(net/http.Header).Set")) {
			gs := strings.Join(guardStrings(c.Block()), " ∧ ")
			good := strings.Contains(gs, `!($0.URL.Scheme != "http")`) && strings.Contains(gs, `!($0.Method == "CONNECT")`) && strings.Contains(gs, "#0 != nil)")
			r.check(good, "injectKerberosUpstreamProxyAuthorizationHeader#guard", c.Pos(), "only plain-http, non-CONNECT requests that go to a proxy", "Kerberos Proxy-Authorization injected under "+gs)
		}
	}
}

func c06r3(r *R) {
	sb := r.method(".", "HTTPProxy", "setBasicAuth")
	ps, _ := enumPaths(sb, 64, 1)
	const m = "(*forwarder.CredentialsMatcher).MatchURL($0.creds, $1.URL)"
	for i, p := range ps {
		si := p.eventIndex(0, "call", prefix("(*net/http.Request).SetBasicAuth("))
		empty := p.holds(`((net/http.Header).Get($1.Header, "Authorization") == "")`)
		match := p.holds("(" + m + " != nil)")
		key := fmt.Sprintf("setBasicAuth#path%d", i)
		if si < 0 {
			r.check(!(empty && match), key, p.pos(), "no credentials attached", "a request without Authorization and with a matching entry gets no credentials")
			continue
		}
		want := "(*net/http.Request).SetBasicAuth($1, (*net/url.Userinfo).Username(" + m + "), (*net/url.Userinfo).Password(" + m + ")#0)"
		r.check(empty && match && p.Events[si].Desc == want, key, p.pos(), "attached only when the client sent no Authorization, with the matching entry's user and password", "site credentials attached on ["+strings.Join(p.Conds, " ∧ ")+"] as "+p.Events[si].Desc)
	}
}

func c06r4(r *R) {
	mt := r.method(".", "CredentialsMatcher", "Match")
	ps, _ := enumPaths(mt, 256, 1)
	const sp = "net.SplitHostPort($1)"
	order := []struct{ test, val, name string }{
		{"$0.hostport[$1]#1", "$0.hostport[$1]", "exact host:port"},
		{"$0.port[" + sp + "#1]#1", "$0.port[" + sp + "#1]", "*:port"},
		{"$0.host[" + sp + "#0]#1", "$0.host[" + sp + "#0]", "host:*"},
		{"($0.global != nil)", "$0.global", "*:*"},
	}
	for i, p := range ps {
		key := fmt.Sprintf("CredentialsMatcher.Match#path%d", i)
		if p.holds("($0 == nil)") || p.hasCond(func(c string) bool { return c == "("+sp+"#2 != nil)" }) {
			r.check(p.Ret[0] == "nil", key, p.pos(), "nil matcher / unparsable host:port → no credentials", "returns "+p.Ret[0])
			continue
		}
		want := "nil"
		for _, o := range order {
			if p.holds(o.test) {
				want = o.val
				break
			}
			if !p.holds("!" + o.test) {
				want = "?" // this level was not consulted although no earlier level hit
				break
			}
		}
		r.check(p.Ret[0] == want, key, p.pos(), "first hit in the documented order is returned: "+want, "lookup returns "+p.Ret[0]+" where the documented precedence (exact, *:port, host:*, *:*) gives "+want+" on ["+strings.Join(p.Conds, " ∧ ")+"]")
	}
	// writer table
	nc := r.fn(".", "NewCredentialsMatcher")
	ps, _ = enumPaths(nc, 4096, 1)
	found := map[string]bool{}
	var bad []string
	for _, p := range ps {
		// maps are loaded through the matcher's fields: name them by field
		field := map[string]string{}
		for k, v := range p.Mem {
			if strings.HasPrefix(v, "makemap#") {
				field[v] = k[strings.LastIndex(k, ".")+1:]
			}
		}
		for _, e := range p.Events {
			if e.Kind == "mapupdate" {
				for mk, f := range field {
					if strings.HasPrefix(e.Desc, mk+"[") {
						e.Desc = "." + f + e.Desc[len(mk):]
					}
				}
			}
			var kind, rest string
			switch {
			case e.Kind == "mapupdate":
				kind, rest = "map", e.Desc
			case e.Kind == "store" && strings.Contains(e.Desc, ".global := "):
				kind, rest = "global", e.Desc
			default:
				continue
			}
			isStar := p.hasCond(func(c string) bool { return strings.HasSuffix(c, `.Host == "*")`) && !strings.HasPrefix(c, "!") })
			isZero := p.hasCond(func(c string) bool { return strings.HasSuffix(c, `.Port == "0")`) && !strings.HasPrefix(c, "!") })
			var class string
			switch {
			case kind == "global":
				class = "global"
			case strings.Contains(rest, ".port["):
				class = "port"
			case strings.Contains(rest, ".hostport["):
				class = "hostport"
			case strings.Contains(rest, ".host["):
				class = "host"
			}
			want := map[[2]bool]string{{true, true}: "global", {true, false}: "port", {false, true}: "host", {false, false}: "hostport"}[[2]bool{isStar, isZero}]
			if class == "" {
				continue
			}
			found[class] = true
			if class != want {
				bad = append(bad, fmt.Sprintf("entry with host*=%v port0=%v is filed under %s (want %s)", isStar, isZero, class, want))
			}
			// key expressions
			switch class {
			case "port":
				if !strings.Contains(rest, ".Port] = ") {
					bad = append(bad, "port map keyed by "+rest)
				}
			case "host":
				if !strings.Contains(rest, ".Host] = ") {
					bad = append(bad, "host map keyed by "+rest)
				}
			case "hostport":
				if !strings.Contains(rest, ".hostport[net.JoinHostPort(") {
					bad = append(bad, "hostport map keyed by "+rest)
				}
			}
			if !strings.HasSuffix(rest, ".Userinfo") {
				bad = append(bad, "value stored is "+rest)
			}
		}
	}
	r.check(len(found) == 4 && len(bad) == 0, "NewCredentialsMatcher#table", nc.Pos(), "*:0→global, *:p→port[p], h:0→host[h], h:p→hostport[h:p]", strings.Join(dedupStrings(bad), "; ")+fmt.Sprintf(" (classes seen: %v)", found))
	// MatchURL default ports
	mu := r.method(".", "CredentialsMatcher", "MatchURL")
	ps, _ = enumPaths(mu, 256, 1)
	var why []string
	n := 0
	for _, p := range ps {
		mi := p.eventIndex(0, "call", prefix("(*forwarder.CredentialsMatcher).Match($0, "))
		if mi < 0 {
			continue
		}
		n++
		arg := strings.TrimSuffix(strings.TrimPrefix(p.Events[mi].Desc, "(*forwarder.CredentialsMatcher).Match($0, "), ")")
		hasPort := p.holds(`!((*net/url.URL).Port($1) == "")`)
		switch {
		case hasPort:
			if arg != "$1.Host" {
				why = append(why, "explicit port: looked up "+arg)
			}
		case p.holds(`($1.Scheme == "http")`):
			if !strings.HasPrefix(arg, `fmt.Sprintf("%s:%d"`) || !portArg(&p, "80") {
				why = append(why, "http without port: looked up "+arg)
			}
		case p.holds(`($1.Scheme == "https")`):
			if !strings.HasPrefix(arg, `fmt.Sprintf("%s:%d"`) || !portArg(&p, "443") {
				why = append(why, "https without port: looked up "+arg)
			}
		case tableLookup(&p) != "":
			// the default ports kept in a package-level map keyed by scheme: its entries are the specification's
			tab := tableLookup(&p)
			ents, ok := globalIntMap(r, tab)
			if !ok || len(ents) != 2 || ents["http"] != 80 || ents["https"] != 443 {
				why = append(why, fmt.Sprintf("default ports come from the table %s = %v, expected http→80 and https→443 only", tab, ents))
			}
			if !strings.HasPrefix(arg, `fmt.Sprintf("%s:%d"`) && !strings.HasPrefix(arg, `fmt.Sprintf("%s:%s"`) && !(strings.HasPrefix(arg, `(($1.Host + ":") + `+tab+`[$1.Scheme]`) && strings.Count(arg, "+") == 2) {
				why = append(why, "scheme found in the table: looked up "+arg)
			}
		default:
			why = append(why, "unknown scheme is looked up as "+arg)
		}
	}
	r.check(n >= 2 && len(why) == 0, "CredentialsMatcher.MatchURL#default-ports", mu.Pos(), "explicit port kept; http→80, https→443; other schemes without a port match nothing", strings.Join(why, "; "))
}

// portArg reports whether the variadic arguments of the Sprintf on this path end with the given port literal.
func portArg(p *Path, port string) bool {
	for k, v := range p.Mem {
		if strings.Contains(k, "varargs") && strings.HasSuffix(k, "[1]") && v == port {
			return true
		}
	}
	return false
}

func c06r5(r *R) {
	up := r.method(".", "HTTPProxy", "upstreamProxyURL")
	// helpers of the proxy type are walked inline, so an extracted helper does not hide the decision
	inl := func(c *ssa.Function) bool {
		return strings.HasPrefix(fname(c), "(*forwarder.HTTPProxy).") && c.Parent() == nil
	}
	ps, _ := enumPathsInline(up, 2048, 1, inl)
	for i, p := range ps {
		key := fmt.Sprintf("upstreamProxyURL#path%d", i)
		u := p.Ret[0]
		kerb := p.holds("($0.kerberosAdapter != nil)") && p.holds("invoke forwarder.KerberosAdapter.GetConfig($0.kerberosAdapter).AuthUpstreamProxy")
		user, set := p.Mem[u+".User"]
		copied := p.Mem[u] == "$0.config.UpstreamProxy"
		if set && user == "$0.config.UpstreamProxy.User" {
			set = false // the copy still holds the configured URL's own userinfo: not assigned
		}
		if !copied {
			r.bad(key, p.pos(), "does not start from a copy of the configured proxy URL")
			continue
		}
		const m = "(*forwarder.CredentialsMatcher).MatchURL($0.creds, "
		switch {
		case kerb:
			r.check(set && user == "nil", key, p.pos(), "Kerberos upstream auth: userinfo cleared", "Kerberos upstream authentication must clear the proxy credentials")
		case p.holds("("+u+".User == nil)") || p.holds("($0.config.UpstreamProxy.User == nil)"): // the copy's field, tested before anything assigned it
			matched := p.holds("(" + m + u + ") != nil)")
			r.check(matched == (set && user == m+u+")"), key, p.pos(), "URL has no userinfo: table consulted, entry used when present", fmt.Sprintf("no userinfo in the URL: matched=%v but User=%q", matched, user))
		default:
			r.check(!set && p.eventIndex(0, "call", prefix(m)) < 0, key, p.pos(), "userinfo of the proxy URL is kept, table not consulted", "credentials from the proxy URL are replaced or the table is consulted although the URL has userinfo")
		}
	}
	pp := r.method(".", "HTTPProxy", "pacProxy")
	ps, _ = enumPathsInline(pp, 4096, 1, inl)
	n := 0
	var why []string
	for _, p := range ps {
		if len(p.Ret) != 2 || p.Ret[1] != "nil" {
			continue
		}
		u := p.Ret[0]
		if u == "nil" && p.hasCond(func(c string) bool {
			return strings.HasPrefix(c, "!((pac.Proxy).URL(") && strings.HasSuffix(c, " != nil)")
		}) {
			continue // DIRECT: the chosen entry has no URL, there is no proxy to give credentials to
		}
		n++
		kerb := p.holds("($0.kerberosAdapter != nil)") && p.holds("invoke forwarder.KerberosAdapter.GetConfig($0.kerberosAdapter).AuthUpstreamProxy")
		user, set := p.Mem[u+".User"]
		const m = "(*forwarder.CredentialsMatcher).MatchURL($0.creds, "
		if kerb {
			if !(set && user == "nil") {
				why = append(why, "Kerberos: PAC proxy credentials not cleared")
			}
			continue
		}
		matched := p.holds("(" + m + u + ") != nil)")
		if matched != (set && user == m+u+")") {
			why = append(why, fmt.Sprintf("matched=%v but User=%q", matched, user))
		}
		if !strings.HasPrefix(u, "(github.com/saucelabs/forwarder/pac.Proxy).URL(") && !strings.HasPrefix(u, "(pac.Proxy).URL(") {
			why = append(why, "returns "+u)
		}
	}
	r.check(n > 0 && len(why) == 0, "pacProxy#credentials", pp.Pos(), "PAC-selected proxy gets the matching credentials entry (none under Kerberos)", strings.Join(dedupStrings(why), "; "))
}

// tableLookup: the path holds a successful comma-ok lookup of the URL's scheme in a package-level map; returns
// the map's printed name ("" otherwise).
func tableLookup(p *Path) string {
	for _, c := range p.Conds {
		if strings.HasPrefix(c, "!") || !strings.HasSuffix(c, "[$1.Scheme]#1") {
			continue
		}
		return strings.TrimSuffix(c, "[$1.Scheme]#1")
	}
	return ""
}

// globalIntMap reads a package-level map[string]int that is built once, by the package initialiser, from constants.
func globalIntMap(r *R, printed string) (map[string]int64, bool) {
	i := strings.LastIndex(printed, ".")
	if i < 0 {
		return nil, false
	}
	pkg := r.pkg(map[bool]string{true: ".", false: printed[:i]}[printed[:i] == "forwarder"])
	g, ok := pkg.Members[printed[i+1:]].(*ssa.Global)
	if !ok {
		return nil, false
	}
	init := pkg.Func("init")
	if init == nil {
		return nil, false
	}
	var mk ssa.Value
	stores := 0
	for _, m := range pkg.Members {
		if f, ok := m.(*ssa.Function); ok {
			for _, ff := range withClosures(f) {
				for _, b := range ff.Blocks {
					for _, ins := range b.Instrs {
						switch x := ins.(type) {
						case *ssa.Store:
							if x.Addr == ssa.Value(g) {
								stores++
								if ff == init {
									mk = x.Val
								}
							}
						case *ssa.MapUpdate:
							if ld, ok := x.Map.(*ssa.UnOp); ok && ld.X == ssa.Value(g) {
								return nil, false // updated after it was built
							}
						}
					}
				}
			}
		}
	}
	if stores != 1 || mk == nil {
		return nil, false
	}
	out := map[string]int64{}
	for _, b := range init.Blocks {
		for _, ins := range b.Instrs {
			if mu, ok := ins.(*ssa.MapUpdate); ok && mu.Map == mk {
				k, ok1 := constString(mu.Key)
				v, ok2 := constInt(mu.Value)
				if sv, isStr := constString(mu.Value); !ok2 && isStr {
					// "80": a port kept as text is the same table
					if n, err := strconv.ParseInt(sv, 10, 64); err == nil && strconv.FormatInt(n, 10) == sv {
						v, ok2 = n, true
					}
				}
				if !ok1 || !ok2 {
					return nil, false
				}
				out[k] = v
			}
		}
	}
	return out, true
}
