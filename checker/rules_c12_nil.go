package main

import (
	"go/token"
	"go/types"
	"strings"

	"golang.org/x/tools/go/ssa"
)

// C12.R10 / C05.R7 - results that may be nil.
//
// A module function with a single pointer result and an explicit `return nil`
// (pac.Proxy.URL for DIRECT, CredentialsMatcher.Match for "no entry", ...)
// tells its callers "nothing" through nil. A caller that reads or writes a
// field through that result without a dominating nil test crashes the
// connection goroutine - and with it the process - exactly on the inputs for
// which the callee has nothing to say. The rule visits every call of such a
// function in the packages that serve traffic and requires each field access
// or method call with the result as receiver to sit under `result != nil`
// (or after an `== nil` early return). Results that are only passed on,
// compared or returned are fine.
func init() {
	register("C12", "R10", 4, "no crash on 'nothing' answers: the result of a module function that can return a nil pointer (single pointer result, explicit `return nil`) is dereferenced only under a nil test", func(r *R) { mayBeNilResults(r, "") })
	register("C05", "R7", 1, "a DIRECT PAC answer is a route, not a crash: pacProxy touches the URL of the chosen entry only when there is one (pac.Proxy.URL is nil for DIRECT)", func(r *R) { mayBeNilResults(r, "(*forwarder.HTTPProxy).pacProxy") })
}

func mayReturnNilPtr(f *ssa.Function) bool {
	if f == nil || len(f.Blocks) == 0 || f.Signature.Results().Len() != 1 {
		return false
	}
	if _, ok := f.Signature.Results().At(0).Type().Underlying().(*types.Pointer); !ok {
		return false
	}
	for _, rv := range returnValues(f, 0) {
		if isNilConst(rv) {
			return true
		}
	}
	return false
}

func mayBeNilResults(r *R, only string) {
	for _, fn := range r.modFuncs() {
		if only != "" && fname(fn) != only {
			continue
		}
		if only == "" && !peerBytePackages(fname(fn)) {
			continue
		}
		eachInstr(fn, func(ins ssa.Instruction) {
			c, ok := ins.(*ssa.Call)
			if !ok {
				return
			}
			g := staticCallee(c.Common())
			if g == nil || !inModule(g) || !mayReturnNilPtr(origin(g)) && !mayReturnNilPtr(g) {
				return
			}
			term := describe(c)
			var bad []string
			n := 0
			nonNilIn := func(b *ssa.BasicBlock) bool {
				return guardedBy(b, func(gs string) bool {
					k, pol := normCond(gs)
					l, op, rr, ok := splitTop(k)
					if !ok || op != "==" || pol {
						return false
					}
					return rr == "nil" && l == term || l == "nil" && rr == term
				})
			}
			var visit func(v ssa.Value, depth int)
			seen := map[ssa.Value]bool{}
			visit = func(v ssa.Value, depth int) {
				if seen[v] || depth > 4 || v.Referrers() == nil {
					return
				}
				seen[v] = true
				for _, ref := range *v.Referrers() {
					var at ssa.Instruction
					switch x := ref.(type) {
					case *ssa.FieldAddr:
						if x.X == v {
							at = x
						}
					case *ssa.UnOp:
						if x.Op == token.MUL && x.X == v {
							at = x
						}
					case *ssa.Call:
						if !x.Common().IsInvoke() && len(x.Common().Args) > 0 && refArgs(x.Common())[0] == v && x.Common().Signature().Recv() != nil {
							// a method call on the result: fine when the method itself tolerates a nil receiver
							if m := staticCallee(x.Common()); m != nil && nilSafeReceiver(m) {
								continue
							}
							at = x
						}
					case *ssa.Phi:
						// the value flows on over the edges that carry it; an edge leaving a block where it is known non-nil is harmless
						for i, e := range x.Edges {
							if e == v && !nonNilIn(x.Block().Preds[i]) {
								visit(x, depth+1)
								break
							}
						}
						continue
					case *ssa.Store:
						// spilled into a local: follow its loads
						if a, ok := x.Addr.(*ssa.Alloc); ok && x.Val == v {
							for _, ar := range *a.Referrers() {
								if l, ok := ar.(*ssa.UnOp); ok && l.Op == token.MUL {
									visit(l, depth+1)
								}
							}
						}
						continue
					}
					if at == nil {
						continue
					}
					n++
					if !nonNilIn(at.Block()) {
						bad = append(bad, r.rel(at.Pos()))
					}
				}
			}
			visit(c, 0)
			key := fname(fn) + "#uses(" + shorten(fname(g), 60) + ")"
			if len(bad) > 0 {
				r.bad(key, c.Pos(), fname(g)+" can return nil, and its result is dereferenced without a nil test at "+strings.Join(dedupStrings(bad), ", ")+": on the inputs for which it has nothing to return, the connection goroutine panics and the process exits")
				return
			}
			r.ok(key, c.Pos(), "every dereference of the result is under a nil test (or there is none)")
		})
	}
}

// nilSafeReceiver: the method's first use of its receiver is a nil comparison that returns.
func nilSafeReceiver(m *ssa.Function) bool {
	if len(m.Blocks) == 0 || len(m.Params) == 0 {
		return false
	}
	recv := m.Params[0]
	b0 := m.Blocks[0]
	for _, ins := range b0.Instrs {
		if bo, ok := ins.(*ssa.BinOp); ok && (bo.X == recv && isNilConst(bo.Y) || bo.Y == recv && isNilConst(bo.X)) {
			return true
		}
	}
	return false
}
