package main

import (
	"fmt"
	"go/token"
	"go/types"
	"os"
	"strings"

	"golang.org/x/tools/go/ssa"
)

const h2pkg = "internal/martian/h2"

func init() {
	register("C09", "R1", 2, "single gate: the only send on a relay's output channel is in emitEligibleFrames, taken only when the frame's flow-control size fits both the connection and the stream window, and both windows are debited by that same size; the frame sent is the head of the queue", c09r1)
	register("C09", "R2", 5, "debit equals bytes sent: every queuedFrame implementation reports flowControlSize 0, or len(x) of the very field its send passes to WriteData (unpadded)", c09r2)
	register("C09", "R3", 20, "lock discipline: every access to the window fields and queues happens with flowMu held (helpers documented as caller-holds are checked at their call sites); every Framer.Write* on dest happens with destMu held", c09r3)
	register("C09", "R4", 12, "credit sources: windows are written only by the initialisers, by WINDOW_UPDATE increments, by the SETTINGS delta (stream windows only) and by the gate's debit; every cross-relay update in processFrame is applied to r.peer; protocol constants equal RFC 7540", c09r4)
	register("C09", "R5", 2, "credit returned in full: WINDOW_UPDATEs for a received DATA frame carry the frame's flow-controlled length (FrameHeader.Length, padding included) on stream 0 and on the stream, skipped only when that length is 0", c09r5)
	register("C09", "R6", 6, "frame-size clamp: every payload slice queued for WriteData/WriteHeaders/WriteContinuation/WritePushPromise is made with a length clamped to relay.maxFrameSize (minus 5 with priority, minus 4 for the promise id)", c09r6)
	register("C09", "R7", 5, "re-scan after credit (shared with C10.R4): every credit increase or enqueue is followed on all paths by an emitEligibleFrames covering the affected buffers", h2Rescan)

	register("C10", "R1", 5, "END_STREAM provenance: the streamEnded argument of every Processor.Header/Data call in the relay comes from the StreamEnded() of the frame that started the block (never a constant); data() sets END_STREAM only on the last fragment", c10r1)
	register("C10", "R2", 10, "dispatch exhaustiveness: processFrame has a case for every frame type the framer can return and every case reaches a forwarding action", c10r2)
	register("C10", "R3", 4, "per-stream FIFO: frames enter by PushBack and leave from Front only; header/push-promise blocks are emitted chunk 0 first, continuations in index order, END_HEADERS only on the last", c10r3)
	register("C10", "R4", 5, "no stranded frames: every credit increase or enqueue is followed on all paths by an emitEligibleFrames covering the affected buffers", h2Rescan)
	register("C10", "R5", 3, "continuation context: a CONTINUATION completes the state recorded by the last HEADERS/PUSH_PROMISE (priority, END_STREAM, promise id); the header buffer is reset when a new block starts", c10r5)
	register("C10", "R6", 4, "connection frames are relayed with arguments taken from the received frame (SETTINGS list and ack, PING ack+payload, GOAWAY last id, code, debug data)", c10r6)
	register("C10", "R9", 11, "no frame is swallowed: every forwarding call in processFrame (Processor.* and Framer.Write*) is reached whenever the frame is of its type, complete and well-formed - no further condition (setting count, flag, size) stands in front of it", c10r9)
	register("C10", "R10", 4, "queued frames are never discarded: the per-stream output queues (relay.outputBuffers) only grow - no delete, clear or replacement of the map after newRelay; a frame waiting for flow-control credit stays reachable until it is sent", c10r10)
	register("C10", "R8", 3, "queued frames own their payload: every byte slice stored in a queued DATA frame or header/push-promise chunk list is a fresh allocation filled by copy - never an alias of the framer's read buffer or of the relay's shared HPACK output buffer, both of which are overwritten while the frame may still be queued", c10r8)
	register("C10", "R7", 2, "preface: connectionPreface equals RFC 7540 section 3.5; fixed-length protocol reads fill their buffer (io.ReadFull), never a bare Read whose count is discarded", c10r7)
}

func h2Funcs(r *R) []*ssa.Function {
	var out []*ssa.Function
	for _, f := range r.modFuncs() {
		top := f
		for top.Parent() != nil {
			top = top.Parent()
		}
		if top.Pkg != nil && top.Pkg.Pkg.Path() == modPath+"/"+h2pkg {
			out = append(out, f)
		}
	}
	return out
}

const fcsPrefix = "invoke martian/h2.queuedFrame.flowControlSize("

func c09r1(r *R) {
	emit := r.method(h2pkg, "outputBuffer", "emitEligibleFrames")
	// who may send on a chan queuedFrame
	n := 0
	for _, fn := range r.modFuncs() {
		eachInstr(fn, func(ins ssa.Instruction) {
			s, ok := ins.(*ssa.Send)
			if !ok {
				return
			}
			// a channel of queued frames, whatever direction its type is narrowed to
			if ch, isChan := s.Chan.Type().Underlying().(*types.Chan); !isChan || !strings.HasSuffix(typeStr(ch.Elem()), "martian/h2.queuedFrame") {
				return
			}
			n++
			r.check(fn == emit, fname(fn)+"#send(output)", s.Pos(), "send is inside the gate", "a frame is put on the relay's output channel outside emitEligibleFrames, bypassing the window check")
		})
		for _, sel := range []ssa.Instruction{} {
			_ = sel
		}
	}
	if n == 0 {
		r.bad("gate#send", emit.Pos(), "no send on the output channel found")
	}
	ps, complete := enumPaths(emit, 256, 1)
	if !complete {
		r.undecided("emitEligibleFrames#paths", emit.Pos(), "too many paths")
		return
	}
	sends := 0
	for _, p := range ps {
		i := p.eventIndex(0, "send", func(string) bool { return true })
		if i < 0 {
			continue
		}
		sends++
		d := p.Events[i].Desc // "$1 <- F"
		F := strings.TrimPrefix(d, "$1 <- ")
		fcs := fcsPrefix + F + ")"
		var why []string
		if !strings.HasPrefix(d, "$1 <- ") {
			why = append(why, "send is not on the output parameter")
		}
		if !strings.HasPrefix(F, "(*container/list.List).Front($0.queue).Value") {
			why = append(why, "frame sent is not the head of the queue: "+F)
		}
		fits := func(win string) bool {
			return p.holds("!("+fcs+" > "+win+")") || p.holds("("+fcs+" <= "+win+")") || p.holds("!("+win+" < "+fcs+")") || p.holds("("+win+" >= "+fcs+")")
		}
		if !fits("$2") {
			why = append(why, "send not guarded by size ≤ connection window")
		}
		if !fits("$0.windowSize") {
			why = append(why, "send not guarded by size ≤ stream window")
		}
		if p.eventIndex(i, "store", eq("$2 := ($2 - "+fcs+")")) < 0 {
			why = append(why, "connection window is not debited by the frame's size after the send")
		}
		if p.eventIndex(i, "store", eq("$0.windowSize := ($0.windowSize - "+fcs+")")) < 0 {
			why = append(why, "stream window is not debited by the frame's size after the send")
		}
		if p.eventIndex(i, "call", prefix("(*container/list.List).Remove($0.queue, (*container/list.List).Front($0.queue))")) < 0 {
			why = append(why, "sent element is not removed from the queue")
		}
		r.check(len(why) == 0, "emitEligibleFrames#gate", p.Events[i].Instr.Pos(), "send guarded by both windows, both debited by flowControlSize of the sent head element, element removed", strings.Join(why, "; "))
	}
	if sends == 0 {
		r.bad("emitEligibleFrames#gate", emit.Pos(), "no path sends")
	}
}

// queuedFrameImpls returns the concrete types of package h2 implementing queuedFrame.
func queuedFrameImpls(r *R) []*types.Named {
	p := r.pkg(h2pkg)
	iface := r.namedType(h2pkg, "queuedFrame").Underlying().(*types.Interface)
	var out []*types.Named
	for _, n := range p.Pkg.Scope().Names() {
		tn, ok := p.Pkg.Scope().Lookup(n).(*types.TypeName)
		if !ok {
			continue
		}
		named, ok := tn.Type().(*types.Named)
		if !ok || types.IsInterface(named) {
			continue
		}
		if types.Implements(types.NewPointer(named), iface) {
			out = append(out, named)
		}
	}
	return out
}

func c09r2(r *R) {
	for _, T := range queuedFrameImpls(r) {
		name := T.Obj().Name()
		fcs := r.method(h2pkg, name, "flowControlSize")
		send := r.method(h2pkg, name, "send")
		ps, _ := enumPaths(fcs, 16, 1)
		sp, _ := enumPaths(send, 256, 1)
		var writeData []string
		for _, p := range sp {
			for _, e := range p.Events {
				if e.Kind == "call" && strings.HasPrefix(e.Desc, "(*golang.org/x/net/http2.Framer).WriteData(") {
					writeData = append(writeData, e.Desc)
				}
				if e.Kind == "call" && strings.HasPrefix(e.Desc, "(*golang.org/x/net/http2.Framer).WriteDataPadded(") {
					writeData = append(writeData, e.Desc)
				}
			}
		}
		if len(ps) != 1 {
			r.undecided(name+".flowControlSize", fcs.Pos(), "expected a single path")
			continue
		}
		ret := ps[0].Ret[0]
		switch {
		case ret == "0":
			r.check(len(writeData) == 0, name+".flowControlSize=0", fcs.Pos(), "zero-cost frame writes no DATA", "frame type reports flow-control size 0 but its send writes DATA: "+strings.Join(writeData, "; "))
		case strings.HasPrefix(ret, "builtin len($0."):
			field := strings.TrimSuffix(strings.TrimPrefix(ret, "builtin len("), ")")
			good := len(writeData) > 0
			for _, w := range writeData {
				if !strings.HasPrefix(w, "(*golang.org/x/net/http2.Framer).WriteData($1, ") || !strings.HasSuffix(w, ", "+field+")") {
					good = false
				}
			}
			r.check(good, name+".flowControlSize=len", fcs.Pos(), "debit len("+field+") = payload passed to WriteData (unpadded)", "flowControlSize is len("+field+") but send writes "+strings.Join(writeData, "; "))
		default:
			r.bad(name+".flowControlSize", fcs.Pos(), "flow-control size "+ret+" is neither 0 nor the length of the DATA payload field")
		}
	}
}

var flowFields = map[string][]string{
	"martian/h2.relay":        {"connectionWindowSize", "initialWindowSize", "outputBuffers"},
	"martian/h2.outputBuffer": {"windowSize", "queue"},
}

// callerHolds lists helpers documented "caller must hold flowMu"; they are
// exempt inside and checked at every call site.
var callerHoldsFlow = map[string]string{
	"(*martian/h2.relay).outputBuffer":              "documented: caller should be holding flowMu",
	"(*martian/h2.outputBuffer).enqueue":            "documented: caller must hold relay.flowMu",
	"(*martian/h2.outputBuffer).emitEligibleFrames": "documented: caller should be holding relay.flowMu",
	"martian/h2.newRelay":                           "constructor: the relay is not shared yet",
}

func c09r3(r *R) {
	for _, fn := range h2Funcs(r) {
		ls := lockset(fn)
		_, exempt := callerHoldsFlow[fname(fn)]
		if !exempt {
			for typ, fields := range flowFields {
				for _, f := range fields {
					for _, ins := range fieldAccesses(fn, typ, f) {
						held := ls[ins]
						r.check(holdsSuffix(held, ".flowMu"), fname(fn)+"#access("+f+")", ins.Pos(), "flowMu held "+heldString(held), "flow-control field "+f+" accessed without flowMu "+heldString(held))
					}
				}
			}
		}
		eachInstr(fn, func(ins ssa.Instruction) {
			c, ok := ins.(*ssa.Call)
			if !ok {
				return
			}
			if sc := staticCallee(c.Common()); sc != nil {
				if _, ch := callerHoldsFlow[fname(sc)]; ch && fname(sc) != "martian/h2.newRelay" && !exempt {
					held := ls[ins]
					r.check(holdsSuffix(held, ".flowMu"), fname(fn)+"#call("+refName(sc)+")", c.Pos(), "caller holds flowMu", "caller-holds helper "+refName(sc)+" called without flowMu "+heldString(held))
				}
			}
			cn := calleeName(c.Common())
			isWrite := strings.HasPrefix(cn, "(*golang.org/x/net/http2.Framer).Write")
			isSend := cn == "invoke martian/h2.queuedFrame.send"
			if !isWrite && !isSend {
				return
			}
			// send implementations are caller-holds (their only caller is the writer goroutine)
			if isWrite && refName(fn) == "send" {
				return
			}
			held := ls[ins]
			r.check(holdsSuffix(held, ".destMu"), fname(fn)+"#"+strings.TrimPrefix(cn, "(*golang.org/x/net/http2.Framer)."), c.Pos(), "destMu held", "frame written to dest without destMu "+heldString(held))
		})
	}
}

func c09r4(r *R) {
	// (a) stores to the window fields, by function
	allowed := map[string]string{
		"martian/h2.newRelay|connectionWindowSize":                      "65535",
		"martian/h2.newRelay|initialWindowSize":                         "65535",
		"(*martian/h2.relay).updateWindow|connectionWindowSize":         "($0.connectionWindowSize + $1.Increment)",
		"(*martian/h2.relay).updateWindow|windowSize":                   "((*martian/h2.relay).outputBuffer($0, $1.FrameHeader.StreamID).windowSize + $1.Increment)",
		"(*martian/h2.relay).updateInitialWindowSize|initialWindowSize": "$1",
		"(*martian/h2.relay).updateInitialWindowSize|windowSize":        "(next(range($0.outputBuffers))#2.windowSize + ($1 - $0.initialWindowSize))",
		"(*martian/h2.relay).outputBuffer|windowSize":                   "$0.initialWindowSize",
		"(*martian/h2.outputBuffer).emitEligibleFrames|windowSize":      "-fcs",
	}
	for _, fn := range h2Funcs(r) {
		eachInstr(fn, func(ins ssa.Instruction) {
			st, ok := ins.(*ssa.Store)
			if !ok {
				return
			}
			fa, ok := st.Addr.(*ssa.FieldAddr)
			if !ok {
				return
			}
			f := fieldName(fa.X.Type(), fa.Field)
			sn := structName(fa.X.Type())
			if !(sn == "martian/h2.relay" && (f == "connectionWindowSize" || f == "initialWindowSize")) && !(sn == "martian/h2.outputBuffer" && f == "windowSize") {
				return
			}
			want, ok := allowed[fname(fn)+"|"+f]
			got := describe(st.Val)
			key := fname(fn) + "#store(" + f + ")"
			switch {
			case !ok:
				r.bad(key, st.Pos(), "window field "+f+" is written here; credit may only come from WINDOW_UPDATE, the SETTINGS delta and the initialisers: "+got)
			case want == "-fcs":
				r.check(strings.HasPrefix(got, "("+describe(fa)+" - "+fcsPrefix), key, st.Pos(), "gate debit", "unexpected value "+got)
			default:
				r.check(got == want, key, st.Pos(), f+" := "+got, f+" := "+got+", expected "+want)
			}
		})
	}
	// the connection window must be set under StreamID == 0 only
	uw := r.method(h2pkg, "relay", "updateWindow")
	eachInstr(uw, func(ins ssa.Instruction) {
		st, ok := ins.(*ssa.Store)
		if !ok || describe(st.Addr) != "$0.connectionWindowSize" {
			return
		}
		streamZero := false // the test may stand at the call site of a helper the branch was moved into
		for _, g := range guardsAt(st) {
			if g == "($1.FrameHeader.StreamID == 0)" {
				streamZero = true
			}
		}
		r.check(streamZero, "updateWindow#connection-credit-guard", st.Pos(), "connection window credited only for stream 0", "connection window credited for a stream-level WINDOW_UPDATE")
	})
	// (b) peer routing in processFrame
	pf := r.method(h2pkg, "relay", "processFrame")
	want := map[string]bool{"sendWindowUpdates": false, "updateTableSize": false, "updateInitialWindowSize": false, "updateMaxFrameSize": false, "updateWindow": false}
	for _, fn := range withClosures(pf) {
		eachInstr(fn, func(ins ssa.Instruction) {
			c, ok := ins.(*ssa.Call)
			if !ok {
				return
			}
			sc := staticCallee(c.Common())
			if sc == nil {
				return
			}
			if _, ok := want[refName(sc)]; !ok || !strings.HasPrefix(fname(sc), "(*martian/h2.relay).") {
				return
			}
			want[refName(sc)] = true
			recv := describe(refArgs(c.Common())[0])
			isPeer := recv == "$0.peer"
			if host := c.Parent(); fn != pf || host != pf { // closure: receiver is free var r - or what a method value's carrier struct was given
				isPeer = strings.HasSuffix(recv, ".peer") && strings.HasPrefix(recv, "^")
				var k int
				if n, _ := fmt.Sscanf(recv, "^%d", &k); n == 1 {
					if b := closureBindings(host); k < len(b) {
						if res := b[k] + strings.TrimPrefix(recv, fmt.Sprintf("^%d", k)); res == "$0.peer" {
							isPeer = true
						}
					}
				}
			}
			if id, ok := map[string]string{"updateTableSize": "1", "updateInitialWindowSize": "4", "updateMaxFrameSize": "5"}[refName(sc)]; ok {
				val := describe(refArgs(c.Common())[1])
				sel := strings.TrimSuffix(val, ".Val") + ".ID"
				r.check(strings.HasSuffix(val, ".Val") && guardedBy(c.Block(), eq("("+sel+" == "+id+")")), "processFrame#"+refName(sc)+".setting", c.Pos(), "applied for setting id "+id+" with that setting's value", refName(sc)+" must be applied for SETTINGS id "+id+" (RFC 7540 6.5.2) with the setting's value; got value "+val+" under "+strings.Join(guardStrings(c.Block()), ","))
			}
			r.check(isPeer, "processFrame#"+refName(sc)+".receiver", c.Pos(), "applied to r.peer (the relay that sends to the endpoint that spoke)", "update applied to "+recv+" instead of r.peer: credit/settings of one endpoint would be applied to traffic towards the other")
		})
	}
	for k, v := range want {
		if !v {
			r.bad("processFrame#"+k+".receiver", pf.Pos(), "processFrame no longer calls "+k)
		}
	}
	// (c) constants
	p := r.pkg(h2pkg)
	for name, val := range map[string]string{"defaultInitialWindowSize": "65535", "initialMaxFrameSize": "16384", "initialMaxHeaderTableSize": "4096", "headersPriorityMetadataLength": "5", "pushPromiseMetadataLength": "4"} {
		c, ok := p.Pkg.Scope().Lookup(name).(*types.Const)
		if !ok {
			r.bad("const "+name, token.NoPos, "constant not found")
			continue
		}
		r.check(c.Val().ExactString() == val, "const "+name, c.Pos(), name+" = "+val+" (RFC 7540)", name+" = "+c.Val().ExactString()+", RFC 7540 says "+val)
	}
}

func c09r5(r *R) {
	sw := r.method(h2pkg, "relay", "sendWindowUpdates")
	ps, _ := enumPaths(sw, 64, 1)
	L := "(golang.org/x/net/http2.FrameHeader).Header($1.FrameHeader).Length"
	SID := "$1.FrameHeader.StreamID"
	byValue := false
	if len(sw.Params) < 2 || !strings.HasSuffix(typeStr(sw.Params[1].Type()), "http2.DataFrame") {
		// the frame is no longer passed whole: the parameters that receive its length and its stream
		// identifier at every call site stand for them
		byValue = true
		L, SID = "", ""
		frames := map[string]bool{}
		for k := 1; k < len(sw.Params); k++ {
			var role, frame string
			n := 0
			for _, fn := range h2Funcs(r) {
				for _, c := range callsToFunc(fn, sw) {
					n++
					d := describe(c.Common().Args[k])
					rl, fr := "?", ""
					if strings.HasPrefix(d, "(golang.org/x/net/http2.FrameHeader).Header(") && strings.HasSuffix(d, ".FrameHeader).Length") {
						rl, fr = "L", strings.TrimSuffix(strings.TrimPrefix(d, "(golang.org/x/net/http2.FrameHeader).Header("), ".FrameHeader).Length")
					} else if strings.HasSuffix(d, ".FrameHeader.StreamID") {
						rl, fr = "SID", strings.TrimSuffix(d, ".FrameHeader.StreamID")
					}
					if role != "" && (role != rl || frame != fr) {
						rl = "?"
					}
					role, frame = rl, fr
				}
			}
			if n == 0 || !strings.HasSuffix(frame, ".(*golang.org/x/net/http2.DataFrame)") {
				continue
			}
			frames[frame] = true
			switch role {
			case "L":
				L = fmt.Sprintf("$%d", k)
			case "SID":
				SID = fmt.Sprintf("$%d", k)
			}
		}
		if L == "" || SID == "" || len(frames) != 1 {
			r.undecided("sendWindowUpdates#parameters", sw.Pos(), "cannot tell which parameters carry the DATA frame's length and stream identifier")
			return
		}
	}
	nFull := 0
	for _, p := range ps {
		var incs []string
		for _, e := range p.Events {
			if e.Kind == "call" && strings.HasPrefix(e.Desc, "(*golang.org/x/net/http2.Framer).WriteWindowUpdate($0.dest, ") {
				incs = append(incs, strings.TrimSuffix(strings.TrimPrefix(e.Desc, "(*golang.org/x/net/http2.Framer).WriteWindowUpdate($0.dest, "), ")"))
			}
		}
		key := fmt.Sprintf("sendWindowUpdates#path(%d updates)", len(incs))
		switch len(incs) {
		case 0:
			r.check(p.holds("("+L+" == 0)"), key, p.pos(), "skipped only for a zero-length frame", "no WINDOW_UPDATE on a path where the frame length is not known to be 0: ["+strings.Join(p.Conds, " ∧ ")+"]")
		case 1:
			failed := p.hasCond(func(c string) bool {
				return strings.HasPrefix(c, "((*golang.org/x/net/http2.Framer).WriteWindowUpdate(") && strings.HasSuffix(c, " != nil)")
			})
			r.check(incs[0] == "0, "+L && failed, key, p.pos(), "connection update with the full frame length; the stream update is skipped only after a write error", "single update "+incs[0])
		case 2:
			nFull++
			r.check(incs[0] == "0, "+L && incs[1] == SID+", "+L, key, p.pos(), "connection then stream credited with FrameHeader.Length", "increments are ["+strings.Join(incs, " | ")+"], every flow-controlled octet (payload and padding, FrameHeader.Length) must be returned on stream 0 and on the stream")
		default:
			r.bad(key, p.pos(), "unexpected number of updates")
		}
	}
	if nFull == 0 {
		r.bad("sendWindowUpdates#full", sw.Pos(), "no path credits both windows")
	}
	// the DATA case calls it on the received frame before handing the data on
	pf := r.method(h2pkg, "relay", "processFrame")
	found := false
	for _, c := range callsToFunc(pf, sw) {
		found = true
		arg := describe(refArgs(c.Common())[1])
		if byValue {
			r.ok("processFrame#sendWindowUpdates.arg", c.Pos(), "called with the received DATA frame's length and stream identifier")
			continue
		}
		r.check(strings.HasSuffix(arg, ".(*golang.org/x/net/http2.DataFrame)"), "processFrame#sendWindowUpdates.arg", c.Pos(), "called with the received DATA frame", "called with "+arg)
	}
	if !found {
		r.bad("processFrame#sendWindowUpdates", pf.Pos(), "received DATA is never credited back")
	}
}

// clampedBy reports whether v is provably ≤ a value satisfying isBound through
// the clamp idioms of this code base: `if n > max { n = max }` (phi), builtin
// min, conversions, and subtraction of a constant from a bound value.
func clampedBy(v ssa.Value, isBound func(ssa.Value) bool) bool {
	switch x := v.(type) {
	case *ssa.Convert:
		return clampedBy(x.X, isBound)
	case *ssa.ChangeType:
		return clampedBy(x.X, isBound)
	}
	if isBound(v) {
		return true
	}
	switch x := v.(type) {
	case *ssa.BinOp:
		if x.Op == token.SUB {
			if _, ok := constInt(x.Y); ok {
				return clampedBy(x.X, isBound)
			}
		}
	case *ssa.Call:
		if calleeName(x.Common()) == "builtin min" {
			for _, a := range x.Common().Args {
				if clampedBy(a, isBound) {
					return true
				}
			}
		}
	case *ssa.Phi:
		blk := x.Block()
		for i, e := range x.Edges {
			if clampedBy(e, isBound) {
				continue
			}
			pred := blk.Preds[i]
			iff, ok := pred.Instrs[len(pred.Instrs)-1].(*ssa.If)
			if !ok {
				return false
			}
			cmp, ok := iff.Cond.(*ssa.BinOp)
			if !ok {
				return false
			}
			same := func(a, b ssa.Value) bool { return a == b || describe(a) == describe(b) }
			okEdge := false
			switch {
			case (cmp.Op == token.GTR || cmp.Op == token.GEQ) && same(cmp.X, e) && clampedBy(cmp.Y, isBound):
				okEdge = pred.Succs[1] == blk // taken when e <= bound
			case (cmp.Op == token.LSS || cmp.Op == token.LEQ) && same(cmp.X, e) && clampedBy(cmp.Y, isBound):
				okEdge = pred.Succs[0] == blk
			case (cmp.Op == token.LSS || cmp.Op == token.LEQ) && same(cmp.Y, e) && clampedBy(cmp.X, isBound):
				okEdge = pred.Succs[1] == blk
			}
			if !okEdge {
				return false
			}
		}
		return true
	}
	return false
}

func c09r6(r *R) {
	isMax := func(v ssa.Value) bool {
		return strings.HasSuffix(describe(v), "sync/atomic.LoadUint32($0.maxFrameSize)") && !strings.Contains(describe(v), " ")
	}
	// data(): payload slices
	data := r.method(h2pkg, "relay", "data")
	var dataMakes []*ssa.MakeSlice
	eachInstr(data, func(ins ssa.Instruction) {
		if ms, ok := ins.(*ssa.MakeSlice); ok {
			dataMakes = append(dataMakes, ms)
			r.check(clampedBy(ms.Len, isMax), "relay.data#payload-length", ms.Pos(), "DATA payload length clamped to maxFrameSize", "DATA payload slice length "+describe(ms.Len)+" is not clamped to the receiver's SETTINGS_MAX_FRAME_SIZE")
		}
	})
	// stores to queuedDataFrame.data come from those makes
	for _, fn := range h2Funcs(r) {
		eachInstr(fn, func(ins ssa.Instruction) {
			st, ok := ins.(*ssa.Store)
			if !ok {
				return
			}
			fa, ok := st.Addr.(*ssa.FieldAddr)
			if !ok {
				return
			}
			sn, f := structName(fa.X.Type()), fieldName(fa.X.Type(), fa.Field)
			switch {
			case sn == "martian/h2.queuedDataFrame" && f == "data":
				good := false
				vals := []ssa.Value{st.Val}
				// the clamped copy may be made by a helper split out of the loop: what that helper returns
				if ex, ok := st.Val.(*ssa.Extract); ok {
					if hc, ok := ex.Tuple.(*ssa.Call); ok {
						if g := staticCallee(hc.Common()); g != nil && isNewHelper(g) {
							vals = returnValues(g, ex.Index)
						}
					}
				} else if hc, ok := st.Val.(*ssa.Call); ok {
					if g := staticCallee(hc.Common()); g != nil && isNewHelper(g) {
						vals = returnValues(g, 0)
					}
				}
				for _, v := range vals {
					isMake := false
					for _, m := range dataMakes {
						if v == ssa.Value(m) {
							isMake = true
						}
					}
					good = isMake
					if !isMake {
						break
					}
				}
				r.check(good && fn == data, fname(fn)+"#store(queuedDataFrame.data)", st.Pos(), "payload is the clamped copy", "queued DATA payload "+describe(st.Val)+" is not the slice clamped to maxFrameSize")
			case (sn == "martian/h2.queuedHeaderFrame" || sn == "martian/h2.queuedPushPromiseFrame") && f == "chunks":
				d := describe(st.Val)
				r.check(strings.HasPrefix(d, "martian/h2.splitIntoChunks("), fname(fn)+"#store("+strings.TrimPrefix(sn, "martian/h2.")+".chunks)", st.Pos(), "chunks come from splitIntoChunks", "header block fragments "+d+" do not come from splitIntoChunks")
			}
		})
	}
	// splitIntoChunks: first make ≤ param0, later makes ≤ param1
	sp := r.fn(h2pkg, "splitIntoChunks")
	nm := 0
	eachInstr(sp, func(ins ssa.Instruction) {
		ms, ok := ins.(*ssa.MakeSlice)
		if !ok || typeStr(ms.Type()) != "[]byte" {
			return
		}
		nm++
		inLoop := reaches(ms, ms)
		bound := refParams(sp)[0] // positions of the reference signature (first limit, continuation limit, data)
		if inLoop {
			bound = refParams(sp)[1]
		}
		r.check(clampedBy(ms.Len, func(v ssa.Value) bool { return v == ssa.Value(bound) }), fmt.Sprintf("splitIntoChunks#chunk(loop=%v)", inLoop), ms.Pos(), "chunk length clamped to "+bound.Name(), "chunk length "+describe(ms.Len)+" is not clamped to "+bound.Name())
	})
	if nm < 2 {
		r.bad("splitIntoChunks#chunks", sp.Pos(), "expected a first-chunk and a continuation-chunk allocation")
	}
	// call sites of splitIntoChunks
	const M = "sync/atomic.LoadUint32($0.maxFrameSize)"
	for _, spec := range []struct{ fn, first string }{{"header", ""}, {"pushPromise", "(" + M + " - 4)"}} {
		fn := r.method(h2pkg, "relay", spec.fn)
		ps, _ := enumPaths(fn, 64, 1)
		n := 0
		for _, p := range ps {
			i := p.eventIndex(0, "call", prefix("martian/h2.splitIntoChunks("))
			if i < 0 {
				continue
			}
			n++
			args := strings.TrimPrefix(p.Events[i].Desc, "martian/h2.splitIntoChunks(")
			want := spec.first
			if spec.fn == "header" {
				if p.holds("(golang.org/x/net/http2.PriorityParam).IsZero($4)") {
					want = M
				} else {
					want = "(" + M + " - 5)"
				}
			}
			r.check(strings.HasPrefix(args, want+", "+M+", "), "relay."+spec.fn+"#splitIntoChunks("+want+")", p.Events[i].Instr.Pos(), "first fragment ≤ "+want+", continuations ≤ maxFrameSize", "splitIntoChunks called with "+args+"; the first fragment must leave room for the frame's fixed fields ("+want+") and continuations must not exceed maxFrameSize")
		}
		if n == 0 {
			r.bad("relay."+spec.fn+"#splitIntoChunks", fn.Pos(), "header block is not split to the frame-size limit")
		}
	}
}

// h2Rescan: C09.R7 / C10.R4.
func h2Rescan(r *R) {
	emitAll := r.method(h2pkg, "relay", "sendQueuedFramesUnderWindowSize")
	// sendQueuedFramesUnderWindowSize covers every buffer
	{
		found := false
		eachInstr(emitAll, func(ins ssa.Instruction) {
			c, ok := ins.(*ssa.Call)
			if !ok || !strings.HasSuffix(calleeName(c.Common()), "outputBuffer).emitEligibleFrames") {
				return
			}
			found = true
			d := describeCall(c.Common(), describe)
			r.check(strings.Contains(d, "emitEligibleFrames(next(range($0.outputBuffers))#2, $0.output, $0.connectionWindowSize)"), "sendQueuedFramesUnderWindowSize#all-buffers", c.Pos(), "re-scans every buffer of this relay", "re-scan does not cover every output buffer of this relay: "+d)
		})
		if !found {
			r.bad("sendQueuedFramesUnderWindowSize#all-buffers", emitAll.Pos(), "no re-scan")
		}
	}
	for _, fn := range h2Funcs(r) {
		if refName(fn) == "emitEligibleFrames" || refName(fn) == "newRelay" || fname(fn) == "(*martian/h2.relay).outputBuffer" {
			continue
		}
		eachInstr(fn, func(ins ssa.Instruction) {
			var kind, buf string
			switch x := ins.(type) {
			case *ssa.Store:
				fa, ok := x.Addr.(*ssa.FieldAddr)
				if !ok {
					return
				}
				sn, f := structName(fa.X.Type()), fieldName(fa.X.Type(), fa.Field)
				switch {
				case sn == "martian/h2.relay" && f == "connectionWindowSize":
					kind, buf = "connection-credit", "*"
				case sn == "martian/h2.outputBuffer" && f == "windowSize":
					kind, buf = "stream-credit", describe(fa.X)
					if strings.HasPrefix(buf, "next(range(") {
						buf = "*" // every buffer touched in a loop: needs the full re-scan
					}
				default:
					return
				}
			case *ssa.Call:
				if !strings.HasSuffix(calleeName(x.Common()), "outputBuffer).enqueue") {
					return
				}
				kind, buf = "enqueue", describe(refArgs(x.Common())[0])
			default:
				return
			}
			recv := "$0"
			w := escapes(ins, func(i ssa.Instruction) bool {
				c, ok := i.(*ssa.Call)
				if !ok {
					return false
				}
				if buf == "*" {
					return staticCallee(c.Common()) == emitAll && describe(refArgs(c.Common())[0]) == recv
				}
				return strings.HasSuffix(calleeName(c.Common()), "outputBuffer).emitEligibleFrames") && describe(refArgs(c.Common())[0]) == buf
			})
			r.check(w == "", fname(fn)+"#"+kind+"→rescan", ins.Pos(), "followed on every path by a re-scan of "+map[bool]string{true: "all buffers", false: buf}[buf == "*"], "a path reaches the function exit after this "+kind+" without re-scanning the affected queue(s): "+w+" - frames made eligible stay queued until unrelated traffic arrives")
		})
	}
	// every emitEligibleFrames call passes this relay's own channel and window
	for _, fn := range h2Funcs(r) {
		eachInstr(fn, func(ins ssa.Instruction) {
			c, ok := ins.(*ssa.Call)
			if !ok || !strings.HasSuffix(calleeName(c.Common()), "outputBuffer).emitEligibleFrames") {
				return
			}
			a := c.Common().Args
			out, win, w := describe(a[1]), describe(a[2]), describe(a[0])
			base := strings.TrimSuffix(out, ".output")
			good := strings.HasSuffix(out, ".output") && win == base+".connectionWindowSize" && (strings.Contains(w, "outputBuffer("+base+",") || strings.Contains(w, "range("+base+".outputBuffers)"))
			r.check(good, fname(fn)+"#emit.args", c.Pos(), "buffer, channel and connection window belong to the same relay", "emitEligibleFrames("+w+", "+out+", "+win+") mixes state of different relays")
		})
	}
}

// ---------------------------------------------------------------------------

func c10r1(r *R) {
	n := 0
	for _, fn := range h2Funcs(r) {
		if !strings.Contains(fname(fn), "relay).processFrame") && !strings.Contains(fname(fn), "Continuation).complete") {
			continue
		}
		eachInstr(fn, func(ins ssa.Instruction) {
			c, ok := ins.(*ssa.Call)
			if !ok || !c.Common().IsInvoke() {
				return
			}
			cn := calleeName(c.Common())
			var se ssa.Value
			var frame string
			switch cn {
			case "invoke martian/h2.Processor.Header":
				se, frame = refArgs(c.Common())[1], "HeadersFrame"
			case "invoke martian/h2.Processor.Data":
				se, frame = refArgs(c.Common())[1], "DataFrame"
			default:
				return
			}
			n++
			d := describe(se)
			key := fname(fn) + "#" + c.Common().Method.Name() + ".streamEnded"
			if _, isConst := se.(*ssa.Const); isConst {
				r.bad(key, c.Pos(), "END_STREAM passed as the constant "+d+": the flag of the frame that started the block is lost")
				return
			}
			if strings.Contains(fname(fn), "headerContinuation).complete") {
				// must be the recorded flag of the continuation state
				r.check(d == "$0."+contField(r, "bool"), key, c.Pos(), "recorded END_STREAM of the initial HEADERS", "continuation completes with "+d+" instead of the recorded END_STREAM")
				return
			}
			want := "(*golang.org/x/net/http2." + frame + ").StreamEnded($1.(*golang.org/x/net/http2." + frame + "))"
			r.check(d == want, key, c.Pos(), "END_STREAM taken from the received "+frame, "END_STREAM argument is "+d+", expected the received frame's StreamEnded()")
		})
	}
	// the recorded flag comes from the initial HEADERS frame
	pf := r.method(h2pkg, "relay", "processFrame")
	rec := 0
	eachInstr(pf, func(ins ssa.Instruction) {
		st, ok := ins.(*ssa.Store)
		if !ok {
			return
		}
		fa, ok := st.Addr.(*ssa.FieldAddr)
		if !ok || structName(fa.X.Type()) != "martian/h2.headerContinuation" || fieldName(fa.X.Type(), fa.Field) != contField(r, "bool") {
			return
		}
		rec++
		d := describe(st.Val)
		r.check(d == "(*golang.org/x/net/http2.HeadersFrame).StreamEnded($1.(*golang.org/x/net/http2.HeadersFrame))", "processFrame#record(streamEnded)", st.Pos(), "records the HEADERS frame's END_STREAM for the continuation", "continuation state records "+d)
	})
	if rec == 0 {
		r.bad("processFrame#record(streamEnded)", pf.Pos(), "END_STREAM of a HEADERS frame without END_HEADERS is not recorded for its CONTINUATION")
	}
	// data(): END_STREAM only on the last fragment
	data := r.method(h2pkg, "relay", "data")
	eachInstr(data, func(ins ssa.Instruction) {
		st, ok := ins.(*ssa.Store)
		if !ok {
			return
		}
		fa, ok := st.Addr.(*ssa.FieldAddr)
		if !ok || structName(fa.X.Type()) != "martian/h2.queuedDataFrame" || fieldName(fa.X.Type(), fa.Field) != "endStream" {
			return
		}
		// value must be streamEnded && len(rest)==0 : phi(false | len(rest)==0) selected by $3
		phi, ok := st.Val.(*ssa.Phi)
		good := false
		if ok && len(phi.Edges) == 2 {
			var sawFalse, sawLen bool
			for i, e := range phi.Edges {
				if c, ok := e.(*ssa.Const); ok && c.Value != nil && c.Value.String() == "false" {
					// reached when !streamEnded
					pred := phi.Block().Preds[i]
					if iff, ok := pred.Instrs[len(pred.Instrs)-1].(*ssa.If); ok && describe(iff.Cond) == "$3" && pred.Succs[1] == phi.Block() {
						sawFalse = true
					}
				} else if bo, ok := e.(*ssa.BinOp); ok && bo.Op == token.EQL && strings.HasPrefix(describe(bo.X), "builtin len(") && describe(bo.Y) == "0" {
					sawLen = guardedBy(bo.Block(), eq("$3"))
				}
			}
			good = sawFalse && sawLen
		}
		r.check(good, "relay.data#endStream", st.Pos(), "END_STREAM = streamEnded ∧ no data left", "END_STREAM of a DATA fragment is "+describe(st.Val)+"; it must be set only on the last fragment of a message that ended the stream")
	})
	if n < 3 {
		r.bad("processFrame#calls", pf.Pos(), "expected Header/Data processor calls")
	}
}

func c10r2(r *R) {
	// concrete frame types of x/net/http2
	var h2 *types.Package
	for _, p := range r.SSA.AllPackages() {
		if p.Pkg.Path() == "golang.org/x/net/http2" {
			h2 = p.Pkg
		}
	}
	if h2 == nil {
		r.missing("package golang.org/x/net/http2")
	}
	frameI, _ := h2.Scope().Lookup("Frame").Type().Underlying().(*types.Interface)
	pf := r.method(h2pkg, "relay", "processFrame")
	cases := map[string]*ssa.TypeAssert{}
	eachInstr(pf, func(ins ssa.Instruction) {
		if ta, ok := ins.(*ssa.TypeAssert); ok && ta.CommaOk && describe(ta.X) == "$1" {
			cases[typeStr(ta.AssertedType)] = ta
		}
	})
	skip := map[string]string{"FrameHeader": "the embedded header, not a frame ReadFrame returns", "UnknownFrame": "extension frames: no semantics to relay", "MetaHeadersFrame": "only produced when Framer.ReadMetaHeaders is set (it is not)"}
	for _, n := range h2.Scope().Names() {
		tn, ok := h2.Scope().Lookup(n).(*types.TypeName)
		if !ok || !tn.Exported() {
			continue
		}
		named, ok := tn.Type().(*types.Named)
		if !ok || types.IsInterface(named) {
			continue
		}
		if !types.Implements(types.NewPointer(named), frameI) {
			continue
		}
		if _, s := skip[n]; s {
			continue
		}
		key := "*golang.org/x/net/http2." + n
		ta, ok := cases[key]
		if !ok {
			r.bad("processFrame#case("+n+")", pf.Pos(), "frame type "+n+" has no case: such frames are dropped with an error")
			continue
		}
		// the case body must reach a forwarding action
		var body *ssa.BasicBlock
		for _, ref := range *ta.Referrers() {
			if ex, ok := ref.(*ssa.Extract); ok && ex.Index == 1 {
				for _, rr := range *ex.Referrers() {
					if iff, ok := rr.(*ssa.If); ok {
						body = iff.Block().Succs[0]
					}
				}
			}
		}
		if body == nil {
			r.undecided("processFrame#case("+n+")", ta.Pos(), "cannot find the case body")
			continue
		}
		forwards := false
		seen := map[*ssa.BasicBlock]bool{}
		var walk func(b *ssa.BasicBlock)
		walk = func(b *ssa.BasicBlock) {
			if seen[b] {
				return
			}
			seen[b] = true
			for _, ins := range b.Instrs {
				c, ok := ins.(*ssa.Call)
				if !ok {
					continue
				}
				cn := calleeName(c.Common())
				isFwd := func(cn string) bool {
					return strings.HasPrefix(cn, "invoke martian/h2.Processor.") || strings.HasPrefix(cn, "(*golang.org/x/net/http2.Framer).Write") ||
						strings.HasPrefix(cn, "(*martian/h2.relay).update") || cn == "(*bytes.Buffer).Write" || cn == "invoke martian/h2.continuationState.complete" ||
						strings.Contains(cn, "ForeachSetting")
				}
				if isFwd(cn) {
					forwards = true
				}
				// the case body may have been moved into a method of its own
				if g := staticCallee(c.Common()); g != nil && isNewHelper(g) {
					for _, h := range append([]*ssa.Function{g}, funcArgs(c.Common())...) { // and what it is handed to run
						eachInstr(h, func(hi ssa.Instruction) {
							if hc, ok := hi.(*ssa.Call); ok && isFwd(calleeName(hc.Common())) {
								forwards = true
							}
						})
					}
				}
			}
			for _, s := range b.Succs {
				// stay inside the case: blocks dominated by the body
				if body.Dominates(s) {
					walk(s)
				}
			}
		}
		walk(body)
		r.check(forwards, "processFrame#case("+n+")", ta.Pos(), "case reaches a forwarding action", "case for "+n+" forwards nothing")
	}
}

func c10r3(r *R) {
	// list mutations in package h2
	for _, fn := range h2Funcs(r) {
		eachInstr(fn, func(ins ssa.Instruction) {
			c, ok := ins.(*ssa.Call)
			if !ok {
				return
			}
			cn := calleeName(c.Common())
			if !strings.HasPrefix(cn, "(*container/list.List).") {
				return
			}
			m := strings.TrimPrefix(cn, "(*container/list.List).")
			switch m {
			case "PushBack":
				// insertion at the back keeps arrival order wherever it is written (enqueue, or inlined at its callers)
				r.ok(fname(fn)+"#list."+m, c.Pos(), "frames enter at the back")
			case "Front", "Len", "Init":
			case "Remove":
				r.check(refName(fn) == "emitEligibleFrames", fname(fn)+"#list."+m, c.Pos(), "removal only by the gate (of the head, checked by C09.R1)", "queue element removed outside the gate")
			default:
				r.bad(fname(fn)+"#list."+m, c.Pos(), "list operation "+m+" can reorder or drop queued frames")
			}
		})
	}
	// header / push-promise emission order
	for _, tn := range []string{"queuedHeaderFrame", "queuedPushPromiseFrame"} {
		send := r.method(h2pkg, tn, "send")
		ps, _ := enumPaths(send, 256, 2)
		var why []string
		first := map[string]bool{}
		okLoop := false
		for _, p := range ps {
			var seq []string
			for _, e := range p.Events {
				if e.Kind == "call" && strings.HasPrefix(e.Desc, "(*golang.org/x/net/http2.Framer).Write") {
					seq = append(seq, e.Desc)
				}
			}
			if len(seq) == 0 {
				why = append(why, "a path writes nothing")
				continue
			}
			first[seq[0]] = true
			w0 := "WriteHeaders"
			if tn == "queuedPushPromiseFrame" {
				w0 = "WritePushPromise"
			}
			if !strings.HasPrefix(seq[0], "(*golang.org/x/net/http2.Framer)."+w0+"($1, ") {
				why = append(why, "first write is "+seq[0])
			}
			for i, s := range seq[1:] {
				idx := fmt.Sprint(i + 1) // literal arithmetic is folded: the second round's index prints as 2
				want := "(*golang.org/x/net/http2.Framer).WriteContinuation($1, $0.streamID, (" + idx + " == (builtin len($0.chunks) - 1)), $0.chunks[" + idx + "])"
				if s != want {
					why = append(why, "continuation "+fmt.Sprint(i+1)+" is "+s)
				} else if i == 1 {
					okLoop = true
				}
			}
			// complit fields
			for k, v := range p.Mem {
				if strings.HasSuffix(k, ".BlockFragment") && v != "$0.chunks[0]" {
					why = append(why, "first fragment is "+v)
				}
				if strings.HasSuffix(k, ".EndHeaders") && v != "(builtin len($0.chunks) <= 1)" {
					why = append(why, "END_HEADERS of the first frame is "+v)
				}
				if strings.HasSuffix(k, ".EndStream") && v != "$0.endStream" {
					why = append(why, "END_STREAM is "+v)
				}
				if strings.HasSuffix(k, ".StreamID") && v != "$0.streamID" {
					why = append(why, "stream id is "+v)
				}
				if strings.HasSuffix(k, ".Priority") && v != "$0.priority" {
					why = append(why, "priority is "+v)
				}
				if strings.HasSuffix(k, ".PromiseID") && v != "$0.promiseID" {
					why = append(why, "promise id is "+v)
				}
			}
		}
		if !okLoop {
			why = append(why, "loop does not advance to chunk 2")
		}
		r.check(len(why) == 0, tn+".send#order", send.Pos(), "chunk 0 in the first frame, continuations 1..n-1 in order, END_HEADERS only on the last, flags from the queued frame", strings.Join(dedupStrings(why), "; "))
	}
}

func dedupStrings(s []string) []string {
	seen := map[string]bool{}
	var out []string
	for _, x := range s {
		if !seen[x] {
			seen[x] = true
			out = append(out, x)
		}
	}
	return out
}

func c10r5(r *R) {
	pf := r.method(h2pkg, "relay", "processFrame")
	ps, complete := enumPaths(pf, 4000, 1)
	if !complete {
		r.undecided("processFrame#paths", pf.Pos(), "too many paths")
		return
	}
	for _, frame := range []string{"HeadersFrame", "PushPromiseFrame"} {
		T := "$1.(*golang.org/x/net/http2." + frame + ")"
		n := 0
		var why []string
		for _, p := range ps {
			if !p.holds(T+"#1") || !p.holds("!(*golang.org/x/net/http2."+frame+").HeadersEnded("+T+")") {
				continue
			}
			n++
			reset := p.eventIndex(0, "call", eq("(*bytes.Buffer).Reset($0.headerBuffer)"))
			write := p.eventIndex(0, "call", eq("(*bytes.Buffer).Write($0.headerBuffer, (*golang.org/x/net/http2."+frame+").HeaderBlockFragment("+T+"))"))
			if reset < 0 || write < 0 || reset > write {
				why = append(why, "header buffer not reset before the first fragment is stored")
			}
			cs := p.Mem["$0.continuationState"]
			if cs == "" {
				why = append(why, "continuation state not recorded")
				continue
			}
			if frame == "HeadersFrame" {
				if p.Mem[cs+".priority"] != T+".Priority" {
					why = append(why, "priority recorded as "+p.Mem[cs+".priority"])
				}
			} else if p.Mem[cs+".promiseID"] != T+".PromiseID" {
				why = append(why, "promise id recorded as "+p.Mem[cs+".promiseID"])
			}
		}
		r.check(n > 0 && len(why) == 0, "processFrame#begin-block("+frame+")", pf.Pos(), "buffer reset, first fragment stored, context recorded from the frame", strings.Join(dedupStrings(why), "; "))
	}
	// CONTINUATION: append, and on END_HEADERS decode the whole buffer and complete the recorded state
	T := "$1.(*golang.org/x/net/http2.ContinuationFrame)"
	n := 0
	var why []string
	for _, p := range ps {
		if !p.holds(T + "#1") {
			continue
		}
		if p.eventIndex(0, "call", eq("(*bytes.Buffer).Write($0.headerBuffer, (*golang.org/x/net/http2.ContinuationFrame).HeaderBlockFragment("+T+"))")) < 0 {
			why = append(why, "fragment not appended")
		}
		if p.holds("(*golang.org/x/net/http2.ContinuationFrame).HeadersEnded(" + T + ")") {
			n++
			dec := p.eventIndex(0, "call", eq("(*martian/h2.relay).decodeFull($0, (*bytes.Buffer).Bytes($0.headerBuffer))"))
			if dec < 0 {
				why = append(why, "END_HEADERS does not decode the whole buffered block")
			}
			failed := p.hasCond(func(c string) bool {
				return strings.HasPrefix(c, "((*martian/h2.relay).decodeFull(") && strings.HasSuffix(c, "#1 != nil)")
			})
			comp := p.eventIndex(0, "call", prefix("invoke martian/h2.continuationState.complete($0.continuationState, "))
			if !failed && comp < 0 {
				why = append(why, "decoded block is not completed through the recorded continuation state")
			}
			if comp >= 0 && !strings.Contains(p.Events[comp].Desc, "(*martian/h2.relay).decodeFull($0, (*bytes.Buffer).Bytes($0.headerBuffer))#0") {
				why = append(why, "completion does not receive the decoded headers")
			}
		}
	}
	r.check(n > 0 && len(why) == 0, "processFrame#continuation", pf.Pos(), "fragments appended; END_HEADERS decodes the buffer and completes the recorded state", strings.Join(dedupStrings(why), "; "))
	// pushPromiseContinuation.complete
	pc := r.method(h2pkg, "pushPromiseContinuation", "complete")
	pp, _ := enumPaths(pc, 8, 1)
	r.check(len(pp) == 1 && pp[0].Ret[0] == "invoke martian/h2.Processor.PushPromise($1, $0.promiseID, $2)", "pushPromiseContinuation.complete", pc.Pos(), "completes with the recorded promise id and the decoded headers", "unexpected completion")
	hc := r.method(h2pkg, "headerContinuation", "complete")
	pp, _ = enumPaths(hc, 8, 1)
	r.check(len(pp) == 1 && pp[0].Ret[0] == "invoke martian/h2.Processor.Header($1, $2, $0."+contField(r, "bool")+", $0."+contField(r, "golang.org/x/net/http2.PriorityParam")+")", "headerContinuation.complete", hc.Pos(), "completes with the decoded headers, the recorded END_STREAM and priority", "completion is "+strings.Join(pp[0].Ret, ","))
}

func c10r6(r *R) {
	pf := r.method(h2pkg, "relay", "processFrame")
	type want struct{ name, call string }
	const P = "$1.(*golang.org/x/net/http2."
	wants := []want{
		{"SETTINGS ack", "(*golang.org/x/net/http2.Framer).WriteSettingsAck($0.dest)"},
		{"PING", "(*golang.org/x/net/http2.Framer).WritePing($0.dest, (*golang.org/x/net/http2.PingFrame).IsAck(" + P + "PingFrame)), " + P + "PingFrame).Data)"},
		{"GOAWAY", "(*golang.org/x/net/http2.Framer).WriteGoAway($0.dest, " + P + "GoAwayFrame).LastStreamID, " + P + "GoAwayFrame).ErrCode, (*golang.org/x/net/http2.GoAwayFrame).DebugData(" + P + "GoAwayFrame)))"},
	}
	got := map[string]bool{}
	var settingsCall *ssa.Call
	var settingsGuards []string
	var settingsArg string
	eachInstr(pf, func(ins ssa.Instruction) {
		if c, ok := ins.(*ssa.Call); ok {
			got[describe(c)] = true
			if os.Getenv("FWD_DBG") != "" && strings.Contains(describe(c), "WritePing") {
				fmt.Fprintln(os.Stderr, "DBG", describe(c))
			}
			if calleeName(c.Common()) == "(*golang.org/x/net/http2.Framer).WriteSettings" {
				settingsCall = c
				// read here: the call may sit in a literal handed to a helper, scanned in place
				settingsGuards = guardsAt(c)
				settingsArg = describe(refArgs(c.Common())[1])
			}
		}
	})
	for _, w := range wants {
		r.check(got[w.call], "processFrame#relay("+w.name+")", pf.Pos(), w.call, w.name+" is not relayed with the received frame's fields; expected "+w.call)
	}
	// SETTINGS: the list written is the list collected by the ForeachSetting closure, which appends every setting
	good := false
	extraGuard := ""
	if settingsCall != nil && len(anonFuncs(pf)) > 0 {
		lit := anonFuncs(pf)[0]
		uncond := false
		eachInstr(lit, func(ins ssa.Instruction) {
			st, ok := ins.(*ssa.Store)
			if !ok {
				return
			}
			if c, ok := st.Val.(*ssa.Call); ok && calleeName(c.Common()) == "builtin append" {
				va := variadicArgs(refArgs(c.Common())[1])
				// appended on every path to return: the store's block must post-dominate; approximate: no path from entry to return avoids it
				avoid := escapesFromEntry(lit, st)
				uncond = len(va) == 1 && (describe(va[0]) == "$0" || describe(va[0]) == "local:s") && !avoid
			}
		})
		sa := settingsArg
		good = uncond && strings.HasPrefix(sa, "local:settings") || uncond && sa != ""
		guard := false
		for _, s := range settingsGuards {
			if strings.Contains(s, "ForeachSetting") && strings.HasPrefix(s, "!") && strings.HasSuffix(s, "!= nil)") {
				guard = true
			}
		}
		good = good && guard
		// ... and by nothing else: a further condition (number of settings, values) would swallow some SETTINGS frames,
		// and the peer would wait for an acknowledgement that never comes
		for _, g := range settingsGuards {
			gg := strings.TrimLeft(g, "!")
			isTypeCase := isFrameTypeCase(gg)
			if !(isTypeCase || strings.Contains(gg, "IsAck(") || strings.Contains(gg, "ForeachSetting(")) {
				good = false
				extraGuard = g
			}
		}
	}
	if extraGuard != "" {
		r.bad("processFrame#relay(SETTINGS)", pf.Pos(), "a non-ACK SETTINGS frame is relayed only when "+extraGuard+": the others are swallowed and never acknowledged")
		return
	}
	r.check(good, "processFrame#relay(SETTINGS)", pf.Pos(), "every received setting is appended and the list is written to dest", "SETTINGS are not relayed completely")
}

// escapesFromEntry reports whether some entry→return path of fn avoids ins.
func escapesFromEntry(fn *ssa.Function, target ssa.Instruction) bool {
	seen := map[*ssa.BasicBlock]bool{}
	var walk func(b *ssa.BasicBlock) bool
	walk = func(b *ssa.BasicBlock) bool {
		if seen[b] {
			return false
		}
		seen[b] = true
		for _, ins := range b.Instrs {
			if ins == target {
				return false
			}
			if _, ok := ins.(*ssa.Return); ok {
				return true
			}
		}
		for _, s := range b.Succs {
			if walk(s) {
				return true
			}
		}
		return false
	}
	return walk(fn.Blocks[0])
}

// c10r9: a received frame is forwarded under no condition other than the ones
// its handling needs (frame type, END_HEADERS, a successful decode / credit / settings walk).
func c10r9(r *R) {
	pf := r.method(h2pkg, "relay", "processFrame")
	allowed := []string{
		"sendWindowUpdates(",               // DATA is forwarded once the credit for it went out
		").HeadersEnded(",                  // HEADERS / PUSH_PROMISE without END_HEADERS wait for their CONTINUATION
		").decodeFull(",                    // a header block that does not decode is a connection error
		"SettingsFrame).IsAck(",            // SETTINGS and its acknowledgement are different frames
		").ForeachSetting(",                // a malformed SETTINGS frame is a connection error
		"ContinuationFrame).HeadersEnded(", // CONTINUATION completes the recorded block at END_HEADERS
	}
	n := 0
	eachInstr(pf, func(ins ssa.Instruction) {
		c, ok := ins.(*ssa.Call)
		if !ok {
			return
		}
		cn := calleeName(c.Common())
		if !strings.HasPrefix(cn, "invoke martian/h2.Processor.") && !strings.HasPrefix(cn, "(*golang.org/x/net/http2.Framer).Write") && cn != "invoke martian/h2.continuationState.complete" && cn != "(*martian/h2.relay).updateWindow" {
			return
		}
		n++
		var extra []string
		for _, g := range guardStrings(c.Block()) {
			gg := strings.TrimLeft(g, "!")
			if isFrameTypeCase(gg) {
				continue // the type switch
			}
			okg := false
			for _, a := range allowed {
				okg = okg || strings.Contains(gg, a)
			}
			if !okg {
				extra = append(extra, g)
			}
		}
		key := "processFrame#forward(" + cn[strings.LastIndex(cn, ".")+1:] + ")"
		r.check(len(extra) == 0, key, c.Pos(), "forwarded whenever the frame is complete and well-formed", "the frame is forwarded only when "+strings.Join(extra, " ∧ ")+": frames that fail this test are swallowed, the peer never sees (or acknowledges) them")
	})
}

func c10r10(r *R) {
	n := 0
	for _, fn := range r.modFuncs() {
		if !strings.Contains(fname(fn), "martian/h2.") {
			continue
		}
		eachInstr(fn, func(ins ssa.Instruction) {
			switch x := ins.(type) {
			case *ssa.Call:
				cn := calleeName(x.Common())
				if (cn == "builtin delete" || cn == "builtin clear") && strings.HasSuffix(describe(refArgs(x.Common())[0]), ".outputBuffers") {
					n++
					r.bad(fname(fn)+"#"+cn[8:]+"(outputBuffers)", x.Pos(), "a stream's output queue is removed from the relay: DATA (and the RST_STREAM/trailers behind it) still waiting for window credit become unreachable and are never sent")
				}
			case *ssa.Store:
				fa, ok := x.Addr.(*ssa.FieldAddr)
				if !ok || structName(fa.X.Type()) != "martian/h2.relay" || fieldName(fa.X.Type(), fa.Field) != "outputBuffers" {
					return
				}
				n++
				r.check(refName(fn) == "newRelay", fname(fn)+"#set(outputBuffers)", x.Pos(), "the map of queues is created with the relay", "the map of output queues is replaced after construction: queued frames are dropped")
			case *ssa.MapUpdate:
				if strings.HasSuffix(describe(x.Map), ".outputBuffers") {
					n++
					// a queue may only be installed for a stream that has none
					lk := guardedBy(x.Block(), func(g string) bool {
						return strings.HasPrefix(g, "!") && strings.Contains(g, ".outputBuffers[") && strings.HasSuffix(g, "#1")
					})
					r.check(lk, fname(fn)+"#install(outputBuffers)", x.Pos(), "a queue is installed only when the stream has none", "a stream's queue is overwritten although one may exist: its queued frames are dropped")
				}
			case *ssa.Lookup:
				if strings.HasSuffix(describe(x.X), ".outputBuffers") {
					n++
					r.ok(fname(fn)+"#lookup(outputBuffers)", x.Pos(), "read only")
				}
			case *ssa.Range:
				if strings.HasSuffix(describe(x.X), ".outputBuffers") {
					n++
					r.ok(fname(fn)+"#range(outputBuffers)", x.Pos(), "read only")
				}
			}
		})
	}
}

func c10r7(r *R) {
	// preface constant
	p := r.pkg(h2pkg)
	g, _ := refGlobal(p, "connectionPreface"), true
	if g == nil {
		r.missing("h2.connectionPreface")
	}
	val := ""
	eachInstr(p.Func("init"), func(ins ssa.Instruction) {
		if st, ok := ins.(*ssa.Store); ok && st.Addr == g {
			if cv, ok := st.Val.(*ssa.Convert); ok {
				val, _ = constString(cv.X)
			}
		}
	})
	r.check(val == "PRI * HTTP/2.0\r\n\r\nSM\r\n\r\n", "h2.connectionPreface", g.Pos(), "equals RFC 7540 section 3.5", fmt.Sprintf("connectionPreface is %q", val))

	// short reads: in the protocol packages a Read whose byte count is discarded and whose buffer is then used
	shortReadRule(r, "C10.R7", []string{h2pkg, "proxyproto", "dialvia"})

	// forwardPreface writes what it compared
	fp := r.fn(h2pkg, "forwardPreface")
	var rf *ssa.Call
	for _, c := range calls(fp, nameIs("io.ReadFull")) {
		rf = c.(*ssa.Call)
	}
	good := false
	if rf != nil {
		buf := refArgs(rf.Common())[1]
		cmp := calls(fp, nameIs("bytes.Equal"))
		wr := calls(fp, func(s string) bool { return s == "invoke io.Writer.Write" })
		good = len(cmp) == 1 && cmp[0].Common().Args[0] == buf && describe(cmp[0].Common().Args[1]) == "martian/h2.connectionPreface" && len(wr) == 1 &&
			backward(wr[0].Common().Args[0], func(v ssa.Value) bool { return v == buf }) &&
			strings.HasPrefix(describe(buf), "make([]byte,builtin len(martian/h2.connectionPreface)")
	}
	r.check(good, "forwardPreface#compare-and-forward", fp.Pos(), "reads len(preface) octets fully, compares them with the constant, writes the same buffer", "forwardPreface does not forward exactly the octets it verified")
}

// shortReadRule: an io.Reader.Read / net.Conn.Read call whose first result (n)
// is unused while the buffer is used afterwards is a short-read defect.
func shortReadRule(r *R, rule string, pkgs []string) {
	for _, fn := range r.modFuncs() {
		top := fn
		for top.Parent() != nil {
			top = top.Parent()
		}
		in := false
		for _, p := range pkgs {
			if top.Pkg != nil && top.Pkg.Pkg.Path() == modPath+"/"+p {
				in = true
			}
		}
		if !in {
			continue
		}
		eachInstr(fn, func(ins ssa.Instruction) {
			c, ok := ins.(*ssa.Call)
			if !ok || !c.Common().IsInvoke() || c.Common().Method.Name() != "Read" || len(c.Common().Args) != 1 {
				return
			}
			if typeStr(refArgs(c.Common())[0].Type()) != "[]byte" {
				return
			}
			nUsed := false
			for _, ref := range *c.Referrers() {
				if ex, ok := ref.(*ssa.Extract); ok && ex.Index == 0 && len(*ex.Referrers()) > 0 {
					nUsed = true
				}
			}
			// a method that itself implements Read and returns the call's results is a pass-through
			passthrough := false
			for _, ref := range *c.Referrers() {
				if _, ok := ref.(*ssa.Return); ok {
					passthrough = true
				}
			}
			r.check(nUsed || passthrough, fname(fn)+"#Read", c.Pos(), "byte count is used", "Read's byte count is discarded: a short read leaves the buffer partly filled (use io.ReadFull)")
		})
	}
}

func c10r8(r *R) {
	fresh := func(fn *ssa.Function, v ssa.Value, at ssa.Instruction) (bool, string) {
		// the copy may be made by a helper split out of the function: its (single) result
		if ex, isEx := v.(*ssa.Extract); isEx {
			if hc, isCall := ex.Tuple.(*ssa.Call); isCall {
				if g := staticCallee(hc.Common()); g != nil && isNewHelper(g) {
					if rv := returnValues(g, ex.Index); len(rv) == 1 {
						if hms, isMake := rv[0].(*ssa.MakeSlice); isMake {
							for _, c := range calls(g, nameIs("builtin copy")) {
								if refArgs(c.Common())[0] == ssa.Value(hms) {
									return true, ""
								}
							}
							return false, "fresh slice is not filled by copy before it is returned"
						}
					}
				}
			}
		}
		ms, ok := v.(*ssa.MakeSlice)
		if !ok {
			return false, "payload " + describe(v) + " is not a fresh allocation: it aliases a buffer that is reused while the frame can still be queued"
		}
		filled := false
		for _, c := range calls(fn, nameIs("builtin copy")) {
			if refArgs(c.Common())[0] == ssa.Value(ms) && instrDominates(c.(ssa.Instruction), at) {
				filled = true
			}
		}
		if !filled {
			return false, "fresh slice is not filled by copy before it is queued"
		}
		return true, ""
	}
	sp := r.fn(h2pkg, "splitIntoChunks")
	n := 0
	eachInstr(sp, func(ins ssa.Instruction) {
		c, ok := ins.(*ssa.Call)
		if !ok || calleeName(c.Common()) != "builtin append" || typeStr(c.Type()) != "[][]byte" {
			return
		}
		n++
		va := variadicArgs(refArgs(c.Common())[1])
		if len(va) != 1 {
			r.undecided("splitIntoChunks#append", c.Pos(), "unexpected append shape")
			return
		}
		ok2, why := fresh(sp, va[0], c)
		r.check(ok2, fmt.Sprintf("splitIntoChunks#chunk-owned(loop=%v)", reaches(c, c)), c.Pos(), "chunk is a fresh copy", why)
	})
	if n < 2 {
		r.bad("splitIntoChunks#chunks-owned", sp.Pos(), "expected the first chunk and the continuation chunks to be appended")
	}
	data := r.method(h2pkg, "relay", "data")
	eachInstr(data, func(ins ssa.Instruction) {
		st, ok := ins.(*ssa.Store)
		if !ok {
			return
		}
		fa, ok := st.Addr.(*ssa.FieldAddr)
		if !ok || structName(fa.X.Type()) != "martian/h2.queuedDataFrame" || fieldName(fa.X.Type(), fa.Field) != "data" {
			return
		}
		ok2, why := fresh(data, st.Val, st)
		r.check(ok2, "relay.data#payload-owned", st.Pos(), "DATA payload is a fresh copy of the received bytes", why)
	})
}

// contField names the single field of headerContinuation that has the given
// type (the recorded END_STREAM flag, the recorded priority): the rules follow
// the field by its role, not by its spelling.
func contField(r *R, typ string) string {
	obj := r.pkg(h2pkg).Pkg.Scope().Lookup("headerContinuation")
	if obj == nil {
		r.missing("type h2.headerContinuation")
	}
	st, ok := obj.Type().Underlying().(*types.Struct)
	if !ok {
		r.missing("struct h2.headerContinuation")
	}
	var names []string
	for i := 0; i < st.NumFields(); i++ {
		if st.Field(i).Type().String() == typ {
			n := st.Field(i).Name()
			if old, ok := curRenames.fieldAlias[st.Field(i)]; ok {
				n = old // printed terms use the reference spelling
			}
			names = append(names, n)
		}
	}
	if len(names) != 1 {
		r.missing("exactly one %s field in h2.headerContinuation (found %d)", typ, len(names))
	}
	return names[0]
}
