package main

// The mutant catalogue: each entry is a small edit that still type-checks and
// breaks one structural clause; the self-test (thorough tier) requires the
// named rule to report it. "unfix-*" entries revert a repair made in /repo
// (see known_findings.json "fixed"), so a regression is reported again.
func init() {
	// ---- C17
	mutant("C17", "unfix-group", "C17.R1", "ruleset/regexp.go", "\t\t\tregex.WriteString(\"(?:\")\n", "")
	mutant("C17", "unfix-group-close", "C17.R1", "ruleset/regexp.go", "\t\t\tregex.WriteString(\")\")\n", "")
	mutant("C17", "include-before-exclude", "C17.R2", "ruleset/regexp.go", "if r.exclude != nil && r.exclude.MatchString(s) {\n\t\treturn false\n\t}\n\treturn r.include != nil && r.include.MatchString(s)", "if r.include != nil && r.include.MatchString(s) {\n\t\treturn true\n\t}\n\treturn r.exclude != nil && !r.exclude.MatchString(s)")
	mutant("C17", "inverse-drops-exclude", "C17.R2", "ruleset/regexp.go", "\t\texclude: r.exclude,\n\t\tinverse: !r.inverse,", "\t\tinverse: !r.inverse,")
	mutant("C17", "match-ignores-inverse", "C17.R2", "ruleset/regexp.go", "\tif r.inverse {\n\t\tm = !m\n\t}\n", "")
	mutant("C17", "partition-swapped", "C17.R3", "ruleset/regexp.go", "if l[i].Exclude {", "if !l[i].Exclude {")
	mutant("C17", "trim-all-dashes", "C17.R3", "ruleset/regexp.go", "val, exclude := strings.CutPrefix(val, \"-\")", "exclude := strings.HasPrefix(val, \"-\")\n\tval = strings.TrimLeft(val, \"-\")")
	mutant("C17", "match-on-host-with-port", "C17.R4", "http_proxy.go", "if hp.config.DirectDomains.Match(req.URL.Hostname()) {", "if hp.config.DirectDomains.Match(req.URL.Host) {")

	// ---- C16
	mutant("C16", "unfix-rename-guard", "C16.R1,C16.R2", "header/header.go", "if ok && h.Name != canonicalizedName {", "if ok {")
	mutant("C16", "unfix-raw-delete", "C16.R3", "header/header.go", "delete(h, k) // k is the raw map key, it may be non-canonical", "h.Del(k)")
	mutant("C16", "unfix-value-crlf", "C16.R4", "header/header.go", `([^\r\n]*)\r?\n?$`, `(.*)\r?\n?$`)
	mutant("C16", "empty-deletes", "C16.R1", "header/header.go", "hh.Set(h.Name, \"\")", "hh.Del(h.Name)")
	mutant("C16", "add-replaces", "C16.R1", "header/header.go", "hh.Add(h.Name, *h.Value)", "hh.Set(h.Name, *h.Value)")
	mutant("C16", "string-prefix-star", "C16.R1", "header/header.go", "return \"-\" + h.Name + \"*\"", "return \"-\" + h.Name")
	mutant("C16", "parse-no-name-check-for-remove", "C16.R1", "header/header.go", "\t\t\th.Name = val[1:]\n\t\t\th.Action = Remove\n", "\t\t\th.Name = val[1:]\n\t\t\th.Action = Remove\n\t\t\treturn h, nil\n")
	mutant("C16", "connect-gets-request-rules", "C16.R5", "command/run/run.go", "if req.Method == http.MethodConnect {\n\t\t\t\treturn connectHeaders.ModifyRequest(req)", "if req.Method != http.MethodConnect {\n\t\t\t\treturn connectHeaders.ModifyRequest(req)")
	mutant("C16", "response-rules-on-connect", "C16.R5", "command/run/run.go", "if req := resp.Request; req != nil && req.Method == http.MethodConnect {\n\t\t\t\treturn nil\n\t\t\t}\n", "")
	mutant("C16", "name-regex-unanchored", "C16.R4", "header/header.go", "`^[A-Za-z0-9-]+$`", "`^[A-Za-z0-9-]+`")
}
