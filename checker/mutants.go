package main

// The mutant catalogue: each entry is a small edit that still type-checks and
// breaks one structural clause; the self-test (thorough tier) requires the
// named rule to report it. "unfix-*" entries revert a repair made in /repo
// (see known_findings.json "fixed"), so a regression is reported again.
func init() {
	// ---- C17
	mutant("C17", "unfix-group", "C17.R1", "ruleset/regexp.go", "\t\t\tregex.WriteString(\"(?:\")\n", "")
	mutant("C17", "unfix-group-close", "C17.R1", "ruleset/regexp.go", "\t\t\tregex.WriteString(\")\")\n", "")
	mutant("C17", "include-before-exclude", "C17.R2", "ruleset/regexp.go", "if r.exclude != nil && r.exclude.MatchString(s) {\n\t\treturn false\n\t}\n\treturn r.include != nil && r.include.MatchString(s)", "if r.include != nil && r.include.MatchString(s) {\n\t\treturn true\n\t}\n\treturn r.exclude != nil && !r.exclude.MatchString(s)")
	mutant("C17", "inverse-drops-exclude", "C17.R2", "ruleset/regexp.go", "\t\texclude: r.exclude,\n\t\tinverse: !r.inverse,", "\t\tinverse: !r.inverse,")
	mutant("C17", "match-ignores-inverse", "C17.R2", "ruleset/regexp.go", "\tif r.inverse {\n\t\tm = !m\n\t}\n", "")
	mutant("C17", "partition-swapped", "C17.R3", "ruleset/regexp.go", "if l[i].Exclude {", "if !l[i].Exclude {")
	mutant("C17", "trim-all-dashes", "C17.R3", "ruleset/regexp.go", "val, exclude := strings.CutPrefix(val, \"-\")", "exclude := strings.HasPrefix(val, \"-\")\n\tval = strings.TrimLeft(val, \"-\")")
	mutant("C17", "match-on-host-with-port", "C17.R4", "http_proxy.go", "if hp.config.DirectDomains.Match(req.URL.Hostname()) {", "if hp.config.DirectDomains.Match(req.URL.Host) {")

	// ---- C16
	mutant("C16", "unfix-rename-guard", "C16.R1,C16.R2", "header/header.go", "if ok && h.Name != canonicalizedName {", "if ok {")
	mutant("C16", "unfix-raw-delete", "C16.R3", "header/header.go", "delete(h, k) // k is the raw map key, it may be non-canonical", "h.Del(k)")
	mutant("C16", "unfix-value-crlf", "C16.R4", "header/header.go", `([^\r\n]*)\r?\n?$`, `(.*)\r?\n?$`)
	mutant("C16", "empty-deletes", "C16.R1", "header/header.go", "hh.Set(h.Name, \"\")", "hh.Del(h.Name)")
	mutant("C16", "add-replaces", "C16.R1", "header/header.go", "hh.Add(h.Name, *h.Value)", "hh.Set(h.Name, *h.Value)")
	mutant("C16", "string-prefix-star", "C16.R1", "header/header.go", "return \"-\" + h.Name + \"*\"", "return \"-\" + h.Name")
	mutant("C16", "parse-no-name-check-for-remove", "C16.R1", "header/header.go", "\t\t\th.Name = val[1:]\n\t\t\th.Action = Remove\n", "\t\t\th.Name = val[1:]\n\t\t\th.Action = Remove\n\t\t\treturn h, nil\n")
	mutant("C16", "connect-gets-request-rules", "C16.R5", "command/run/run.go", "if req.Method == http.MethodConnect {\n\t\t\t\treturn connectHeaders.ModifyRequest(req)", "if req.Method != http.MethodConnect {\n\t\t\t\treturn connectHeaders.ModifyRequest(req)")
	mutant("C16", "response-rules-on-connect", "C16.R5", "command/run/run.go", "if req := resp.Request; req != nil && req.Method == http.MethodConnect {\n\t\t\t\treturn nil\n\t\t\t}\n", "")
	mutant("C16", "name-regex-unanchored", "C16.R4", "header/header.go", "`^[A-Za-z0-9-]+$`", "`^[A-Za-z0-9-]+`")

	// ---- C09
	const relay = "internal/martian/h2/relay.go"
	const qf = "internal/martian/h2/queued_frames.go"
	mutant("C09", "unfix-credit-data-only", "C09.R5", relay, "n := f.Header().Length", "n := uint32(len(f.Data()))")
	mutant("C09", "gate-ignores-stream-window", "C09.R1", relay, "if f.flowControlSize() > *connectionWindowSize || f.flowControlSize() > w.windowSize {", "if f.flowControlSize() > *connectionWindowSize {")
	mutant("C09", "gate-no-connection-debit", "C09.R1", relay, "\t\t*connectionWindowSize -= f.flowControlSize()\n", "")
	mutant("C09", "second-sender", "C09.R1", relay, "\tw.enqueue(f)\n\tw.emitEligibleFrames(r.output, &r.connectionWindowSize)\n\tr.flowMu.Unlock()\n}", "\tif f.flowControlSize() == 0 && w.queue.Len() == 0 {\n\t\tr.output <- f\n\t\tr.flowMu.Unlock()\n\t\treturn\n\t}\n\tw.enqueue(f)\n\tw.emitEligibleFrames(r.output, &r.connectionWindowSize)\n\tr.flowMu.Unlock()\n}")
	mutant("C09", "data-fcs-zero", "C09.R2", qf, "func (f *queuedDataFrame) flowControlSize() int {\n\treturn len(f.data)\n}", "func (f *queuedDataFrame) flowControlSize() int {\n\treturn 0\n}")
	mutant("C09", "unlocked-window-update", "C09.R3", relay, "\t\tr.flowMu.Lock()\n\t\tr.connectionWindowSize += int(f.Increment)\n\t\tr.flowMu.Unlock()\n", "\t\tr.connectionWindowSize += int(f.Increment)\n")
	mutant("C09", "settings-delta-on-connection", "C09.R4", relay, "\tr.initialWindowSize = v\n", "\tr.initialWindowSize = v\n\tr.connectionWindowSize += delta\n")
	mutant("C09", "window-update-wrong-relay", "C09.R4", relay, "\t\tr.peer.updateWindow(f)", "\t\tr.updateWindow(f)")
	mutant("C09", "max-frame-size-wrong-setting", "C09.R4", relay, "\t\t\t\tcase http2.SettingMaxFrameSize:\n\t\t\t\t\tr.peer.updateMaxFrameSize(s.Val)", "\t\t\t\tcase http2.SettingMaxHeaderListSize:\n\t\t\t\t\tr.peer.updateMaxFrameSize(s.Val)")
	mutant("C09", "data-not-clamped", "C09.R6", relay, "\t\tif nextPayloadLength > maxPayloadLength {\n\t\t\tnextPayloadLength = maxPayloadLength\n\t\t}\n", "\t\tif nextPayloadLength > 2*maxPayloadLength {\n\t\t\tnextPayloadLength = 2 * maxPayloadLength\n\t\t}\n")
	mutant("C09", "priority-room-forgotten", "C09.R6", relay, "\tif !priority.IsZero() {\n\t\tmaxHeaderFragmentLength -= headersPriorityMetadataLength\n\t}\n", "")
	mutant("C09", "no-rescan-after-settings", "C09.R7,C10.R4", relay, "\t// eligible frames.\n\tr.sendQueuedFramesUnderWindowSize()\n", "")
	mutant("C09", "no-emit-after-stream-credit", "C09.R7,C10.R4", relay, "\tw.windowSize += int(f.Increment)\n\tw.emitEligibleFrames(r.output, &r.connectionWindowSize)\n", "\tw.windowSize += int(f.Increment)\n")

	// ---- C10
	mutant("C10", "unfix-continuation-endstream", "C10.R1,C10.R5", relay, "return s.Header(headers, h.streamEnded, h.priority)", "return s.Header(headers, true, h.priority)")
	mutant("C10", "unfix-preface-read", "C10.R7", "internal/martian/h2/h2.go", "if _, err := io.ReadFull(client, preface); err != nil {", "if _, err := client.Read(preface); err != nil {")
	mutant("C10", "endstream-on-every-fragment", "C10.R1", relay, "f := &queuedDataFrame{id, streamEnded && len(data) == 0, nextPayload}", "f := &queuedDataFrame{id, streamEnded, nextPayload}")
	mutant("C10", "rst-dropped", "C10.R2", relay, "\tcase *http2.RSTStreamFrame:\n\t\terr = r.processor(f.StreamID).RSTStream(f.ErrCode)\n", "\tcase *http2.RSTStreamFrame:\n")
	mutant("C10", "priority-case-removed", "C10.R2", relay, "\tcase *http2.PriorityFrame:\n\t\terr = r.processor(f.StreamID).Priority(f.PriorityParam)\n", "")
	mutant("C10", "zero-cost-jumps-queue", "C10.R3", relay, "func (w *outputBuffer) enqueue(f queuedFrame) {\n\tw.queue.PushBack(f)", "func (w *outputBuffer) enqueue(f queuedFrame) {\n\tif f.flowControlSize() == 0 {\n\t\tw.queue.PushFront(f)\n\t\treturn\n\t}\n\tw.queue.PushBack(f)")
	mutant("C10", "continuation-endheaders-first", "C10.R3", qf, "func (f *queuedHeaderFrame) send(dest *http2.Framer) error {\n\tif err := dest.WriteHeaders(http2.HeadersFrameParam{\n\t\tStreamID:      f.streamID,\n\t\tBlockFragment: f.chunks[0],\n\t\tEndStream:     f.endStream,\n\t\tEndHeaders:    len(f.chunks) <= 1,", "func (f *queuedHeaderFrame) send(dest *http2.Framer) error {\n\tif err := dest.WriteHeaders(http2.HeadersFrameParam{\n\t\tStreamID:      f.streamID,\n\t\tBlockFragment: f.chunks[0],\n\t\tEndStream:     f.endStream,\n\t\tEndHeaders:    len(f.chunks) <= 2,")
	mutant("C10", "header-buffer-not-reset", "C10.R5", relay, "\t\t\tr.headerBuffer.Reset()\n\t\t\tr.headerBuffer.Write(f.HeaderBlockFragment())\n\t\t\tr.continuationState = &pushPromiseContinuation{f.PromiseID}", "\t\t\tr.headerBuffer.Write(f.HeaderBlockFragment())\n\t\t\tr.continuationState = &pushPromiseContinuation{f.PromiseID}")
	mutant("C10", "ping-ack-lost", "C10.R6", relay, "err = r.dest.WritePing(f.IsAck(), f.Data)", "err = r.dest.WritePing(false, f.Data)")
	mutant("C10", "settings-filtered", "C10.R6", relay, "\t\t\t\tcase http2.SettingMaxFrameSize:\n\t\t\t\t\tr.peer.updateMaxFrameSize(s.Val)\n", "\t\t\t\tcase http2.SettingMaxFrameSize:\n\t\t\t\t\tr.peer.updateMaxFrameSize(s.Val)\n\t\t\t\t\treturn nil\n")

	// ---- C08
	const ppn = "proxyproto/net.go"
	mutant("C08", "unfix-nil-source", "C08.R1", ppn, "c.header.IsLocal || c.header.Source == nil {", "c.header.IsLocal {")
	mutant("C08", "unfix-tcp6-overread", "C08.R5", "proxyproto/v1.go", "io.ReadFull(r, buf[13:22])", "io.ReadFull(r, buf[13:24])").and("proxyproto/v1.go", "bytes.Equal(buf[20:22], []byte(cRLF))", "bytes.Equal(buf[22:24], []byte(cRLF))").and("proxyproto/v1.go", "return parseV1Header(buf[0:20])", "return parseV1Header(buf[0:22])").and("proxyproto/v1.go", "idx = 22", "idx = 24")
	mutant("C08", "remote-returns-destination", "C08.R1", ppn, "\treturn c.header.Source\n", "\treturn c.header.Destination\n")
	mutant("C08", "write-before-header", "C08.R2", ppn, "func (c *Conn) Write(b []byte) (n int, err error) {\n\tif err := c.readHeader(); err != nil {\n\t\treturn 0, err\n\t}\n", "func (c *Conn) Write(b []byte) (n int, err error) {\n")
	mutant("C08", "accept-drops-timeout", "C08.R2", ppn, "\t\treadHeaderTimeout: l.ReadHeaderTimeout,\n", "")
	mutant("C08", "publish-before-store", "C08.R3", ppn, "\tselect {\n\tcase <-ctx.Done():", "\tc.isHeaderRead.Store(true)\n\tselect {\n\tcase <-ctx.Done():")
	mutant("C08", "no-recheck-under-lock", "C08.R3", ppn, "\tdefer c.headerMu.Unlock()\n\n\tif c.isHeaderRead.Load() {\n\t\treturn c.headerErr\n\t}\n", "\tdefer c.headerMu.Unlock()\n")
	mutant("C08", "timeout-arm-keeps-conn", "C08.R4", ppn, "\tcase <-ctx.Done():\n\t\tc.Conn.Close()\n", "\tcase <-ctx.Done():\n")
	mutant("C08", "timeout-ignored", "C08.R4", ppn, "if c.readHeaderTimeout > 0 {", "if c.readHeaderTimeout < 0 {")
	mutant("C08", "v2-cap-removed", "C08.R5", "proxyproto/v2.go", "if length > 2048 {", "if length > 20480 {")
	mutant("C08", "v1-scan-two-bytes", "C08.R5", "proxyproto/v1.go", "c, err := r.Read(buf[idx : idx+1])", "c, err := r.Read(buf[idx : idx+2])")
	mutant("C08", "v1-ports-swapped", "C08.R6", "proxyproto/v1.go", "\t\t\tsrc.Port = port\n", "\t\t\tdest.Port = port\n").and("proxyproto/v1.go", "\t\t\tdest.Port = port\n\t\t\tdone = true", "\t\t\tsrc.Port = port\n\t\t\tdone = true")
	mutant("C08", "v2-ipv6-offsets", "C08.R6", "proxyproto/v2.go", "dest.IP = tr[16:32]", "dest.IP = tr[16:33]")
	mutant("C08", "v2-udp-swapped", "C08.R6", "proxyproto/v2.go", "\t\t\t\th.Destination = &net.UDPAddr{IP: dest.IP, Port: dest.Port}\n\t\t\t\th.Source = &net.UDPAddr{IP: src.IP, Port: src.Port}\n\t\t\t} else { // TCP\n\t\t\t\th.Destination = &dest\n\t\t\t\th.Source = &src\n\t\t\t}\n\t\t\toffset = ipv4AddressLen", "\t\t\t\th.Destination = &net.UDPAddr{IP: src.IP, Port: src.Port}\n\t\t\t\th.Source = &net.UDPAddr{IP: dest.IP, Port: dest.Port}\n\t\t\t} else { // TCP\n\t\t\t\th.Destination = &dest\n\t\t\t\th.Source = &src\n\t\t\t}\n\t\t\toffset = ipv4AddressLen")

	// ---- C13
	const pconn = "internal/martian/proxy_conn.go"
	const phand = "internal/martian/proxy_handler.go"
	mutant("C13", "unfix-101-skip", "C13.R1,C13.R2", pconn, "if res.StatusCode == http.StatusSwitchingProtocols && res.Body == panicBody {", "if res.StatusCode == http.StatusSwitchingProtocols {")
	mutant("C13", "unfix-101-close", "C13.R1", pconn, "\t\tif res.StatusCode == http.StatusSwitchingProtocols {\n\t\t\tres.Close = false\n\t\t}\n", "")
	mutant("C13", "unfix-hijack-report", "C13.R1", phand, "\t\tif err != nil {\n\t\t\tp.traceWroteResponse(res, err)\n\t\t\treturn err\n\t\t}\n\t\tdefer conn.Close()", "\t\tif err != nil {\n\t\t\treturn err\n\t\t}\n\t\tdefer conn.Close()")
	mutant("C13", "unfix-rebind-connect-rejection", "C13.R2", pconn, "\t\tres.Request = req\n\t\tres.Proto, res.ProtoMajor, res.ProtoMinor = req.Proto, req.ProtoMajor, req.ProtoMinor\n", "\t\tres.Proto, res.ProtoMajor, res.ProtoMinor = req.Proto, req.ProtoMajor, req.ProtoMinor\n")
	mutant("C13", "drain-error-unreported", "C13.R1", pconn, "\t\terr := fmt.Errorf(\"got error while draining read buffer: %w\", err)\n\t\tp.traceWroteResponse(res, err)\n", "\t\terr := fmt.Errorf(\"got error while draining read buffer: %w\", err)\n")
	mutant("C13", "tunnel-double-report", "C13.R1", pconn, "\tif err := p.writeResponse(res); err != nil {\n\t\treturn err\n\t}\n\tif err := drainBuffer(crw, p.brw.Reader); err != nil {", "\tif err := p.writeResponse(res); err != nil {\n\t\tp.traceWroteResponse(res, err)\n\t\treturn err\n\t}\n\tif err := drainBuffer(crw, p.brw.Reader); err != nil {")
	mutant("C13", "early-return-after-read", "C13.R1", pconn, "\tctx := req.Context()\n\n\tp.fixRequestScheme(req)\n", "\tctx := req.Context()\n\n\tif req.ContentLength < -1 {\n\t\treturn errClose\n\t}\n\tp.fixRequestScheme(req)\n")
	mutant("C13", "mitm-forgets-report", "C13.R1", pconn, "\t// Successful CONNECT response does not invoke trace.\n\tp.traceWroteResponse(res, nil)\n", "")
	mutant("C13", "once-removed", "C13.R4", "conntrack/conntrack.go", "c.once.Do(c.onClose)", "c.onClose()")
	mutant("C13", "gauge-labelled-by-response", "C13.R3", "middleware/prometheus.go", "\tp.requestsInFlight.WithLabelValues(labels...).Dec()\n\tp.requestsTotal.WithLabelValues(labelsWithStatus...).Inc()", "\tp.requestsInFlight.WithLabelValues(labelsWithStatus[1:]...).Dec()\n\tp.requestsInFlight.WithLabelValues(labels...).Dec()\n\tp.requestsTotal.WithLabelValues(labelsWithStatus...).Inc()")
	mutant("C13", "dial-close-other-address", "C13.R5", "net.go", "\t\t\td.metrics.close(address)\n", "\t\t\td.metrics.close(network)\n")
	mutant("C13", "accept-untracked-tls", "C13.R5", "net.go", "\tl.metrics.accept()\n\tconn = conntrack.Builder{", "\tl.metrics.accept()\n\tif l.TLSConfig != nil {\n\t\treturn tls.Server(conn, l.TLSConfig), nil\n\t}\n\tconn = conntrack.Builder{")
	mutant("C13", "readfrom-counts-rx", "C13.R6", "conntrack/conntrack.go", "\tn, err = c.Conn.(io.ReaderFrom).ReadFrom(r) //nolint:forcetypeassert // It is checked before.\n\tc.o.addTx(uint64(n))", "\tn, err = c.Conn.(io.ReaderFrom).ReadFrom(r) //nolint:forcetypeassert // It is checked before.\n\tc.o.addRx(uint64(n))")

	// ---- C04
	mutant("C04", "unfix-challenge-restore", "C04.R6", pconn, "\tif len(proxyAuthenticate) > 0 {\n\t\tres.Header[\"Proxy-Authenticate\"] = proxyAuthenticate\n\t}\n\treturn p.writeResponse(res)", "\t_ = proxyAuthenticate\n\treturn p.writeResponse(res)")
	mutant("C04", "roundtrip-before-checks", "C04.R1", pconn, "\tif err := p.modifyRequest(req); err != nil {\n\t\tlog.Debug(ctx, \"error modifying request\", \"error\", err)\n\t\treturn p.writeErrorResponse(req, err)\n\t}\n\n\t// after stripping", "\tif reqUpType == \"\" {\n\t\tif err := p.modifyRequest(req); err != nil {\n\t\t\tlog.Debug(ctx, \"error modifying request\", \"error\", err)\n\t\t\treturn p.writeErrorResponse(req, err)\n\t\t}\n\t}\n\n\t// after stripping")
	mutant("C04", "mitm-before-checks", "C04.R1", pconn, "\tif err := p.modifyRequest(req); err != nil {\n\t\tlog.Debug(ctx, \"error modifying CONNECT request\", \"error\", err)\n\t\treturn p.writeErrorResponse(req, err)\n\t}\n\n\tif p.shouldMITM(req) {\n\t\treturn p.handleMITM(req)\n\t}\n", "\tif p.shouldMITM(req) {\n\t\treturn p.handleMITM(req)\n\t}\n\n\tif err := p.modifyRequest(req); err != nil {\n\t\tlog.Debug(ctx, \"error modifying CONNECT request\", \"error\", err)\n\t\treturn p.writeErrorResponse(req, err)\n\t}\n")
	mutant("C04", "aggregate-errors", "C04.R2", "http_proxy.go", "\ttopg := fifo.NewGroup()\n", "\ttopg := fifo.NewGroup()\n\ttopg.SetAggregateErrors(true)\n")
	mutant("C04", "group-continues-after-error", "C04.R2", "internal/martian/fifo/fifo_group.go", "\t\t\tif g.aggregateErrors {\n\t\t\t\tmerr = multierr.Append(merr, err)\n\t\t\t\tcontinue\n\t\t\t}\n\n\t\t\treturn err\n\t\t}\n\t}\n\n\treturn merr\n}\n\n// ModifyResponse modifies the request.", "\t\t\tmerr = multierr.Append(merr, err)\n\t\t\tcontinue\n\t\t}\n\t}\n\n\treturn merr\n}\n\n// ModifyResponse modifies the request.")
	mutant("C04", "stack-before-auth", "C04.R3", "http_proxy.go", "\tif hp.config.DenyDomains != nil {\n\t\ttopg.AddRequestModifier(hp.denyDomains(hp.config.DenyDomains))\n\t}\n\n\t// stack contains", "\t// stack contains").and("http_proxy.go", "\ttopg.AddRequestModifier(stack)\n\ttopg.AddResponseModifier(stack)\n", "\ttopg.AddRequestModifier(stack)\n\ttopg.AddResponseModifier(stack)\n\tif hp.config.DenyDomains != nil {\n\t\ttopg.AddRequestModifier(hp.denyDomains(hp.config.DenyDomains))\n\t}\n")
	mutant("C04", "localhost-only-with-auth", "C04.R3", "http_proxy.go", "\tif hp.config.ProxyLocalhost == DenyProxyLocalhost {\n\t\ttopg.AddRequestModifier(hp.denyLocalhost())", "\tif hp.config.ProxyLocalhost == DenyProxyLocalhost && hp.config.BasicAuth == nil {\n\t\ttopg.AddRequestModifier(hp.denyLocalhost())")
	mutant("C04", "auth-or", "C04.R4", "middleware/basic_auth.go", "if !ok || subtle.ConstantTimeCompare([]byte(user), []byte(expectedUser)) != 1 || subtle.ConstantTimeCompare([]byte(pass), []byte(expectedPass)) != 1 {", "if !ok || subtle.ConstantTimeCompare([]byte(user), []byte(expectedUser)) != 1 && subtle.ConstantTimeCompare([]byte(pass), []byte(expectedPass)) != 1 {")
	mutant("C04", "deny-returns-nil-for-connect", "C04.R4", "http_proxy.go", "\t\tif r.Match(req.URL.Hostname()) {\n\t\t\treturn ErrProxyDenied", "\t\tif req.Method != http.MethodConnect && r.Match(req.URL.Hostname()) {\n\t\t\treturn ErrProxyDenied")
	mutant("C04", "deny-maps-to-407", "C04.R5", "http_proxy_errors.go", "\t\tcode = http.StatusForbidden\n", "\t\tcode = http.StatusProxyAuthRequired\n")
	mutant("C04", "challenge-on-403", "C04.R5", "http_proxy_errors.go", "if code == http.StatusProxyAuthRequired {", "if code == http.StatusForbidden {")
	mutant("C04", "localhost-case-sensitive", "C04.R7", "http_proxy.go", "\thost = strings.ToLower(host)\n\n\tif slices.Contains(hp.localhost, host) {", "\tif slices.Contains(hp.localhost, host) {")
	mutant("C04", "aliases-not-lowercased", "C04.R7", "http_proxy.go", "\tfor i := range lh {\n\t\tlh[i] = strings.ToLower(lh[i])\n\t}\n", "")
}
