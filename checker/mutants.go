package main

// The mutant catalogue: each entry is a small edit that still type-checks and
// breaks one structural clause; the self-test (thorough tier) requires the
// named rule to report it. "unfix-*" entries revert a repair made in /repo
// (see known_findings.json "fixed"), so a regression is reported again.
func init() {
	// ---- C17
	mutant("C17", "unfix-group", "C17.R1", "ruleset/regexp.go", "\t\t\tregex.WriteString(\"(?:\")\n", "")
	mutant("C17", "unfix-group-close", "C17.R1", "ruleset/regexp.go", "\t\t\tregex.WriteString(\")\")\n", "")
	mutant("C17", "include-before-exclude", "C17.R2", "ruleset/regexp.go", "if r.exclude != nil && r.exclude.MatchString(s) {\n\t\treturn false\n\t}\n\treturn r.include != nil && r.include.MatchString(s)", "if r.include != nil && r.include.MatchString(s) {\n\t\treturn true\n\t}\n\treturn r.exclude != nil && !r.exclude.MatchString(s)")
	mutant("C17", "inverse-drops-exclude", "C17.R2", "ruleset/regexp.go", "\t\texclude: r.exclude,\n\t\tinverse: !r.inverse,", "\t\tinverse: !r.inverse,")
	mutant("C17", "match-ignores-inverse", "C17.R2", "ruleset/regexp.go", "\tif r.inverse {\n\t\tm = !m\n\t}\n", "")
	mutant("C17", "partition-swapped", "C17.R3", "ruleset/regexp.go", "if l[i].Exclude {", "if !l[i].Exclude {")
	mutant("C17", "trim-all-dashes", "C17.R3", "ruleset/regexp.go", "val, exclude := strings.CutPrefix(val, \"-\")", "exclude := strings.HasPrefix(val, \"-\")\n\tval = strings.TrimLeft(val, \"-\")")
	mutant("C17", "match-on-host-with-port", "C17.R4", "http_proxy.go", "if hp.config.DirectDomains.Match(req.URL.Hostname()) {", "if hp.config.DirectDomains.Match(req.URL.Host) {")

	// ---- C16
	mutant("C16", "unfix-rename-guard", "C16.R1,C16.R2", "header/header.go", "if ok && h.Name != canonicalizedName {", "if ok {")
	mutant("C16", "unfix-raw-delete", "C16.R3", "header/header.go", "delete(h, k) // k is the raw map key, it may be non-canonical", "h.Del(k)")
	mutant("C16", "unfix-value-crlf", "C16.R4", "header/header.go", `([^\r\n]*)\r?\n?$`, `(.*)\r?\n?$`)
	mutant("C16", "empty-deletes", "C16.R1", "header/header.go", "hh.Set(h.Name, \"\")", "hh.Del(h.Name)")
	mutant("C16", "add-replaces", "C16.R1", "header/header.go", "hh.Add(h.Name, *h.Value)", "hh.Set(h.Name, *h.Value)")
	mutant("C16", "string-prefix-star", "C16.R1", "header/header.go", "return \"-\" + h.Name + \"*\"", "return \"-\" + h.Name")
	mutant("C16", "parse-no-name-check-for-remove", "C16.R1", "header/header.go", "\t\t\th.Name = val[1:]\n\t\t\th.Action = Remove\n", "\t\t\th.Name = val[1:]\n\t\t\th.Action = Remove\n\t\t\treturn h, nil\n")
	mutant("C16", "connect-gets-request-rules", "C16.R5", "command/run/run.go", "if req.Method == http.MethodConnect {\n\t\t\t\treturn connectHeaders.ModifyRequest(req)", "if req.Method != http.MethodConnect {\n\t\t\t\treturn connectHeaders.ModifyRequest(req)")
	mutant("C16", "response-rules-on-connect", "C16.R5", "command/run/run.go", "if req := resp.Request; req != nil && req.Method == http.MethodConnect {\n\t\t\t\treturn nil\n\t\t\t}\n", "")
	mutant("C16", "name-regex-unanchored", "C16.R4", "header/header.go", "`^[A-Za-z0-9-]+$`", "`^[A-Za-z0-9-]+`")

	// ---- C09
	const relay = "internal/martian/h2/relay.go"
	const qf = "internal/martian/h2/queued_frames.go"
	mutant("C09", "unfix-credit-data-only", "C09.R5", relay, "n := f.Header().Length", "n := uint32(len(f.Data()))")
	mutant("C09", "gate-ignores-stream-window", "C09.R1", relay, "if f.flowControlSize() > *connectionWindowSize || f.flowControlSize() > w.windowSize {", "if f.flowControlSize() > *connectionWindowSize {")
	mutant("C09", "gate-no-connection-debit", "C09.R1", relay, "\t\t*connectionWindowSize -= f.flowControlSize()\n", "")
	mutant("C09", "second-sender", "C09.R1", relay, "\tw.enqueue(f)\n\tw.emitEligibleFrames(r.output, &r.connectionWindowSize)\n\tr.flowMu.Unlock()\n}", "\tif f.flowControlSize() == 0 && w.queue.Len() == 0 {\n\t\tr.output <- f\n\t\tr.flowMu.Unlock()\n\t\treturn\n\t}\n\tw.enqueue(f)\n\tw.emitEligibleFrames(r.output, &r.connectionWindowSize)\n\tr.flowMu.Unlock()\n}")
	mutant("C09", "data-fcs-zero", "C09.R2", qf, "func (f *queuedDataFrame) flowControlSize() int {\n\treturn len(f.data)\n}", "func (f *queuedDataFrame) flowControlSize() int {\n\treturn 0\n}")
	mutant("C09", "unlocked-window-update", "C09.R3", relay, "\t\tr.flowMu.Lock()\n\t\tr.connectionWindowSize += int(f.Increment)\n\t\tr.flowMu.Unlock()\n", "\t\tr.connectionWindowSize += int(f.Increment)\n")
	mutant("C09", "settings-delta-on-connection", "C09.R4", relay, "\tr.initialWindowSize = v\n", "\tr.initialWindowSize = v\n\tr.connectionWindowSize += delta\n")
	mutant("C09", "window-update-wrong-relay", "C09.R4", relay, "\t\tr.peer.updateWindow(f)", "\t\tr.updateWindow(f)")
	mutant("C09", "max-frame-size-wrong-setting", "C09.R4", relay, "\t\t\t\tcase http2.SettingMaxFrameSize:\n\t\t\t\t\tr.peer.updateMaxFrameSize(s.Val)", "\t\t\t\tcase http2.SettingMaxHeaderListSize:\n\t\t\t\t\tr.peer.updateMaxFrameSize(s.Val)")
	mutant("C09", "data-not-clamped", "C09.R6", relay, "\t\tif nextPayloadLength > maxPayloadLength {\n\t\t\tnextPayloadLength = maxPayloadLength\n\t\t}\n", "\t\tif nextPayloadLength > 2*maxPayloadLength {\n\t\t\tnextPayloadLength = 2 * maxPayloadLength\n\t\t}\n")
	mutant("C09", "priority-room-forgotten", "C09.R6", relay, "\tif !priority.IsZero() {\n\t\tmaxHeaderFragmentLength -= headersPriorityMetadataLength\n\t}\n", "")
	mutant("C09", "no-rescan-after-settings", "C09.R7,C10.R4", relay, "\t// eligible frames.\n\tr.sendQueuedFramesUnderWindowSize()\n", "")
	mutant("C09", "no-emit-after-stream-credit", "C09.R7,C10.R4", relay, "\tw.windowSize += int(f.Increment)\n\tw.emitEligibleFrames(r.output, &r.connectionWindowSize)\n", "\tw.windowSize += int(f.Increment)\n")

	// ---- C10
	mutant("C10", "unfix-continuation-endstream", "C10.R1,C10.R5", relay, "return s.Header(headers, h.streamEnded, h.priority)", "return s.Header(headers, true, h.priority)")
	mutant("C10", "unfix-preface-read", "C10.R7", "internal/martian/h2/h2.go", "if _, err := io.ReadFull(client, preface); err != nil {", "if _, err := client.Read(preface); err != nil {")
	mutant("C10", "endstream-on-every-fragment", "C10.R1", relay, "f := &queuedDataFrame{id, streamEnded && len(data) == 0, nextPayload}", "f := &queuedDataFrame{id, streamEnded, nextPayload}")
	mutant("C10", "rst-dropped", "C10.R2", relay, "\tcase *http2.RSTStreamFrame:\n\t\terr = r.processor(f.StreamID).RSTStream(f.ErrCode)\n", "\tcase *http2.RSTStreamFrame:\n")
	mutant("C10", "priority-case-removed", "C10.R2", relay, "\tcase *http2.PriorityFrame:\n\t\terr = r.processor(f.StreamID).Priority(f.PriorityParam)\n", "")
	mutant("C10", "zero-cost-jumps-queue", "C10.R3", relay, "func (w *outputBuffer) enqueue(f queuedFrame) {\n\tw.queue.PushBack(f)", "func (w *outputBuffer) enqueue(f queuedFrame) {\n\tif f.flowControlSize() == 0 {\n\t\tw.queue.PushFront(f)\n\t\treturn\n\t}\n\tw.queue.PushBack(f)")
	mutant("C10", "continuation-endheaders-first", "C10.R3", qf, "func (f *queuedHeaderFrame) send(dest *http2.Framer) error {\n\tif err := dest.WriteHeaders(http2.HeadersFrameParam{\n\t\tStreamID:      f.streamID,\n\t\tBlockFragment: f.chunks[0],\n\t\tEndStream:     f.endStream,\n\t\tEndHeaders:    len(f.chunks) <= 1,", "func (f *queuedHeaderFrame) send(dest *http2.Framer) error {\n\tif err := dest.WriteHeaders(http2.HeadersFrameParam{\n\t\tStreamID:      f.streamID,\n\t\tBlockFragment: f.chunks[0],\n\t\tEndStream:     f.endStream,\n\t\tEndHeaders:    len(f.chunks) <= 2,")
	mutant("C10", "header-buffer-not-reset", "C10.R5", relay, "\t\t\tr.headerBuffer.Reset()\n\t\t\tr.headerBuffer.Write(f.HeaderBlockFragment())\n\t\t\tr.continuationState = &pushPromiseContinuation{f.PromiseID}", "\t\t\tr.headerBuffer.Write(f.HeaderBlockFragment())\n\t\t\tr.continuationState = &pushPromiseContinuation{f.PromiseID}")
	mutant("C10", "ping-ack-lost", "C10.R6", relay, "err = r.dest.WritePing(f.IsAck(), f.Data)", "err = r.dest.WritePing(false, f.Data)")
	mutant("C10", "settings-filtered", "C10.R6", relay, "\t\t\t\tcase http2.SettingMaxFrameSize:\n\t\t\t\t\tr.peer.updateMaxFrameSize(s.Val)\n", "\t\t\t\tcase http2.SettingMaxFrameSize:\n\t\t\t\t\tr.peer.updateMaxFrameSize(s.Val)\n\t\t\t\t\treturn nil\n")

	// ---- C08
	const ppn = "proxyproto/net.go"
	mutant("C08", "unfix-nil-source", "C08.R1", ppn, "c.header.IsLocal || c.header.Source == nil {", "c.header.IsLocal {")
	mutant("C08", "unfix-tcp6-overread", "C08.R5", "proxyproto/v1.go", "io.ReadFull(r, buf[13:22])", "io.ReadFull(r, buf[13:24])").and("proxyproto/v1.go", "bytes.Equal(buf[20:22], []byte(cRLF))", "bytes.Equal(buf[22:24], []byte(cRLF))").and("proxyproto/v1.go", "return parseV1Header(buf[0:20])", "return parseV1Header(buf[0:22])").and("proxyproto/v1.go", "idx = 22", "idx = 24")
	mutant("C08", "remote-returns-destination", "C08.R1", ppn, "\treturn c.header.Source\n", "\treturn c.header.Destination\n")
	mutant("C08", "write-before-header", "C08.R2", ppn, "func (c *Conn) Write(b []byte) (n int, err error) {\n\tif err := c.readHeader(); err != nil {\n\t\treturn 0, err\n\t}\n", "func (c *Conn) Write(b []byte) (n int, err error) {\n")
	mutant("C08", "accept-drops-timeout", "C08.R2", ppn, "\t\treadHeaderTimeout: l.ReadHeaderTimeout,\n", "")
	mutant("C08", "publish-before-store", "C08.R3", ppn, "\tselect {\n\tcase <-ctx.Done():", "\tc.isHeaderRead.Store(true)\n\tselect {\n\tcase <-ctx.Done():")
	mutant("C08", "no-recheck-under-lock", "C08.R3", ppn, "\tdefer c.headerMu.Unlock()\n\n\tif c.isHeaderRead.Load() {\n\t\treturn c.headerErr\n\t}\n", "\tdefer c.headerMu.Unlock()\n")
	mutant("C08", "timeout-arm-keeps-conn", "C08.R4", ppn, "\tcase <-ctx.Done():\n\t\tc.Conn.Close()\n", "\tcase <-ctx.Done():\n")
	mutant("C08", "timeout-ignored", "C08.R4", ppn, "if c.readHeaderTimeout > 0 {", "if c.readHeaderTimeout < 0 {")
	mutant("C08", "v2-cap-removed", "C08.R5", "proxyproto/v2.go", "if length > 2048 {", "if length > 20480 {")
	mutant("C08", "v1-scan-two-bytes", "C08.R5", "proxyproto/v1.go", "c, err := r.Read(buf[idx : idx+1])", "c, err := r.Read(buf[idx : idx+2])")
	mutant("C08", "v1-ports-swapped", "C08.R6", "proxyproto/v1.go", "\t\t\tsrc.Port = port\n", "\t\t\tdest.Port = port\n").and("proxyproto/v1.go", "\t\t\tdest.Port = port\n\t\t\tdone = true", "\t\t\tsrc.Port = port\n\t\t\tdone = true")
	mutant("C08", "v2-ipv6-offsets", "C08.R6", "proxyproto/v2.go", "dest.IP = tr[16:32]", "dest.IP = tr[16:33]")
	mutant("C08", "v2-udp-swapped", "C08.R6", "proxyproto/v2.go", "\t\t\t\th.Destination = &net.UDPAddr{IP: dest.IP, Port: dest.Port}\n\t\t\t\th.Source = &net.UDPAddr{IP: src.IP, Port: src.Port}\n\t\t\t} else { // TCP\n\t\t\t\th.Destination = &dest\n\t\t\t\th.Source = &src\n\t\t\t}\n\t\t\toffset = ipv4AddressLen", "\t\t\t\th.Destination = &net.UDPAddr{IP: src.IP, Port: src.Port}\n\t\t\t\th.Source = &net.UDPAddr{IP: dest.IP, Port: dest.Port}\n\t\t\t} else { // TCP\n\t\t\t\th.Destination = &dest\n\t\t\t\th.Source = &src\n\t\t\t}\n\t\t\toffset = ipv4AddressLen")

	// ---- C13
	const pconn = "internal/martian/proxy_conn.go"
	const phand = "internal/martian/proxy_handler.go"
	mutant("C13", "unfix-101-skip", "C13.R1,C13.R2", pconn, "if res.StatusCode == http.StatusSwitchingProtocols && res.Body == panicBody {", "if res.StatusCode == http.StatusSwitchingProtocols {")
	mutant("C13", "unfix-101-close", "C13.R1", pconn, "\t\tif res.StatusCode == http.StatusSwitchingProtocols {\n\t\t\tres.Close = false\n\t\t}\n", "")
	mutant("C13", "unfix-hijack-report", "C13.R1", phand, "\t\tif err != nil {\n\t\t\tp.traceWroteResponse(res, err)\n\t\t\treturn err\n\t\t}\n\t\tdefer conn.Close()", "\t\tif err != nil {\n\t\t\treturn err\n\t\t}\n\t\tdefer conn.Close()")
	mutant("C13", "unfix-rebind-connect-rejection", "C13.R2", pconn, "\t\tres.Request = req\n\t\tres.Proto, res.ProtoMajor, res.ProtoMinor = req.Proto, req.ProtoMajor, req.ProtoMinor\n", "\t\tres.Proto, res.ProtoMajor, res.ProtoMinor = req.Proto, req.ProtoMajor, req.ProtoMinor\n")
	mutant("C13", "drain-error-unreported", "C13.R1", pconn, "\t\terr := fmt.Errorf(\"got error while draining read buffer: %w\", err)\n\t\tp.traceWroteResponse(res, err)\n", "\t\terr := fmt.Errorf(\"got error while draining read buffer: %w\", err)\n")
	mutant("C13", "tunnel-double-report", "C13.R1", pconn, "\tif err := p.writeResponse(res); err != nil {\n\t\treturn err\n\t}\n\tif err := drainBuffer(crw, p.brw.Reader); err != nil {", "\tif err := p.writeResponse(res); err != nil {\n\t\tp.traceWroteResponse(res, err)\n\t\treturn err\n\t}\n\tif err := drainBuffer(crw, p.brw.Reader); err != nil {")
	mutant("C13", "early-return-after-read", "C13.R1", pconn, "\tctx := req.Context()\n\n\tp.fixRequestScheme(req)\n", "\tctx := req.Context()\n\n\tif req.ContentLength < -1 {\n\t\treturn errClose\n\t}\n\tp.fixRequestScheme(req)\n")
	mutant("C13", "mitm-forgets-report", "C13.R1", pconn, "\t// Successful CONNECT response does not invoke trace.\n\tp.traceWroteResponse(res, nil)\n", "")
	mutant("C13", "once-removed", "C13.R4", "conntrack/conntrack.go", "c.once.Do(c.onClose)", "c.onClose()")
	mutant("C13", "gauge-labelled-by-response", "C13.R3", "middleware/prometheus.go", "\tp.requestsInFlight.WithLabelValues(labels...).Dec()\n\tp.requestsTotal.WithLabelValues(labelsWithStatus...).Inc()", "\tp.requestsInFlight.WithLabelValues(labelsWithStatus[1:]...).Dec()\n\tp.requestsInFlight.WithLabelValues(labels...).Dec()\n\tp.requestsTotal.WithLabelValues(labelsWithStatus...).Inc()")
	mutant("C13", "dial-close-other-address", "C13.R5", "net.go", "\t\t\td.metrics.close(address)\n", "\t\t\td.metrics.close(network)\n")
	mutant("C13", "accept-untracked-tls", "C13.R5", "net.go", "\tl.metrics.accept()\n\tconn = conntrack.Builder{", "\tl.metrics.accept()\n\tif l.TLSConfig != nil {\n\t\treturn tls.Server(conn, l.TLSConfig), nil\n\t}\n\tconn = conntrack.Builder{")
	mutant("C13", "readfrom-counts-rx", "C13.R6", "conntrack/conntrack.go", "\tn, err = c.Conn.(io.ReaderFrom).ReadFrom(r) //nolint:forcetypeassert // It is checked before.\n\tc.o.addTx(uint64(n))", "\tn, err = c.Conn.(io.ReaderFrom).ReadFrom(r) //nolint:forcetypeassert // It is checked before.\n\tc.o.addRx(uint64(n))")

	// ---- C04
	mutant("C04", "unfix-challenge-restore", "C04.R6", pconn, "\tif len(proxyAuthenticate) > 0 {\n\t\tres.Header[\"Proxy-Authenticate\"] = proxyAuthenticate\n\t}\n\treturn p.writeResponse(res)", "\t_ = proxyAuthenticate\n\treturn p.writeResponse(res)")
	mutant("C04", "roundtrip-before-checks", "C04.R1", pconn, "\tif err := p.modifyRequest(req); err != nil {\n\t\tlog.Debug(ctx, \"error modifying request\", \"error\", err)\n\t\treturn p.writeErrorResponse(req, err)\n\t}\n\n\t// after stripping", "\tif reqUpType == \"\" {\n\t\tif err := p.modifyRequest(req); err != nil {\n\t\t\tlog.Debug(ctx, \"error modifying request\", \"error\", err)\n\t\t\treturn p.writeErrorResponse(req, err)\n\t\t}\n\t}\n\n\t// after stripping")
	mutant("C04", "mitm-before-checks", "C04.R1", pconn, "\tif err := p.modifyRequest(req); err != nil {\n\t\tlog.Debug(ctx, \"error modifying CONNECT request\", \"error\", err)\n\t\treturn p.writeErrorResponse(req, err)\n\t}\n\n\tif p.shouldMITM(req) {\n\t\treturn p.handleMITM(req)\n\t}\n", "\tif p.shouldMITM(req) {\n\t\treturn p.handleMITM(req)\n\t}\n\n\tif err := p.modifyRequest(req); err != nil {\n\t\tlog.Debug(ctx, \"error modifying CONNECT request\", \"error\", err)\n\t\treturn p.writeErrorResponse(req, err)\n\t}\n")
	mutant("C04", "aggregate-errors", "C04.R2", "http_proxy.go", "\ttopg := fifo.NewGroup()\n", "\ttopg := fifo.NewGroup()\n\ttopg.SetAggregateErrors(true)\n")
	mutant("C04", "group-continues-after-error", "C04.R2", "internal/martian/fifo/fifo_group.go", "\t\t\tif g.aggregateErrors {\n\t\t\t\tmerr = multierr.Append(merr, err)\n\t\t\t\tcontinue\n\t\t\t}\n\n\t\t\treturn err\n\t\t}\n\t}\n\n\treturn merr\n}\n\n// ModifyResponse modifies the request.", "\t\t\tmerr = multierr.Append(merr, err)\n\t\t\tcontinue\n\t\t}\n\t}\n\n\treturn merr\n}\n\n// ModifyResponse modifies the request.")
	mutant("C04", "stack-before-auth", "C04.R3", "http_proxy.go", "\tif hp.config.DenyDomains != nil {\n\t\ttopg.AddRequestModifier(hp.denyDomains(hp.config.DenyDomains))\n\t}\n\n\t// stack contains", "\t// stack contains").and("http_proxy.go", "\ttopg.AddRequestModifier(stack)\n\ttopg.AddResponseModifier(stack)\n", "\ttopg.AddRequestModifier(stack)\n\ttopg.AddResponseModifier(stack)\n\tif hp.config.DenyDomains != nil {\n\t\ttopg.AddRequestModifier(hp.denyDomains(hp.config.DenyDomains))\n\t}\n")
	mutant("C04", "localhost-only-with-auth", "C04.R3", "http_proxy.go", "\tif hp.config.ProxyLocalhost == DenyProxyLocalhost {\n\t\ttopg.AddRequestModifier(hp.denyLocalhost())", "\tif hp.config.ProxyLocalhost == DenyProxyLocalhost && hp.config.BasicAuth == nil {\n\t\ttopg.AddRequestModifier(hp.denyLocalhost())")
	mutant("C04", "auth-or", "C04.R4", "middleware/basic_auth.go", "if !ok || subtle.ConstantTimeCompare([]byte(user), []byte(expectedUser)) != 1 || subtle.ConstantTimeCompare([]byte(pass), []byte(expectedPass)) != 1 {", "if !ok || subtle.ConstantTimeCompare([]byte(user), []byte(expectedUser)) != 1 && subtle.ConstantTimeCompare([]byte(pass), []byte(expectedPass)) != 1 {")
	mutant("C04", "deny-returns-nil-for-connect", "C04.R4", "http_proxy.go", "\t\tif r.Match(req.URL.Hostname()) {\n\t\t\treturn ErrProxyDenied", "\t\tif req.Method != http.MethodConnect && r.Match(req.URL.Hostname()) {\n\t\t\treturn ErrProxyDenied")
	mutant("C04", "deny-maps-to-407", "C04.R5", "http_proxy_errors.go", "\t\tcode = http.StatusForbidden\n", "\t\tcode = http.StatusProxyAuthRequired\n")
	mutant("C04", "challenge-on-403", "C04.R5", "http_proxy_errors.go", "if code == http.StatusProxyAuthRequired {", "if code == http.StatusForbidden {")
	mutant("C04", "localhost-case-sensitive", "C04.R7", "http_proxy.go", "\thost = strings.ToLower(host)\n\n\tif slices.Contains(hp.localhost, host) {", "\tif slices.Contains(hp.localhost, host) {")
	mutant("C04", "aliases-not-lowercased", "C04.R7", "http_proxy.go", "\tfor i := range lh {\n\t\tlh[i] = strings.ToLower(lh[i])\n\t}\n", "")

	// ---- C01
	const hbh = "internal/martian/header/hopbyhop_modifier.go"
	const fwd = "internal/martian/header/forwarded_modifier.go"
	mutant("C01", "unfix-xff-first-line-only", "C01.R4,C01.R5", fwd, `strings.Join(req.Header.Values("X-Forwarded-For"), ", ")`, `strings.TrimSpace(req.Header.Get("X-Forwarded-For"))`)
	mutant("C01", "te-forwarded", "C01.R3", hbh, "\t\"Te\",\n", "")
	mutant("C01", "fixed-table-first", "C01.R3", hbh, "\tfor _, vs := range header[\"Connection\"] {\n\t\tfor _, v := range strings.Split(vs, \",\") {\n\t\t\tk := http.CanonicalHeaderKey(strings.TrimSpace(v))\n\t\t\theader.Del(k)\n\t\t}\n\t}\n\n\tfor _, k := range hopByHopHeaders {\n\t\theader.Del(k)\n\t}\n", "\tfor _, k := range hopByHopHeaders {\n\t\tif k != \"Connection\" {\n\t\t\theader.Del(k)\n\t\t}\n\t}\n\n\tfor _, vs := range header[\"Connection\"] {\n\t\tfor _, v := range strings.Split(vs, \",\") {\n\t\t\tk := http.CanonicalHeaderKey(strings.TrimSpace(v))\n\t\t\theader.Del(k)\n\t\t}\n\t}\n\theader.Del(\"Connection\")\n")
	mutant("C01", "header-injected", "C01.R1", fwd, "\t\t\treq.Header.Set(\"X-Forwarded-For\", xff)\n", "\t\t\treq.Header.Set(\"X-Forwarded-For\", xff)\n\t\t\treq.Header.Set(\"X-Real-Ip\", xff)\n")
	mutant("C01", "upgrade-readded-always", "C01.R4", pconn, "\tif reqUpType != \"\" {\n\t\treq.Header.Set(\"Connection\", \"Upgrade\")\n\t\treq.Header.Set(\"Upgrade\", reqUpType)\n\t}\n\n\t// perform the HTTP roundtrip", "\treq.Header.Set(\"Connection\", \"Upgrade\")\n\treq.Header.Set(\"Upgrade\", reqUpType)\n\n\t// perform the HTTP roundtrip")
	mutant("C01", "user-agent-invented", "C01.R4", "http_proxy.go", "\t\treq.Header.Set(\"User-Agent\", \"\")\n", "\t\treq.Header.Set(\"User-Agent\", \"forwarder\")\n")
	mutant("C01", "via-before-hopbyhop", "C01.R2,C18.R5", "internal/martian/httpspec/httpspec.go", "\thbhm := header.NewHopByHopModifier()\n\touter.AddRequestModifier(hbhm)\n", "\thbhm := header.NewHopByHopModifier()\n\touter.AddRequestModifier(header.NewViaModifier(via))\n\touter.AddRequestModifier(hbhm)\n").and("internal/martian/httpspec/httpspec.go", "\tvm := header.NewViaModifier(via)\n\touter.AddRequestModifier(vm)\n", "")
	mutant("C01", "force-https-without-tls", "C01.R6", "internal/martian/proxy.go", "\t\tif req.TLS != nil && !p.AllowHTTP {", "\t\tif !p.AllowHTTP {")
	mutant("C01", "url-host-overwritten", "C01.R4", pconn, "\tif req.URL.Host == \"\" {\n\t\treq.URL.Host = req.Host\n\t}\n", "\treq.URL.Host = req.Host\n")

	// ---- C02
	mutant("C02", "unfix-trailer-crlf", "C02.R1", pconn, "\t\tif _, err := io.WriteString(w, \"\\r\\n\"); err != nil {\n\t\t\treturn err\n\t\t}\n\t}\n\n\t// End-of-header", "\t}\n\n\t// End-of-header")
	mutant("C02", "304-not-header-only", "C02.R2", "internal/martian/flush.go", "\t\tres.StatusCode == http.StatusNoContent ||\n\t\tres.StatusCode == http.StatusNotModified", "\t\tres.StatusCode == http.StatusNoContent")
	mutant("C02", "chunk-http10", "C02.R2", "internal/martian/flush.go", "\tif res.ProtoMajor != 1 || res.ProtoMinor != 1 {\n\t\treturn false\n\t}\n", "\tif res.ProtoMajor != 1 {\n\t\treturn false\n\t}\n")
	mutant("C02", "no-flush-after-write-error", "C02.R3", pconn, "\tif err != nil {\n\t\tp.brw.Flush() // flush any remaining data\n\t} else {\n\t\terr = p.brw.Flush()\n\t}\n", "\tif err == nil {\n\t\terr = p.brw.Flush()\n\t}\n")
	mutant("C02", "close-without-header", "C02.R3", pconn, "\tif res.Close {\n\t\tres.Header.Add(\"Connection\", \"close\")\n\t}\n", "")
	mutant("C02", "keepalive-after-close-response", "C02.R3", pconn, "\tif res.Close {\n\t\tlog.Debug(ctx, \"closing connection\")\n\t\treturn errClose\n\t}\n", "")
	mutant("C02", "response-header-injected", "C02.R4", pconn, "\tres.Request = req\n\n\tresUpType := upgradeType(res.Header)", "\tres.Request = req\n\tres.Header.Set(\"X-Proxy\", \"forwarder\")\n\n\tresUpType := upgradeType(res.Header)")
	mutant("C02", "sse-flush-pattern", "C02.R5", "internal/martian/flush.go", "sseFlushPattern   = [2]byte{'\\n', '\\n'}", "sseFlushPattern   = [2]byte{'\\r', '\\n'}")
	mutant("C02", "flush-only-inside", "C02.R5", "internal/martian/flush.go", "if (w.last == w.pattern[0] && n > 0 && p[0] == w.pattern[1]) || bytes.LastIndex(p, w.pattern[:]) != -1 {", "if bytes.LastIndex(p, w.pattern[:]) != -1 {")

	// ---- C03
	mutant("C03", "bytereader-bulk", "C03.R1", "dialvia/http.go", "return r.r.Read(p[:1])", "return r.r.Read(p)")
	mutant("C03", "reply-reader-direct", "C03.R1", "dialvia/http.go", "pbr := bufio.NewReaderSize(byteReader{conn}, 128)", "pbr := bufio.NewReaderSize(conn, 128)")
	mutant("C03", "copy-before-drain", "C03.R2", pconn, "\tif err := drainBuffer(crw, p.brw.Reader); err != nil {\n\t\terr := fmt.Errorf(\"got error while draining read buffer: %w\", err)\n\t\tp.traceWroteResponse(res, err)\n\t\treturn err\n\t}\n\n\tctx := res.Request.Context()\n", "\tctx := res.Request.Context()\n")
	mutant("C03", "no-half-close", "C03.R3", "internal/martian/copy.go", "\tc.closeWriter(ctx)\n\n\tlog.Debug(ctx, \"tunnel finished copying\", \"name\", c.name)", "\tlog.Debug(ctx, \"tunnel finished copying\", \"name\", c.name)")
	mutant("C03", "wait-first-only", "C03.R3", "internal/martian/copy.go", "\tfor i := range cc {\n\t\t<-donec\n\t\tif i == 0 {", "\tfor i := range cc[:1] {\n\t\t<-donec\n\t\tif i == 0 {")
	mutant("C03", "drain-consumes", "C03.R2", "internal/martian/copy.go", "\t\trbuf, err := r.Peek(n)\n\t\tif err != nil {\n\t\t\treturn err\n\t\t}\n\t\tw.Write(rbuf)", "\t\trbuf, err := r.Peek(n - 1)\n\t\tif err != nil {\n\t\t\treturn err\n\t\t}\n\t\tw.Write(rbuf)")

	// ---- C05
	mutant("C05", "unfix-pac-socks", "C05.R3", "http_proxy.go", "\tswitch p.Mode {\n\tcase pac.SOCKS, pac.SOCKS4:\n\t\treturn nil, fmt.Errorf(\"unsupported PAC proxy type %s\", p.Mode)\n\t}\n", "")
	mutant("C05", "pac-over-static", "C05.R1", "http_proxy.go", "\tcase hp.config.UpstreamProxy != nil:\n\t\tu := hp.upstreamProxyURL()\n\t\thp.log.Info(\"using upstream proxy\", \"url\", u.Redacted())\n\t\thp.proxyFunc = http.ProxyURL(u)\n\tcase hp.pac != nil:\n\t\thp.log.Info(\"using PAC proxy\")\n\t\thp.proxyFunc = hp.pacProxy\n", "\tcase hp.pac != nil:\n\t\thp.log.Info(\"using PAC proxy\")\n\t\thp.proxyFunc = hp.pacProxy\n\tcase hp.config.UpstreamProxy != nil:\n\t\tu := hp.upstreamProxyURL()\n\t\thp.log.Info(\"using upstream proxy\", \"url\", u.Redacted())\n\t\thp.proxyFunc = http.ProxyURL(u)\n")
	mutant("C05", "direct-domains-dropped-for-connect", "C05.R1", "http_proxy.go", "\thp.proxy.ProxyURL = hp.proxyFunc\n", "\thp.proxy.ProxyURL = hp.config.UpstreamProxyFunc\n")
	mutant("C05", "pac-error-means-direct", "C05.R4", "http_proxy.go", "\ts, err := hp.pac.FindProxyForURL(r.URL, \"\")\n\tif err != nil {\n\t\treturn nil, err\n\t}\n", "\ts, err := hp.pac.FindProxyForURL(r.URL, \"\")\n\tif err != nil {\n\t\treturn nil, nil\n\t}\n")
	mutant("C05", "pac-last-entry", "C05.R4", "pac/proxy.go", "\tspec, _, _ := strings.Cut(string(s), \";\")\n", "\t_, spec, found := strings.Cut(string(s), \";\")\n\tif !found {\n\t\tspec = string(s)\n\t}\n")
	mutant("C05", "redirect-after-dial", "C05.R5", "net.go", "\tif d.rd != nil {\n\t\tnetwork, address = d.rd(network, address)\n\t}\n\tconn, err := d.dialContext(ctx, network, address)\n", "\tconn, err := d.dialContext(ctx, network, address)\n\tif d.rd != nil {\n\t\tnetwork, address = d.rd(network, address)\n\t}\n")
	mutant("C05", "transport-keeps-own-proxy", "C05.R2", "internal/martian/proxy.go", "\t\t\t} else {\n\t\t\t\tt.Proxy = p.ProxyURL\n\t\t\t}\n", "\t\t\t}\n")

	// ---- C06
	mutant("C06", "proxy-authorization-forwarded", "C06.R1,C01.R3", hbh, "\t\"Proxy-Authorization\",\n", "")
	mutant("C06", "override-client-authorization", "C06.R3", "http_proxy.go", "\tif req.Header.Get(\"Authorization\") == \"\" {\n\t\tif u := hp.creds.MatchURL(req.URL); u != nil {", "\t{\n\t\tif u := hp.creds.MatchURL(req.URL); u != nil {")
	mutant("C06", "host-wildcard-before-port", "C06.R4", "credentials.go", "\tif u, ok := m.port[port]; ok {\n\t\tm.log.Debug(\"host=*\", \"port\", port)\n\t\treturn u\n\t}\n\n\t// Port wildcard - check the host only.\n\tif u, ok := m.host[host]; ok {\n\t\tm.log.Debug(\"port=*\", \"host\", host)\n\t\treturn u\n\t}\n", "\tif u, ok := m.host[host]; ok {\n\t\tm.log.Debug(\"port=*\", \"host\", host)\n\t\treturn u\n\t}\n\n\tif u, ok := m.port[port]; ok {\n\t\tm.log.Debug(\"host=*\", \"port\", port)\n\t\treturn u\n\t}\n")
	mutant("C06", "https-default-port-80", "C06.R4", "credentials.go", "\t\thttpsPort = 443\n", "\t\thttpsPort = 80\n")
	mutant("C06", "table-overrides-url-credentials", "C06.R5", "http_proxy.go", "\tif proxyURL.User == nil {\n\t\tif u := hp.creds.MatchURL(proxyURL); u != nil {\n\t\t\tproxyURL.User = u\n\t\t}\n\t}\n", "\tif u := hp.creds.MatchURL(proxyURL); u != nil {\n\t\tproxyURL.User = u\n\t}\n")
	mutant("C06", "stray-credential-writer", "C06.R2", fwd, "\t\t\treq.Header.Set(\"X-Forwarded-For\", xff)\n", "\t\t\treq.Header.Set(\"X-Forwarded-For\", xff)\n\t\t\tif v := req.Header.Get(\"X-Upstream-Auth\"); v != \"\" {\n\t\t\t\treq.Header.Set(\"Proxy-Authorization\", v)\n\t\t\t}\n")

	// ---- C07
	const mitmgo = "internal/martian/mitm/mitm.go"
	mutant("C07", "cache-key-with-port", "C07.R2", mitmgo, "\ttlsc, ok := c.certs.Get(hostname)\n", "\ttlsc, ok := c.certs.Get(host)\n")
	mutant("C07", "hit-not-verified", "C07.R3", mitmgo, "\t\t}); err == nil {\n\t\t\treturn tlsc, nil\n\t\t}\n", "\t\t}); err == nil || time.Now().Before(tlsc.Leaf.NotAfter) {\n\t\t\treturn tlsc, nil\n\t\t}\n")
	mutant("C07", "not-before-in-future", "C07.R4", mitmgo, "NotBefore:             time.Now().Add(-c.validity),", "NotBefore:             time.Now().Add(c.validity),")
	mutant("C07", "sni-ignored", "C07.R1", mitmgo, "\t\t\thost := clientHello.ServerName\n\t\t\tif host == \"\" {\n\t\t\t\thost = hostname\n\t\t\t}\n", "\t\t\thost := hostname\n")
	mutant("C07", "mitm-filter-on-host-with-port", "C07.R5", "http_proxy.go", "return hp.config.MITMDomains.Match(req.URL.Hostname())", "return hp.config.MITMDomains.Match(req.URL.Host)")
	mutant("C07", "h2-skip-verify", "C07.R6", "internal/martian/h2/h2.go", "\t\tMinVersion: tls.VersionTLS12,\n\t\tRootCAs:    c.RootCAs,", "\t\tMinVersion:         tls.VersionTLS12,\n\t\tInsecureSkipVerify: c.RootCAs == nil,\n\t\tRootCAs:            c.RootCAs,")

	// ---- C11
	const proxygo = "internal/martian/proxy.go"
	mutant("C11", "decrement-under-lock", "C11.R1", proxygo, "\tdefer func() {\n\t\tp.connsMu.Lock()\n\t\tdelete(p.conns, conn)\n\t\tp.connsMu.Unlock()\n\t}()\n\tdefer p.connsWg.Add(-1)\n", "\tdefer func() {\n\t\tp.connsMu.Lock()\n\t\tdelete(p.conns, conn)\n\t\tp.connsWg.Add(-1)\n\t\tp.connsMu.Unlock()\n\t}()\n")
	mutant("C11", "serve-ignores-closing", "C11.R2", proxygo, "\t\tif p.closing() {\n\t\t\treturn nil\n\t\t}\n\n\t\tconn, err := l.Accept()", "\t\tconn, err := l.Accept()")
	mutant("C11", "fresh-conn-served-during-shutdown", "C11.R2", proxygo, "\tdefer conn.Close()\n\tif p.closing() {\n\t\treturn\n\t}\n", "\tdefer conn.Close()\n")
	mutant("C11", "shutdown-success-on-timeout", "C11.R4", proxygo, "\t\tcase <-ctx.Done():\n\t\t\treturn ctx.Err()\n\t\tcase <-timer.C:", "\t\tcase <-ctx.Done():\n\t\t\treturn nil\n\t\tcase <-timer.C:")
	mutant("C11", "close-without-once", "C11.R4", proxygo, "\tp.closeOnce.Do(func() {\n\t\tclose(p.closeCh)\n\t})\n\n\tvar err error\n\tfor conn := range p.conns {", "\tclose(p.closeCh)\n\n\tvar err error\n\tfor conn := range p.conns {")
	mutant("C11", "drain-before-listeners-closed", "C11.R5", "http_proxy.go", "\t\t// Close listeners first to prevent new connections.\n\t\tif err := hp.Close(); err != nil {\n\t\t\thp.log.Debug(\"failed to close listeners\", \"error\", err)\n\t\t}\n\n\t\tctx, cancel := shutdownContext(hp.config.shutdownConfig)\n\t\tdefer cancel()\n", "\t\tctx, cancel := shutdownContext(hp.config.shutdownConfig)\n\t\tdefer cancel()\n\t\tdefer hp.Close()\n")

	// ---- C12
	mutant("C12", "timeout-maps-to-502", "C12.R2", "http_proxy_errors.go", "\t\t\tcode = http.StatusGatewayTimeout\n", "\t\t\tcode = http.StatusBadGateway\n")
	mutant("C12", "error-body-length-wrong", "C12.R2", "http_proxy_errors.go", "\tresp.ContentLength = int64(body.Len())\n", "\tresp.ContentLength = int64(len(msg))\n")
	mutant("C12", "roundtrip-error-drops-connection-silently", "C12.R1", pconn, "\t\t\tlog.Error(ctx, \"failed to round trip\", \"host\", req.Host, \"method\", req.Method, \"path\", req.URL.Path, \"error\", err)\n\t\t}\n\t\treturn p.writeErrorResponse(req, err)", "\t\t\tlog.Error(ctx, \"failed to round trip\", \"host\", req.Host, \"method\", req.Method, \"path\", req.URL.Path, \"error\", err)\n\t\t}\n\t\treturn nil")
	mutant("C12", "error-loop-unbounded", "C12.R4", proxygo, "\t\t\terrorsN++\n", "")
	mutant("C12", "upstream-rejection-masked", "C12.R2", pconn, "\tres := maybeConnectErrorResponse(err)\n\tvar proxyAuthenticate []string\n\tif res == nil {\n\t\tres = p.errorResponse(req, err)", "\tres := maybeConnectErrorResponse(err)\n\tvar proxyAuthenticate []string\n\tif true {\n\t\tres = p.errorResponse(req, err)")

	// ---- C14
	mutant("C14", "resolver-not-returned-on-error", "C14.R1", "pac/pool.go", "\tp, err = pr.FindProxyForURL(u, hostname)\n\tpool.pool.Put(pr)\n\treturn", "\tp, err = pr.FindProxyForURL(u, hostname)\n\tif err != nil {\n\t\treturn\n\t}\n\tpool.pool.Put(pr)\n\treturn")
	mutant("C14", "non-ascii-accepted", "C14.R3", "pac/pac.go", "\tif !utf8string.NewString(s).IsASCII() {\n\t\treturn \"\", fmt.Errorf(\"PAC script: non-ASCII characters in the return value %q\", s)\n\t}\n", "\t_ = utf8string.NewString\n")
	mutant("C14", "both-entry-points-accepted", "C14.R3", "pac/pac.go", "\tif fnx != nil && fn != nil {\n\t\treturn nil, errors.New(\"PAC script: ambiguous entry point, both FindProxyForURL and FindProxyForURLEx are defined\")\n\t}\n", "")
	mutant("C14", "helper-misbound", "C14.R2", "pac/pac.go", "{\"dnsResolveEx\", pr.dnsResolveEx},", "{\"dnsResolveEx\", pr.dnsResolve},")
	mutant("C14", "https-keyword-http", "C14.R4", "pac/proxy.go", "\tcase \"HTTPS\":\n\t\treturn HTTPS\n", "\tcase \"HTTPS\":\n\t\treturn HTTP\n")

	// ---- C15
	mutant("C15", "unfix-remoteaddr-in-accept-loop", "C15.R1", proxygo, "\t\tdelay = 0\n\n\t\tgo p.handleLoop(conn)", "\t\tdelay = 0\n\t\tlog.Debug(context.TODO(), \"accepted connection\", \"address\", conn.RemoteAddr().String())\n\n\t\tgo p.handleLoop(conn)")
	mutant("C15", "handshake-in-accept", "C15.R1", "net.go", "\tif l.TLSConfig != nil {\n\t\tconn = tls.Server(conn, l.TLSConfig)\n\t}\n\n\treturn conn, nil", "\tif l.TLSConfig != nil {\n\t\ttc := tls.Server(conn, l.TLSConfig)\n\t\tif err := tc.Handshake(); err != nil {\n\t\t\treturn nil, err\n\t\t}\n\t\tconn = tc\n\t}\n\n\treturn conn, nil")
	mutant("C15", "header-deadline-uses-idle", "C15.R2", pconn, "\tif d := p.readHeaderTimeout(); d > 0 {\n\t\thdrDeadline = t0.Add(d)\n\t}", "\tif d := p.idleTimeout(); d > 0 {\n\t\thdrDeadline = t0.Add(d)\n\t}")
	mutant("C15", "no-idle-deadline", "C15.R2", pconn, "\tif deadlineErr := p.conn.SetReadDeadline(idleDeadline); deadlineErr != nil {\n\t\tlog.Error(context.TODO(), \"can't set idle deadline\", \"error\", deadlineErr)\n\t}\n\n", "\t_ = idleDeadline\n\n").and(pconn, "\tif _, err := p.brw.Peek(1); err != nil {\n\t\treturn nil, err\n\t}\n", "\tif _, err := p.brw.Peek(1); err != nil {\n\t\treturn nil, err\n\t}\n\tif deadlineErr := p.conn.SetReadDeadline(time.Time{}); deadlineErr != nil {\n\t\tlog.Error(context.TODO(), \"can't set idle deadline\", \"error\", deadlineErr)\n\t}\n")
	mutant("C15", "mitm-handshake-unbounded", "C15.R3", pconn, "\t\tif p.MITMTLSHandshakeTimeout > 0 {\n\t\t\tvar hcancel context.CancelFunc\n\t\t\thctx, hcancel = context.WithTimeout(ctx, p.MITMTLSHandshakeTimeout)\n\t\t\tdefer hcancel()\n\t\t} else {\n\t\t\thctx = ctx\n\t\t}", "\t\thctx = ctx")
	mutant("C15", "timeouts-swapped", "C15.R4", "http_proxy.go", "\thp.proxy.ReadTimeout = hp.config.ReadTimeout\n\thp.proxy.ReadHeaderTimeout = hp.config.ReadHeaderTimeout\n", "\thp.proxy.ReadTimeout = hp.config.ReadHeaderTimeout\n\thp.proxy.ReadHeaderTimeout = hp.config.ReadTimeout\n")

	// ---- C18
	const viago = "internal/martian/header/via_modifier.go"
	mutant("C18", "unfix-via-first-line-only", "C18.R1,C18.R2", viago, `via := strings.Join(req.Header.Values("Via"), ", ")`, `via := req.Header.Get("Via")`)
	mutant("C18", "loop-answers-502", "C18.R1", viago, "\t\t\t\tStatus: 400,", "\t\t\t\tStatus: 502,")
	mutant("C18", "via-written-before-check", "C18.R1", viago, "\t\tif strings.Contains(via, m.tag) {\n\t\t\treq.Close = true", "\t\tif strings.Contains(via, m.tag) {\n\t\t\treq.Header.Set(\"Via\", via+\", \"+m.tag)\n\t\t\treq.Close = true")
	mutant("C18", "fixed-boundary", "C18.R3", viago, "\treturn NewViaModifierWithBoundary(requestedBy, randomBoundary())", "\treturn NewViaModifierWithBoundary(requestedBy, \"0000000000\")")
	mutant("C18", "via-skipped-for-connect", "C18.R5", viago, "\t// Via is a list field, it may be split into multiple field lines.\n", "\tif req.Method == http.MethodConnect {\n\t\treturn nil\n\t}\n\t// Via is a list field, it may be split into multiple field lines.\n")
	mutant("C18", "version-hardcoded", "C18.R1", viago, "\tcase 10:\n\t\tsb.WriteString(h10Prefix)", "\tcase 10:\n\t\tsb.WriteString(h11Prefix)")

	// ---- C19
	mutant("C19", "unfix-key-logged", "C19.R4", "http_proxy.go", "\"key\", redactFileOrBase64(hp.config.KeyFile))", "\"key\", hp.config.KeyFile)")
	mutant("C19", "proxy-flag-unredacted", "C19.R1", "bind/flag.go", "anyflag.NewValueWithRedact[*url.URL](cfg.UpstreamProxy, &cfg.UpstreamProxy, forwarder.ParseProxyURL, RedactURL)", "anyflag.NewValue[*url.URL](cfg.UpstreamProxy, &cfg.UpstreamProxy, forwarder.ParseProxyURL)")
	mutant("C19", "redact-userinfo-leaks", "C19.R2", "bind/redact.go", "\tif _, has := ui.Password(); has {\n\t\treturn ui.Username() + \":xxxxx\"\n\t}", "\tif p, has := ui.Password(); has {\n\t\treturn ui.Username() + \":\" + p[:1] + \"xxxx\"\n\t}")
	mutant("C19", "proxy-url-logged-unredacted", "C19.R4", "http_proxy.go", "hp.log.Info(\"using upstream proxy\", \"url\", u.Redacted())", "hp.log.Info(\"using upstream proxy\", \"url\", u)")
	mutant("C19", "unredacted-dump", "C19.R3", "utils/cobrautil/describe.go", "\t\tif d.Unredacted {\n\t\t\tif v, ok := f.Value.(redactedValue); ok {\n\t\t\t\tval = v.Unredacted()\n\t\t\t}\n\t\t}\n", "\t\tif v, ok := f.Value.(redactedValue); ok && (d.Unredacted || d.ShowHidden) {\n\t\t\tval = v.Unredacted()\n\t\t}\n")

	// ---- C20
	mutant("C20", "limits-swapped-at-listen", "C20.R1", "net.go", "ll = ratelimit.NewListener(ll, int64(rl), int64(wl))", "ll = ratelimit.NewListener(ll, int64(wl), int64(rl))")
	mutant("C20", "read-uses-tx-limiter", "C20.R1", "ratelimit/conn.go", "\tif n > 0 && c.rxLimiter != nil {\n\t\tc.rxLimiter.WaitN(waitContext, n)\n\t}", "\tif n > 0 && c.txLimiter != nil {\n\t\tc.txLimiter.WaitN(waitContext, n)\n\t}")
	mutant("C20", "limiter-per-connection", "C20.R3", "ratelimit/listener.go", "\t\trxLimiter: l.rxLimiter,\n\t\ttxLimiter: l.txLimiter,\n\t}, c, connfu.Config{})", "\t\trxLimiter: cloneLimiter(l.rxLimiter),\n\t\ttxLimiter: cloneLimiter(l.txLimiter),\n\t}, c, connfu.Config{})").and("ratelimit/ratelimit.go", "func newRateLimiter(bandwidth int64) *rate.Limiter {", "func cloneLimiter(l *rate.Limiter) *rate.Limiter {\n\tif l == nil {\n\t\treturn nil\n\t}\n\treturn rate.NewLimiter(l.Limit(), l.Burst())\n}\n\nfunc newRateLimiter(bandwidth int64) *rate.Limiter {")
	mutant("C20", "zero-limit-throttles", "C20.R1,C20.R2", "ratelimit/listener.go", "\tif readLimit > 0 {\n\t\ttxLimiter = newRateLimiter(readLimit)\n\t}", "\tif readLimit >= 0 {\n\t\ttxLimiter = newRateLimiter(readLimit)\n\t}")
	mutant("C20", "wait-for-buffer-size", "C20.R2", "ratelimit/conn.go", "\t\tc.txLimiter.WaitN(waitContext, n)", "\t\tc.txLimiter.WaitN(waitContext, len(b))")

	// rules added after the second seeding round
	mutant("C12", "unfix-label-unsanitised", "C12.R7", "net_metrics.go", "\treturn strings.ToValidUTF8(host, \"\\uFFFD\")", "\treturn host + strings.Repeat(\"\", 0)")
	mutant("C12", "error-label-from-error-text", "C12.R7", "http_proxy_errors.go", "\t\tlabel = \"net_\" + netErr.Op\n", "\t\tlabel = \"net_\" + netErr.Err.Error()\n")
	mutant("C12", "request-host-in-label", "C12.R7", "middleware/prometheus.go", "\tlabels := []string{req.Method}\n", "\tlabels := []string{req.Method + req.Host}\n")
	mutant("C12", "labeler-installed", "C12.R7", "http_proxy.go", "func (hp *HTTPProxy) upstreamProxyURL() *url.URL {", "var _ = middleware.WithCustomLabeler(\"host\", func(r *http.Request) string { return r.Host })\n\nfunc (hp *HTTPProxy) upstreamProxyURL() *url.URL {")
	mutant("C01", "body-closed-only-on-roundtrip-path", "C01.R7", "internal/martian/proxy_conn.go", "\tdefer req.Body.Close()\n\n\tif p.closing() {\n\t\treturn errClose\n\t}\n", "\tif p.closing() {\n\t\treturn errClose\n\t}\n\tdefer req.Body.Close()\n")
	mutant("C04", "timeframe-inclusive-end-hour", "C04.R3,C04.R8", "ruleset/timeframe.go", "localTime.Hour() < t.HourEnd {", "localTime.Hour() <= t.HourEnd {")
	mutant("C04", "timeframe-reads-clock", "C04.R8", "ruleset/timeframe.go", "\tif localTime.Hour() >= t.HourStart && localTime.Hour() < t.HourEnd {", "\tif localTime.Hour() >= t.HourStart && localTime.Hour() < t.HourEnd && !time.Now().IsZero() {")
	mutant("C06", "hopbyhop-not-stripped-on-connect", "C06.R1", "internal/martian/header/hopbyhop_modifier.go", "func (m *hopByHopModifier) ModifyRequest(req *http.Request) error {\n", "func (m *hopByHopModifier) ModifyRequest(req *http.Request) error {\n\tif req.Method == http.MethodConnect {\n\t\treturn nil\n\t}\n")
	mutant("C07", "client-tls-config-shared", "C07.R6", "internal/martian/proxy_connect.go", "\t\treturn tr.TLSClientConfig.Clone()", "\t\treturn tr.TLSClientConfig")
	mutant("C08", "reentrant-header-lock", "C08.R7", "proxyproto/net.go", "\t\tc.headerErr = r.err\n", "\t\tc.headerErr = r.err\n\t\tif r.err != nil {\n\t\t\tc.headerErr = fmt.Errorf(\"header from %s: %w\", c.RemoteAddr(), r.err)\n\t\t}\n")
	mutant("C10", "empty-settings-swallowed", "C10.R9,C10.R6", relay, "\t\t\t}); err == nil {\n\t\t\t\tr.destMu.Lock()\n\t\t\t\terr = r.dest.WriteSettings(settings...)", "\t\t\t}); err == nil && len(settings) > 0 {\n\t\t\t\tr.destMu.Lock()\n\t\t\t\terr = r.dest.WriteSettings(settings...)")
	mutant("C10", "ping-ack-not-relayed", "C10.R9", relay, "\tcase *http2.PingFrame:\n\t\tr.destMu.Lock()\n\t\terr = r.dest.WritePing(f.IsAck(), f.Data)\n\t\tr.destMu.Unlock()", "\tcase *http2.PingFrame:\n\t\tif !f.IsAck() {\n\t\t\tr.destMu.Lock()\n\t\t\terr = r.dest.WritePing(f.IsAck(), f.Data)\n\t\t\tr.destMu.Unlock()\n\t\t}")
	mutant("C10", "reset-drops-stream-queue", "C10.R10", relay, "\t\tstreamID: id,\n\t\terrCode:  errCode,\n\t})\n}", "\t\tstreamID: id,\n\t\terrCode:  errCode,\n\t})\n\tr.flowMu.Lock()\n\tdelete(r.outputBuffers, id)\n\tr.flowMu.Unlock()\n}")
	mutant("C12", "basic-auth-slices-past-checked-length", "C12.R8", "middleware/basic_auth.go", "auth[len(prefix):])", "auth[len(prefix)+1:])")
	mutant("C12", "connect-rejection-body-closed", "C12.R9", "internal/martian/proxy_connect.go", "\tres, conn, err = d.DialContextR(ctx, \"tcp\", req.URL.Host)\n", "\tres, conn, err = d.DialContextR(ctx, \"tcp\", req.URL.Host)\n\tif res != nil {\n\t\tdefer res.Body.Close()\n\t}\n")
	mutant("C14", "unknown-keyword-is-direct", "C14.R5", "pac/proxy.go", "\tif s == \"DIRECT\" {\n\t\treturn Proxy{Mode: DIRECT}, nil\n\t}\n", "\tif s == \"DIRECT\" || !strings.Contains(s, \":\") {\n\t\treturn Proxy{Mode: DIRECT}, nil\n\t}\n")
	mutant("C09", "relay-locks-flow-twice", "C09.R8", relay, "func (r *relay) outputBuffer(streamID uint32) *outputBuffer {\n", "func (r *relay) outputBuffer(streamID uint32) *outputBuffer {\n\tr.flowMu.Lock()\n\tdefer r.flowMu.Unlock()\n")
	mutant("C05", "unfix-pac-direct-nil-url", "C05.R7", "http_proxy.go", "\tif proxyURL == nil {\n\t\t// DIRECT, there is no proxy to authenticate to.\n\t\treturn nil, nil\n\t}\n", "")
	mutant("C12", "unfix-pac-direct-nil-url", "C12.R10", "http_proxy.go", "\tif proxyURL == nil {\n\t\t// DIRECT, there is no proxy to authenticate to.\n\t\treturn nil, nil\n\t}\n", "")
	mutant("C12", "pac-direct-check-too-late", "C12.R10", "http_proxy.go", "\tif proxyURL == nil {\n\t\t// DIRECT, there is no proxy to authenticate to.\n\t\treturn nil, nil\n\t}\n", "").and("http_proxy.go", "\tif u := hp.creds.MatchURL(proxyURL); u != nil {\n\t\tproxyURL.User = u\n\t}\n\n\treturn proxyURL, nil\n}\n\nfunc (hp *HTTPProxy) middlewareStack()", "\tif proxyURL == nil {\n\t\treturn nil, nil\n\t}\n\tif u := hp.creds.MatchURL(proxyURL); u != nil {\n\t\tproxyURL.User = u\n\t}\n\n\treturn proxyURL, nil\n}\n\nfunc (hp *HTTPProxy) middlewareStack()")
	// rules added after the third seeding round
	mutant("C05", "redirect-per-attempt", "C05.R5", "net.go", "\tif d.rd != nil {\n\t\tnetwork, address = d.rd(network, address)\n\t}\n\tconn, err := d.dialContext(ctx, network, address)", "\tconn, err := d.dialContext(ctx, network, address)").and("net.go", "\t\tconn, err := dial(ctx, network, address)\n", "\t\tif d.rd != nil {\n\t\t\tnetwork, address = d.rd(network, address)\n\t\t}\n\t\tconn, err := dial(ctx, network, address)\n")
	mutant("C05", "transport-keeps-environment-proxy", "C05.R8", "http_transport.go", "\t\tProxy:                 nil,\n", "\t\tProxy:                 http.ProxyFromEnvironment,\n")
	mutant("C01", "site-credentials-replace-bearer", "C01.R8,C01.R4", "http_proxy.go", "\tif req.Header.Get(\"Authorization\") == \"\" {\n", "\tif _, _, ok := req.BasicAuth(); !ok {\n")
	mutant("C01", "pac-strips-url-in-place", "C01.R9", "pac/pac.go", "\tif hostname == \"\" {\n\t\thostname = u.Hostname()\n\t}\n", "\tif hostname == \"\" {\n\t\thostname = u.Hostname()\n\t}\n\tu.Fragment = \"\"\n")
	mutant("C02", "bodiless-reply-standard-phrase", "C02.R1", "internal/martian/proxy_conn.go", "\ttext := res.Status\n\tif text == \"\" {", "\ttext := \"\"\n\tif text == \"\" {")
	mutant("C03", "response-body-read-at-exit", "C03.R6", pconn, "\tdefer res.Body.Close()\n\n\t// set request to original request manually", "\tdefer func() { res.Body.Close() }()\n\n\t// set request to original request manually")
	mutant("C03", "connect-body-closed-early", "C03.R7", "internal/martian/proxy_connect.go", "\treq.ContentLength = -1\n}", "\treq.ContentLength = -1\n\tif req.Body != nil {\n\t\treq.Body.Close()\n\t}\n}")
	mutant("C09", "data-dropped-before-credit", "C09.R9", relay, "\t\tif err = r.peer.sendWindowUpdates(f); err == nil {", "\t\tif f.Length == 0 {\n\t\t\tbreak\n\t\t}\n\t\tif err = r.peer.sendWindowUpdates(f); err == nil {")
	mutant("C10", "max-frame-size-wrong-direction", "C10.R11", relay, "\t\t\t\t\tr.peer.updateMaxFrameSize(s.Val)", "\t\t\t\t\tr.updateMaxFrameSize(s.Val)")
	mutant("C10", "hpack-table-capped", "C10.R12", relay, "\tret.decoder.SetAllowedMaxDynamicTableSize(math.MaxUint32)", "\tret.decoder.SetAllowedMaxDynamicTableSize(math.MaxUint16)")
	mutant("C13", "gauge-closed-under-other-address", "C13.R7", "net.go", "\tif d.rd != nil {\n\t\tnetwork, address = d.rd(network, address)\n\t}\n\tconn, err := d.dialContext(ctx, network, address)", "\torig := address\n\tif d.rd != nil {\n\t\tnetwork, address = d.rd(network, address)\n\t}\n\tconn, err := d.dialContext(ctx, network, address)").and("net.go", "\t\t\td.metrics.close(address)", "\t\t\td.metrics.close(orig)")
	mutant("C14", "sort-family-from-spelling", "C14.R6", "pac/pac_ipv6.go", "\t\treturn ips[i].To4() == nil", "\t\treturn len(ips[i].orig) > 15")
	mutant("C08", "v2-local-offset-unchecked", "C08.R8", "proxyproto/v2.go", "\t\th.IsLocal = true\n", "\t\th.IsLocal = true\n\t\tif buf[13]&0xF0 == 0x10 {\n\t\t\toffset = ipv4AddressLen\n\t\t}\n")
	mutant("C12", "v2-block-in-caller-buffer", "C12.R11", "proxyproto/v2.go", "\t\ttr = make([]byte, length)\n", "\t\ttr = make([]byte, length)\n\t\tif int(length) <= len(buf) {\n\t\t\ttr = buf[16 : 16+length]\n\t\t}\n")
	mutant("C16", "rules-skipped-on-empty-header", "C16.R7", "header/header.go", "func (s Headers) ModifyResponse(res *http.Response) error {\n", "func (s Headers) ModifyResponse(res *http.Response) error {\n\tif len(res.Header) == 0 {\n\t\treturn nil\n\t}\n")
	mutant("C15", "address-asked-after-handshake", "C15.R6", proxygo, "\t// RemoteAddr may block, e.g. waiting for the PROXY protocol header, it must not be called in the accept loop.\n\tlog.Debug(context.TODO(), \"accepted connection\", \"address\", conn.RemoteAddr().String())\n\n\tpc := newProxyConn(p, conn)\n\n\tif err := pc.maybeHandshakeTLS(); err != nil {\n\t\tlog.Error(context.TODO(), \"failed to do TLS handshake\", \"error\", err)\n\t\treturn\n\t}\n", "\tpc := newProxyConn(p, conn)\n\n\tif err := pc.maybeHandshakeTLS(); err != nil {\n\t\tlog.Error(context.TODO(), \"failed to do TLS handshake\", \"error\", err)\n\t\treturn\n\t}\n\tlog.Debug(context.TODO(), \"accepted connection\", \"address\", conn.RemoteAddr().String())\n")
	mutant("C19", "ca-key-option-in-error", "C19.R6", "mitm.go", "\treturn loadX509KeyPair(c.CACertFile, c.CAKeyFile)", "\tcert, err = loadX509KeyPair(c.CACertFile, c.CAKeyFile)\n\tif err != nil {\n\t\terr = errors.New(\"CA key \" + c.CAKeyFile + \": \" + err.Error())\n\t}\n\treturn cert, err")
}
