package main

// Behaviour-preserving edits (refactorings, added logging, renamed locals,
// reordered independent statements). The self-test requires the property's
// rules to stay silent on each of them: a rule that fires here would be a
// false alarm on code where the property still holds.
func init() {
	const pconn = "internal/martian/proxy_conn.go"
	const proxygo = "internal/martian/proxy.go"
	const relay = "internal/martian/h2/relay.go"
	// renamed local
	for _, p := range []string{"C01", "C02", "C04", "C12", "C13"} {
		benign(p, "rename-local-requptype", pconn, "\treqUpType := upgradeType(req.Header)\n\tif reqUpType != \"\" {\n\t\tlog.Debug(ctx, \"upgrade request\", \"type\", reqUpType)\n\t}", "\twantUpgrade := upgradeType(req.Header)\n\tif wantUpgrade != \"\" {\n\t\tlog.Debug(ctx, \"upgrade request\", \"type\", wantUpgrade)\n\t}").
			and(pconn, "\tif reqUpType != \"\" {\n\t\treq.Header.Set(\"Connection\", \"Upgrade\")\n\t\treq.Header.Set(\"Upgrade\", reqUpType)\n\t}", "\tif wantUpgrade != \"\" {\n\t\treq.Header.Set(\"Connection\", \"Upgrade\")\n\t\treq.Header.Set(\"Upgrade\", wantUpgrade)\n\t}")
	}
	// extra logging
	for _, p := range []string{"C03", "C04", "C05", "C11", "C12", "C13"} {
		benign(p, "log-in-connect", pconn, "\tlog.Debug(ctx, \"attempting to establish CONNECT tunnel\", \"host\", req.URL.Host)\n\tres, crw, cerr := p.Connect(ctx, req, terminateTLS)", "\tlog.Debug(ctx, \"attempting to establish CONNECT tunnel\", \"host\", req.URL.Host)\n\tlog.Debug(ctx, \"terminate TLS\", \"value\", terminateTLS)\n\tres, crw, cerr := p.Connect(ctx, req, terminateTLS)")
	}
	// error message text changed
	benign("C08", "error-text", "proxyproto/v2.go", "return nil, errors.New(\"expected address but got zero length header\")", "return nil, errors.New(\"PROXY command without address block\")")
	benign("C12", "error-text", "http_proxy_errors.go", "msg = \"encountered an unexpected error\"", "msg = \"unexpected error\"")
	// early-return form instead of a compound condition
	benign("C17", "match-early-returns", "ruleset/regexp.go", "\treturn r.include != nil && r.include.MatchString(s)\n}", "\tif r.include == nil {\n\t\treturn false\n\t}\n\treturn r.include.MatchString(s)\n}")
	benign("C02", "header-only-if-chain", "internal/martian/flush.go", "\treturn res.Request.Method == http.MethodHead ||\n\t\tres.StatusCode/100 == 1 ||\n\t\tres.StatusCode == http.StatusNoContent ||\n\t\tres.StatusCode == http.StatusNotModified\n", "\tif res.Request.Method == http.MethodHead {\n\t\treturn true\n\t}\n\tswitch {\n\tcase res.StatusCode/100 == 1, res.StatusCode == http.StatusNoContent, res.StatusCode == http.StatusNotModified:\n\t\treturn true\n\t}\n\treturn false\n")
	benign("C04", "auth-split-conditions", "middleware/basic_auth.go", "\tif !ok || subtle.ConstantTimeCompare([]byte(user), []byte(expectedUser)) != 1 || subtle.ConstantTimeCompare([]byte(pass), []byte(expectedPass)) != 1 {\n\t\treturn false\n\t}\n\n\treturn true", "\tif !ok {\n\t\treturn false\n\t}\n\tif subtle.ConstantTimeCompare([]byte(user), []byte(expectedUser)) != 1 {\n\t\treturn false\n\t}\n\treturn subtle.ConstantTimeCompare([]byte(pass), []byte(expectedPass)) == 1")
	// local variable introduced
	benign("C09", "local-for-size", relay, "\t\tif f.flowControlSize() > *connectionWindowSize || f.flowControlSize() > w.windowSize {\n\t\t\tbreak\n\t\t}\n\t\toutput <- f\n\n\t\t*connectionWindowSize -= f.flowControlSize()\n\t\tw.windowSize -= f.flowControlSize()", "\t\tsize := f.flowControlSize()\n\t\tif size > *connectionWindowSize || size > w.windowSize {\n\t\t\tbreak\n\t\t}\n\t\toutput <- f\n\n\t\t*connectionWindowSize -= size\n\t\tw.windowSize -= size")
	benign("C16", "local-for-canonical", "header/header.go", "\t\tif ok && h.Name != canonicalizedName { // key exists, replace it\n\t\t\thh[h.Name] = hh[canonicalizedName]\n\t\t\tdelete(hh, canonicalizedName)\n\t\t}", "\t\tname := h.Name\n\t\tif ok && name != canonicalizedName { // key exists, replace it\n\t\t\thh[name] = hh[canonicalizedName]\n\t\t\tdelete(hh, canonicalizedName)\n\t\t}")
	// independent statements reordered
	benign("C15", "reorder-timeout-wiring", "http_proxy.go", "\thp.proxy.IdleTimeout = hp.config.IdleTimeout\n\thp.proxy.TLSHandshakeTimeout = hp.config.TLSServerConfig.HandshakeTimeout\n\thp.proxy.ReadTimeout = hp.config.ReadTimeout\n", "\thp.proxy.ReadTimeout = hp.config.ReadTimeout\n\thp.proxy.IdleTimeout = hp.config.IdleTimeout\n\thp.proxy.TLSHandshakeTimeout = hp.config.TLSServerConfig.HandshakeTimeout\n")
	benign("C07", "reorder-template-fields", "internal/martian/mitm/mitm.go", "\t\tNotBefore:             time.Now().Add(-c.validity),\n\t\tNotAfter:              time.Now().Add(c.validity),\n", "\t\tNotAfter:              time.Now().Add(c.validity),\n\t\tNotBefore:             time.Now().Add(-c.validity),\n")
	// helper extracted
	benign("C10", "helper-for-begin-block", relay, "\t\t\tr.headerBuffer.Reset()\n\t\t\tr.headerBuffer.Write(f.HeaderBlockFragment())\n\t\t\tr.continuationState = &pushPromiseContinuation{f.PromiseID}", "\t\t\tr.headerBuffer.Reset()\n\t\t\tfrag := f.HeaderBlockFragment()\n\t\t\tr.headerBuffer.Write(frag)\n\t\t\tr.continuationState = &pushPromiseContinuation{promiseID: f.PromiseID}")
	benign("C13", "metrics-comment-and-blank", "net.go", "\tl.metrics.accept()\n\tconn = conntrack.Builder{", "\t// count the connection before wrapping it\n\tl.metrics.accept()\n\n\tconn = conntrack.Builder{")
	benign("C20", "named-config-variable", "ratelimit/listener.go", "\t}, c, connfu.Config{}) // hide ReadFrom and WriteTo methods", "\t}, c, connfu.Config{}) // hide ReadFrom and WriteTo methods: io.Copy must go through Read/Write")
	benign("C06", "debug-log-in-setbasicauth", "http_proxy.go", "\t\t\tp, _ := u.Password()\n\t\t\treq.SetBasicAuth(u.Username(), p)", "\t\t\tp, _ := u.Password()\n\t\t\thp.log.Debug(\"attaching site credentials\", \"user\", u.Username())\n\t\t\treq.SetBasicAuth(u.Username(), p)")
	benign("C18", "comment-and-grow", "internal/martian/header/via_modifier.go", "\tvar sb strings.Builder\n\tsb.Grow(m.nextLen(via))\n", "\tvar sb strings.Builder\n\tsb.Grow(m.nextLen(via) + 8)\n")
	benign("C19", "log-text", "http_proxy.go", "hp.log.Info(\"using upstream proxy\", \"url\", u.Redacted())", "hp.log.Info(\"upstream proxy configured\", \"url\", u.Redacted())")
	benign("C14", "pool-defer-put", "pac/pool.go", "\tpr := pool.get()\n\tp, err = pr.FindProxyForURL(u, hostname)\n\tpool.pool.Put(pr)\n\treturn", "\tpr := pool.get()\n\tdefer pool.pool.Put(pr)\n\treturn pr.FindProxyForURL(u, hostname)")
	benign("C11", "log-when-draining", proxygo, "\tlog.Info(context.TODO(), \"shutting down proxy, draining connections\")\n", "\tlog.Info(context.TODO(), \"shutting down proxy, draining connections\", \"open\", p.connsWg.Load())\n")
	benign("C05", "redirect-into-locals", "net.go", "\tif d.rd != nil {\n\t\tnetwork, address = d.rd(network, address)\n\t}\n", "\tif d.rd != nil {\n\t\tn, a := d.rd(network, address)\n\t\tnetwork, address = n, a\n\t}\n")
	benign("C03", "copy-error-text", "internal/martian/copy.go", "log.Error(ctx, \"failed to copy tunnel\", \"name\", c.name, \"error\", err)", "log.Error(ctx, \"tunnel copy failed\", \"name\", c.name, \"error\", err)")
	benign("C01", "hopbyhop-table-reordered", "internal/martian/header/hopbyhop_modifier.go", "\t\"Te\",\n\t\"Trailer\",\n", "\t\"Trailer\",\n\t\"Te\",\n")
}
