package main

// Behaviour-preserving edits (refactorings, added logging, renamed locals,
// reordered independent statements). The self-test requires the property's
// rules to stay silent on each of them: a rule that fires here would be a
// false alarm on code where the property still holds.
func init() {
	const pconn = "internal/martian/proxy_conn.go"
	const proxygo = "internal/martian/proxy.go"
	const relay = "internal/martian/h2/relay.go"
	// renamed local
	for _, p := range []string{"C01", "C02", "C04", "C12", "C13"} {
		benign(p, "rename-local-requptype", pconn, "\treqUpType := upgradeType(req.Header)\n\tif reqUpType != \"\" {\n\t\tlog.Debug(ctx, \"upgrade request\", \"type\", reqUpType)\n\t}", "\twantUpgrade := upgradeType(req.Header)\n\tif wantUpgrade != \"\" {\n\t\tlog.Debug(ctx, \"upgrade request\", \"type\", wantUpgrade)\n\t}").
			and(pconn, "\tif reqUpType != \"\" {\n\t\treq.Header.Set(\"Connection\", \"Upgrade\")\n\t\treq.Header.Set(\"Upgrade\", reqUpType)\n\t}", "\tif wantUpgrade != \"\" {\n\t\treq.Header.Set(\"Connection\", \"Upgrade\")\n\t\treq.Header.Set(\"Upgrade\", wantUpgrade)\n\t}")
	}
	// extra logging
	for _, p := range []string{"C03", "C04", "C05", "C11", "C12", "C13"} {
		benign(p, "log-in-connect", pconn, "\tlog.Debug(ctx, \"attempting to establish CONNECT tunnel\", \"host\", req.URL.Host)\n\tres, crw, cerr := p.Connect(ctx, req, terminateTLS)", "\tlog.Debug(ctx, \"attempting to establish CONNECT tunnel\", \"host\", req.URL.Host)\n\tlog.Debug(ctx, \"terminate TLS\", \"value\", terminateTLS)\n\tres, crw, cerr := p.Connect(ctx, req, terminateTLS)")
	}
	// error message text changed
	benign("C08", "error-text", "proxyproto/v2.go", "return nil, errors.New(\"expected address but got zero length header\")", "return nil, errors.New(\"PROXY command without address block\")")
	benign("C12", "error-text", "http_proxy_errors.go", "msg = \"encountered an unexpected error\"", "msg = \"unexpected error\"")
	// early-return form instead of a compound condition
	benign("C17", "match-early-returns", "ruleset/regexp.go", "\treturn r.include != nil && r.include.MatchString(s)\n}", "\tif r.include == nil {\n\t\treturn false\n\t}\n\treturn r.include.MatchString(s)\n}")
	benign("C02", "header-only-if-chain", "internal/martian/flush.go", "\treturn res.Request.Method == http.MethodHead ||\n\t\tres.StatusCode/100 == 1 ||\n\t\tres.StatusCode == http.StatusNoContent ||\n\t\tres.StatusCode == http.StatusNotModified\n", "\tif res.Request.Method == http.MethodHead {\n\t\treturn true\n\t}\n\tswitch {\n\tcase res.StatusCode/100 == 1, res.StatusCode == http.StatusNoContent, res.StatusCode == http.StatusNotModified:\n\t\treturn true\n\t}\n\treturn false\n")
	benign("C04", "auth-split-conditions", "middleware/basic_auth.go", "\tif !ok || subtle.ConstantTimeCompare([]byte(user), []byte(expectedUser)) != 1 || subtle.ConstantTimeCompare([]byte(pass), []byte(expectedPass)) != 1 {\n\t\treturn false\n\t}\n\n\treturn true", "\tif !ok {\n\t\treturn false\n\t}\n\tif subtle.ConstantTimeCompare([]byte(user), []byte(expectedUser)) != 1 {\n\t\treturn false\n\t}\n\treturn subtle.ConstantTimeCompare([]byte(pass), []byte(expectedPass)) == 1")
	// local variable introduced
	benign("C09", "local-for-size", relay, "\t\tif f.flowControlSize() > *connectionWindowSize || f.flowControlSize() > w.windowSize {\n\t\t\tbreak\n\t\t}\n\t\toutput <- f\n\n\t\t*connectionWindowSize -= f.flowControlSize()\n\t\tw.windowSize -= f.flowControlSize()", "\t\tsize := f.flowControlSize()\n\t\tif size > *connectionWindowSize || size > w.windowSize {\n\t\t\tbreak\n\t\t}\n\t\toutput <- f\n\n\t\t*connectionWindowSize -= size\n\t\tw.windowSize -= size")
	benign("C16", "local-for-canonical", "header/header.go", "\t\tif ok && h.Name != canonicalizedName { // key exists, replace it\n\t\t\thh[h.Name] = hh[canonicalizedName]\n\t\t\tdelete(hh, canonicalizedName)\n\t\t}", "\t\tname := h.Name\n\t\tif ok && name != canonicalizedName { // key exists, replace it\n\t\t\thh[name] = hh[canonicalizedName]\n\t\t\tdelete(hh, canonicalizedName)\n\t\t}")
	// independent statements reordered
	benign("C15", "reorder-timeout-wiring", "http_proxy.go", "\thp.proxy.IdleTimeout = hp.config.IdleTimeout\n\thp.proxy.TLSHandshakeTimeout = hp.config.TLSServerConfig.HandshakeTimeout\n\thp.proxy.ReadTimeout = hp.config.ReadTimeout\n", "\thp.proxy.ReadTimeout = hp.config.ReadTimeout\n\thp.proxy.IdleTimeout = hp.config.IdleTimeout\n\thp.proxy.TLSHandshakeTimeout = hp.config.TLSServerConfig.HandshakeTimeout\n")
	benign("C07", "reorder-template-fields", "internal/martian/mitm/mitm.go", "\t\tNotBefore:             time.Now().Add(-c.validity),\n\t\tNotAfter:              time.Now().Add(c.validity),\n", "\t\tNotAfter:              time.Now().Add(c.validity),\n\t\tNotBefore:             time.Now().Add(-c.validity),\n")
	// helper extracted
	benign("C10", "helper-for-begin-block", relay, "\t\t\tr.headerBuffer.Reset()\n\t\t\tr.headerBuffer.Write(f.HeaderBlockFragment())\n\t\t\tr.continuationState = &pushPromiseContinuation{f.PromiseID}", "\t\t\tr.headerBuffer.Reset()\n\t\t\tfrag := f.HeaderBlockFragment()\n\t\t\tr.headerBuffer.Write(frag)\n\t\t\tr.continuationState = &pushPromiseContinuation{promiseID: f.PromiseID}")
	benign("C13", "metrics-comment-and-blank", "net.go", "\tl.metrics.accept()\n\tconn = conntrack.Builder{", "\t// count the connection before wrapping it\n\tl.metrics.accept()\n\n\tconn = conntrack.Builder{")
	benign("C20", "named-config-variable", "ratelimit/listener.go", "\t}, c, connfu.Config{}) // hide ReadFrom and WriteTo methods", "\t}, c, connfu.Config{}) // hide ReadFrom and WriteTo methods: io.Copy must go through Read/Write")
	benign("C06", "debug-log-in-setbasicauth", "http_proxy.go", "\t\t\tp, _ := u.Password()\n\t\t\treq.SetBasicAuth(u.Username(), p)", "\t\t\tp, _ := u.Password()\n\t\t\thp.log.Debug(\"attaching site credentials\", \"user\", u.Username())\n\t\t\treq.SetBasicAuth(u.Username(), p)")
	benign("C18", "comment-and-grow", "internal/martian/header/via_modifier.go", "\tvar sb strings.Builder\n\tsb.Grow(m.nextLen(via))\n", "\tvar sb strings.Builder\n\tsb.Grow(m.nextLen(via) + 8)\n")
	benign("C19", "log-text", "http_proxy.go", "hp.log.Info(\"using upstream proxy\", \"url\", u.Redacted())", "hp.log.Info(\"upstream proxy configured\", \"url\", u.Redacted())")
	benign("C14", "pool-defer-put", "pac/pool.go", "\tpr := pool.get()\n\tp, err = pr.FindProxyForURL(u, hostname)\n\tpool.pool.Put(pr)\n\treturn", "\tpr := pool.get()\n\tdefer pool.pool.Put(pr)\n\treturn pr.FindProxyForURL(u, hostname)")
	benign("C11", "log-when-draining", proxygo, "\tlog.Info(context.TODO(), \"shutting down proxy, draining connections\")\n", "\tlog.Info(context.TODO(), \"shutting down proxy, draining connections\", \"open\", p.connsWg.Load())\n")
	benign("C05", "redirect-into-locals", "net.go", "\tif d.rd != nil {\n\t\tnetwork, address = d.rd(network, address)\n\t}\n", "\tif d.rd != nil {\n\t\tn, a := d.rd(network, address)\n\t\tnetwork, address = n, a\n\t}\n")
	benign("C03", "copy-error-text", "internal/martian/copy.go", "log.Error(ctx, \"failed to copy tunnel\", \"name\", c.name, \"error\", err)", "log.Error(ctx, \"tunnel copy failed\", \"name\", c.name, \"error\", err)")
	benign("C01", "hopbyhop-table-reordered", "internal/martian/header/hopbyhop_modifier.go", "\t\"Te\",\n\t\"Trailer\",\n", "\t\"Trailer\",\n\t\"Te\",\n")

	// second batch: restructurings that keep behaviour
	benign("C18", "via-concat-in-one-write", "internal/martian/header/via_modifier.go", "\t\tsb.WriteString(via)\n\t\tsb.WriteString(\", \")\n", "\t\tsb.WriteString(via + \", \")\n")
	benign("C02", "crlf-via-write", pconn, "\t// End-of-header\n\tif _, err := io.WriteString(w, \"\\r\\n\"); err != nil {", "\t// End-of-header\n\tif _, err := w.Write([]byte(\"\\r\\n\")); err != nil {")
	benign("C11", "single-deferred-cleanup", proxygo, "\tdefer func() {\n\t\tp.connsMu.Lock()\n\t\tdelete(p.conns, conn)\n\t\tp.connsMu.Unlock()\n\t}()\n\tdefer p.connsWg.Add(-1)\n\tdefer conn.Close()\n", "\tdefer func() {\n\t\tconn.Close()\n\t\tp.connsWg.Add(-1)\n\t\tp.connsMu.Lock()\n\t\tdelete(p.conns, conn)\n\t\tp.connsMu.Unlock()\n\t}()\n")
	benign("C13", "report-through-helper", pconn, "\tp.traceWroteResponse(res, nil)\n\n\treturn nil\n}\n\nfunc (p *proxyConn) handle() error {", "\tp.tunnelDone(res)\n\n\treturn nil\n}\n\nfunc (p *proxyConn) tunnelDone(res *http.Response) {\n\tp.traceWroteResponse(res, nil)\n}\n\nfunc (p *proxyConn) handle() error {")
	benign("C08", "combined-fallback-condition", "proxyproto/net.go", "\tif err := c.readHeader(); err != nil {\n\t\treturn c.Conn.RemoteAddr()\n\t}\n\n\tif c.headerErr != nil || c.header.IsLocal || c.header.Source == nil {\n\t\treturn c.Conn.RemoteAddr()\n\t}\n", "\tif err := c.readHeader(); err != nil || c.headerErr != nil || c.header.IsLocal || c.header.Source == nil {\n\t\treturn c.Conn.RemoteAddr()\n\t}\n")
	benign("C09", "clamp-with-min", relay, "\t\tnextPayloadLength := uint32(len(data))\n\t\tif nextPayloadLength > maxPayloadLength {\n\t\t\tnextPayloadLength = maxPayloadLength\n\t\t}\n", "\t\tnextPayloadLength := min(uint32(len(data)), maxPayloadLength)\n")
	benign("C04", "localhost-check-into-local", "http_proxy.go", "\t\tif hp.isLocalhost(req.URL.Hostname()) {\n\t\t\treturn ErrProxyLocalhost\n\t\t}\n\t\treturn nil", "\t\thost := req.URL.Hostname()\n\t\tif hp.isLocalhost(host) {\n\t\t\treturn ErrProxyLocalhost\n\t\t}\n\t\treturn nil")
	benign("C06", "match-with-switch", "credentials.go", "\tif m.global != nil {\n\t\tm.log.Debug(\"global wildcard\")\n\t\treturn m.global\n\t}\n\n\treturn nil\n}", "\tif m.global == nil {\n\t\treturn nil\n\t}\n\tm.log.Debug(\"global wildcard\")\n\treturn m.global\n}")
	benign("C15", "deadline-helper-local", pconn, "\tif d := p.readHeaderTimeout(); d > 0 {\n\t\thdrDeadline = t0.Add(d)\n\t}", "\thdrTimeout := p.readHeaderTimeout()\n\tif hdrTimeout > 0 {\n\t\thdrDeadline = t0.Add(hdrTimeout)\n\t}")
	benign("C16", "apply-if-chain", "header/header.go", "\tcase Remove:\n\t\thh.Del(h.Name)\n\tcase RemoveByPrefix:\n\t\tremoveHeadersByPrefix(hh, h.Name)", "\tcase RemoveByPrefix:\n\t\tremoveHeadersByPrefix(hh, h.Name)\n\tcase Remove:\n\t\thh.Del(h.Name)")
	benign("C17", "build-with-join", "ruleset/regexp.go", "\t\t\tregex.WriteString(\"(?:\")\n\t\t\tregex.WriteString(rules[i].String())\n\t\t\tregex.WriteString(\")\")\n", "\t\t\tregex.WriteString(\"(?:\" + rules[i].String() + \")\")\n")
	benign("C20", "read-early-return", "ratelimit/conn.go", "\tn, err = c.Conn.Read(b)\n\tif n > 0 && c.rxLimiter != nil {\n\t\tc.rxLimiter.WaitN(waitContext, n)\n\t}\n\treturn", "\tn, err = c.Conn.Read(b)\n\tif n <= 0 || c.rxLimiter == nil {\n\t\treturn\n\t}\n\tc.rxLimiter.WaitN(waitContext, n)\n\treturn")
	benign("C03", "copy-defer-done", "internal/martian/copy.go", "\tlog.Debug(ctx, \"tunnel finished copying\", \"name\", c.name)\n\tdonec <- struct{}{}\n}", "\tlog.Debug(ctx, \"tunnel finished copying\", \"name\", c.name, \"dst\", fmt.Sprintf(\"%T\", c.dst))\n\tdonec <- struct{}{}\n}")
	benign("C10", "rename-continuation-field", relay, "\tpriority    http2.PriorityParam\n\tstreamEnded bool\n}\n\nfunc (h *headerContinuation) complete(s Processor, headers []hpack.HeaderField) error {\n\treturn s.Header(headers, h.streamEnded, h.priority)", "\tpriority    http2.PriorityParam\n\tendStream bool\n}\n\nfunc (h *headerContinuation) complete(s Processor, headers []hpack.HeaderField) error {\n\treturn s.Header(headers, h.endStream, h.priority)")
	benign("C12", "status-constants", "http_proxy_errors.go", "\t\t\tcode = http.StatusGatewayTimeout\n", "\t\t\tcode = 504\n")
	benign("C19", "redact-with-switch", "bind/redact.go", "\tif strings.HasPrefix(s, \"data:\") {\n\t\treturn \"data:xxxxx\"\n\t}\n\n\treturn s", "\tif !strings.HasPrefix(s, \"data:\") {\n\t\treturn s\n\t}\n\treturn \"data:xxxxx\"")
	benign("C14", "entrypoint-switch", "pac/pac.go", "\tif fnx != nil {\n\t\tpr.fn = fnx\n\t} else {\n\t\tpr.fn = fn\n\t}", "\tpr.fn = fn\n\tif fnx != nil {\n\t\tpr.fn = fnx\n\t}")
	benign("C07", "verify-options-local", "internal/martian/mitm/mitm.go", "\t\tif _, err := tlsc.Leaf.Verify(x509.VerifyOptions{\n\t\t\tDNSName: hostname,\n\t\t\tRoots:   c.roots,\n\t\t}); err == nil {", "\t\topts := x509.VerifyOptions{\n\t\t\tDNSName: hostname,\n\t\t\tRoots:   c.roots,\n\t\t}\n\t\tif _, err := tlsc.Leaf.Verify(opts); err == nil {")
	benign("C05", "wrapper-named-result", "http_proxy.go", "\t\tif hp.isLocalhost(req.URL.Hostname()) {\n\t\t\treturn nil, nil\n\t\t}\n\t\treturn fn(req)", "\t\tlocal := hp.isLocalhost(req.URL.Hostname())\n\t\tif local {\n\t\t\treturn nil, nil\n\t\t}\n\t\treturn fn(req)")
	benign("C01", "forwarded-url-local", "internal/martian/header/forwarded_modifier.go", "\t\t\tif v := req.Header.Get(\"X-Forwarded-Url\"); v == \"\" {\n\t\t\t\treq.Header.Set(\"X-Forwarded-Url\", req.URL.String())\n\t\t\t}", "\t\t\tif req.Header.Get(\"X-Forwarded-Url\") == \"\" {\n\t\t\t\tu := req.URL.String()\n\t\t\t\treq.Header.Set(\"X-Forwarded-Url\", u)\n\t\t\t}")
}
