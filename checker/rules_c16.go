package main

import (
	"fmt"
	"go/constant"
	"go/types"
	"regexp/syntax"
	"strings"

	"golang.org/x/tools/go/ssa"
)

func init() {
	register("C16", "R1", 15, "writer/reader tables agree: every Action constant is produced by ParseHeader under the documented syntax test, has the documented effect in Apply and prints in String with the very prefix/suffix ParseHeader tests for", c16r1)
	register("C16", "R2", 1, "a map-move (m[a]=m[b]; delete(m,b)) on a header map is guarded by a != b, so renaming a field to its own spelling cannot drop it", c16r2)
	register("C16", "R3", 1, "while ranging over an http.Header the visited entry is deleted by its raw key (delete), never through Header.Del, which canonicalises the key and misses non-canonical names", c16r3)
	register("C16", "R6", 1, "-prefix* ignores case on the stored key: the test that selects a field for removal compares the raw map key with the prefix case-insensitively (strings.EqualFold on the key's head, or both sides folded to one case) - a case-sensitive test misses names stored under a non-canonical key", c16r6)
	register("C16", "R4", 2, "rule grammar: the value group of headerLineRegex cannot contain CR or LF and names are restricted to token characters, anchored at both ends", c16r4)
	register("C16", "R5", 3, "dispatch by message kind: CONNECT requests get the connect rules, other requests the request rules, responses to CONNECT are skipped, the upstream CONNECT header gets the connect rules", c16r5)
}

func actionConsts(r *R) map[string]string { // value -> name
	p := r.pkg("header")
	out := map[string]string{}
	at := r.namedType("header", "Action")
	for _, n := range p.Pkg.Scope().Names() {
		c, ok := p.Pkg.Scope().Lookup(n).(*types.Const)
		if ok && types.Identical(c.Type(), at) {
			out[c.Val().ExactString()] = n
		}
	}
	return out
}

func c16r1(r *R) {
	acts := actionConsts(r)
	if len(acts) < 5 {
		r.missing("header.Action constants")
	}
	parse := r.fn("header", "ParseHeader")
	apply := r.method("header", "Header", "Apply")
	str := r.method("header", "Header", "String")

	const canon = "net/http.CanonicalHeaderKey($0.Name)"
	type spec struct {
		conds   []string // ParseHeader syntax test (held conditions)
		name    string   // Name expression
		value   string
		effects []string // Apply
		print   string   // String
	}
	lenm1 := "(builtin len($0) - 1)"
	specs := map[string]spec{
		"Remove":         {[]string{`strings.HasPrefix($0, "-")`, `!strings.HasSuffix($0, "*")`}, "$0[1:]", "", []string{"(net/http.Header).Del($1, $0.Name)"}, `("-" + $0.Name)`},
		"RemoveByPrefix": {[]string{`strings.HasPrefix($0, "-")`, `strings.HasSuffix($0, "*")`}, "$0[1:" + lenm1 + "]", "", []string{"header.removeHeadersByPrefix($1, $0.Name)"}, `(("-" + $0.Name) + "*")`},
		"Empty":          {[]string{`!strings.HasPrefix($0, "-")`, `!strings.HasPrefix($0, "%")`, `strings.HasSuffix($0, ";")`}, "$0[0:" + lenm1 + "]", "", []string{`(net/http.Header).Set($1, $0.Name, "")`}, `($0.Name + ";")`},
		"Add":            {[]string{`!strings.HasPrefix($0, "-")`, `!strings.HasPrefix($0, "%")`, `!strings.HasSuffix($0, ";")`, `((*regexp.Regexp).FindStringSubmatch(header.headerLineRegex, $0) != nil)`}, "(*regexp.Regexp).FindStringSubmatch(header.headerLineRegex, $0)[1]", "(*regexp.Regexp).FindStringSubmatch(header.headerLineRegex, $0)[2]", []string{"(net/http.Header).Add($1, $0.Name, $0.Value)"}, `(($0.Name + ":") + $0.Value)`},
		"RenameCase":     {[]string{`!strings.HasPrefix($0, "-")`, `strings.HasPrefix($0, "%")`}, "$0[1:]", "", []string{"mapupdate $1[$0.Name] = $1[" + canon + "]", "builtin delete($1, " + canon + ")"}, `("%" + $0.Name)`},
	}

	pp, ok1 := enumPaths(parse, 512, 1)
	ap, ok2 := enumPaths(apply, 512, 1)
	sp, ok3 := enumPaths(str, 512, 1)
	if !ok1 || !ok2 || !ok3 {
		r.undecided("header tables", parse.Pos(), "path enumeration incomplete")
		return
	}
	produced := map[string]bool{}
	for _, p := range pp {
		if len(p.Ret) != 2 || p.Ret[1] != "nil" {
			continue
		}
		// success path
		av := p.Mem["local:h.Action"]
		an, known := acts[av]
		if av == "" {
			an, known = acts["0"], true // zero value
		}
		key := "ParseHeader→" + an
		if !known {
			r.bad("ParseHeader→action("+av+")", p.pos(), "success path stores an unknown action")
			continue
		}
		produced[an] = true
		s := specs[an]
		var why []string
		for _, c := range s.conds {
			if !p.holds(c) {
				why = append(why, "missing syntax test "+c)
			}
		}
		if got := p.Mem["local:h.Name"]; got != s.name {
			why = append(why, "Name = "+got+", want "+s.name)
		}
		if got := p.Mem["local:h.Value"]; got != s.value {
			why = append(why, "Value = "+got+", want "+s.value)
		}
		if !p.holds("(*regexp.Regexp).MatchString(header.headerNameRegex, " + p.Mem["local:h.Name"] + ")") {
			why = append(why, "accepted without the name check on the parsed name")
		}
		r.check(len(why) == 0, key, p.pos(), "syntax test "+strings.Join(s.conds, " ∧ ")+" → "+an+" name="+s.name, strings.Join(why, "; "))
	}
	for v, an := range acts {
		_ = v
		if !produced[an] {
			r.bad("ParseHeader→"+an, parse.Pos(), "no accepting path of ParseHeader produces action "+an)
		}
	}
	// Apply and String: select the path(s) for each action value
	for v, an := range acts {
		s, known := specs[an]
		if !known {
			r.bad("Action."+an, apply.Pos(), "action constant without a specification in the checker (new action?)")
			continue
		}
		sel := "($0.Action == " + v + ")"
		n := 0
		for _, p := range ap {
			if !p.holds(sel) {
				continue
			}
			n++
			eff := p.effects("net/http.CanonicalHeaderKey")
			want := s.effects
			key := "Apply[" + an + "]"
			if an == "RenameCase" {
				present := p.holds("$1["+canon+"]#1") && (p.holds("($0.Name != "+canon+")") || p.holds("("+canon+" != $0.Name)"))
				if !present {
					want = nil
				}
				key += fmt.Sprintf("{exists∧differs=%v}", present)
			}
			r.check(strings.Join(eff, "; ") == strings.Join(want, "; "), key, p.pos(), "effects: "+strings.Join(eff, "; "), "effects are ["+strings.Join(eff, "; ")+"], the rule's documented meaning is ["+strings.Join(want, "; ")+"]")
		}
		if n == 0 {
			r.bad("Apply["+an+"]", apply.Pos(), "Apply has no case for action "+an)
		}
		n = 0
		for _, p := range sp {
			if !p.holds(sel) {
				continue
			}
			n++
			r.check(p.Ret[0] == s.print, "String["+an+"]", p.pos(), "prints "+p.Ret[0], "prints "+p.Ret[0]+", but ParseHeader reads this action from "+s.print)
		}
		if n == 0 {
			r.bad("String["+an+"]", str.Pos(), "String has no case for action "+an)
		}
	}
}

func c16r2(r *R) {
	// every MapUpdate m[a] = m[b] followed by delete(m, b) over a net/http.Header in the module
	n := 0
	for _, fn := range r.modFuncs() {
		eachInstr(fn, func(ins ssa.Instruction) {
			mu, ok := ins.(*ssa.MapUpdate)
			if !ok || typeStr(mu.Map.Type()) != "net/http.Header" {
				return
			}
			var lk *ssa.Lookup
			switch v := mu.Value.(type) {
			case *ssa.Lookup:
				lk = v
			case *ssa.Extract: // v, ok := m[b]
				if l, ok := v.Tuple.(*ssa.Lookup); ok && v.Index == 0 {
					lk = l
				}
			}
			if lk == nil || describe(lk.X) != describe(mu.Map) {
				return
			}
			a, b := describe(mu.Key), describe(lk.Index)
			// is b deleted afterwards?
			var del ssa.Instruction
			for _, c := range calls(fn, nameIs("builtin delete")) {
				args := c.Common().Args
				if describe(args[0]) == describe(mu.Map) && describe(args[1]) == b && reaches(mu, c) {
					del = c
				}
			}
			if del == nil {
				return
			}
			n++
			g := guardedBy(mu.Block(), func(s string) bool {
				return s == "("+a+" != "+b+")" || s == "("+b+" != "+a+")" || s == "!("+a+" == "+b+")" || s == "!("+b+" == "+a+")"
			})
			r.check(g, fname(fn)+"#move("+a+"←"+b+")", mu.Pos(), "move guarded by "+a+" != "+b, "m[a]=m[b]; delete(m,b) without a != b: when both spellings are equal the field is dropped")
		})
	}
}

func c16r3(r *R) {
	for _, fn := range r.modFuncs() {
		eachInstr(fn, func(ins ssa.Instruction) {
			c, ok := ins.(ssa.CallInstruction)
			if !ok {
				return
			}
			cn := calleeName(c.Common())
			isDel := cn == "(net/http.Header).Del"
			isDelete := cn == "builtin delete" && typeStr(refArgs(c.Common())[0].Type()) == "net/http.Header"
			if !isDel && !isDelete {
				return
			}
			args := c.Common().Args
			m, k := describe(args[0]), describe(args[1])
			if k != "next(range("+m+"))#1" {
				return
			}
			r.check(isDelete, fname(fn)+"#delete-visited-key", c.Pos(), "raw key deleted with delete()", "Header.Del canonicalises the range key; a non-canonical key (e.g. after a %name rule) is not deleted")
		})
	}
}

// globalRegexp returns the pattern a package-level regexp variable is compiled from.
func globalRegexp(r *R, pkgRel, name string) (string, ssa.Instruction) {
	p := r.pkg(pkgRel)
	g := refGlobal(p, name)
	ok := g != nil
	if !ok {
		r.missing("global %s.%s", pkgRel, name)
	}
	init := p.Func("init")
	var pat string
	var at ssa.Instruction
	n := 0
	eachInstr(init, func(ins ssa.Instruction) {
		st, ok := ins.(*ssa.Store)
		if !ok || st.Addr != g {
			return
		}
		n++
		if c, ok := st.Val.(*ssa.Call); ok && calleeName(c.Common()) == "regexp.MustCompile" {
			if s, ok := constString(refArgs(c.Common())[0]); ok {
				pat, at = s, st
			}
		}
	})
	if n != 1 || at == nil {
		r.missing("constant pattern of %s.%s", pkgRel, name)
	}
	// no other store anywhere in the module
	for _, fn := range r.modFuncs() {
		if fn == init {
			continue
		}
		eachInstr(fn, func(ins ssa.Instruction) {
			if st, ok := ins.(*ssa.Store); ok && st.Addr == g {
				r.missing("single assignment of %s.%s (also stored in %s)", pkgRel, name, fname(fn))
			}
		})
	}
	return pat, at
}

func canMatchByte(re *syntax.Regexp, b rune) bool {
	switch re.Op {
	case syntax.OpLiteral:
		for _, c := range re.Rune {
			if c == b {
				return true
			}
		}
		return false
	case syntax.OpCharClass:
		for i := 0; i+1 < len(re.Rune); i += 2 {
			if re.Rune[i] <= b && b <= re.Rune[i+1] {
				return true
			}
		}
		return false
	case syntax.OpAnyChar:
		return true
	case syntax.OpAnyCharNotNL:
		return b != '\n'
	}
	for _, s := range re.Sub {
		if canMatchByte(s, b) {
			return true
		}
	}
	return false
}

func findCapture(re *syntax.Regexp, k int) *syntax.Regexp {
	if re.Op == syntax.OpCapture && re.Cap == k {
		return re
	}
	for _, s := range re.Sub {
		if c := findCapture(s, k); c != nil {
			return c
		}
	}
	return nil
}

const tchar = "!#$%&'*+-.^_`|~0123456789abcdefghijklmnopqrstuvwxyzABCDEFGHIJKLMNOPQRSTUVWXYZ"

func onlyTchar(re *syntax.Regexp) bool {
	switch re.Op {
	case syntax.OpLiteral:
		for _, c := range re.Rune {
			if !strings.ContainsRune(tchar, c) {
				return false
			}
		}
		return true
	case syntax.OpCharClass:
		for i := 0; i+1 < len(re.Rune); i += 2 {
			if re.Rune[i+1]-re.Rune[i] > 128 {
				return false
			}
			for c := re.Rune[i]; c <= re.Rune[i+1]; c++ {
				if !strings.ContainsRune(tchar, c) {
					return false
				}
			}
		}
		return true
	case syntax.OpAnyChar, syntax.OpAnyCharNotNL:
		return false
	}
	for _, s := range re.Sub {
		if !onlyTchar(s) {
			return false
		}
	}
	return true
}

func anchoredBothEnds(re *syntax.Regexp) bool {
	if re.Op != syntax.OpConcat || len(re.Sub) < 2 {
		return false
	}
	return re.Sub[0].Op == syntax.OpBeginText && re.Sub[len(re.Sub)-1].Op == syntax.OpEndText
}

func c16r4(r *R) {
	pat, at := globalRegexp(r, "header", "headerLineRegex")
	re, err := syntax.Parse(pat, syntax.Perl)
	if err != nil {
		r.undecided("header.headerLineRegex", at.Pos(), "pattern does not parse: "+err.Error())
	} else {
		g2 := findCapture(re, 2)
		g1 := findCapture(re, 1)
		var why []string
		if g1 == nil || g2 == nil {
			why = append(why, "expected two capture groups (name, value)")
		} else {
			if canMatchByte(g2, '\r') {
				why = append(why, "value group can contain CR")
			}
			if canMatchByte(g2, '\n') {
				why = append(why, "value group can contain LF")
			}
			if !onlyTchar(g1) {
				why = append(why, "name group admits non-token characters")
			}
		}
		if !anchoredBothEnds(re) {
			why = append(why, "pattern is not anchored with ^…$")
		}
		r.check(len(why) == 0, "header.headerLineRegex", at.Pos(), "value group of "+pat+" excludes CR and LF; name group ⊆ token characters; anchored", strings.Join(why, "; ")+" in "+pat)
	}
	pat, at = globalRegexp(r, "header", "headerNameRegex")
	re, err = syntax.Parse(pat, syntax.Perl)
	if err != nil {
		r.undecided("header.headerNameRegex", at.Pos(), "pattern does not parse")
		return
	}
	good := anchoredBothEnds(re) && onlyTchar(&syntax.Regexp{Op: syntax.OpConcat, Sub: re.Sub[1 : len(re.Sub)-1]})
	nonEmpty := false
	if good {
		for _, s := range re.Sub[1 : len(re.Sub)-1] {
			if s.Op == syntax.OpPlus || s.Op == syntax.OpLiteral || s.Op == syntax.OpCharClass || (s.Op == syntax.OpRepeat && s.Min > 0) {
				nonEmpty = true
			}
		}
	}
	r.check(good && nonEmpty, "header.headerNameRegex", at.Pos(), pat+" is anchored, non-empty and ⊆ token characters", pat+" must be ^…$-anchored, non-empty and restricted to token characters")
}

func c16r5(r *R) {
	cfg := r.method("command/run", "command", "configureHeadersModifiers")
	var reqLit, resLit *ssa.Function
	for _, lit := range anonFuncs(cfg) {
		if len(litParams(lit)) != 1 {
			continue
		}
		switch typeStr(litParams(lit)[0].Type()) {
		case "*net/http.Request":
			reqLit = lit
		case "*net/http.Response":
			resLit = lit
		}
	}
	if reqLit == nil || resLit == nil {
		r.missing("request/response header-rule closures in configureHeadersModifiers")
	}
	b := closureBindings(reqLit)
	ps, _ := enumPaths(reqLit, 64, 1)
	var why []string
	for _, p := range ps {
		eff := p.effects()
		target := ""
		if len(eff) == 1 && strings.HasPrefix(eff[0], "(header.Headers).ModifyRequest(^") {
			var i int
			fmt.Sscanf(eff[0], "(header.Headers).ModifyRequest(^%d", &i)
			if i < len(b) {
				target = b[i]
			}
		} else if len(eff) == 1 && strings.HasPrefix(eff[0], "(header.Headers).ModifyRequest(") && strings.HasSuffix(eff[0], ", $0)") {
			// already in the configuring function's terms (a method of a carrier struct built there)
			target = strings.TrimSuffix(strings.TrimPrefix(eff[0], "(header.Headers).ModifyRequest("), ", $0)")
		}
		isConnect := p.holds(`($0.Method == "CONNECT")`)
		notConnect := p.holds(`!($0.Method == "CONNECT")`)
		switch {
		case isConnect && target != "$0.connectHeaders":
			why = append(why, "CONNECT request gets "+target+" ("+strings.Join(eff, ";")+")")
		case notConnect && target != "$0.requestHeaders":
			why = append(why, "non-CONNECT request gets "+target)
		case !isConnect && !notConnect:
			why = append(why, "path does not test the method: "+p.String())
		}
	}
	r.check(len(why) == 0 && len(ps) == 2, "configureHeadersModifiers#request", reqLit.Pos(), "CONNECT → connect rules, otherwise → request rules", strings.Join(why, "; "))

	b = closureBindings(resLit)
	ps, _ = enumPaths(resLit, 64, 1)
	why = nil
	nSkip := 0
	for _, p := range ps {
		eff := p.effects()
		isConnect := p.holds(`($0.Request.Method == "CONNECT")`) && p.holds("($0.Request != nil)")
		if isConnect && len(eff) == 0 {
			nSkip++
		}
		applied := len(eff) == 1 && (strings.HasPrefix(eff[0], "(header.Headers).ModifyResponse(^0, $0)") && len(b) > 0 && b[0] == "$0.responseHeaders" ||
			eff[0] == "(header.Headers).ModifyResponse($0.responseHeaders, $0)")
		if isConnect && len(eff) != 0 {
			why = append(why, "response to CONNECT is modified")
		}
		if !isConnect && !applied {
			why = append(why, "response rules not applied on "+p.String())
		}
	}
	if nSkip == 0 {
		why = append(why, "no path skips the response rules for a CONNECT request")
	}
	r.check(len(why) == 0, "configureHeadersModifiers#response", resLit.Pos(), "response rules applied unless the request is CONNECT", strings.Join(why, "; "))

	// both closures are appended to the matching config lists
	okReq, okRes := false, false
	eachInstr(cfg, func(ins ssa.Instruction) {
		st, ok := ins.(*ssa.Store)
		if !ok {
			return
		}
		c, ok := st.Val.(*ssa.Call)
		if !ok || calleeName(c.Common()) != "builtin append" {
			return
		}
		va := variadicArgs(refArgs(c.Common())[1])
		if len(va) != 1 {
			return
		}
		d := describe(va[0])
		if describe(st.Addr) == "$0.httpProxyConfig.RequestModifiers" && (d == "closure:"+fname(reqLit) || d == "closure:"+fname(reqLit)+"$bound") {
			okReq = true
		}
		if describe(st.Addr) == "$0.httpProxyConfig.ResponseModifiers" && (d == "closure:"+fname(resLit) || d == "closure:"+fname(resLit)+"$bound") {
			okRes = true
		}
	})
	r.check(okReq && okRes, "configureHeadersModifiers#install", cfg.Pos(), "request closure → RequestModifiers, response closure → ResponseModifiers", "header-rule closures are not installed in the matching modifier lists")

	// ... on every path on which the rule list they serve may be non-empty
	cps, complete := enumPaths(cfg, 512, 1)
	if !complete {
		r.undecided("configureHeadersModifiers#install-when", cfg.Pos(), "too many paths")
	} else {
		knownEmpty := func(p Path, list string) bool {
			l := "builtin len($0." + list + ")"
			return p.holds("!("+l+" > 0)") || p.holds("("+l+" == 0)") || p.holds("("+l+" < 1)")
		}
		var why []string
		for _, p := range cps {
			instReq := p.eventIndex(0, "call", prefix("builtin append($0.httpProxyConfig.RequestModifiers, ")) >= 0
			instRes := p.eventIndex(0, "call", prefix("builtin append($0.httpProxyConfig.ResponseModifiers, ")) >= 0
			if !instReq && !(knownEmpty(p, "connectHeaders") && knownEmpty(p, "requestHeaders")) {
				why = append(why, "the request/CONNECT rule modifier is not installed on ["+strings.Join(p.Conds, " ∧ ")+"], where connect or request rules may exist")
			}
			if !instRes && !knownEmpty(p, "responseHeaders") {
				why = append(why, "the response rule modifier is not installed on ["+strings.Join(p.Conds, " ∧ ")+"], where response rules may exist")
			}
		}
		r.check(len(why) == 0, "configureHeadersModifiers#install-when", cfg.Pos(), "a modifier is left out only when the lists it serves are empty", strings.Join(dedupStrings(why), "; "))
	}

	// upstream CONNECT header: connect rules applied in GetProxyConnectHeader
	tp := r.method("command/run", "command", "configureTransportProxy")
	found := false
	for _, lit := range anonFuncs(tp) {
		for _, c := range calls(lit, nameHasSuffix("header.Header).Apply")) {
			recv := describePointee(refArgs(c.Common())[0])
			bs := closureBindings(lit)
			for i, bd := range bs {
				if strings.Contains(recv, fmt.Sprintf("^%d.connectHeaders", i)) && bd == "$0" {
					found = true
				}
			}
		}
	}
	r.check(found, "configureTransportProxy#connect-rules", tp.Pos(), "GetProxyConnectHeader applies c.connectHeaders", "connect header rules are not applied to the upstream CONNECT header")
	_ = constant.MakeBool
}

func c16r6(r *R) {
	fn := r.fn("header", "removeHeadersByPrefix")
	n := 0
	eachInstr(fn, func(ins ssa.Instruction) {
		c, ok := ins.(*ssa.Call)
		if !ok || calleeName(c.Common()) != "builtin delete" {
			return
		}
		n++
		key := describe(refArgs(c.Common())[1])
		var tests []string
		good := false
		for _, g := range guardStrings(c.Block()) {
			if strings.HasPrefix(g, "!") || !strings.Contains(g, key) {
				continue
			}
			switch {
			case strings.HasPrefix(g, "strings.EqualFold("+key+"[0:builtin len($1)], $1)"), strings.HasPrefix(g, "strings.EqualFold("+key+"[:builtin len($1)], $1)"),
				strings.HasPrefix(g, "strings.EqualFold($1, "+key+"["):
				good = true
			case g == "strings.HasPrefix(strings.ToLower("+key+"), strings.ToLower($1))", g == "strings.HasPrefix(strings.ToUpper("+key+"), strings.ToUpper($1))":
				good = true
			case strings.Contains(g, "HasPrefix(") || strings.Contains(g, "EqualFold(") || strings.Contains(g, " == "):
				tests = append(tests, g)
			}
		}
		r.check(good, "removeHeadersByPrefix#fold", c.Pos(), "the stored key is compared with the prefix without regard to case", "the field is selected by "+strings.Join(tests, " ∧ ")+", which is not a case-insensitive comparison of the stored key with the prefix")
	})
	if n == 0 {
		r.bad("removeHeadersByPrefix#fold", fn.Pos(), "no field is deleted")
	}
}
