package main

import (
	"fmt"
	"go/token"
	"strings"

	"golang.org/x/tools/go/ssa"
)

// Event is a side-effecting instruction met on a path.
type Event struct {
	Kind  string // call, go, defer, store, mapupdate, send, rundefers
	Desc  string
	Instr ssa.Instruction
}

// Path is one entry-to-exit path of a function with everything described
// symbolically (no values are computed, no solver is involved: the terms are
// access-path strings as produced by describe, resolved along this path).
type Path struct {
	Conds   []string // branch outcomes: "c" held, "!c" failed
	Events  []Event
	Ret     []string // described results; ["<panic>"] for a panic exit
	Exit    ssa.Instruction
	Blocks  []int
	Cut     bool // stopped at a loop back edge
	CondIns []*ssa.If
	Mem     map[string]string // address term -> last value stored on this path
}

func (p *Path) hasCond(pred func(string) bool) bool {
	for _, c := range p.Conds {
		if pred(c) {
			return true
		}
	}
	return false
}

func (p *Path) String() string {
	var ev []string
	for _, e := range p.Events {
		if e.Kind == "store" {
			continue
		}
		ev = append(ev, e.Kind+" "+e.Desc)
	}
	return fmt.Sprintf("[%s] {%s} => %s", strings.Join(p.Conds, " ∧ "), strings.Join(ev, "; "), strings.Join(p.Ret, ", "))
}

type pstate struct {
	vals   map[ssa.Value]string
	mem    map[string]string
	path   Path
	visits map[*ssa.BasicBlock]int
}

func (s *pstate) clone() *pstate {
	n := &pstate{vals: make(map[ssa.Value]string, len(s.vals)), mem: make(map[string]string, len(s.mem)), visits: make(map[*ssa.BasicBlock]int, len(s.visits))}
	for k, v := range s.vals {
		n.vals[k] = v
	}
	for k, v := range s.mem {
		n.mem[k] = v
	}
	for k, v := range s.visits {
		n.visits[k] = v
	}
	n.path = s.path
	n.path.Conds = append([]string(nil), s.path.Conds...)
	n.path.Events = append([]Event(nil), s.path.Events...)
	n.path.Blocks = append([]int(nil), s.path.Blocks...)
	n.path.CondIns = append([]*ssa.If(nil), s.path.CondIns...)
	return n
}

func (s *pstate) term(v ssa.Value) string {
	if t, ok := s.vals[v]; ok {
		return t
	}
	switch v.(type) {
	case *ssa.Parameter, *ssa.FreeVar, *ssa.Const, *ssa.Global, *ssa.Function, *ssa.Builtin:
		return describeShallow(v, s.term)
	}
	// a value defined off this path (cannot happen for well-formed SSA)
	return describe(v)
}

// enumPaths enumerates the paths of fn. Blocks are entered at most maxVisits
// times per path (1 = loop bodies are cut at the back edge). complete is false
// when more than limit paths exist.
func enumPaths(fn *ssa.Function, limit, maxVisits int) (paths []Path, complete bool) {
	complete = true
	var walk func(s *pstate, b *ssa.BasicBlock, from *ssa.BasicBlock)
	walk = func(s *pstate, b *ssa.BasicBlock, from *ssa.BasicBlock) {
		if !complete {
			return
		}
		if s.visits[b] >= maxVisits {
			s.path.Cut = true
			s.path.Mem = s.mem
			paths = append(paths, s.path)
			return
		}
		s.visits[b]++
		s.path.Blocks = append(s.path.Blocks, b.Index)
		// phis are evaluated simultaneously
		var phiVals []string
		var phis []*ssa.Phi
		for _, ins := range b.Instrs {
			phi, ok := ins.(*ssa.Phi)
			if !ok {
				break
			}
			idx := 0
			for i, p := range b.Preds {
				if p == from {
					idx = i
				}
			}
			phis = append(phis, phi)
			phiVals = append(phiVals, s.term(phi.Edges[idx]))
		}
		for i, phi := range phis {
			s.vals[phi] = phiVals[i]
		}
		for _, ins := range b.Instrs[len(phis):] {
			switch x := ins.(type) {
			case *ssa.DebugRef:
			case *ssa.Store:
				k, v := s.term(x.Addr), s.term(x.Val)
				s.mem[k] = v
				s.path.Events = append(s.path.Events, Event{"store", k + " := " + v, ins})
			case *ssa.MapUpdate:
				s.path.Events = append(s.path.Events, Event{"mapupdate", s.term(x.Map) + "[" + s.term(x.Key) + "] = " + s.term(x.Value), ins})
			case *ssa.Send:
				s.path.Events = append(s.path.Events, Event{"send", s.term(x.Chan) + " <- " + s.term(x.X), ins})
			case *ssa.Go:
				s.path.Events = append(s.path.Events, Event{"go", describeCall(x.Common(), s.term), ins})
			case *ssa.Defer:
				s.path.Events = append(s.path.Events, Event{"defer", describeCall(x.Common(), s.term), ins})
			case *ssa.RunDefers:
				s.path.Events = append(s.path.Events, Event{"rundefers", "", ins})
			case *ssa.Call:
				t := describeCall(x.Common(), s.term)
				s.vals[x] = t
				s.path.Events = append(s.path.Events, Event{"call", t, ins})
			case *ssa.UnOp:
				if x.Op == token.MUL {
					k := s.term(x.X)
					if m, ok := s.mem[k]; ok {
						s.vals[x] = m
					} else {
						s.vals[x] = k
					}
				} else {
					s.vals[x] = describeShallow(x, s.term)
				}
			case *ssa.Alloc:
				s.vals[x] = "local:" + x.Comment
				if x.Comment == "" || x.Heap && strings.HasPrefix(x.Comment, "new") || x.Comment == "complit" || x.Comment == "varargs" || x.Comment == "slicelit" {
					s.vals[x] = fmt.Sprintf("local:%s#%s", x.Comment, x.Name())
				}
			case *ssa.Return:
				for _, r := range x.Results {
					s.path.Ret = append(s.path.Ret, s.term(r))
				}
				s.path.Exit = x
				s.path.Mem = s.mem
				paths = append(paths, s.path)
				if len(paths) > limit {
					complete = false
				}
				return
			case *ssa.Panic:
				s.path.Ret = []string{"<panic " + s.term(x.X) + ">"}
				s.path.Exit = x
				s.path.Mem = s.mem
				paths = append(paths, s.path)
				return
			case *ssa.Jump:
				walk(s, b.Succs[0], b)
				return
			case *ssa.If:
				c := s.term(x.Cond)
				cv, cok := constCond(c)
				for i, succ := range b.Succs {
					if cok && cv != (i == 0) {
						continue // branch decided by two literals: the other edge is infeasible
					}
					ns := s
					if i == 0 {
						ns = s.clone()
					}
					cc := c
					if i == 1 {
						cc = "!" + c
					}
					for strings.HasPrefix(cc, "!!") {
						cc = cc[2:]
					}
					ns.path.Conds = append(ns.path.Conds, cc)
					ns.path.CondIns = append(ns.path.CondIns, x)
					walk(ns, succ, b)
				}
				return
			default:
				if v, ok := ins.(ssa.Value); ok {
					s.vals[v] = describeShallow(v, s.term)
				}
			}
		}
	}
	s := &pstate{vals: map[ssa.Value]string{}, mem: map[string]string{}, visits: map[*ssa.BasicBlock]int{}}
	walk(s, fn.Blocks[0], nil)
	return paths, complete
}

func dumpPaths(P *Program, spec string) {
	for f := range P.AllFuncs {
		if !inModule(f) || len(f.Blocks) == 0 || !strings.HasSuffix(fname(f), spec) {
			continue
		}
		ps, ok := enumPaths(f, 5000, 1)
		fmt.Printf("=== %s: %d paths complete=%v\n", fname(f), len(ps), ok)
		for i, p := range ps {
			if i > 200 {
				break
			}
			fmt.Printf("  %s\n", p.String())
		}
	}
}

// decisionTable extracts the boolean decision function computed by a small
// loop-free function from its path set and compares it with want for every
// assignment of the atoms. atoms maps a described condition (as printed by
// -dump paths:) to a short name. A path condition that is not an atom (or its
// negation) makes the result undecided. The returned strings describe
// mismatches; ok=false means undecided (reason in the first string).
func decisionTable(fn *ssa.Function, atoms map[string]string, resultIdx int, want func(a map[string]bool) bool) (mismatch []string, ok bool) {
	paths, complete := enumPaths(fn, 4096, 1)
	if !complete {
		return []string{"too many paths"}, false
	}
	var names []string
	seen := map[string]bool{}
	for _, n := range atoms {
		if !seen[n] {
			seen[n] = true
			names = append(names, n)
		}
	}
	sortStrings(names)
	atomOf := func(c string) (string, bool, bool) {
		neg := false
		for strings.HasPrefix(c, "!") {
			neg = !neg
			c = c[1:]
		}
		n, ok := atoms[c]
		return n, !neg, ok
	}
	for _, p := range paths {
		if p.Cut {
			return []string{"function has a loop"}, false
		}
		for _, c := range p.Conds {
			if _, _, ok := atomOf(c); !ok {
				return []string{"unrecognised condition " + c}, false
			}
		}
	}
	n := len(names)
	for m := 0; m < 1<<n; m++ {
		a := map[string]bool{}
		for i, nm := range names {
			a[nm] = m&(1<<i) != 0
		}
		var hit *Path
		for i := range paths {
			p := &paths[i]
			cons := true
			for _, c := range p.Conds {
				nm, pol, _ := atomOf(c)
				if a[nm] != pol {
					cons = false
					break
				}
			}
			if cons {
				hit = p
				break
			}
		}
		if hit == nil {
			return []string{fmt.Sprintf("no path for assignment %v", a)}, false
		}
		if _, isPanic := hit.Exit.(*ssa.Panic); isPanic {
			return []string{"panic exit"}, false
		}
		ret := hit.Ret[resultIdx]
		var got bool
		switch ret {
		case "true":
			got = true
		case "false":
			got = false
		default:
			nm, pol, ok := atomOf(ret)
			if !ok {
				return []string{"unrecognised result " + ret}, false
			}
			got = a[nm] == pol
		}
		if got != want(a) {
			mismatch = append(mismatch, fmt.Sprintf("for %s the function yields %v, the specification %v", fmtAssign(a, names), got, want(a)))
		}
	}
	return mismatch, true
}

func fmtAssign(a map[string]bool, names []string) string {
	var parts []string
	for _, n := range names {
		if a[n] {
			parts = append(parts, n)
		} else {
			parts = append(parts, "¬"+n)
		}
	}
	return "{" + strings.Join(parts, ",") + "}"
}

// effects returns the described side-effect events of a path, skipping local
// stores and calls whose callee name is in pure.
func (p *Path) effects(pure ...string) []string {
	var out []string
	for _, e := range p.Events {
		if e.Kind == "store" {
			continue
		}
		skip := false
		for _, pn := range pure {
			if strings.HasPrefix(e.Desc, pn+"(") {
				skip = true
			}
		}
		if skip {
			continue
		}
		if e.Kind == "call" {
			out = append(out, e.Desc)
		} else {
			out = append(out, e.Kind+" "+e.Desc)
		}
	}
	return out
}

// holds reports whether cond c is among the path's branch outcomes.
func (p *Path) holds(c string) bool {
	for _, x := range p.Conds {
		if x == c {
			return true
		}
	}
	return false
}

// closureBindings describes, in the enclosing function, the values captured
// by the function literal lit (index = free variable number).
func closureBindings(lit *ssa.Function) []string {
	parent := lit.Parent()
	if parent == nil {
		return nil
	}
	var out []string
	eachInstr(parent, func(ins ssa.Instruction) {
		mc, ok := ins.(*ssa.MakeClosure)
		if !ok || mc.Fn != lit {
			return
		}
		out = nil
		for _, b := range mc.Bindings {
			out = append(out, describeBinding(b, lit))
		}
	})
	return out
}

// bindingValues returns the captured values themselves.
func bindingValues(lit *ssa.Function) []ssa.Value {
	parent := lit.Parent()
	if parent == nil {
		return nil
	}
	var out []ssa.Value
	eachInstr(parent, func(ins ssa.Instruction) {
		if mc, ok := ins.(*ssa.MakeClosure); ok && mc.Fn == lit {
			out = mc.Bindings
		}
	})
	return out
}

// describeBinding describes a captured variable: a local captured by reference
// with a single store in the enclosing function (and none in the literal)
// prints as the stored value.
func describeBinding(b ssa.Value, lit *ssa.Function) string {
	a, ok := b.(*ssa.Alloc)
	if !ok {
		return describe(b)
	}
	st := storesTo(a)
	if len(st) != 1 {
		return describe(b)
	}
	// the literal must not assign the variable
	for i, bv := range bindingValues(lit) {
		if bv != b {
			continue
		}
		fv := lit.FreeVars[i]
		for _, ref := range *fv.Referrers() {
			if s, ok := ref.(*ssa.Store); ok && s.Addr == fv {
				return describe(b)
			}
		}
	}
	return describe(st[0])
}

// pos returns a valid position for the path's exit.
func (p *Path) pos() token.Pos {
	if p.Exit == nil {
		return token.NoPos
	}
	if p.Exit.Pos().IsValid() {
		return p.Exit.Pos()
	}
	b := p.Exit.Block()
	for i := len(b.Instrs) - 1; i >= 0; i-- {
		if b.Instrs[i].Pos().IsValid() {
			return b.Instrs[i].Pos()
		}
	}
	return p.Exit.Parent().Pos()
}

// eventIndex returns the index of the first event at or after from whose
// kind matches and whose description satisfies pred, or -1.
func (p *Path) eventIndex(from int, kind string, pred func(string) bool) int {
	for i := from; i < len(p.Events); i++ {
		if p.Events[i].Kind == kind && pred(p.Events[i].Desc) {
			return i
		}
	}
	return -1
}

func eq(s string) func(string) bool      { return func(x string) bool { return x == s } }
func prefix(s string) func(string) bool  { return func(x string) bool { return strings.HasPrefix(x, s) } }
func contains(s string) func(string) bool { return func(x string) bool { return strings.Contains(x, s) } }

// constCond evaluates a comparison of two integer literals ("(32 == 0)").
func constCond(c string) (bool, bool) {
	switch {
	case c == "(nil == nil)":
		return true, true
	case c == "(nil != nil)":
		return false, true
	case strings.HasPrefix(c, "(make(") && strings.HasSuffix(c, ") == nil)") && balanced(c[1:len(c)-len(" == nil)")]):
		return false, true
	case strings.HasPrefix(c, "(make(") && strings.HasSuffix(c, ") != nil)") && balanced(c[1:len(c)-len(" != nil)")]):
		return true, true
	}
	var a, b int64
	var op string
	if n, _ := fmt.Sscanf(c, "(%d %s %d)", &a, &op, &b); n != 3 {
		return false, false
	}
	op = strings.TrimSuffix(op, ")")
	if !strings.HasSuffix(c, fmt.Sprintf(" %d)", b)) || !strings.HasPrefix(c, fmt.Sprintf("(%d ", a)) {
		return false, false
	}
	switch op {
	case "==":
		return a == b, true
	case "!=":
		return a != b, true
	case "<":
		return a < b, true
	case "<=":
		return a <= b, true
	case ">":
		return a > b, true
	case ">=":
		return a >= b, true
	}
	return false, false
}

// balanced reports whether s is one parenthesised call expression.
func balanced(s string) bool {
	depth := 0
	for i, ch := range s {
		switch ch {
		case '(':
			depth++
		case ')':
			depth--
			if depth == 0 && i != len(s)-1 {
				return false
			}
		}
	}
	return depth == 0
}
