package main

import (
	"sort"
	"go/types"
	"fmt"
	"go/token"
	"hash/fnv"
	"strings"

	"golang.org/x/tools/go/ssa"
)

// Event is a side-effecting instruction met on a path.
type Event struct {
	Kind  string // call, go, defer, store, mapupdate, send, rundefers
	Desc  string
	Instr ssa.Instruction
}

// Path is one entry-to-exit path of a function with everything described
// symbolically (no values are computed, no solver is involved: the terms are
// access-path strings as produced by describe, resolved along this path).
type Path struct {
	Conds   []string // branch outcomes: "c" held, "!c" failed
	Events  []Event
	Ret     []string // described results; ["<panic>"] for a panic exit
	Exit    ssa.Instruction
	Blocks  []int
	Cut     bool // stopped at a loop back edge
	CondIns []*ssa.If
	Mem     map[string]string // address term -> last value stored on this path
	Aliases map[string]string // abbreviated call term -> full term (alias mode)
}

func (p *Path) hasCond(pred func(string) bool) bool {
	for _, c := range p.Conds {
		if pred(c) {
			return true
		}
	}
	return false
}

func (p *Path) String() string {
	var ev []string
	for _, e := range p.Events {
		if e.Kind == "store" {
			continue
		}
		ev = append(ev, e.Kind+" "+e.Desc)
	}
	return fmt.Sprintf("[%s] {%s} => %s", strings.Join(p.Conds, " ∧ "), strings.Join(ev, "; "), strings.Join(p.Ret, ", "))
}

// omap is a persistent map: cloning freezes the current layer and gives each
// copy a fresh empty layer on top of it.
type omap[K comparable, V any] struct {
	m      map[K]V
	parent *omap[K, V]
	depth  int
}

func newOmap[K comparable, V any]() *omap[K, V] { return &omap[K, V]{m: map[K]V{}} }

func (o *omap[K, V]) get(k K) (V, bool) {
	for x := o; x != nil; x = x.parent {
		if v, ok := x.m[k]; ok {
			return v, true
		}
	}
	var z V
	return z, false
}

func (o *omap[K, V]) set(k K, v V) { o.m[k] = v }

// keysWithPrefix lists the live string keys that start with prefix (only meaningful for string-keyed maps).
func (o *omap[K, V]) keysWithPrefix(prefix string) []string {
	var out []string
	o.each(func(k K, _ V) {
		if ks, ok := any(k).(string); ok && strings.HasPrefix(ks, prefix) {
			out = append(out, ks)
		}
	})
	sort.Strings(out)
	return out
}

func (o *omap[K, V]) child() *omap[K, V] {
	if o.depth > 64 {
		// flatten long chains
		flat := map[K]V{}
		o.each(func(k K, v V) { flat[k] = v })
		return &omap[K, V]{m: map[K]V{}, parent: &omap[K, V]{m: flat}, depth: 1}
	}
	return &omap[K, V]{m: map[K]V{}, parent: o, depth: o.depth + 1}
}

// each visits every live binding once (inner layers shadow outer ones).
func (o *omap[K, V]) each(f func(K, V)) {
	seen := map[K]bool{}
	for x := o; x != nil; x = x.parent {
		for k, v := range x.m {
			if !seen[k] {
				seen[k] = true
				f(k, v)
			}
		}
	}
}

func (o *omap[K, V]) flat() map[K]V {
	m := map[K]V{}
	o.each(func(k K, v V) { m[k] = v })
	return m
}

type pstate struct {
	vals      *omap[ssa.Value, string]
	mem       *omap[string, string]
	facts     *omap[string, bool] // normalised condition -> outcome on this path
	tuples    *omap[ssa.Value, []string]
	deferArgs *omap[*ssa.Defer, []string]
	fnArgs    *omap[ssa.Value, ssa.Value] // function-typed parameter of a walked-in frame -> the function value it was given
	path      Path
}

func (s *pstate) clone() *pstate {
	n := &pstate{}
	ov, om, of, ot, od := s.vals, s.mem, s.facts, s.tuples, s.deferArgs
	if s.fnArgs != nil {
		oa := s.fnArgs
		s.fnArgs, n.fnArgs = oa.child(), oa.child()
	}
	s.vals, n.vals = ov.child(), ov.child()
	s.mem, n.mem = om.child(), om.child()
	s.facts, n.facts = of.child(), of.child()
	s.tuples, n.tuples = ot.child(), ot.child()
	s.deferArgs, n.deferArgs = od.child(), od.child()
	n.path = s.path
	n.path.Conds = append([]string(nil), s.path.Conds...)
	n.path.Events = append([]Event(nil), s.path.Events...)
	n.path.Blocks = append([]int(nil), s.path.Blocks...)
	n.path.CondIns = append([]*ssa.If(nil), s.path.CondIns...)
	return n
}

func (s *pstate) term(v ssa.Value) string {
	if t, ok := s.vals.get(v); ok {
		return t
	}
	switch v.(type) {
	case *ssa.Parameter, *ssa.FreeVar, *ssa.Const, *ssa.Global, *ssa.Function, *ssa.Builtin:
		return describeShallow(v, s.term)
	}
	// a value defined off this path (cannot happen for well-formed SSA)
	return describe(v)
}

// enumPaths enumerates the paths of fn. Blocks are entered at most maxVisits
// times per path (1 = loop bodies are cut at the back edge). complete is false
// when more than limit paths exist.
func enumPaths(fn *ssa.Function, limit, maxVisits int) (paths []Path, complete bool) {
	return enumPathsInline(fn, limit, maxVisits, nil)
}

type frame struct {
	fn      *ssa.Function
	call    ssa.Value // the call instruction being inlined (nil for the root, or for a deferred call)
	retB    *ssa.BasicBlock
	retI    int
	parent  *frame
	visits  map[*ssa.BasicBlock]int
	defers  []*ssa.Defer
	serial  int
	after   func(s *pstate) // continuation used for inlined deferred calls
	out     *[]outcome      // terminal states of an inlined activation
	evStart int
}

type outcome struct {
	s    *pstate
	rets []string
}

// InlineOpts configures interprocedural path enumeration.
type InlineOpts struct {
	Inline func(*ssa.Function) bool
	// Relevant selects the facts (normalised conditions) and memory entries that
	// distinguish outcomes of an inlined callee; outcomes that agree on the
	// callee's results, on the interesting events it produced and on every
	// relevant fact are merged (one representative continues in the caller).
	// nil: never merge.
	Relevant    func(string) bool
	Interesting func(Event) bool
	// Alias abbreviates long call terms as callee‹hash of arguments›; the
	// table is kept in Path.Aliases.
	Alias bool
	// OnCall lets a rule model a call that is not inlined: it may record
	// memory facts about the result (set(addressTerm, valueTerm)).
	OnCall func(c *ssa.Call, m *CallModel)
}

// CallModel is what OnCall may say about a call that is not inlined.
type CallModel struct {
	Result string
	Args   []string
	s      *pstate
}

// Set records that the memory at addr holds val after the call.
func (m *CallModel) Set(addr, val string) { m.s.mem.set(addr, val) }

// Fact records the outcome of a condition (as printed in path conditions).
func (m *CallModel) Fact(cond string, val bool) {
	nc, pol := normCond(cond)
	m.s.facts.set(nc, val == pol)
}

func (f *frame) onStack(fn *ssa.Function) bool {
	for x := f; x != nil; x = x.parent {
		if x.fn == fn {
			return true
		}
	}
	return false
}

// enumPathsInline is enumPaths with interprocedural inlining: a call (or a
// deferred call, when the defers run) whose static callee satisfies inline is
// walked in the caller's state, parameters bound to the argument terms, so
// that facts established by the caller are visible in the callee and the
// callee's results in the caller. Branches whose condition contradicts an
// earlier outcome on the same path, or is decided by literals, are pruned.
func enumPathsInline(fn *ssa.Function, limit, maxVisits int, inline func(*ssa.Function) bool) (paths []Path, complete bool) {
	return enumPathsOpts(fn, limit, maxVisits, InlineOpts{Inline: inline})
}

func enumPathsOpts(fn *ssa.Function, limit, maxVisits int, opts InlineOpts) (paths []Path, complete bool) {
	userInline := opts.Inline
	// functions that did not exist in the reference tree (extracted helpers) are always walked in place:
	// extracting a helper changes no behaviour and must not change what a rule sees
	inline := func(f *ssa.Function) bool {
		if isNewHelper(f) {
			return true
		}
		return userInline != nil && userInline(f)
	}
	complete = true
	outcomeKey := func(o outcome, evStart int) string {
		var b strings.Builder
		b.WriteString(strings.Join(o.rets, ","))
		b.WriteString("|")
		for _, e := range o.s.path.Events[evStart:] {
			if opts.Interesting != nil && opts.Interesting(e) {
				b.WriteString(e.Kind + " " + e.Desc + ";")
			}
		}
		b.WriteString("|")
		var fs []string
		o.s.facts.each(func(k string, v bool) {
			if opts.Relevant(k) {
				fs = append(fs, fmt.Sprintf("%s=%v", k, v))
			}
		})
		o.s.mem.each(func(k, v string) {
			if opts.Relevant(k) || opts.Relevant(v) {
				fs = append(fs, k+":="+v)
			}
		})
		sortStrings(fs)
		b.WriteString(strings.Join(fs, ";"))
		return b.String()
	}
	merge := func(outs []outcome, evStart int) []outcome {
		if opts.Relevant == nil {
			return outs
		}
		seen := map[string]bool{}
		var res []outcome
		for _, o := range outs {
			k := outcomeKey(o, evStart)
			if !seen[k] {
				seen[k] = true
				res = append(res, o)
			}
		}
		return res
	}
	serial := 0
	var run func(s *pstate, b *ssa.BasicBlock, from *ssa.BasicBlock, start int, fr *frame)

	finish := func(s *pstate, exit ssa.Instruction, ret []string) {
		s.path.Ret = ret
		s.path.Exit = exit
		s.path.Mem = s.mem.flat()
		paths = append(paths, s.path)
		if len(paths) > limit {
			complete = false
		}
	}
	// leave returns from an inlined frame (or finishes the path at the root)
	leave := func(s *pstate, fr *frame, exit ssa.Instruction, rets []string) {
		if fr.parent == nil && fr.after == nil {
			finish(s, exit, rets)
			return
		}
		*fr.out = append(*fr.out, outcome{s, rets})
	}
	_ = merge
	var pendingArgVals []ssa.Value // the argument values of the call about to be entered (set by the call sites below)
	enter := func(s *pstate, callee *ssa.Function, args []string, bindings []string, fr *frame) *frame {
		serial++
		nf := &frame{fn: callee, parent: fr, visits: map[*ssa.BasicBlock]int{}, serial: serial, out: new([]outcome), evStart: len(s.path.Events)}
		for i, p := range callee.Params {
			if i < len(args) {
				s.vals.set(p, args[i])
			}
		}
		for i, p := range callee.Params {
			if i >= len(pendingArgVals) {
				break
			}
			av := pendingArgVals[i]
			if ap, ok := av.(*ssa.Parameter); ok && s.fnArgs != nil {
				if fv, ok := s.fnArgs.get(ap); ok {
					av = fv
				}
			}
			switch av.(type) {
			case *ssa.Function, *ssa.MakeClosure:
				if s.fnArgs == nil {
					s.fnArgs = newOmap[ssa.Value, ssa.Value]()
				}
				s.fnArgs.set(p, av)
			}
		}
		pendingArgVals = nil
		for i, fv := range callee.FreeVars {
			if i < len(bindings) {
				s.vals.set(fv, bindings[i])
			}
		}
		return nf
	}
	calleeOf := func(s *pstate, c *ssa.CallCommon) (*ssa.Function, []string) {
		if c.IsInvoke() {
			return nil, nil
		}
		val := c.Value
		forced := false
		if p, ok := val.(*ssa.Parameter); ok && s.fnArgs != nil {
			// a helper walked in place calls the function it was handed: that function is known here
			if fv, ok := s.fnArgs.get(p); ok {
				val, forced = fv, true
			}
		}
		switch v := val.(type) {
		case *ssa.Function:
			if len(v.Blocks) > 0 && (forced || inline(v)) {
				return v, nil
			}
		case *ssa.MakeClosure:
			if forced {
				f := v.Fn.(*ssa.Function)
				if len(f.Blocks) > 0 {
					var b []string
					for _, x := range v.Bindings {
						b = append(b, s.term(x))
					}
					return f, b
				}
			}
			f := v.Fn.(*ssa.Function)
			if len(f.Blocks) > 0 && inline(f) {
				var b []string
				for _, x := range v.Bindings {
					b = append(b, s.term(x))
				}
				return f, b
			}
		}
		return nil, nil
	}

	run = func(s *pstate, b *ssa.BasicBlock, from *ssa.BasicBlock, start int, fr *frame) {
		if !complete {
			return
		}
		if start == 0 {
			if fr.visits[b] >= maxVisits {
				s.path.Cut = true
				finish(s, nil, nil)
				return
			}
			// frames are shared between sibling paths: copy on write
			nv := make(map[*ssa.BasicBlock]int, len(fr.visits)+1)
			for k, v := range fr.visits {
				nv[k] = v
			}
			nv[b]++
			nfr := *fr
			nfr.visits = nv
			fr = &nfr
			if fr.parent == nil {
				s.path.Blocks = append(s.path.Blocks, b.Index)
			}
			var phiVals []string
			var phis []*ssa.Phi
			for _, ins := range b.Instrs {
				phi, ok := ins.(*ssa.Phi)
				if !ok {
					break
				}
				idx := 0
				for i, p := range b.Preds {
					if p == from {
						idx = i
					}
				}
				phis = append(phis, phi)
				phiVals = append(phiVals, s.term(phi.Edges[idx]))
			}
			for i, phi := range phis {
				s.vals.set(phi, phiVals[i])
			}
			start = len(phis)
		}
		for i := start; i < len(b.Instrs); i++ {
			ins := b.Instrs[i]
			switch x := ins.(type) {
			case *ssa.DebugRef:
			case *ssa.Store:
				k, v := s.term(x.Addr), s.term(x.Val)
				if fa, ok := x.Addr.(*ssa.FieldAddr); ok && isGroupField(fa.X.Type(), fa.Field) {
					// a grouping field is transparent: its copy is a copy of each reference field it holds
					st, _ := x.Val.Type().Underlying().(*types.Struct)
					fresh := false // a local never stored as a whole: fields not stored on this path are zero
					if ld, ok := x.Val.(*ssa.UnOp); ok && ld.Op == token.MUL {
						if a, ok := ld.X.(*ssa.Alloc); ok {
							_, whole := s.mem.get(s.term(a))
							fresh = !whole
						}
					}
					srcPre := v + "."
					if ld, ok := x.Val.(*ssa.UnOp); ok && ld.Op == token.MUL {
						if pre, ok := groupingLocal(ld.X); ok {
							srcPre = pre // a local of the grouping type itself: its fields read like plain locals
						}
					}
					for j := 0; st != nil && j < st.NumFields(); j++ {
						fn := "." + fieldName(x.Val.Type(), j)
						if fv, ok := s.mem.get(srcPre + fn[1:]); ok {
							s.mem.set(k+fn, fv)
						} else if fv, ok := s.mem.get(v + fn); ok {
							s.mem.set(k+fn, fv)
						} else if fresh {
							s.mem.set(k+fn, zeroTerm(st.Field(j).Type()))
						} else {
							s.mem.set(k+fn, v+fn)
						}
						s.path.Events = append(s.path.Events, Event{"store", k + fn + " := " + func() string { m, _ := s.mem.get(k + fn); return m }(), ins})
					}
					continue
				}
				s.mem.set(k, v)
				// a struct copied as a whole from something that is not a local (`c := *p`): each field of the copy
				// is that field of the source, until it is assigned
				_, isLoad := x.Val.(*ssa.UnOp) // not a parameter or receiver spilled into its local: rules name those by the local
				if st, isStruct := x.Val.Type().Underlying().(*types.Struct); isStruct && isLoad && !strings.HasPrefix(v, "local:") && k != v && !strings.Contains(v, "(") && strings.HasPrefix(k, "local:") && !strings.Contains(k, "#") {
					for j := 0; j < st.NumFields(); j++ {
						fn := "." + fieldName(x.Val.Type(), j)
						s.mem.set(k+fn, v+fn)
					}
				}
				// the value receiver (or a struct parameter) of a walked-in helper that did not exist in the reference,
				// spilled into its local: its fields are the fields of what the call passed
				if q, isParam := x.Val.(*ssa.Parameter); isParam && fr.parent != nil && isNewHelper(fr.fn) && q.Parent() == fr.fn && strings.HasPrefix(k, "local:") && !strings.HasPrefix(v, "local:") && !strings.Contains(v, "(") {
					if st, isStruct := x.Val.Type().Underlying().(*types.Struct); isStruct {
						for j := 0; j < st.NumFields(); j++ {
							fn := "." + fieldName(x.Val.Type(), j)
							s.mem.set(k+fn, v+fn)
						}
					}
				}
				// a struct copied as a whole carries what is known about its fields
				if _, isStruct := x.Val.Type().Underlying().(*types.Struct); isStruct && strings.HasPrefix(v, "local:") && k != v {
					for _, fk := range s.mem.keysWithPrefix(v + ".") {
						if fv, ok := s.mem.get(fk); ok {
							s.mem.set(any(k+fk[len(v):]).(string), fv)
						}
					}
				}
				s.path.Events = append(s.path.Events, Event{"store", k + " := " + v, ins})
			case *ssa.MapUpdate:
				s.path.Events = append(s.path.Events, Event{"mapupdate", s.term(x.Map) + "[" + s.term(x.Key) + "] = " + s.term(x.Value), ins})
			case *ssa.Send:
				s.path.Events = append(s.path.Events, Event{"send", s.term(x.Chan) + " <- " + s.term(x.X), ins})
			case *ssa.Go:
				s.path.Events = append(s.path.Events, Event{"go", describeCall(x.Common(), s.term), ins})
			case *ssa.Defer:
				s.path.Events = append(s.path.Events, Event{"defer", describeCall(x.Common(), s.term), ins})
				// remember argument terms now (defer evaluates them here)
				nfr := *fr
				nfr.defers = append(append([]*ssa.Defer(nil), fr.defers...), x)
				fr = &nfr
				var at []string
				for _, a := range callArgs(x.Common()) {
					at = append(at, s.term(a))
				}
				s.deferArgs.set(x, at)
			case *ssa.RunDefers:
				s.path.Events = append(s.path.Events, Event{"rundefers", "", ins})
				// run the deferred calls LIFO; inlined ones are walked, the others recorded as calls
				defs := fr.defers
				var next func(s *pstate, k int)
				cont := func(s *pstate) { run(s, b, nil, i+1, fr) }
				next = func(s *pstate, k int) {
					if k < 0 {
						cont(s)
						return
					}
					d := defs[k]
					callee, binds := calleeOf(s, d.Common())
					if callee != nil && !fr.onStack(callee) {
						nf := enter(s, callee, deferArgsOf(s, d), binds, fr)
						nf.after = func(*pstate) {}
						run(s, callee.Blocks[0], nil, 0, nf)
						for _, o := range merge(*nf.out, nf.evStart) {
							next(o.s, k-1)
						}
						return
					}
					s.path.Events = append(s.path.Events, Event{"call", "deferred " + describeCall(d.Common(), s.term), d})
					next(s, k-1)
				}
				next(s, len(defs)-1)
				return
			case *ssa.Call:
				callee, binds := calleeOf(s, x.Common())
				if callee != nil && !fr.onStack(callee) {
					var at []string
					for _, a := range callArgs(x.Common()) {
						at = append(at, s.term(a))
					}
					if !isNewHelper(callee) && callee.Synthetic == "" { // a helper split out of this function is walked as if it were still here; so is a bound-method wrapper
						s.path.Events = append(s.path.Events, Event{"enter", fname(callee), ins})
					}
					pendingArgVals = callArgs(x.Common())
					nf := enter(s, callee, at, binds, fr)
					nf.call, nf.retB, nf.retI = x, b, i+1
					run(s, callee.Blocks[0], nil, 0, nf)
					for _, o := range merge(*nf.out, nf.evStart) {
						if len(o.rets) == 1 {
							o.s.vals.set(x, o.rets[0])
						} else {
							o.s.vals.set(x, "("+strings.Join(o.rets, ", ")+")")
							o.s.tuples.set(x, o.rets)
						}
						run(o.s, b, nil, i+1, fr)
					}
					return
				}
				t := describeCall(x.Common(), s.term)
				if opts.Alias && len(t) > 70 {
					h := fnv.New32a()
					h.Write([]byte(t))
					a := fmt.Sprintf("%s‹%04x›", shortName(calleeName(x.Common())), h.Sum32()&0xffff)
					if s.path.Aliases == nil {
						s.path.Aliases = map[string]string{}
					} else if _, ok := s.path.Aliases[a]; !ok {
						na := make(map[string]string, len(s.path.Aliases)+1)
						for k, v := range s.path.Aliases {
							na[k] = v
						}
						s.path.Aliases = na
					}
					s.path.Aliases[a] = t
					t = a
				}
				s.vals.set(x, t)
				s.path.Events = append(s.path.Events, Event{"call", t, ins})
				if opts.OnCall != nil {
					var at []string
					for _, a := range callArgs(x.Common()) {
						at = append(at, s.term(a))
					}
					opts.OnCall(x, &CallModel{Result: t, Args: at, s: s})
				}
			case *ssa.Extract:
				if tup, ok := s.tuples.get(x.Tuple); ok && x.Index < len(tup) {
					s.vals.set(x, tup[x.Index])
				} else {
					s.vals.set(x, describeShallow(x, s.term))
				}
			case *ssa.UnOp:
				if x.Op == token.MUL {
					k := s.term(x.X)
					if m, ok := s.mem.get(k); ok {
						s.vals.set(x, m)
					} else {
						s.vals.set(x, k)
					}
				} else {
					s.vals.set(x, describeShallow(x, s.term))
				}
			case *ssa.Alloc:
				nm := "local:" + localName(x)
				if x.Comment == "" || x.Heap && strings.HasPrefix(x.Comment, "new") || x.Comment == "complit" || x.Comment == "varargs" || x.Comment == "slicelit" {
					nm = fmt.Sprintf("local:%s#%s", x.Comment, x.Name())
				}
				if fr.parent != nil || fr.after != nil {
					nm += fmt.Sprintf("@%d", fr.serial)
				}
				s.vals.set(x, nm)
				if _, isStruct := x.Type().(*types.Pointer).Elem().Underlying().(*types.Struct); isStruct {
					s.mem.set(nm+"#type", typeStr(x.Type())) // what kind of object the term stands for
				}
			case *ssa.Return:
				var rets []string
				for _, r := range x.Results {
					rets = append(rets, s.term(r))
				}
				leave(s, fr, x, rets)
				return
			case *ssa.Panic:
				s.path.Ret = []string{"<panic " + s.term(x.X) + ">"}
				s.path.Exit = x
				s.path.Mem = s.mem.flat()
				paths = append(paths, s.path)
				return
			case *ssa.Jump:
				run(s, b.Succs[0], b, 0, fr)
				return
			case *ssa.If:
				c := s.term(x.Cond)
				nc, pol := normCond(c)
				cv, cok := constCond(nc)
				literal := cok // decided by the literals alone (tagless switch, folded constants): not a fact about the input
				if !cok {
					if known, ok := s.facts.get(nc); ok {
						cv, cok = known, true
					}
				}
				for k, succ := range b.Succs {
					want := (k == 0) == pol // value nc must have for this edge
					if cok && cv != want {
						continue
					}
					ns := s
					if k == 0 {
						ns = s.clone()
					}
					ns.facts.set(nc, want)
					cc := c
					if k == 1 {
						cc = "!" + c
					}
					for strings.HasPrefix(cc, "!!") {
						cc = cc[2:]
					}
					cc = spellCond(cc)
					if !literal {
						ns.path.Conds = append(ns.path.Conds, cc)
						ns.path.CondIns = append(ns.path.CondIns, x)
					}
					run(ns, succ, b, 0, fr)
				}
				return
			default:
				if v, ok := ins.(ssa.Value); ok {
					s.vals.set(v, describeShallow(v, s.term))
				}
			}
		}
	}
	s := &pstate{vals: newOmap[ssa.Value, string](), mem: newOmap[string, string](), facts: newOmap[string, bool](), tuples: newOmap[ssa.Value, []string](), deferArgs: newOmap[*ssa.Defer, []string]()}
	run(s, fn.Blocks[0], nil, 0, &frame{fn: fn, visits: map[*ssa.BasicBlock]int{}})
	return paths, complete
}

// normCond strips negations and rewrites (A != B) as the negation of (A == B);
// it returns the positive atom and the polarity the original string asserts.
func normCond(c string) (string, bool) {
	pol := true
	for strings.HasPrefix(c, "!") {
		c = c[1:]
		pol = !pol
	}
	if l, op, r, ok := splitTop(c); ok {
		// a literal on the left: turn the comparison round
		if isNumLit(l) && !isNumLit(r) {
			if f, ok := map[string]string{"<": ">", "<=": ">=", ">": "<", ">=": "<=", "==": "==", "!=": "!="}[op]; ok {
				l, r, op = r, l, f
			}
		}
		switch op {
		case "!=":
			return "(" + l + " == " + r + ")", !pol
		case ">":
			return "(" + l + " <= " + r + ")", !pol
		case ">=":
			return "(" + l + " < " + r + ")", !pol
		case "==", "<", "<=":
			return "(" + l + " " + op + " " + r + ")", pol
		}
	}
	return c, pol
}

func isNumLit(s string) bool {
	if s == "" {
		return false
	}
	for i, ch := range s {
		if !(ch >= '0' && ch <= '9' || i == 0 && ch == '-' && len(s) > 1) {
			return false
		}
	}
	return true
}

func dumpPaths(P *Program, spec string) {
	for f := range P.AllFuncs {
		if !inModule(f) || len(f.Blocks) == 0 || !strings.HasSuffix(fname(f), spec) {
			continue
		}
		ps, ok := enumPaths(f, 5000, 1)
		fmt.Printf("=== %s: %d paths complete=%v\n", fname(f), len(ps), ok)
		for i, p := range ps {
			if i > 200 {
				break
			}
			fmt.Printf("  %s\n", p.String())
		}
	}
}

// decisionTable extracts the boolean decision function computed by a small
// loop-free function from its path set and compares it with want for every
// assignment of the atoms. atoms maps a described condition (as printed by
// -dump paths:) to a short name. A path condition that is not an atom (or its
// negation) makes the result undecided. The returned strings describe
// mismatches; ok=false means undecided (reason in the first string).
func decisionTable(fn *ssa.Function, atoms map[string]string, resultIdx int, want func(a map[string]bool) bool) (mismatch []string, ok bool) {
	paths, complete := enumPaths(fn, 4096, 1)
	if !complete {
		return []string{"too many paths"}, false
	}
	var names []string
	seen := map[string]bool{}
	for _, n := range atoms {
		if !seen[n] {
			seen[n] = true
			names = append(names, n)
		}
	}
	sortStrings(names)
	type natom struct {
		name string
		pol  bool
	}
	norm := map[string]natom{}
	for k, n := range atoms {
		nk, pol := normCond(k)
		norm[nk] = natom{n, pol}
	}
	atomOf := func(c string) (string, bool, bool) {
		nc, pol := normCond(c)
		if a, ok := norm[nc]; ok {
			return a.name, pol == a.pol, true
		}
		// the atom may have been given in its != spelling
		neg := false
		for strings.HasPrefix(c, "!") {
			neg = !neg
			c = c[1:]
		}
		n, ok := atoms[c]
		return n, !neg, ok
	}
	for _, p := range paths {
		if p.Cut {
			return []string{"function has a loop"}, false
		}
		for _, c := range p.Conds {
			if _, _, ok := atomOf(c); !ok {
				return []string{"unrecognised condition " + c}, false
			}
		}
	}
	n := len(names)
	for m := 0; m < 1<<n; m++ {
		a := map[string]bool{}
		for i, nm := range names {
			a[nm] = m&(1<<i) != 0
		}
		var hit *Path
		for i := range paths {
			p := &paths[i]
			cons := true
			for _, c := range p.Conds {
				nm, pol, _ := atomOf(c)
				if a[nm] != pol {
					cons = false
					break
				}
			}
			if cons {
				hit = p
				break
			}
		}
		if hit == nil {
			return []string{fmt.Sprintf("no path for assignment %v", a)}, false
		}
		if _, isPanic := hit.Exit.(*ssa.Panic); isPanic {
			return []string{"panic exit"}, false
		}
		ret := hit.Ret[resultIdx]
		// the result: a constant, an atom, or a boolean combination of those (x != y, x == y, !x)
		var eval func(t string) (bool, bool)
		eval = func(t string) (bool, bool) {
			switch t {
			case "true":
				return true, true
			case "false":
				return false, true
			}
			if nm, pol, ok := atomOf(t); ok {
				return a[nm] == pol, true
			}
			if strings.HasPrefix(t, "!") {
				v, ok := eval(t[1:])
				return !v, ok
			}
			if l, op, rr, ok := splitTop(t); ok && (op == "!=" || op == "==") {
				lv, lok := eval(l)
				rv, rok := eval(rr)
				if lok && rok {
					return (lv == rv) == (op == "=="), true
				}
			}
			return false, false
		}
		got, ok := eval(ret)
		if !ok {
			return []string{"unrecognised result " + ret}, false
		}
		if got != want(a) {
			mismatch = append(mismatch, fmt.Sprintf("for %s the function yields %v, the specification %v", fmtAssign(a, names), got, want(a)))
		}
	}
	return mismatch, true
}

func fmtAssign(a map[string]bool, names []string) string {
	var parts []string
	for _, n := range names {
		if a[n] {
			parts = append(parts, n)
		} else {
			parts = append(parts, "¬"+n)
		}
	}
	return "{" + strings.Join(parts, ",") + "}"
}

// effects returns the described side-effect events of a path, skipping local
// stores and calls whose callee name is in pure.
func (p *Path) effects(pure ...string) []string {
	var out []string
	for _, e := range p.Events {
		if e.Kind == "store" {
			continue
		}
		skip := false
		for _, pn := range pure {
			if strings.HasPrefix(e.Desc, pn+"(") {
				skip = true
			}
		}
		if skip {
			continue
		}
		if e.Kind == "call" {
			out = append(out, e.Desc)
		} else {
			out = append(out, e.Kind+" "+e.Desc)
		}
	}
	return out
}

// holds reports whether cond c is among the path's branch outcomes.
func (p *Path) holds(c string) bool {
	ck, cp := normCond(c)
	for _, x := range p.Conds {
		if x == c {
			return true
		}
		if xk, xp := normCond(x); xk == ck && xp == cp {
			return true
		}
	}
	return false
}

// closureBindings describes, in the enclosing function, the values captured
// by the function literal lit (index = free variable number).
func closureBindings(lit *ssa.Function) []string {
	if recv, ok := boundSite[lit]; ok {
		if cb := carrierBindings(recv); cb != nil {
			return cb // a carrier struct: its fields are what a literal would have captured
		}
		return []string{describe(recv)} // the receiver of a method value is what a literal would have captured
	}
	parent := lit.Parent()
	if parent == nil {
		return nil
	}
	var out []string
	eachInstr(parent, func(ins ssa.Instruction) {
		mc, ok := ins.(*ssa.MakeClosure)
		if !ok || mc.Fn != lit {
			return
		}
		out = nil
		for _, b := range mc.Bindings {
			out = append(out, describeBinding(b, lit))
		}
	})
	return out
}

// bindingValues returns the captured values themselves.
func bindingValues(lit *ssa.Function) []ssa.Value {
	if recv, ok := boundSite[lit]; ok {
		return []ssa.Value{recv}
	}
	parent := lit.Parent()
	if parent == nil {
		return nil
	}
	var out []ssa.Value
	eachInstr(parent, func(ins ssa.Instruction) {
		if mc, ok := ins.(*ssa.MakeClosure); ok && mc.Fn == lit {
			out = mc.Bindings
		}
	})
	return out
}

// describeBinding describes a captured variable: a local captured by reference
// with a single store in the enclosing function (and none in the literal)
// prints as the stored value.
func describeBinding(b ssa.Value, lit *ssa.Function) string {
	a, ok := b.(*ssa.Alloc)
	if !ok {
		return describe(b)
	}
	st := storesTo(a)
	if len(st) != 1 {
		return describe(b)
	}
	// the literal must not assign the variable
	for i, bv := range bindingValues(lit) {
		if bv != b {
			continue
		}
		fv := lit.FreeVars[i]
		for _, ref := range *fv.Referrers() {
			if s, ok := ref.(*ssa.Store); ok && s.Addr == fv {
				return describe(b)
			}
		}
	}
	return describe(st[0])
}

// pos returns a valid position for the path's exit.
func (p *Path) pos() token.Pos {
	if p.Exit == nil {
		return token.NoPos
	}
	if p.Exit.Pos().IsValid() {
		return p.Exit.Pos()
	}
	b := p.Exit.Block()
	for i := len(b.Instrs) - 1; i >= 0; i-- {
		if b.Instrs[i].Pos().IsValid() {
			return b.Instrs[i].Pos()
		}
	}
	return p.Exit.Parent().Pos()
}

// eventIndex returns the index of the first event at or after from whose
// kind matches and whose description satisfies pred, or -1.
func (p *Path) eventIndex(from int, kind string, pred func(string) bool) int {
	for i := from; i < len(p.Events); i++ {
		if p.Events[i].Kind == kind && pred(p.Events[i].Desc) {
			return i
		}
	}
	return -1
}

func eq(s string) func(string) bool { return func(x string) bool { return x == s } }
func prefix(s string) func(string) bool {
	return func(x string) bool { return strings.HasPrefix(x, s) }
}
func contains(s string) func(string) bool {
	return func(x string) bool { return strings.Contains(x, s) }
}

// constCond evaluates a comparison of two integer literals ("(32 == 0)").
func constCond(c string) (bool, bool) {
	if c == "true" {
		return true, true
	}
	if c == "false" {
		return false, true
	}
	if strings.HasSuffix(c, " == nil)") && strings.HasPrefix(c, "(") {
		t := c[1 : len(c)-len(" == nil)")]
		if nonNilTerm(t) {
			return false, true
		}
	}
	switch {
	case c == "(nil == nil)":
		return true, true
	case c == "(nil != nil)":
		return false, true
	case strings.HasPrefix(c, "(make(") && strings.HasSuffix(c, ") == nil)") && balanced(c[1:len(c)-len(" == nil)")]):
		return false, true
	case strings.HasPrefix(c, "(make(") && strings.HasSuffix(c, ") != nil)") && balanced(c[1:len(c)-len(" != nil)")]):
		return true, true
	}
	// comparison of two integer expressions made of literals
	l, op, rgt, ok := splitTop(c)
	if !ok {
		return false, false
	}
	if l == rgt && !strings.Contains(l, "(") {
		// the same global / parameter / field path on both sides
		switch op {
		case "==":
			return true, true
		case "!=":
			return false, true
		}
	}
	a, ok1 := evalInt(l)
	b, ok2 := evalInt(rgt)
	if !ok1 || !ok2 {
		return false, false
	}
	switch op {
	case "==":
		return a == b, true
	case "!=":
		return a != b, true
	case "<":
		return a < b, true
	case "<=":
		return a <= b, true
	case ">":
		return a > b, true
	case ">=":
		return a >= b, true
	}
	return false, false
}

// balanced reports whether s is one parenthesised call expression.
func balanced(s string) bool {
	depth := 0
	for i, ch := range s {
		switch ch {
		case '(':
			depth++
		case ')':
			depth--
			if depth == 0 && i != len(s)-1 {
				return false
			}
		}
	}
	return depth == 0
}

// nonNilTerm recognises terms that are never nil: package-level sentinel
// errors (err*/Err* globals) and freshly constructed errors.
func nonNilTerm(t string) bool {
	if strings.HasPrefix(t, "fmt.Errorf(") || strings.HasPrefix(t, "errors.New(") {
		return balanced(t)
	}
	// goja never hands out a nil Value: Null(), Undefined() and Runtime.ToValue(x) return a value object
	if strings.HasPrefix(t, "github.com/dop251/goja.Null(") || strings.HasPrefix(t, "github.com/dop251/goja.Undefined(") {
		return balanced(t)
	}
	if rest, ok := strings.CutPrefix(t, "(*github.com/dop251/goja.Runtime).ToValue"); ok {
		return balanced(rest) // one call: the argument list closes at the end of the term
	}
	if strings.ContainsAny(t, " ()[]#") {
		return false
	}
	i := strings.LastIndex(t, ".")
	if i < 0 {
		return false
	}
	n := t[i+1:]
	return strings.HasPrefix(n, "err") || strings.HasPrefix(n, "Err")
}

func deferArgsOf(s *pstate, d *ssa.Defer) []string {
	a, _ := s.deferArgs.get(d)
	return a
}

// splitTop splits "(L op R)" at its top-level binary operator.
func splitTop(c string) (l, op, r string, ok bool) {
	if !strings.HasPrefix(c, "(") || !strings.HasSuffix(c, ")") {
		return
	}
	depth, inStr := 0, false
	for i := 1; i < len(c)-1; i++ {
		ch := c[i]
		if ch == '"' && c[i-1] != '\\' {
			inStr = !inStr
		}
		if inStr {
			continue
		}
		switch ch {
		case '(', '[':
			depth++
		case ')', ']':
			depth--
		case ' ':
			if depth == 0 {
				rest := c[i+1:]
				j := strings.IndexByte(rest, ' ')
				if j <= 0 {
					return
				}
				if !binOps[rest[:j]] {
					continue // a space inside a term ("invoke T.m(...)", "builtin len(x)")
				}
				return c[1:i], rest[:j], rest[j+1 : len(rest)-1], true
			}
		}
	}
	return
}

var binOps = map[string]bool{"==": true, "!=": true, "<": true, "<=": true, ">": true, ">=": true, "+": true, "-": true, "*": true, "/": true, "%": true, "&": true, "|": true, "^": true, "<<": true, ">>": true, "&^": true}

// evalInt evaluates an integer literal or a parenthesised + - * / expression over literals.
func evalInt(t string) (int64, bool) {
	var v int64
	if _, err := fmt.Sscanf(t, "%d", &v); err == nil && fmt.Sprint(v) == t {
		return v, true
	}
	l, op, r, ok := splitTop(t)
	if !ok {
		return 0, false
	}
	a, ok1 := evalInt(l)
	b, ok2 := evalInt(r)
	if !ok1 || !ok2 {
		return 0, false
	}
	switch op {
	case "+":
		return a + b, true
	case "-":
		return a - b, true
	case "*":
		return a * b, true
	case "/":
		if b == 0 {
			return 0, false
		}
		return a / b, true
	}
	return 0, false
}

// outcome reports how condition c (any spelling) was decided on this path, if it was tested.
func (p *Path) outcome(c string) (val, known bool) {
	if p.holds(c) {
		return true, true
	}
	if p.holds("!" + c) {
		return false, true
	}
	return false, false
}

// fact reports the outcome of the (normalised, ==-spelled) condition atom on this path, if it was tested.
func (p *Path) fact(atom string) (val, known bool) {
	for _, c := range p.Conds {
		nc, pol := normCond(c)
		if nc == atom {
			return pol, true
		}
	}
	return false, false
}

// spellCond gives a condition its house spelling: a comparison with nil is
// always written with != ("(x != nil)" / "!(x != nil)"), whichever way round
// the source tested it - `if err == nil { continue }` and `if err != nil {...}`
// then read the same to every rule.
func spellCond(c string) string {
	pol := true
	body := c
	for strings.HasPrefix(body, "!") {
		body = body[1:]
		pol = !pol
	}
	if l, op, r, ok := splitTop(body); ok && op == "==" && (r == "nil" || l == "nil") {
		if l == "nil" {
			l, r = r, l
		}
		body = "(" + l + " != nil)"
		pol = !pol
	} else if ok && op == "!=" && l == "nil" {
		body = "(" + r + " != nil)"
	}
	if pol {
		return body
	}
	return "!" + body
}

// zeroTerm prints the zero value of t the way constants are described.
func zeroTerm(t types.Type) string {
	switch u := t.Underlying().(type) {
	case *types.Basic:
		switch {
		case u.Info()&types.IsBoolean != 0:
			return "false"
		case u.Info()&types.IsString != 0:
			return `""`
		case u.Info()&types.IsNumeric != 0:
			return "0"
		}
	case *types.Struct, *types.Array:
		return "zero:" + typeStr(t)
	}
	return "nil"
}
