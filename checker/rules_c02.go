package main

import (
	"fmt"
	"strings"

	"golang.org/x/tools/go/ssa"
)

func init() {
	register("C02", "R1", 3, "head termination: on every path on which the manual head writers report success, what was written ends in an empty line (each field line complete, then CRLF); the literal CONNECT reply is a complete HTTP/1.1 200 head", c02r1)
	register("C02", "R2", 4, "header-only classification: isHeaderOnlySpec ⇔ HEAD ∨ 1xx ∨ 204 ∨ 304; shouldChunk ⇔ HTTP/1.1 ∧ ContentLength = -1 ∧ not header-only; an unexpected body of a header-only (non-101) upstream reply is closed and replaced; the connection writer sends bodies through Response.Write only for replies that may have one", c02r2)
	register("C02", "R3", 4, "close decision pairing in writeResponse: Close is set when shutting down or when the request asked for it and cleared only for CONNECT 2xx and 101; Close ⇒ Connection: close is added before the write; every path flushes; a write/flush error or Close ⇒ errClose, otherwise nil", c02r3)
	register("C02", "R4", 8, "response-mutation footprint: the only writes to an in-flight response are rebinding Request, the Close flag, Connection: close, the Connection/Upgrade re-add for an upgrade reply, the upgrade body hand-over, the header-only body replacement, the relayed CONNECT rejection's protocol fields and the restored challenge", c02r4)
	register("C02", "R6", 2, "no bytes of one exchange leak into the next: the request body is closed on every exit of an exchange (same analysis as C01.R7)", bodyClosedOnEveryExit)
	register("C02", "R5", 5, "sibling agreement and incremental delivery: both response writers pick the event-stream flusher for text/event-stream and the chunk flusher for chunked replies; the flushing writer forwards p unmodified, flushes when the pattern ends in or spans into p, and keeps the last byte", c02r5)
}

func c02r1(r *R) {
	fn := r.fn(mpkg, "writeHeaderOnlyResponse")
	ps, complete := enumPaths(fn, 20000, 2)
	if !complete {
		r.undecided("writeHeaderOnlyResponse", fn.Pos(), "too many paths")
		return
	}
	nOK := 0
	bad := map[string]bool{}
	for _, p := range ps {
		if p.Cut || len(p.Ret) != 1 || p.Ret[0] != "nil" {
			continue
		}
		nOK++
		state := "LS" // line start
		for _, e := range p.Events {
			if e.Kind != "call" {
				continue
			}
			switch {
			case strings.HasPrefix(e.Desc, "fmt.Fprintf($0, "):
				f := strings.TrimPrefix(e.Desc, "fmt.Fprintf($0, ")
				if state == "DONE" {
					bad["data written after the blank line"] = true
				}
				if strings.HasPrefix(f, `"`) && strings.Contains(f[:strings.Index(f[1:], `"`)+2], `\r\n"`) {
					state = "LS"
				} else {
					state = "MID"
				}
			case e.Desc == "(net/http.Header).Write($1.Header, $0)":
				if state != "LS" {
					bad["header fields written in the middle of a line"] = true
				}
				state = "LS"
			case strings.HasPrefix(e.Desc, "io.WriteString($0, ") || strings.HasPrefix(e.Desc, "invoke io.Writer.Write($0, ") || strings.HasPrefix(e.Desc, "fmt.Fprint($0, "):
				if state == "DONE" {
					bad["data written after the blank line"] = true
				}
				arg := e.Desc[strings.Index(e.Desc, "($0, ")+5 : len(e.Desc)-1]
				if strings.HasPrefix(e.Desc, "fmt.Fprint(") {
					// single constant operand in the variadic slice
					if v, ok := p.Mem[strings.TrimSuffix(arg, "[:]")+"[0]"]; ok {
						arg = v
					}
				}
				switch {
				case arg == `"\r\n"` && state == "LS":
					state = "DONE"
				case strings.HasPrefix(arg, `"`) && strings.HasSuffix(arg, `\r\n"`):
					state = "LS"
				default:
					state = "MID"
				}
			case strings.Contains(e.Desc, "($0,") || strings.Contains(e.Desc, ", $0)"):
				if strings.HasPrefix(e.Desc, "io.") || strings.HasPrefix(e.Desc, "fmt.F") || strings.Contains(e.Desc, ".Write") {
					bad["unmodelled write "+e.Desc] = true
				}
			}
		}
		if state != "DONE" {
			bad[fmt.Sprintf("a success path ends in state %s: the head is not terminated by an empty line [trailer=%v]", state, p.holds("(builtin len($1.Trailer) > 0)"))] = true
		}
	}
	var why []string
	for k := range bad {
		why = append(why, k)
	}
	r.check(nOK > 0 && len(why) == 0, "writeHeaderOnlyResponse#terminated", fn.Pos(), fmt.Sprintf("all %d success paths end with a complete field line followed by CRLF", nOK), strings.Join(why, "; "))
	// status line format
	okFmt := false
	for _, c := range calls(fn, nameIs("fmt.Fprintf")) {
		f, _ := constString(refArgs(c.Common())[1])
		va := variadicArgs(refArgs(c.Common())[2])
		okFmt = f == "HTTP/%d.%d %03d %s\r\n" && len(va) == 4 && describe(va[0]) == "$1.ProtoMajor" && describe(va[1]) == "$1.ProtoMinor" && describe(va[2]) == "$1.StatusCode"
	}
	r.check(okFmt, "writeHeaderOnlyResponse#status-line", fn.Pos(), "HTTP/major.minor code reason CRLF from the response's own fields", "status line is not built from the response's protocol version and status")
	// reason phrase: the origin's own, whenever it sent one (Response.Write, which writes replies with a body, does the same)
	var phraseBad []string
	nPhrase := 0
	for _, p := range ps {
		var text string
		for k, v := range p.Mem {
			if strings.HasPrefix(k, "local:varargs#") && strings.HasSuffix(k, "[3]") {
				text = v
			}
		}
		if text == "" {
			continue
		}
		nPhrase++
		switch {
		case p.holds(`!($1.Status == "")`):
			if !strings.Contains(text, "$1.Status,") && !strings.Contains(text, "$1.Status)") && text != "$1.Status" {
				phraseBad = append(phraseBad, "the origin sent a status text but the phrase written is "+shorten(text, 90))
			}
		case p.holds(`($1.Status == "")`):
		default:
			phraseBad = append(phraseBad, "a path writes "+shorten(text, 60)+" without looking at the origin's status text")
		}
	}
	r.check(nPhrase > 0 && len(phraseBad) == 0, "writeHeaderOnlyResponse#reason-phrase", fn.Pos(), "the origin's reason phrase is relayed when there is one", strings.Join(dedupStrings(phraseBad), "; "))
	// CONNECT literal
	p := r.pkg(mpkg)
	g, _ := refGlobal(p, "connectOKResponse"), true
	val := ""
	if g != nil {
		eachInstr(p.Func("init"), func(ins ssa.Instruction) {
			if st, ok := ins.(*ssa.Store); ok && st.Addr == g {
				if cv, ok := st.Val.(*ssa.Convert); ok {
					val, _ = constString(cv.X)
				}
			}
		})
	}
	wc := r.fn(mpkg, "writeConnectOKResponse")
	cps, _ := enumPaths(wc, 8, 1)
	good := val == "HTTP/1.1 200 OK\r\n\r\n" && len(cps) == 1 && cps[0].eventIndex(0, "call", eq("invoke io.Writer.Write($0, martian.connectOKResponse)")) >= 0
	r.check(good, "writeConnectOKResponse", wc.Pos(), "writes the literal 200 head, terminated by an empty line", fmt.Sprintf("CONNECT reply literal is %q", val))
}

func c02r2(r *R) {
	ho := r.fn(mpkg, "isHeaderOnlySpec")
	mm, ok := decisionTable(ho, map[string]string{`($0.Request.Method == "HEAD")`: "head", "(($0.StatusCode / 100) == 1)": "1xx", "($0.StatusCode == 204)": "204", "($0.StatusCode == 304)": "304"}, 0,
		func(a map[string]bool) bool { return a["head"] || a["1xx"] || a["204"] || a["304"] })
	report := func(key string, fn *ssa.Function, mm []string, ok bool, spec string) {
		switch {
		case !ok:
			r.undecided(key, fn.Pos(), strings.Join(mm, "; "))
		case len(mm) > 0:
			r.bad(key, fn.Pos(), "differs from "+spec+": "+strings.Join(mm, "; "))
		default:
			r.ok(key, fn.Pos(), spec)
		}
	}
	report("isHeaderOnlySpec", ho, mm, ok, "HEAD ∨ 1xx ∨ 204 ∨ 304 (RFC 9110 6.4.1)")
	sc := r.fn(mpkg, "shouldChunk")
	mm, ok = decisionTable(sc, map[string]string{"($0.ProtoMajor == 1)": "maj1", "($0.ProtoMinor == 1)": "min1", "($0.ContentLength == -1)": "unknownLen", "martian.isHeaderOnlySpec($0)": "headerOnly"}, 0,
		func(a map[string]bool) bool { return a["maj1"] && a["min1"] && a["unknownLen"] && !a["headerOnly"] })
	report("shouldChunk", sc, mm, ok, "HTTP/1.1 ∧ ContentLength = -1 ∧ ¬header-only")
	// roundTrip: body replacement
	rt := r.method(mpkg, "Proxy", "roundTrip")
	ps, _ := enumPaths(rt, 256, 1)
	var why []string
	n := 0
	for _, p := range ps {
		res := "invoke net/http.RoundTripper.RoundTrip($0.rt, $1)#0"
		if p.eventIndex(0, "call", prefix("invoke net/http.RoundTripper.RoundTrip($0.rt, $1)")) < 0 || len(p.Ret) != 2 || p.Ret[1] == "invoke net/http.RoundTripper.RoundTrip($0.rt, $1)#1" && p.Ret[0] == "nil" {
			continue
		}
		n++
		cond := p.holds("martian.isHeaderOnlySpec("+res+")") && p.holds("!("+res+".StatusCode == 101)") || p.holds("martian.isHeaderOnlySpec("+res+")") && p.holds("("+res+".StatusCode != 101)")
		cond = cond && (p.holds("("+res+".Body != net/http.NoBody)") || p.holds("!("+res+".Body == net/http.NoBody)"))
		replaced := p.Mem[res+".Body"] == "net/http.NoBody"
		closed := p.eventIndex(0, "call", eq("invoke io.ReadCloser.Close("+res+".Body)")) >= 0
		if cond != replaced || replaced != closed {
			why = append(why, fmt.Sprintf("header-only∧¬101∧has-body=%v but replaced=%v closed=%v", cond, replaced, closed))
		}
		if p.Ret[0] != res {
			why = append(why, "returns "+p.Ret[0])
		}
	}
	r.check(n >= 2 && len(why) == 0, "Proxy.roundTrip#header-only-body", rt.Pos(), "unexpected body of a header-only, non-101 reply is closed and replaced by NoBody; the response itself is returned", strings.Join(dedupStrings(why), "; "))
	// writeResponse dispatch
	wr := r.method(mpkg, "proxyConn", "writeResponse")
	ps, complete := enumPaths(wr, 50000, 1)
	if !complete {
		r.undecided("proxyConn.writeResponse#dispatch", wr.Pos(), "too many paths")
		return
	}
	why = nil
	kinds := map[string]int{}
	for _, p := range ps {
		var writers []string
		for _, e := range p.Events {
			if e.Kind != "call" {
				continue
			}
			switch {
			case strings.HasPrefix(e.Desc, "martian.writeConnectOKResponse("):
				writers = append(writers, "connect")
			case strings.HasPrefix(e.Desc, "martian.writeHeaderOnlyResponse("):
				writers = append(writers, "head")
			case strings.HasPrefix(e.Desc, "(*net/http.Response).Write($1, "):
				writers = append(writers, "body:"+strings.TrimSuffix(strings.TrimPrefix(e.Desc, "(*net/http.Response).Write($1, "), ")"))
			}
		}
		if len(writers) != 1 {
			why = append(why, fmt.Sprintf("a path writes the response %d times", len(writers)))
			continue
		}
		w := writers[0]
		connect2xx := p.holds(`($1.Request.Method == "CONNECT")`) && p.holds("(($1.StatusCode / 100) == 2)")
		headerOnly := p.holds("martian.isHeaderOnlySpec($1)")
		sse := p.holds("martian.isTextEventStream($1)")
		chunk := p.holds("martian.shouldChunk($1)")
		want := "body:$0.brw"
		switch {
		case connect2xx:
			want = "connect"
		case headerOnly:
			want = "head"
		case sse:
			want = "body:martian.newPatternFlushWriter($0.brw.Writer, $0.brw.Writer, martian.sseFlushPattern)"
		case chunk:
			want = "body:martian.newPatternFlushWriter($0.brw.Writer, $0.brw.Writer, martian.chunkFlushPattern)"
		}
		kinds[want]++
		if w != want {
			why = append(why, fmt.Sprintf("reply class [connect2xx=%v headerOnly=%v sse=%v chunk=%v] is written by %s, expected %s", connect2xx, headerOnly, sse, chunk, w, want))
		}
		if strings.HasPrefix(w, "body:") && !p.holds("!martian.isHeaderOnlySpec($1)") {
			why = append(why, "Response.Write used without having excluded header-only replies (golang/go#62015: it emits body framing for them)")
		}
	}
	r.check(len(kinds) == 5 && len(why) == 0, "proxyConn.writeResponse#dispatch", wr.Pos(), "CONNECT 2xx → literal; header-only → manual head; event stream → SSE flusher; chunked → chunk flusher; else buffered Response.Write", strings.Join(dedupStrings(why), "; "))
}

func c02r3(r *R) {
	wr := r.method(mpkg, "proxyConn", "writeResponse")
	ps, complete := enumPathsInline(wr, 100000, 1, func(c *ssa.Function) bool { return fname(c) == "martian.skipTraceWroteResponse" })
	if !complete {
		r.undecided("proxyConn.writeResponse#close", wr.Pos(), "too many paths")
		return
	}
	bad := map[string]map[string]bool{"set": {}, "header": {}, "flush": {}, "ret": {}}
	for _, p := range ps {
		closing := p.holds("(*martian.Proxy).closing($0.Proxy)")
		reqClose := p.holds("$1.Request.Close")
		connect2xx := p.holds(`($1.Request.Method == "CONNECT")`) && p.holds("(($1.StatusCode / 100) == 2)")
		is101 := p.holds("($1.StatusCode == 101)")
		// the Close flag as the function leaves it: last store, else the incoming value
		final, stored := p.Mem["$1.Close"]
		wantTrue := closing || reqClose && !connect2xx && !is101
		wantFalse := !closing && (connect2xx || is101)
		switch {
		case wantTrue && final != "true":
			bad["set"][fmt.Sprintf("closing=%v req.Close=%v connect2xx=%v 101=%v: Close is %q, want true", closing, reqClose, connect2xx, is101, final)] = true
		case wantFalse && final != "false":
			bad["set"][fmt.Sprintf("closing=%v connect2xx=%v 101=%v: Close is %q, want false", closing, connect2xx, is101, final)] = true
		case !wantTrue && !wantFalse && stored:
			bad["set"]["Close rewritten to "+final+" although neither shutdown, request nor tunnel class asks for it"] = true
		}
		isClose := final == "true" || !stored && p.holds("$1.Close")
		// header
		ai := p.eventIndex(0, "call", eq(`(net/http.Header).Add($1.Header, "Connection", "close")`))
		wi := -1
		for i, e := range p.Events {
			if e.Kind == "call" && (strings.HasPrefix(e.Desc, "martian.writeConnectOKResponse(") || strings.HasPrefix(e.Desc, "martian.writeHeaderOnlyResponse(") || strings.HasPrefix(e.Desc, "(*net/http.Response).Write($1, ")) {
				wi = i
			}
		}
		if isClose != (ai >= 0) || ai >= 0 && ai > wi {
			bad["header"][fmt.Sprintf("Close=%v but Connection: close added=%v (before the write=%v)", isClose, ai >= 0, ai >= 0 && ai < wi)] = true
		}
		// flush
		fi := p.eventIndex(wi+1, "call", prefix("(*bufio.ReadWriter).Flush($0.brw)"))
		if fi < 0 {
			fi = p.eventIndex(wi+1, "call", prefix("(*bufio.Writer).Flush($0.brw.Writer)"))
		}
		if wi < 0 || fi < 0 {
			bad["flush"]["a path returns without flushing the buffered writer after the write"] = true
			continue
		}
		// return value
		wdesc := p.Events[wi].Desc
		werr := p.hasCond(func(c string) bool { return c == "("+wdesc+" != nil)" })
		ferr := p.hasCond(func(c string) bool {
			return strings.HasPrefix(c, "((*bufio.") && strings.Contains(c, ").Flush(") && strings.HasSuffix(c, " != nil)")
		})
		want := "nil"
		if werr || ferr || isClose {
			want = "martian.errClose"
		}
		if p.Ret[0] != want {
			bad["ret"][fmt.Sprintf("write error=%v flush error=%v Close=%v returns %s, want %s", werr, ferr, isClose, p.Ret[0], want)] = true
		}
	}
	msgs := map[string]string{"set": "Close flag follows shutdown / request / tunnel class", "header": "Close ⇔ Connection: close added before the write", "flush": "every path flushes after the write", "ret": "error or Close ⇒ errClose, else nil"}
	for k, m := range bad {
		var why []string
		for w := range m {
			why = append(why, w)
		}
		r.check(len(why) == 0, "proxyConn.writeResponse#"+k, wr.Pos(), msgs[k], strings.Join(why, "; "))
	}
}

func c02r4(r *R) {
	type key struct{ fn, what string }
	allowed := map[key]string{
		{"(*martian.proxyConn).handle", "field:Request"}:                           "rebinding to the request that was read",
		{"(martian.proxyHandler).handleRequest", "field:Request"}:                  "rebinding to the request that was read",
		{"(*martian.Proxy).connectHTTP", "field:Request"}:                          "upstream CONNECT rejection relayed for the client's request",
		{"(*martian.proxyConn).handle", "header:Set Connection"}:                   "re-added for an upgrade reply",
		{"(*martian.proxyConn).handle", "header:Set Upgrade"}:                      "re-added for an upgrade reply",
		{"(martian.proxyHandler).handleRequest", "header:Set Connection"}:          "re-added for an upgrade reply",
		{"(martian.proxyHandler).handleRequest", "header:Set Upgrade"}:             "re-added for an upgrade reply",
		{"(*martian.proxyConn).handleUpgradeResponse", "field:Body"}:               "upgrade hand-over: the body became the tunnel",
		{"(martian.proxyHandler).handleUpgradeResponse", "field:Body"}:             "upgrade hand-over: the body became the tunnel",
		{"(*martian.Proxy).roundTrip", "field:Body"}:                               "unexpected body of a header-only reply dropped (R2)",
		{"(*martian.proxyConn).writeResponse", "field:Close"}:                      "connection management (R3)",
		{"(*martian.proxyConn).writeResponse", "header:Add Connection"}:            "Connection: close (R3)",
		{"(*martian.proxyConn).writeErrorResponse", "field:Request"}:               "relayed CONNECT rejection bound to the client's request",
		{"(*martian.proxyConn).writeErrorResponse", "field:Proto"}:                 "relayed CONNECT rejection answers in the client's protocol version",
		{"(*martian.proxyConn).writeErrorResponse", "field:ProtoMajor"}:            "same",
		{"(*martian.proxyConn).writeErrorResponse", "field:ProtoMinor"}:            "same",
		{"(*martian.proxyConn).writeErrorResponse", "header:Proxy-Authenticate"}:   "the proxy's own challenge restored (C04.R6)",
		{"(martian.proxyHandler).writeErrorResponse", "field:Request"}:             "as above, handler mode",
		{"(martian.proxyHandler).writeErrorResponse", "field:Proto"}:               "as above",
		{"(martian.proxyHandler).writeErrorResponse", "field:ProtoMajor"}:          "as above",
		{"(martian.proxyHandler).writeErrorResponse", "field:ProtoMinor"}:          "as above",
		{"(martian.proxyHandler).writeErrorResponse", "header:Proxy-Authenticate"}: "as above",
		{"martian.OnProxyConnectResponse", "field:Header"}:                         "error response built from the upstream's CONNECT reply",
		{"martian.OnProxyConnectResponse", "field:ContentLength"}:                  "length of the body that was read",
		{"(*forwarder.HTTPProxy).errorResponse", "field:ContentLength"}:            "locally generated error body",
		{"(*forwarder.HTTPProxy).errorResponse", "header:Set Proxy-Authenticate"}:  "locally generated 407",
		{"(*forwarder.HTTPProxy).errorResponse", "header:Set X-Forwarder-Error"}:   "locally generated error",
		{"(*forwarder.HTTPProxy).errorResponse", "header:Set Content-Type"}:        "locally generated error",
	}
	for k, v := range allowed {
		if o := outerName(k.fn); o != k.fn {
			delete(allowed, k)
			allowed[key{o, k.what}] = v
		}
	}
	used := map[key]bool{}
	for _, fn := range requestPathFuncs(r) {
		for _, w := range messageWrites(fn) {
			if w.owner != "response" {
				continue
			}
			if strings.HasPrefix(fname(fn), "(martian.proxyHandler).writeResponse") || strings.HasPrefix(fname(fn), "martian.copyHeader") || strings.HasPrefix(fname(fn), "martian.addTrailerHeader") || strings.HasPrefix(fname(fn), "(martian.proxyHandler).tunnel") {
				continue // writes to the http.ResponseWriter's header: that is the act of replying
			}
			k := key{outerName(fname(fn)), w.what}
			why, ok := allowed[k]
			used[k] = true
			r.check(ok, fname(fn)+"#"+w.what, w.at.Pos(), why, "the relayed response is changed here ("+w.what+" := "+w.val+"); only hop-by-hop removal, configured rules and the listed fix-ups may touch it")
		}
	}
	// upgrade re-add guard and value
	for _, spec := range []struct{ recv, fn string }{{"proxyConn", "handle"}, {"proxyHandler", "handleRequest"}} {
		fn := r.method(mpkg, spec.recv, spec.fn)
		var mod ssa.Instruction
		for _, c := range calls(fn, nameIs("(*martian.Proxy).modifyResponse")) {
			mod = c.(ssa.Instruction)
		}
		for _, w := range messageWrites(fn) {
			if w.owner != "response" || !strings.HasPrefix(w.what, "header:Set ") {
				continue
			}
			up := ""
			for _, c := range calls(fn, nameIs("martian.upgradeType")) {
				if mod != nil && instrDominates(c.(ssa.Instruction), mod) && strings.Contains(describe(c.(*ssa.Call)), "roundTrip") {
					up = describe(c.(*ssa.Call))
				}
			}
			guard := holdsAmong(w.conds, "("+up+` != "")`)
			after := mod != nil && instrDominates(mod, w.site)
			val := w.val == `"Upgrade"` && strings.HasSuffix(w.what, "Connection") || w.val == up && strings.HasSuffix(w.what, "Upgrade")
			r.check(guard && after && val, spec.recv+"."+spec.fn+"#response-re-add("+strings.TrimPrefix(w.what, "header:Set ")+")", w.at.Pos(), "only for an upgrade reply, after the response modifiers, with the value read before them", fmt.Sprintf("guard=%v after-modifiers=%v value=%s", guard, after, w.val))
		}
	}
}

func c02r5(r *R) {
	// handler variant dispatch
	hw := r.method(mpkg, "proxyHandler", "writeResponse")
	ps, _ := enumPaths(hw, 20000, 1)
	var why []string
	kinds := map[string]bool{}
	for _, p := range ps {
		var dst []string
		for _, e := range p.Events {
			if e.Kind == "call" && strings.HasPrefix(e.Desc, "martian.copyBody(") {
				dst = append(dst, e.Desc[len("martian.copyBody("):strings.LastIndex(e.Desc, ", ")])
			}
		}
		if len(dst) != 1 {
			if !p.Cut {
				why = append(why, fmt.Sprintf("body copied %d times", len(dst)))
			}
			continue
		}
		want := "$1"
		switch {
		case p.holds("martian.isTextEventStream($2)"):
			want = "martian.newPatternFlushWriter($1, net/http.NewResponseController($1), martian.sseFlushPattern)"
		case p.holds("martian.shouldChunk($2)"):
			want = "martian.newPatternFlushWriter($1, net/http.NewResponseController($1), martian.chunkFlushPattern)"
		}
		kinds[want] = true
		if dst[0] != want {
			why = append(why, "body written through "+dst[0]+", expected "+want)
		}
	}
	r.check(len(kinds) == 3 && len(why) == 0, "proxyHandler.writeResponse#dispatch", hw.Pos(), "event stream → SSE flusher; chunked → chunk flusher; else plain", strings.Join(dedupStrings(why), "; "))
	// patterns
	for name, want := range map[string][2]int64{"sseFlushPattern": {'\n', '\n'}, "chunkFlushPattern": {'\r', '\n'}} {
		g, _ := refGlobal(r.pkg(mpkg), name), true
		got := [2]int64{-1, -1}
		if g != nil {
			eachInstr(r.pkg(mpkg).Func("init"), func(ins ssa.Instruction) {
				st, ok := ins.(*ssa.Store)
				if !ok {
					return
				}
				if ia, ok := st.Addr.(*ssa.IndexAddr); ok && ia.X == ssa.Value(g) {
					i, _ := constInt(ia.Index)
					v, _ := constInt(st.Val)
					if i >= 0 && i < 2 {
						got[i] = v
					}
				}
			})
		}
		r.check(got == want, "martian."+name, posOf(g), fmt.Sprintf("= %q %q", rune(want[0]), rune(want[1])), fmt.Sprintf("flush pattern is %v, want %v", got, want))
	}
	// the flushing writer
	pw := r.method(mpkg, "patternFlushWriter", "Write")
	ps, _ = enumPaths(pw, 512, 1)
	why = nil
	nFlush, nSpan := 0, 0
	for _, p := range ps {
		if p.eventIndex(0, "call", eq("invoke io.Writer.Write($0.w, $1)")) != 0 {
			why = append(why, "first action is not Write(p) on the underlying writer")
		}
		if len(p.Ret) == 2 && p.Ret[0] != "invoke io.Writer.Write($0.w, $1)#0" {
			why = append(why, "returns n="+p.Ret[0])
		}
		werr := p.holds("(invoke io.Writer.Write($0.w, $1)#1 != nil)")
		flushed := p.eventIndex(0, "call", eq("invoke martian.flusher.Flush($0.f)")) >= 0
		spans := p.holds("($0.last == $0.pattern[0])") && p.holds("(invoke io.Writer.Write($0.w, $1)#0 > 0)") && p.holds("($1[0] == $0.pattern[1])")
		inside := p.holds("(bytes.LastIndex($1, $0.pattern[:]) != -1)")
		if werr && flushed {
			why = append(why, "flushes after a failed write")
		}
		if !werr && flushed != (spans || inside) {
			why = append(why, fmt.Sprintf("pattern spans=%v inside=%v but flushed=%v", spans, inside, flushed))
		}
		if flushed {
			nFlush++
		}
		if flushed && spans && !inside {
			nSpan++
		}
		if !werr {
			last := p.Mem["$0.last"]
			if p.holds("(invoke io.Writer.Write($0.w, $1)#0 > 0)") && last != "$1[(invoke io.Writer.Write($0.w, $1)#0 - 1)]" {
				why = append(why, "last byte remembered as "+last)
			}
		}
	}
	if nSpan == 0 {
		why = append(why, "a pattern split across two writes (CR at the end of one, LF at the start of the next) no longer triggers a flush")
	}
	r.check(nFlush > 0 && len(why) == 0, "patternFlushWriter.Write", pw.Pos(), "p forwarded unmodified; flush iff the pattern ends in / spans into p; last byte kept", strings.Join(dedupStrings(why), "; "))
	// isTextEventStream
	te := r.fn(mpkg, "isTextEventStream")
	tps, _ := enumPaths(te, 8, 1)
	r.check(len(tps) == 1 && tps[0].Ret[0] == `(mime.ParseMediaType((net/http.Header).Get($0.Header, "Content-Type"))#0 == "text/event-stream")`, "isTextEventStream", te.Pos(), "media type of Content-Type equals text/event-stream", "event-stream detection changed: "+strings.Join(tps[0].Ret, ","))
}
