package main

import (
	"encoding/json"
	"fmt"
	"go/token"
	"os"
	"path/filepath"
	"runtime/debug"
	"sort"
	"strings"
	"time"
)

// Status of an obligation.
const (
	Discharged = "discharged"
	Violated   = "violated"
	Undecided  = "undecided"
)

// Obligation is one rule instance: a construct of the analysed program the
// rule had to decide.
type Obligation struct {
	Property  string `json:"property"`
	Rule      string `json:"rule"`
	Construct string `json:"construct"` // symbolic key, never a line number
	At        string `json:"at"`        // file:line, for the reader only
	Status    string `json:"status"`
	Witness   string `json:"witness,omitempty"`
	Config    string `json:"config,omitempty"`
}

// Rule is a repository-specific rule.
type Rule struct {
	Property string
	ID       string // "R1"
	Floor    int    // minimum number of instances confirmed by hand
	Thorough bool   // only evaluated in the thorough tier
	Decides  string // the clause this rule decides (printed in the evidence)
	Run      func(r *R)
}

func (ru *Rule) Name() string { return ru.Property + "." + ru.ID }

var rules []*Rule

func register(prop, id string, floor int, decides string, run func(r *R)) *Rule {
	ru := &Rule{Property: prop, ID: id, Floor: floor, Decides: decides, Run: run}
	for _, o := range rules {
		if o.Property == prop && o.ID == id {
			panic("rule " + prop + "." + id + " registered twice")
		}
	}
	rules = append(rules, ru)
	return ru
}

func registerThorough(prop, id string, floor int, decides string, run func(r *R)) *Rule {
	ru := register(prop, id, floor, decides, run)
	ru.Thorough = true
	return ru
}

// R is the context handed to a rule.
type R struct {
	*Program
	rule *Rule
	tier string
	obs  []Obligation
	seen map[string]int
}

func (r *R) add(status, construct string, pos token.Pos, witness string) {
	// construct keys must be unique within a rule; repeated keys get @n
	if r.seen == nil {
		r.seen = map[string]int{}
	}
	r.seen[construct]++
	if n := r.seen[construct]; n > 1 {
		construct = fmt.Sprintf("%s@%d", construct, n)
	}
	r.obs = append(r.obs, Obligation{
		Property: r.rule.Property, Rule: r.rule.Name(), Construct: construct,
		At: r.rel(pos), Status: status, Witness: witness, Config: r.BuildCfg,
	})
}

func (r *R) ok(construct string, pos token.Pos, witness string) {
	r.add(Discharged, construct, pos, witness)
}
func (r *R) bad(construct string, pos token.Pos, witness string) {
	r.add(Violated, construct, pos, witness)
}
func (r *R) undecided(construct string, pos token.Pos, witness string) {
	r.add(Undecided, construct, pos, witness)
}

// check records a discharged obligation when cond holds, else a violation.
func (r *R) check(cond bool, construct string, pos token.Pos, okMsg, badMsg string) bool {
	if cond {
		r.ok(construct, pos, okMsg)
	} else {
		r.bad(construct, pos, badMsg)
	}
	return cond
}

// anchorMissing is raised (as a panic) by the anchor helpers; the engine turns
// it into an undecided obligation - never a silent pass.
type anchorMissing struct{ what string }

func (r *R) missing(format string, a ...any) {
	panic(anchorMissing{fmt.Sprintf(format, a...)})
}

// ---------------------------------------------------------------------------

type knownFinding struct {
	Property  string `json:"property"`
	Rule      string `json:"rule"`
	Construct string `json:"construct"`
	What      string `json:"what"`
}

type knownFile struct {
	Findings []knownFinding `json:"findings"`
	Fixed    []string       `json:"fixed"`
}

func loadKnown(path string) (*knownFile, error) {
	var k knownFile
	b, err := os.ReadFile(path)
	if err != nil {
		if os.IsNotExist(err) {
			return &k, nil
		}
		return nil, err
	}
	if err := json.Unmarshal(b, &k); err != nil {
		return nil, fmt.Errorf("%s: %v", path, err)
	}
	return &k, nil
}

func (k *knownFile) match(o Obligation) *knownFinding {
	for i := range k.Findings {
		f := &k.Findings[i]
		if f.Property == o.Property && f.Rule == o.Rule && f.Construct == o.Construct {
			return f
		}
	}
	return nil
}

// ---------------------------------------------------------------------------

type ruleStat struct {
	Instances  int    `json:"instances"`
	Floor      int    `json:"floor"`
	Discharged int    `json:"discharged"`
	Decides    string `json:"decides"`
}

type result struct {
	Property   string
	Obs        []Obligation
	Stats      map[string]*ruleStat
	Violations []Obligation // not covered by a known finding
	Known      []string
	Internal   []string // engine-level failures (rule panic, floor)
}

// runProperty evaluates every rule of prop on P.
func runProperty(P *Program, prop, tier string, known *knownFile) *result {
	res := &result{Property: prop, Stats: map[string]*ruleStat{}}
	for _, ru := range rules {
		if ru.Property != prop {
			continue
		}
		if ru.Thorough && tier != "thorough" {
			continue
		}
		r := &R{Program: P, rule: ru, tier: tier}
		tRule := time.Now()
		func() {
			defer func() {
				if e := recover(); e != nil {
					if am, ok := e.(anchorMissing); ok {
						r.undecided("anchor:"+am.what, token.NoPos, "anchor not found in the analysed program: "+am.what+" - the rule cannot vouch for the property")
						return
					}
					r.undecided("rule-panic", token.NoPos, fmt.Sprintf("rule panicked: %v\n%s", e, trimStack(debug.Stack())))
				}
			}()
			ru.Run(r)
		}()
		if os.Getenv("FWD_TIMING") != "" {
			fmt.Fprintf(os.Stderr, "timing %s %.2fs\n", ru.Name(), time.Since(tRule).Seconds())
		}
		st := &ruleStat{Floor: ru.Floor, Decides: ru.Decides}
		for _, o := range r.obs {
			st.Instances++
			if o.Status == Discharged {
				st.Discharged++
			}
		}
		if st.Instances < ru.Floor {
			r.undecided("instance-floor", token.NoPos, fmt.Sprintf("rule enumerated %d instances, fewer than the %d confirmed by hand: the rule no longer sees the constructs it was written for", st.Instances, ru.Floor))
			st.Instances++
		}
		res.Stats[ru.Name()] = st
		res.Obs = append(res.Obs, r.obs...)
	}
	for _, o := range res.Obs {
		if o.Status == Discharged {
			continue
		}
		if f := known.match(o); f != nil {
			res.Known = append(res.Known, fmt.Sprintf("KNOWN-FINDING: property=%s rule=%s construct=%s at=%s %s", o.Property, o.Rule, o.Construct, o.At, f.What))
			continue
		}
		res.Violations = append(res.Violations, o)
	}
	return res
}

func trimStack(b []byte) string {
	lines := strings.Split(string(b), "\n")
	if len(lines) > 24 {
		lines = lines[:24]
	}
	return strings.Join(lines, "\n")
}

// ---------------------------------------------------------------------------

type evidence struct {
	PropertyID  string         `json:"property_id"`
	Tier        string         `json:"tier"`
	Seed        int            `json:"seed"`
	Level       string         `json:"level"`
	Coverage    map[string]any `json:"coverage"`
	Assumptions []string       `json:"assumptions"`
	WallS       float64        `json:"wall_s"`
	Violations  int            `json:"violations"`
}

var trustedBase = []string{
	"the Go type checker and go/ssa construction (x/tools v0.29.0)",
	"documented semantics of the standard library (net/http framing, io.ReadFull, io.CopyBuffer, regexp, crypto/tls) and of golang.org/x/net/http2, x/time/rate, freelru, goja, connfu, anyflag",
	"no unsafe/reflect tricks on the analysed paths (reflectx.LookupImpl is treated as 'any embedded implementation')",
	"a check decides only the structural clauses named in coverage.explanation; the behaviour behind the remaining clauses of the property is not decided",
}

func writeEvidence(dir string, res []*result, prop, tier string, seed int, wall float64, progs []*Program, extra map[string]any) error {
	if err := os.MkdirAll(dir, 0o755); err != nil {
		return err
	}
	var all []Obligation
	stats := map[string]*ruleStat{}
	var known []string
	nviol := 0
	for _, r := range res {
		all = append(all, r.Obs...)
		for k, v := range r.Stats {
			if s, ok := stats[k]; ok {
				s.Instances += v.Instances
				s.Discharged += v.Discharged
			} else {
				c := *v
				stats[k] = &c
			}
		}
		known = append(known, r.Known...)
		nviol += len(r.Violations)
	}
	disc := 0
	for _, o := range all {
		if o.Status == Discharged {
			disc++
		}
	}
	var expl []string
	var names []string
	for k := range stats {
		names = append(names, k)
	}
	sort.Strings(names)
	for _, k := range names {
		expl = append(expl, fmt.Sprintf("%s decides: %s", k, stats[k].Decides))
	}
	// samples: up to 3 obligations per rule, non-discharged first
	var samples []Obligation
	per := map[string]int{}
	for pass := 0; pass < 2; pass++ {
		for _, o := range all {
			if (pass == 0) == (o.Status == Discharged) {
				continue
			}
			if per[o.Rule] >= 3 && o.Status == Discharged {
				continue
			}
			per[o.Rule]++
			samples = append(samples, o)
		}
	}
	var cfgs []map[string]any
	for _, P := range progs {
		nmod := 0
		for f := range P.AllFuncs {
			if f.Pkg != nil && strings.HasPrefix(f.Pkg.Pkg.Path(), modPath) {
				nmod++
			}
		}
		cfgs = append(cfgs, map[string]any{
			"build_config": P.BuildCfg, "module_packages": len(P.Pkgs), "all_packages": P.nAllPkgs,
			"ssa_functions": len(P.AllFuncs), "module_ssa_functions": nmod, "toolchain": P.Toolchain,
		})
	}
	cov := map[string]any{
		"explanation": "Static analysis of /repo's current working tree (type-checked packages + go/ssa; nothing is executed). " +
			"Each rule enumerates every instance of its construct in the loaded program and decides it; " +
			"an instance that cannot be classified is reported as undecided and fails the check. " + strings.Join(expl, " | ") +
			" || NOT decided: see DESIGN.md section 4 for this property ('Not decided').",
		"exhaustive":     true,
		"obligations":    len(all),
		"discharged":     disc,
		"checker_cmd":    "bin/fwdcheck -property " + prop + " -tier " + tier,
		"trusted_base":   trustedBase,
		"rules":          stats,
		"analysed":       cfgs,
		"known_findings": known,
		"samples":        samples,
		// the exploration-style keys, measured: one evaluation per rule instance
		"evaluations":         len(all),
		"distinct_nontrivial": countDistinct(all),
		"rule":                "one case = one rule instance (rule id + symbolic construct key) found in the analysed program; distinct = distinct (rule, construct) keys; every instance is non-trivial in that the rule had to inspect its CFG/value flow/table to decide it",
	}
	for k, v := range extra {
		cov[k] = v
	}
	ev := evidence{PropertyID: prop, Tier: tier, Seed: seed, Level: "other", Coverage: cov,
		Assumptions: trustedBase, WallS: wall, Violations: nviol}
	b, err := json.MarshalIndent(ev, "", " ")
	if err != nil {
		return err
	}
	return os.WriteFile(filepath.Join(dir, prop+".json"), append(b, '\n'), 0o644)
}

func countDistinct(obs []Obligation) int {
	m := map[string]bool{}
	for _, o := range obs {
		m[o.Rule+"|"+o.Construct] = true
	}
	return len(m)
}

// writeReplay stores a violated obligation so that it can be re-evaluated.
func writeReplay(dir string, o Obligation, n int, tier string) (string, error) {
	vd := filepath.Join(dir, "violations")
	if err := os.MkdirAll(vd, 0o755); err != nil {
		return "", err
	}
	p := filepath.Join(vd, fmt.Sprintf("%s-%s-%d.json", o.Property, strings.TrimPrefix(o.Rule, o.Property+"."), n))
	b, _ := json.MarshalIndent(map[string]any{"obligation": o, "tier": tier,
		"replay": "bin/fwdcheck -replay " + p}, "", " ")
	return p, os.WriteFile(p, append(b, '\n'), 0o644)
}
