package main

import (
	"encoding/json"
	"fmt"
	"go/types"
	"os"
	"sort"
	"strings"

	"golang.org/x/tools/go/ssa"
)

// Renames. The rules name their anchors (functions, methods, types, fields) as
// they are spelt in the tree the rules were written for. Renaming an
// identifier changes no behaviour, so a rename must not turn into "anchor not
// found". The reference inventory (reference/inventory.json, written by
// `fwdcheck -inventory` on the reviewed tree) records, for every function of
// the module, its package, receiver, signature and a fingerprint of its body
// (callees, string constants, field names), and for every named type its
// fields and methods. When the analysed tree lacks a reference name and has a
// new name in the same package with the same receiver and signature and a
// similar body (same field types / same position for fields, same shape for
// types), the new name is treated as the old one: the program is *printed* in
// the reference vocabulary and anchors resolve through the alias. An ambiguous
// or dissimilar candidate is not aliased - the anchor stays missing and the
// rule reports undecided, as before.
//
// On the unchanged tree the table is empty and nothing is rewritten.

type refFunc struct {
	Pkg    string   `json:"pkg"`
	Recv   string   `json:"recv"` // receiver type name, "" for functions
	Name   string   `json:"name"`
	Sig    string   `json:"sig"`
	Flat   string   `json:"flat"` // receiver type (if any) followed by the parameter types, then the results
	Tokens []string `json:"tokens"`
	Locals []refField `json:"locals,omitempty"` // named address-taken locals (of the function and its literals), in order
	Names  []string   `json:"names,omitempty"`  // every name declared inside the function (parameters, results, locals)
	Wrap   *refWrap   `json:"wrap,omitempty"`   // set when the function only forwards to one other call
	PNames []string   `json:"pnames,omitempty"` // parameter names, receiver first
}

// refWrap describes a function whose whole body is `return callee(args...)`: args are "$k" (parameter k of the
// wrapper, receiver first) or the printed form of an argument that does not depend on parameters.
type refWrap struct {
	Callee string   `json:"callee"`
	Args   []string `json:"args"`
}

type refField struct {
	Name string `json:"name"`
	Type string `json:"type"`
}

type refType struct {
	Order      int        `json:"order"` // rank of the declaration among the package's named types, by position
	Underlying string     `json:"underlying"`
	Fields     []refField `json:"fields,omitempty"`
	Methods    []string   `json:"methods,omitempty"`
}

type refInventory struct {
	Funcs   map[string]refFunc `json:"funcs"`   // key: full name as go/ssa prints it
	Types   map[string]refType `json:"types"`   // key: pkgpath.Type
	Globals map[string]string  `json:"globals"` // package-level variables: pkgpath.name -> type
	GInit   map[string]string  `json:"ginit"`   // ... -> what the package initialiser stores into it (when it is one store)
}

type renameTable struct {
	funcAlias   map[*ssa.Function]string // current function -> reference full name
	funcByRef   map[string]*ssa.Function // reference full name -> current function
	fieldAlias  map[*types.Var]string    // current field -> reference name
	localAlias  map[*ssa.Alloc]string    // renamed local -> reference name
	globalAlias map[*ssa.Global]string   // renamed package-level variable -> reference name
	globalByRef map[string]*ssa.Global   // pkgpath.refname -> the variable
	wrapFold    map[string][]wrapFold    // callee (as printed) -> reference wrappers that were inlined at their call sites
	paramPerm   map[*ssa.Function][]int  // current parameter index -> reference index, for functions whose parameters were only reordered
	paramRefN   map[*ssa.Function]int    // how many parameters the reference function has (further ones were added)
	groupField  map[*types.Var]bool      // current field of a new struct type that only groups reference fields
	typeNew2Old map[string]string        // "pkgpath.New" -> "pkgpath.Old"
	typeOld2New map[string]string
	strRepl     [][2]string // (current spelling, reference spelling) for printed names, longest first
	Notes       []string
}

// haveReference: a reference inventory was loaded for this run.
var haveReference bool

// refFuncNames: full names of the functions of the reference tree.
var refFuncNames map[string]bool

// isNewHelper: f is a module function that the reference tree does not have (and that is not a renamed one).
func isNewHelper(f *ssa.Function) bool {
	if !haveReference || f == nil || f.Parent() != nil || f.Synthetic != "" || len(f.Blocks) == 0 || !inModule(f) {
		return false
	}
	if o := f.Origin(); o != nil {
		f = o
	}
	if refFuncNames[f.String()] {
		return false
	}
	_, renamed := curRenames.funcAlias[f]
	return !renamed
}

func isNewHelperOrInside(f *ssa.Function) bool {
	for f.Parent() != nil {
		f = f.Parent()
	}
	return isNewHelper(f)
}

var curRenames = &renameTable{funcAlias: map[*ssa.Function]string{}, funcByRef: map[string]*ssa.Function{}, fieldAlias: map[*types.Var]string{}, groupField: map[*types.Var]bool{}, paramPerm: map[*ssa.Function][]int{}, paramRefN: map[*ssa.Function]int{}, localAlias: map[*ssa.Alloc]string{}, globalAlias: map[*ssa.Global]string{}, globalByRef: map[string]*ssa.Global{}, wrapFold: map[string][]wrapFold{}, typeNew2Old: map[string]string{}, typeOld2New: map[string]string{}}

func isIdentChar(c byte) bool {
	return c == '_' || c >= '0' && c <= '9' || c >= 'a' && c <= 'z' || c >= 'A' && c <= 'Z'
}

// canon rewrites current spellings to reference spellings in a printed name.
func canon(s string) string {
	if len(curRenames.strRepl) == 0 {
		return s
	}
	for _, pr := range curRenames.strRepl {
		from, to := pr[0], pr[1]
		if !strings.Contains(s, from) {
			continue
		}
		var b strings.Builder
		i := 0
		for {
			j := strings.Index(s[i:], from)
			if j < 0 {
				b.WriteString(s[i:])
				break
			}
			j += i
			end := j + len(from)
			okBefore := j == 0 || !isIdentChar(s[j-1]) || !isIdentChar(from[0])
			okAfter := end >= len(s) || !isIdentChar(s[end])
			b.WriteString(s[i:j])
			if okBefore && okAfter {
				b.WriteString(to)
			} else {
				b.WriteString(from)
			}
			i = end
		}
		s = b.String()
	}
	return s
}

func shortenFull(s string) string {
	s = strings.ReplaceAll(s, modPath+"/internal/", "")
	s = strings.ReplaceAll(s, modPath+"/", "")
	s = strings.ReplaceAll(s, modPath+".", "forwarder.")
	s = strings.ReplaceAll(s, modPath, "forwarder")
	return s
}

// ---------------------------------------------------------------------------
// inventory of a program

func recvTypeName(f *ssa.Function) string {
	if f.Signature.Recv() == nil {
		return ""
	}
	t := f.Signature.Recv().Type()
	if p, ok := t.(*types.Pointer); ok {
		t = p.Elem()
	}
	if n, ok := t.(*types.Named); ok {
		return n.Obj().Name()
	}
	return t.String()
}

func sigString(f *ssa.Function) string {
	q := func(p *types.Package) string { return p.Path() }
	var ps, rs []string
	for i := 0; i < f.Signature.Params().Len(); i++ {
		ps = append(ps, types.TypeString(f.Signature.Params().At(i).Type(), q)) // types only: parameter names are free to change
	}
	for i := 0; i < f.Signature.Results().Len(); i++ {
		rs = append(rs, types.TypeString(f.Signature.Results().At(i).Type(), q))
	}
	v := ""
	if f.Signature.Variadic() {
		v = "..."
	}
	return "func(" + strings.Join(ps, ",") + v + ")(" + strings.Join(rs, ",") + ")"
}

// flatSigString: like sigString with the receiver as first parameter (a function and a method that do the
// same job have the same flat signature).
func flatSigString(f *ssa.Function) string {
	s := sigString(f)
	if r := f.Signature.Recv(); r != nil {
		rt := types.TypeString(r.Type(), func(p *types.Package) string { return p.Path() })
		if strings.HasPrefix(s, "func()") {
			return "func(" + rt + ")" + s[len("func()"):]
		}
		return "func(" + rt + "," + s[len("func("):]
	}
	return s
}

func funcTokens(f *ssa.Function) []string {
	set := map[string]bool{}
	tokensInto(f, set, 0)
	set[fmt.Sprintf("b:%d", len(f.Blocks)/3)] = true
	var out []string
	for k := range set {
		out = append(out, k)
	}
	sort.Strings(out)
	return out
}

// tokensInto collects the fingerprint of f; callees that the reference tree does not know (code split out of f)
// contribute their own tokens instead of their name.
func tokensInto(f *ssa.Function, set map[string]bool, depth int) {
	for _, g := range withClosures(f) {
		for _, b := range g.Blocks {
			for _, ins := range b.Instrs {
				switch x := ins.(type) {
				case ssa.CallInstruction:
					c := x.Common()
					if c.IsInvoke() {
						set["i:"+c.Method.Name()] = true
					} else if sc := c.StaticCallee(); sc != nil {
						if tokenRefNames != nil && depth < 2 && sc.Synthetic == "" && len(sc.Blocks) > 0 && inModule(sc) && !tokenRefNames[sc.String()] && sc != f {
							tokensInto(sc, set, depth+1)
						} else {
							set["c:"+sc.Name()] = true
						}
					}
				case *ssa.FieldAddr:
					set["f:"+fmt.Sprint(x.Field)+":"+types.TypeString(x.Type(), nil)] = true
				}
				for _, op := range ins.Operands(nil) {
					if k, ok := (*op).(*ssa.Const); ok && k != nil {
						if s, ok := constString(k); ok && len(s) > 0 && len(s) < 60 {
							set["s:"+s] = true
						}
					}
				}
			}
		}
	}
}

// tokenRefNames: while the analysed tree is compared with the reference, the reference's function names.
var tokenRefNames map[string]bool

func buildInventory(P *Program) *refInventory {
	inv := &refInventory{Funcs: map[string]refFunc{}, Types: map[string]refType{}, Globals: map[string]string{}, GInit: map[string]string{}}
	for _, p := range P.SSA.AllPackages() {
		if !strings.HasPrefix(p.Pkg.Path(), modPath) {
			continue
		}
		for name, m := range p.Members {
			if g, ok := m.(*ssa.Global); ok && !strings.HasPrefix(name, "init$") {
				inv.Globals[p.Pkg.Path()+"."+name] = types.TypeString(g.Type(), func(q *types.Package) string { return q.Path() })
				if init := p.Func("init"); init != nil {
					n, val := 0, ""
					for _, b := range init.Blocks {
						for _, ins := range b.Instrs {
							if st, ok := ins.(*ssa.Store); ok && st.Addr == ssa.Value(g) {
								n++
								val = describe(st.Val)
							}
						}
					}
					if n == 1 && len(val) < 400 {
						inv.GInit[p.Pkg.Path()+"."+name] = val
					}
				}
			}
		}
	}
	for f := range P.AllFuncs {
		if f.Parent() != nil || len(f.Blocks) == 0 || f.Synthetic != "" || !inModule(f) || f.Origin() != nil && f.Origin() != f {
			continue
		}
		pkg := ""
		if f.Pkg != nil {
			pkg = f.Pkg.Pkg.Path()
		} else if f.Object() != nil && f.Object().Pkg() != nil {
			pkg = f.Object().Pkg().Path()
		}
		inv.Funcs[f.String()] = refFunc{Pkg: pkg, Recv: recvTypeName(f), Name: f.Name(), Sig: sigString(f), Flat: flatSigString(f), Tokens: funcTokens(f), Locals: namedLocals(f, nil), Names: declaredNames(f), Wrap: wrapperOf(f), PNames: paramNames(f)}
	}
	for _, p := range P.SSA.AllPackages() {
		if !strings.HasPrefix(p.Pkg.Path(), modPath) {
			continue
		}
		var decl []*types.Named
		for _, m := range p.Members {
			if t, ok := m.(*ssa.Type); ok {
				if named, ok := t.Type().(*types.Named); ok {
					decl = append(decl, named)
				}
			}
		}
		sort.Slice(decl, func(i, j int) bool {
			pi, pj := P.Fset.Position(decl[i].Obj().Pos()), P.Fset.Position(decl[j].Obj().Pos())
			if pi.Filename != pj.Filename {
				return pi.Filename < pj.Filename
			}
			return pi.Offset < pj.Offset
		})
		for order, named := range decl {
			rt := refType{Order: order, Underlying: shapeOf(named)}
			if st, ok := named.Underlying().(*types.Struct); ok {
				for i := 0; i < st.NumFields(); i++ {
					rt.Fields = append(rt.Fields, refField{st.Field(i).Name(), types.TypeString(st.Field(i).Type(), func(p *types.Package) string { return p.Path() })})
				}
			}
			for i := 0; i < named.NumMethods(); i++ {
				rt.Methods = append(rt.Methods, named.Method(i).Name())
			}
			sort.Strings(rt.Methods)
			inv.Types[p.Pkg.Path()+"."+named.Obj().Name()] = rt
		}
	}
	return inv
}

// shapeOf describes the underlying type without field names (struct: list of field types).
func shapeOf(n *types.Named) string {
	q := func(p *types.Package) string { return p.Path() }
	if st, ok := n.Underlying().(*types.Struct); ok {
		var ts []string
		for i := 0; i < st.NumFields(); i++ {
			ts = append(ts, types.TypeString(st.Field(i).Type(), q))
		}
		return "struct{" + strings.Join(ts, ";") + "}"
	}
	return types.TypeString(n.Underlying(), q)
}

func writeInventory(P *Program, path string) error {
	b, err := json.MarshalIndent(buildInventory(P), "", " ")
	if err != nil {
		return err
	}
	return os.WriteFile(path, append(b, '\n'), 0o644)
}

// ---------------------------------------------------------------------------
// matching

func jaccard(a, b []string) float64 {
	sa := map[string]bool{}
	for _, x := range a {
		sa[x] = true
	}
	inter, union := 0, len(sa)
	for _, x := range b {
		if sa[x] {
			inter++
		} else {
			union++
		}
	}
	if union == 0 {
		return 1
	}
	return float64(inter) / float64(union)
}

// loadRenames compares the analysed program with the reference inventory.
func loadRenames(P *Program, path string) {
	curRenames = &renameTable{funcAlias: map[*ssa.Function]string{}, funcByRef: map[string]*ssa.Function{}, fieldAlias: map[*types.Var]string{}, groupField: map[*types.Var]bool{}, paramPerm: map[*ssa.Function][]int{}, paramRefN: map[*ssa.Function]int{}, localAlias: map[*ssa.Alloc]string{}, globalAlias: map[*ssa.Global]string{}, globalByRef: map[string]*ssa.Global{}, wrapFold: map[string][]wrapFold{}, typeNew2Old: map[string]string{}, typeOld2New: map[string]string{}}
	haveReference = false
	curProgram = P
	b, err := os.ReadFile(path)
	if err != nil {
		return
	}
	var ref refInventory
	if json.Unmarshal(b, &ref) != nil {
		return
	}
	tokenRefNames = map[string]bool{}
	for k := range ref.Funcs {
		tokenRefNames[k] = true
	}
	cur := buildInventory(P)
	tokenRefNames = nil
	t := curRenames
	haveReference = true
	refTypeNames = map[string]bool{}
	for k := range ref.Types {
		refTypeNames[k] = true
	}
	refFuncNames = map[string]bool{}
	for k := range ref.Funcs {
		refFuncNames[k] = true
	}

	// 1. types
	var missT, newT []string
	for k := range ref.Types {
		if _, ok := cur.Types[k]; !ok {
			missT = append(missT, k)
		}
	}
	for k := range cur.Types {
		if _, ok := ref.Types[k]; !ok {
			newT = append(newT, k)
		}
	}
	sort.Strings(missT)
	sort.Strings(newT)
	pkgOf := func(k string) string { return k[:strings.LastIndex(k, ".")] }
	usedT := map[string]bool{}
	for _, m := range missT {
		var cands []string
		for _, n := range newT {
			if usedT[n] || pkgOf(n) != pkgOf(m) {
				continue
			}
			// same shape (a self-reference inside the shape is spelt with the own name)
			rs := strings.ReplaceAll(ref.Types[m].Underlying, m, "·")
			cs := strings.ReplaceAll(cur.Types[n].Underlying, n, "·")
			if rs == cs && len(ref.Types[m].Methods) == len(cur.Types[n].Methods) {
				cands = append(cands, n)
			}
		}
		if len(cands) > 1 {
			// several new types of the same shape: the one declared at the same place among the package's types
			best, bestD, tie := "", 1<<30, false
			for _, c := range cands {
				d := cur.Types[c].Order - ref.Types[m].Order
				if d < 0 {
					d = -d
				}
				if d < bestD {
					best, bestD, tie = c, d, false
				} else if d == bestD {
					tie = true
				}
			}
			if !tie && bestD <= 2 {
				cands = []string{best}
			}
		}
		if len(cands) == 1 {
			usedT[cands[0]] = true
			t.typeNew2Old[cands[0]] = m
			t.typeOld2New[m] = cands[0]
			t.Notes = append(t.Notes, "type "+shortenFull(cands[0])+" is "+shortenFull(m)+" renamed")
		}
	}
	mapTypes := func(s string) string { // current spelling -> reference spelling in a type/signature string
		for n, o := range t.typeNew2Old {
			s = replaceIdent(s, n, o)
		}
		return s
	}

	// 2. fields
	for k, ct := range cur.Types {
		rk := k
		if o, ok := t.typeNew2Old[k]; ok {
			rk = o
		}
		rt, ok := ref.Types[rk]
		if !ok || len(ct.Fields) == 0 {
			continue
		}
		named := lookupNamed(P, k)
		if named == nil {
			continue
		}
		st, ok := named.Underlying().(*types.Struct)
		if !ok {
			continue
		}
		refNames := map[string]bool{}
		for _, f := range rt.Fields {
			refNames[f.Name] = true
		}
		curNames := map[string]bool{}
		for _, f := range ct.Fields {
			curNames[f.Name] = true
		}
		if len(rt.Fields) == len(ct.Fields) {
			for i := range ct.Fields {
				if ct.Fields[i].Name != rt.Fields[i].Name && mapTypes(ct.Fields[i].Type) == rt.Fields[i].Type && !curNames[rt.Fields[i].Name] && !refNames[ct.Fields[i].Name] {
					t.fieldAlias[st.Field(i)] = rt.Fields[i].Name
					t.Notes = append(t.Notes, "field "+shortenFull(k)+"."+ct.Fields[i].Name+" is "+rt.Fields[i].Name+" renamed")
				}
			}
			continue
		}
		// fields gathered into a new struct type held by value: T{a, b, c} became T{a, g S} with S{b, c}.
		// g is transparent (terms print x.g.b as x.b) and S's fields stand for the missing reference fields.
		if groupFields(P, t, cur, &ref, k, st, ct, rt, mapTypes) {
			continue
		}
		// different length: a missing name and a new name with a type no other candidate has
		for i, cf := range ct.Fields {
			if refNames[cf.Name] {
				continue
			}
			var cands []string
			for _, rf := range rt.Fields {
				if !curNames[rf.Name] && rf.Type == mapTypes(cf.Type) {
					cands = append(cands, rf.Name)
				}
			}
			if len(cands) == 1 {
				t.fieldAlias[st.Field(i)] = cands[0]
				t.Notes = append(t.Notes, "field "+shortenFull(k)+"."+cf.Name+" is "+cands[0]+" renamed")
			}
		}
	}

	// 3. functions and methods
	curFn := map[string]*ssa.Function{}
	for f := range P.AllFuncs {
		if f.Parent() == nil && len(f.Blocks) > 0 && f.Synthetic == "" && inModule(f) {
			curFn[f.String()] = f
		}
	}
	// parameters only reordered: same name, the same parameter types each occurring once, same results
	for k, cf := range cur.Funcs {
		rf, ok := ref.Funcs[k]
		if !ok || rf.Flat == "" || mapTypes(cf.Flat) == rf.Flat || curFn[k] == nil {
			continue
		}
		cp, cres := splitFlat(mapTypes(cf.Flat))
		rp, rres := splitFlat(rf.Flat)
		if cres != rres || len(cp) < len(rp) || len(cp) != len(curFn[k].Params) {
			continue
		}
		// every reference parameter type occurs once in both lists; parameters the reference does not have
		// (added ones) come after the reference positions
		perm := make([]int, len(cp))
		for i := range perm {
			perm[i] = -1
		}
		okPerm := true
		used := map[int]bool{}
		extra := len(rp)
		// 1. by name and type
		for i, ct := range cp {
			if i >= len(cf.PNames) || cf.PNames[i] == "" || cf.PNames[i] == "_" {
				continue
			}
			for j, rt := range rp {
				if !used[j] && rt == ct && j < len(rf.PNames) && rf.PNames[j] == cf.PNames[i] {
					perm[i] = j
					used[j] = true
					break
				}
			}
		}
		// 2. by type, when one unused reference parameter and one unplaced current parameter have it
		for i, ct := range cp {
			if perm[i] >= 0 {
				continue
			}
			var cand []int
			for j, rt := range rp {
				if !used[j] && rt == ct {
					cand = append(cand, j)
				}
			}
			rivals := 0
			for i2, ct2 := range cp {
				if perm[i2] < 0 && ct2 == ct {
					rivals++
				}
			}
			switch {
			case len(cand) == 1 && rivals == 1:
				perm[i] = cand[0]
				used[cand[0]] = true
			case len(cand) == 0:
				// a parameter the reference does not have: placed after the reference positions (below)
			default:
				okPerm = false
			}
		}
		for i := range cp {
			if perm[i] < 0 {
				perm[i] = extra
				extra++
			}
		}
		if len(used) != len(rp) {
			okPerm = false
		}
		if okPerm {
			t.paramPerm[curFn[k]] = perm
			t.paramRefN[curFn[k]] = len(rp)
			t.Notes = append(t.Notes, fmt.Sprintf("function %s has its parameters reordered or extended %v", shortenFull(k), perm))
		}
	}
	var missF, newF []string
	for k := range ref.Funcs {
		if _, ok := cur.Funcs[k]; !ok {
			missF = append(missF, k)
		}
	}
	for k := range cur.Funcs {
		if _, ok := ref.Funcs[k]; !ok {
			newF = append(newF, k)
		}
	}
	sort.Strings(missF)
	sort.Strings(newF)
	type cand struct {
		m, n  string
		score float64
	}
	var cs []cand
	for _, m := range missF {
		rf := ref.Funcs[m]
		for _, n := range newF {
			cf := cur.Funcs[n]
			recv := cf.Recv
			if o, ok := t.typeNew2Old[cf.Pkg+"."+cf.Recv]; ok {
				recv = o[strings.LastIndex(o, ".")+1:]
			}
			if cf.Pkg != rf.Pkg {
				continue
			}
			sameShape := recv == rf.Recv && mapTypes(cf.Sig) == rf.Sig
			// a function turned into a method (or back): same name, same flat signature
			converted := cf.Name == rf.Name && rf.Flat != "" && mapTypes(cf.Flat) == rf.Flat && recv != rf.Recv
			// ... or turned into a method (or back) and renamed at the same time: same flat signature, and the
			// body must then speak for it (a higher similarity is asked for below)
			convertedRenamed := cf.Name != rf.Name && rf.Flat != "" && mapTypes(cf.Flat) == rf.Flat && recv != rf.Recv
			// ... or made a method of a type it never used: the flat signature gains the receiver in front
			addedRecv := false
			if !sameShape && !converted && !convertedRenamed && rf.Recv == "" && cf.Recv != "" && rf.Flat != "" {
				cp, cres := splitFlat(mapTypes(cf.Flat))
				rp, rres := splitFlat(rf.Flat)
				if cres == rres && len(cp) == len(rp)+1 && strings.Join(cp[1:], ",") == strings.Join(rp, ",") {
					addedRecv = true
				}
			}
			// ... or renamed together with a change of its parameter or result list, on the same receiver: only
			// a near-identical body speaks for that
			reshaped := !sameShape && !converted && !convertedRenamed && !addedRecv && recv == rf.Recv && cf.Name != rf.Name
			if !sameShape && !converted && !convertedRenamed && !addedRecv && !reshaped {
				continue
			}
			sc := jaccard(rf.Tokens, cf.Tokens)
			if reshaped && (sc < 0.85 || len(rf.Tokens) < 12) {
				continue
			}
			if (convertedRenamed || addedRecv) && sc < 0.7 {
				continue
			}
			if cf.Name == rf.Name && sameShape {
				sc = 1 // same method name on a renamed type
			}
			if converted && sc < 0.5 {
				sc = 0.5
			}
			cs = append(cs, cand{m, n, sc})
		}
	}
	sort.Slice(cs, func(i, j int) bool {
		if cs[i].score != cs[j].score {
			return cs[i].score > cs[j].score
		}
		return cs[i].m+cs[i].n < cs[j].m+cs[j].n
	})
	usedM, usedN := map[string]bool{}, map[string]bool{}
	for i, c := range cs {
		if usedM[c.m] || usedN[c.n] || c.score < 0.5 {
			continue
		}
		// ambiguity: another unused candidate for the same reference name, or the same new name, scoring almost as well
		amb := false
		for j, d := range cs {
			if j != i && !usedM[d.m] && !usedN[d.n] && (d.m == c.m || d.n == c.n) && c.score-d.score < 0.15 {
				amb = true
			}
		}
		if amb {
			continue
		}
		usedM[c.m], usedN[c.n] = true, true
		if f := curFn[c.n]; f != nil {
			t.funcAlias[f] = c.m
			t.funcByRef[c.m] = f
			// a receiver the reference function does not have comes after its parameters
			if rf, cf := ref.Funcs[c.m], cur.Funcs[c.n]; rf.Recv == "" && cf.Recv != "" {
				cp, _ := splitFlat(cf.Flat)
				rp, _ := splitFlat(rf.Flat)
				if len(cp) == len(rp)+1 && len(cp) == len(f.Params) {
					perm := make([]int, len(cp))
					perm[0] = len(rp)
					for i := 1; i < len(cp); i++ {
						perm[i] = i - 1
					}
					t.paramPerm[f] = perm
					t.paramRefN[f] = len(rp)
				}
			}
			if ref.Funcs[c.m].Name != cur.Funcs[c.n].Name {
				t.Notes = append(t.Notes, fmt.Sprintf("func %s is %s renamed (body similarity %.2f)", shortenFull(c.n), shortenFull(c.m), c.score))
			}
		}
	}

	// 3b. reference functions that are gone without a successor and only forwarded to another call: a call of that
	// shape is printed as a call of the wrapper (the wrapper was inlined at its call sites)
	for _, m := range missF {
		rf := ref.Funcs[m]
		if rf.Wrap == nil || usedM[m] {
			continue
		}
		t.wrapFold[rf.Wrap.Callee] = append(t.wrapFold[rf.Wrap.Callee], wrapFold{name: shortenFull(m), args: rf.Wrap.Args})
		t.Notes = append(t.Notes, "func "+shortenFull(m)+" is gone; calls of the form "+rf.Wrap.Callee+"("+strings.Join(rf.Wrap.Args, ", ")+") read as calls of it")
	}

	// 3c. package-level variables: a reference name that is gone and a new name of the same package and type (one
	// candidate each way) are the same variable
	{
		missing, added := map[string][]string{}, map[string][]string{} // pkg|type -> names
		for k, typ := range ref.Globals {
			if _, ok := cur.Globals[k]; !ok {
				i := strings.LastIndex(k, ".")
				missing[k[:i]+"|"+typ] = append(missing[k[:i]+"|"+typ], k)
			}
		}
		for k, typ := range cur.Globals {
			if _, ok := ref.Globals[k]; !ok {
				i := strings.LastIndex(k, ".")
				key := k[:i] + "|" + mapTypes(typ)
				added[key] = append(added[key], k)
			}
		}
		// several candidates of one type: the initialiser tells them apart
		for key, ms := range missing {
			as := added[key]
			if len(ms) < 2 || len(as) < 2 {
				continue
			}
			var pm, pa []string
			for _, m := range ms {
				for _, a := range as {
					if ref.GInit[m] != "" && ref.GInit[m] == cur.GInit[a] {
						nm, na := 0, 0
						for _, m2 := range ms {
							if ref.GInit[m2] == ref.GInit[m] {
								nm++
							}
						}
						for _, a2 := range as {
							if cur.GInit[a2] == cur.GInit[a] {
								na++
							}
						}
						if nm == 1 && na == 1 {
							pm, pa = append(pm, m), append(pa, a)
						}
					}
				}
			}
			delete(missing, key)
			delete(added, key)
			for i := range pm {
				missing[key+"|"+pm[i]] = []string{pm[i]}
				added[key+"|"+pm[i]] = []string{pa[i]}
			}
		}
		for key, ms := range missing {
			as := added[key]
			if len(ms) != 1 || len(as) != 1 {
				continue
			}
			i := strings.LastIndex(as[0], ".")
			for _, p := range P.SSA.AllPackages() {
				if p.Pkg.Path() != as[0][:i] {
					continue
				}
				if g, ok := p.Members[as[0][i+1:]].(*ssa.Global); ok {
					old := ms[0][strings.LastIndex(ms[0], ".")+1:]
					t.globalAlias[g] = old
					t.globalByRef[ms[0]] = g
					t.Notes = append(t.Notes, "variable "+shortenFull(as[0])+" is "+shortenFull(ms[0])+" renamed")
				}
			}
		}
	}

	// 4. locals of functions the reference knows (under their own or an aliased name)
	for k, f := range curFn {
		if rf, ok := ref.Funcs[k]; ok {
			aliasLocals(t, f, rf, mapTypes)
		} else if old, ok := t.funcAlias[f]; ok {
			aliasLocals(t, f, ref.Funcs[old], mapTypes)
		}
	}

	// 5. literals that became named types with one method (used through an interface): found now, so that their
	// reference names (<function>$1) are in place whichever rule runs first
	for k, f := range curFn {
		if _, known := ref.Funcs[k]; known || t.funcAlias[f] != "" {
			anonFuncs(f)
		}
	}

	// printed-name replacements, longest first
	for f, old := range t.funcAlias {
		t.strRepl = append(t.strRepl, [2]string{shortenFull(f.String()), shortenFull(old)}, [2]string{f.String(), old})
	}
	for n, o := range t.typeNew2Old {
		t.strRepl = append(t.strRepl, [2]string{shortenFull(n), shortenFull(o)}, [2]string{n, o})
		// module-relative spellings used by typeStr ("martian.T")
		t.strRepl = append(t.strRepl, [2]string{shortPkg(pkgOf(n)) + n[strings.LastIndex(n, "."):], shortPkg(pkgOf(o)) + o[strings.LastIndex(o, "."):]})
	}
	sort.Slice(t.strRepl, func(i, j int) bool {
		if len(t.strRepl[i][0]) != len(t.strRepl[j][0]) {
			return len(t.strRepl[i][0]) > len(t.strRepl[j][0])
		}
		return t.strRepl[i][0] < t.strRepl[j][0]
	})
	sort.Strings(t.Notes)
}

func replaceIdent(s, from, to string) string {
	if !strings.Contains(s, from) {
		return s
	}
	var b strings.Builder
	i := 0
	for {
		j := strings.Index(s[i:], from)
		if j < 0 {
			b.WriteString(s[i:])
			break
		}
		j += i
		end := j + len(from)
		b.WriteString(s[i:j])
		if end >= len(s) || !isIdentChar(s[end]) {
			b.WriteString(to)
		} else {
			b.WriteString(from)
		}
		i = end
	}
	return b.String()
}

func lookupNamed(P *Program, key string) *types.Named {
	i := strings.LastIndex(key, ".")
	for _, p := range P.SSA.AllPackages() {
		if p.Pkg.Path() == key[:i] {
			if obj := p.Pkg.Scope().Lookup(key[i+1:]); obj != nil {
				if n, ok := obj.Type().(*types.Named); ok {
					return n
				}
			}
		}
	}
	return nil
}

// refFuncLookup finds the current function that stands for a reference function/method.
func refFuncLookup(pkgPath, recv, name string) *ssa.Function {
	for ref, f := range curRenames.funcByRef {
		// ref looks like "pkg.name", "(pkg.T).name" or "(*pkg.T).name"
		var want []string
		if recv == "" {
			want = []string{pkgPath + "." + name}
		} else {
			want = []string{"(" + pkgPath + "." + recv + ")." + name, "(*" + pkgPath + "." + recv + ")." + name}
		}
		for _, w := range want {
			if ref == w {
				return f
			}
		}
	}
	return nil
}

// refName is the function's own name in the reference vocabulary.
func refName(f *ssa.Function) string {
	if f == nil {
		return ""
	}
	if old, ok := curRenames.funcAlias[f]; ok {
		return old[strings.LastIndex(old, ".")+1:]
	}
	return f.Name()
}

// groupFields recognises reference fields regrouped into by-value fields of new struct types and records the
// aliases; false when the type's fields were not regrouped that way (or not all of them can be matched).
func groupFields(P *Program, t *renameTable, cur, ref *refInventory, k string, st *types.Struct, ct, rt refType, mapTypes func(string) string) bool {
	type flatField struct {
		name, typ string
		v         *types.Var
	}
	var flat []flatField
	var groups []*types.Var
	for i, cf := range ct.Fields {
		named, _ := st.Field(i).Type().(*types.Named)
		if named != nil && named.Obj().Pkg() != nil {
			key := named.Obj().Pkg().Path() + "." + named.Obj().Name()
			_, inRef := ref.Types[key]
			_, aliased := t.typeNew2Old[key]
			if gs, ok := named.Underlying().(*types.Struct); ok && !inRef && !aliased && strings.HasPrefix(key, modPath) && !st.Field(i).Embedded() {
				if gt, ok := cur.Types[key]; ok && len(gt.Fields) == gs.NumFields() {
					for j, gf := range gt.Fields {
						flat = append(flat, flatField{gf.Name, gf.Type, gs.Field(j)})
					}
					groups = append(groups, st.Field(i))
					continue
				}
			}
		}
		flat = append(flat, flatField{cf.Name, cf.Type, st.Field(i)})
	}
	if len(groups) == 0 || len(flat) != len(rt.Fields) {
		return false
	}
	refNames := map[string]bool{}
	for _, f := range rt.Fields {
		refNames[f.Name] = true
	}
	flatNames := map[string]bool{}
	for _, f := range flat {
		flatNames[f.name] = true
	}
	alias := map[*types.Var]string{}
	used := map[string]bool{}
	var pending []flatField
	for _, f := range flat {
		if !refNames[f.name] {
			pending = append(pending, f)
		}
	}
	related := func(a, b string) bool {
		a, b = strings.ToLower(a), strings.ToLower(b)
		return strings.Contains(a, b) || strings.Contains(b, a)
	}
	// first by name relation (rx ~ rxLimiter), then by order among fields of the same type
	for pass := 0; pass < 2; pass++ {
		var rest []flatField
		for _, f := range pending {
			var cands []string
			for _, rf := range rt.Fields {
				if !flatNames[rf.Name] && !used[rf.Name] && rf.Type == mapTypes(f.typ) && (pass == 1 || related(f.name, rf.Name)) {
					cands = append(cands, rf.Name)
				}
			}
			if len(cands) == 1 || pass == 1 && len(cands) > 1 {
				alias[f.v] = cands[0]
				used[cands[0]] = true
				continue
			}
			rest = append(rest, f)
		}
		pending = rest
	}
	if len(pending) > 0 {
		return false
	}
	for v, o := range alias {
		if prev, ok := t.fieldAlias[v]; ok && prev != o {
			return false // the same group type stands for differently named fields elsewhere
		}
	}
	for v, o := range alias {
		t.fieldAlias[v] = o
		t.Notes = append(t.Notes, "field "+shortenFull(k)+"."+o+" moved into a grouping struct as "+v.Name())
	}
	for _, g := range groups {
		t.groupField[g] = true
	}
	return true
}

// splitFlat splits "func(A,B,C) R" into its parameter types and the result part.
func splitFlat(sig string) ([]string, string) {
	if !strings.HasPrefix(sig, "func(") {
		return nil, sig
	}
	depth := 0
	start := len("func(")
	var params []string
	for i := len("func("); i < len(sig); i++ {
		switch sig[i] {
		case '(', '[', '{':
			depth++
		case ')', ']', '}':
			if depth == 0 {
				if i > start {
					params = append(params, strings.TrimSpace(sig[start:i]))
				}
				return params, strings.TrimSpace(sig[i+1:])
			}
			depth--
		case ',':
			if depth == 0 {
				params = append(params, strings.TrimSpace(sig[start:i]))
				start = i + 1
			}
		}
	}
	return params, ""
}

// namedLocals lists the address-taken named locals of f and of the literals inside it, in order; into (if not
// nil) receives the allocations in the same order.
func namedLocals(f *ssa.Function, into *[]*ssa.Alloc) []refField {
	var out []refField
	var walk func(g *ssa.Function)
	walk = func(g *ssa.Function) {
		for _, b := range g.Blocks {
			for _, ins := range b.Instrs {
				a, ok := ins.(*ssa.Alloc)
				if !ok || a.Comment == "" || a.Comment == "complit" || a.Comment == "varargs" || a.Comment == "slicelit" || a.Heap && strings.HasPrefix(a.Comment, "new") {
					continue
				}
				out = append(out, refField{a.Comment, types.TypeString(a.Type(), func(p *types.Package) string { return p.Path() })})
				if into != nil {
					*into = append(*into, a)
				}
			}
		}
		for _, an := range g.AnonFuncs {
			walk(an)
		}
	}
	walk(f)
	return out
}

// aliasLocals: within a function known to the reference, the k-th local of a type answers to the name the k-th
// local of that type has in the reference, when both have the same number of locals of that type.
func aliasLocals(t *renameTable, f *ssa.Function, rf refFunc, mapTypes func(string) string) {
	var allocs []*ssa.Alloc
	cur := namedLocals(f, &allocs)
	byType := func(l []refField, mt func(string) string) map[string][]int {
		m := map[string][]int{}
		for i, x := range l {
			m[mt(x.Type)] = append(m[mt(x.Type)], i)
		}
		return m
	}
	ct, rt := byType(cur, mapTypes), byType(rf.Locals, func(s string) string { return s })
	for typ, ci := range ct {
		ri := rt[typ]
		if len(ri) != len(ci) {
			continue
		}
		// same set of names: nothing was renamed (only moved)
		names := map[string]int{}
		for _, i := range ci {
			names[cur[i].Name]++
		}
		for _, i := range ri {
			names[rf.Locals[i].Name]--
		}
		same := true
		for _, n := range names {
			if n != 0 {
				same = false
			}
		}
		if same {
			continue
		}
		// a rename introduces a name the reference function does not declare and retires one the current function
		// no longer declares; a local that merely stands where another variable of the function stood (a different
		// variable captured or addressed) is not a rename
		refDeclared, curDeclared := map[string]bool{}, map[string]bool{}
		for _, n := range rf.Names {
			refDeclared[n] = true
		}
		for _, n := range declaredNames(f) {
			curDeclared[n] = true
		}
		for k, i := range ci {
			if old := rf.Locals[ri[k]].Name; old != cur[i].Name && !refDeclared[cur[i].Name] && !curDeclared[old] {
				t.localAlias[allocs[i]] = old
			}
		}
	}
}

// declaredNames lists every name declared inside f (parameters, results, locals of all nested scopes), sorted.
func declaredNames(f *ssa.Function) []string {
	obj, ok := f.Object().(*types.Func)
	if !ok || obj.Scope() == nil {
		return nil
	}
	set := map[string]bool{}
	var walk func(sc *types.Scope)
	walk = func(sc *types.Scope) {
		for _, n := range sc.Names() {
			set[n] = true
		}
		for i := 0; i < sc.NumChildren(); i++ {
			walk(sc.Child(i))
		}
	}
	walk(obj.Scope())
	var out []string
	for n := range set {
		out = append(out, n)
	}
	sort.Strings(out)
	return out
}

type wrapFold struct {
	name string
	args []string
}

// wrapperOf recognises `func w(params) R { return callee(args) }` with every argument a parameter of w or free of
// parameters, and nothing else in the body.
func wrapperOf(f *ssa.Function) *refWrap {
	if len(f.Blocks) != 1 || len(f.AnonFuncs) > 0 {
		return nil
	}
	var call *ssa.Call
	for _, ins := range f.Blocks[0].Instrs {
		switch x := ins.(type) {
		case *ssa.Call:
			// argument-less calls that feed the one call (context.Background()) are part of its arguments
			if call != nil {
				return nil
			}
			if len(x.Common().Args) == 0 && !x.Common().IsInvoke() && x.Common().StaticCallee() != nil && len(*x.Referrers()) == 1 {
				if _, feeds := (*x.Referrers())[0].(*ssa.Call); feeds {
					continue
				}
			}
			call = x
		case *ssa.Return, *ssa.Extract, *ssa.DebugRef, *ssa.UnOp, *ssa.FieldAddr, *ssa.Alloc, *ssa.Store:
			// value receivers are spilled (Alloc/Store/UnOp): tolerated, checked through the argument terms below
		default:
			return nil
		}
	}
	if call == nil || call.Common().IsInvoke() || call.Common().StaticCallee() == nil {
		return nil
	}
	w := &refWrap{Callee: shortenFull(call.Common().StaticCallee().String())}
	for _, a := range call.Common().Args {
		d := describe(a)
		if strings.Contains(d, "local:") || strings.Contains(d, "phi(") {
			return nil
		}
		w.Args = append(w.Args, d)
	}
	// the results are the call's results, in order
	ret, ok := f.Blocks[0].Instrs[len(f.Blocks[0].Instrs)-1].(*ssa.Return)
	if !ok {
		return nil
	}
	for i, rv := range ret.Results {
		switch x := rv.(type) {
		case *ssa.Call:
			if x != call || len(ret.Results) != 1 {
				return nil
			}
		case *ssa.Extract:
			if x.Tuple != ssa.Value(call) || x.Index != i {
				return nil
			}
		default:
			return nil
		}
	}
	return w
}

// foldWrapper: a call `name(args)` that has the shape of an inlined reference wrapper is printed as that wrapper.
func foldWrapper(name string, args []string) (string, bool) {
	for _, wf := range curRenames.wrapFold[name] {
		if len(wf.args) != len(args) {
			continue
		}
		bound := map[int]string{}
		ok := true
		maxP := -1
		for i, pa := range wf.args {
			if strings.HasPrefix(pa, "$") && isNumLit(pa[1:]) {
				var k int
				fmt.Sscanf(pa[1:], "%d", &k)
				if prev, seen := bound[k]; seen && prev != args[i] {
					ok = false
				}
				bound[k] = args[i]
				if k > maxP {
					maxP = k
				}
			} else if pa != args[i] {
				ok = false
			}
		}
		if !ok {
			continue
		}
		var out []string
		for k := 0; k <= maxP; k++ {
			v, has := bound[k]
			if !has {
				ok = false
				break
			}
			out = append(out, v)
		}
		if ok {
			return wf.name + "(" + strings.Join(out, ", ") + ")", true
		}
	}
	return "", false
}

// inlinedWrapper: the reference function of that (short) name only forwarded to another call, is gone, and calls
// of its body's shape are read as calls of it.
func inlinedWrapper(name string) bool {
	for _, l := range curRenames.wrapFold {
		for _, w := range l {
			if w.name == name {
				return true
			}
		}
	}
	return false
}

var refTypeNames = map[string]bool{}

// isNewType: a named type of the module that the reference tree does not have (under this or an aliased name).
func isNewType(named *types.Named) bool {
	if !haveReference || named.Obj().Pkg() == nil || !strings.HasPrefix(named.Obj().Pkg().Path(), modPath) {
		return false
	}
	key := named.Obj().Pkg().Path() + "." + named.Obj().Name()
	if refTypeNames[key] {
		return false
	}
	_, aliased := curRenames.typeNew2Old[key]
	return !aliased
}

// paramNames: the names of f's parameters, receiver first.
func paramNames(f *ssa.Function) []string {
	var out []string
	for _, p := range f.Params {
		out = append(out, p.Name())
	}
	return out
}

// refGlobal finds the package-level variable that has (or had, before a rename) the given name.
func refGlobal(p *ssa.Package, name string) *ssa.Global {
	if g, ok := p.Members[name].(*ssa.Global); ok {
		return g
	}
	return curRenames.globalByRef[p.Pkg.Path()+"."+name]
}
