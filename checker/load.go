package main

import (
	"fmt"
	"go/token"
	"os"
	"os/exec"
	"path/filepath"
	"strings"

	"golang.org/x/tools/go/packages"
	"golang.org/x/tools/go/ssa"
	"golang.org/x/tools/go/ssa/ssautil"
)

const modPath = "github.com/saucelabs/forwarder"

// Program is the resolved program every rule is written against.
type Program struct {
	Repo      string
	Fset      *token.FileSet
	Pkgs      []*packages.Package // module packages only (roots)
	ByPath    map[string]*packages.Package
	SSA       *ssa.Program
	AllFuncs  map[*ssa.Function]bool
	Toolchain string
	BuildCfg  string
	nAllPkgs  int
}

// childEnv returns the environment for the `go list` child: the repository
// needs its own toolchain (go1.23.12 through GOTOOLCHAIN=auto), which
// GOSUMDB=off / GOTOOLCHAIN=local would break.
func childEnv(extra []string, local bool) []string {
	var env []string
	for _, kv := range os.Environ() {
		k := kv[:strings.IndexByte(kv+"=", '=')]
		switch k {
		case "GOSUMDB", "GOTOOLCHAIN", "GOWORK", "GOFLAGS", "GOPROXY", "GOOS", "GOARCH":
			continue
		}
		env = append(env, kv)
	}
	env = append(env, "GOFLAGS=-mod=mod", "GOPROXY=off", "GOWORK=off")
	if local {
		env = append(env, "GOTOOLCHAIN=local", "GOSUMDB=off")
	}
	env = append(env, extra...)
	return env
}

type loadOpts struct {
	repo    string
	env     []string // GOOS=…, GOARCH=…
	tags    string
	overlay map[string][]byte
}

// load type-checks the whole module from the working tree and builds SSA.
func load(o loadOpts) (*Program, error) {
	try := func(local bool, goCmd string) ([]*packages.Package, error) {
		cfg := &packages.Config{
			Mode:    packages.LoadAllSyntax,
			Dir:     o.repo,
			Env:     childEnv(o.env, local),
			Overlay: o.overlay,
			Tests:   false,
		}
		if goCmd != "" {
			// go/packages runs "go" from PATH; put a directory holding a
			// "go" symlink to the fallback toolchain in front.
			dir, err := os.MkdirTemp("", "fwdcheck-go")
			if err != nil {
				return nil, err
			}
			defer os.RemoveAll(dir)
			p, err := exec.LookPath(goCmd)
			if err != nil {
				return nil, err
			}
			if err := os.Symlink(p, filepath.Join(dir, "go")); err != nil {
				return nil, err
			}
			cfg.Env = append(cfg.Env, "PATH="+dir+string(os.PathListSeparator)+os.Getenv("PATH"))
		}
		if o.tags != "" {
			cfg.BuildFlags = []string{"-tags=" + o.tags}
		}
		return packages.Load(cfg, "./...")
	}
	toolchain := "repository toolchain (GOTOOLCHAIN=auto)"
	pkgs, err := try(false, "")
	if err != nil || len(pkgs) == 0 || hasListErrors(pkgs) {
		toolchain = "go1.26.8 (GOTOOLCHAIN=local fallback)"
		pkgs2, err2 := try(true, "go1.26.8")
		if err2 != nil {
			if err != nil {
				return nil, fmt.Errorf("load: %v; fallback: %v", err, err2)
			}
			return nil, fmt.Errorf("load fallback: %v", err2)
		}
		pkgs = pkgs2
	}
	if len(pkgs) == 0 {
		return nil, fmt.Errorf("no packages loaded from %s", o.repo)
	}
	var errs []string
	nAll := 0
	packages.Visit(pkgs, nil, func(p *packages.Package) {
		nAll++
		if strings.HasPrefix(p.PkgPath, modPath) {
			for _, e := range p.Errors {
				errs = append(errs, e.Error())
			}
		}
	})
	if len(errs) > 0 {
		return nil, fmt.Errorf("type errors in module packages:\n  %s", strings.Join(errs, "\n  "))
	}
	prog, _ := ssautil.AllPackages(pkgs, ssa.InstantiateGenerics)
	prog.Build()
	P := &Program{
		Repo: o.repo, Fset: pkgs[0].Fset, Pkgs: pkgs, ByPath: map[string]*packages.Package{},
		SSA: prog, AllFuncs: ssautil.AllFunctions(prog), Toolchain: toolchain, nAllPkgs: nAll,
		BuildCfg: strings.TrimSpace(strings.Join(o.env, " ") + " tags=" + o.tags),
	}
	for _, p := range pkgs {
		P.ByPath[p.PkgPath] = p
	}
	if len(pkgs) > 0 && pkgs[0].Module != nil && pkgs[0].Module.GoVersion != "" {
		P.Toolchain += "; module go " + pkgs[0].Module.GoVersion
	}
	return P, nil
}

func hasListErrors(pkgs []*packages.Package) bool {
	for _, p := range pkgs {
		for _, e := range p.Errors {
			if e.Kind == packages.ListError {
				return true
			}
		}
	}
	return false
}

// rel returns a repository-relative file:line for pos.
func (P *Program) rel(pos token.Pos) string {
	if !pos.IsValid() {
		return "?"
	}
	p := P.Fset.Position(pos)
	f := p.Filename
	if r, err := filepath.Rel(P.Repo, f); err == nil && !strings.HasPrefix(r, "..") {
		f = r
	}
	return fmt.Sprintf("%s:%d", f, p.Line)
}
