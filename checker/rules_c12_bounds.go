package main

import (
	"go/token"
	"crypto/sha1"
	"fmt"
	"go/types"
	"strings"

	"golang.org/x/tools/go/ssa"
)

// C12.R8 - constant offsets into peer-controlled strings and byte slices.
//
// `auth[len("Basic")+1:]`, `buf[12]`, `line[:5]`: an index or slice bound that
// is a compile-time constant panics when the operand is shorter. The operand's
// length is whatever the peer sent, and a run-time panic on a connection
// goroutine ends the process. For every such expression in the packages that
// touch peer bytes the rule requires a dominating fact that gives the operand
// at least that length:
//
//	len(x) >= K / !(len(x) < K) / len(x) == K / len(x) > K-1, K >= bound
//	strings.HasPrefix(x, "lit") / x == "lit" with len(lit) >= bound
//	x is make([]T, N), an array sliced whole, or x[:N] of something long enough
//
// Offsets that are not constants are not decided here (no sound bound in
// reach without a solver) - DESIGN.md says so.
func init() {
	register("C12", "R8", 3, "no crash from short input: every constant index / slice bound applied to a string or byte slice in the packages that parse peer bytes is dominated by a check that the operand is at least that long", c12r8)
	register("C12", "R9", 12, "a response handed back to the caller is complete: no function returns an *http.Response whose Body it has closed or closes on exit (the caller would relay the head and an empty, truncated body)", c12r9)
}

func peerBytePackages(n string) bool {
	for _, frag := range []string{"martian.", "martian/", "middleware.", "proxyproto.", "dialvia.", "forwarder.", "httplog.", "conntrack.", "ratelimit.", "hostsfile."} {
		if strings.HasPrefix(strings.TrimLeft(n, "(*"), frag) {
			return !strings.Contains(n, "/testing") && !strings.Contains(n, "testservice") && !strings.Contains(n, "h2/grpc")
		}
	}
	return false
}

// minLen returns a lower bound of len(v) that follows from how v was made.
func minLen(v ssa.Value) int64 {
	switch x := v.(type) {
	case *ssa.Const:
		if s, ok := constString(x); ok {
			return int64(len(s))
		}
	case *ssa.MakeSlice:
		if n, ok := constInt(x.Len); ok {
			return n
		}
	case *ssa.Slice:
		var lo int64
		if x.Low != nil {
			l, ok := constInt(x.Low)
			if !ok {
				return 0
			}
			lo = l
		}
		if x.High != nil {
			if h, ok := constInt(x.High); ok {
				return h - lo // the slice expression itself panics if the operand is shorter
			}
			return 0
		}
		if p, ok := x.X.Type().Underlying().(*types.Pointer); ok {
			if a, ok := p.Elem().Underlying().(*types.Array); ok {
				return a.Len() - lo
			}
		}
		return minLen(x.X) - lo
	case *ssa.Convert:
		return minLen(x.X)
	case *ssa.ChangeType:
		return minLen(x.X)
	}
	return 0
}

// guardLen returns the lower bound on len(term) implied by the branch conditions dominating b.
func guardLen(b *ssa.BasicBlock, term string) int64 {
	var best int64
	up := func(n int64) {
		if n > best {
			best = n
		}
	}
	lenT := "builtin len(" + term + ")"
	for _, g := range guardStrings(b) {
		k, pol := normCond(g)
		if l, op, rr, ok := splitTop(k); ok {
			if l == lenT {
				if n, ok := evalInt(rr); ok {
					switch {
					case op == "<" && !pol:
						up(n)
					case op == "<=" && !pol:
						up(n + 1)
					case op == "==" && pol:
						up(n)
					}
				}
			}
			if op == "==" && pol && l == term && strings.HasPrefix(rr, `"`) {
				up(int64(len(unquoteTerm(rr))))
			}
			continue
		}
		for _, hp := range []string{"strings.HasPrefix(" + term + ", ", "bytes.HasPrefix(" + term + ", "} {
			if pol && strings.HasPrefix(k, hp) {
				arg := strings.TrimSuffix(strings.TrimPrefix(k, hp), ")")
				if strings.HasPrefix(arg, `"`) {
					up(int64(len(unquoteTerm(arg))))
				}
			}
		}
	}
	return best
}

func unquoteTerm(s string) string {
	var out string
	if _, err := fmt.Sscanf(s, "%q", &out); err == nil {
		return out
	}
	return strings.Trim(s, `"`)
}

func c12r8(r *R) {
	for _, fn := range r.modFuncs() {
		if !peerBytePackages(fname(fn)) {
			continue
		}
		eachInstr(fn, func(ins ssa.Instruction) {
			var x ssa.Value
			var need int64
			var what string
			switch v := ins.(type) {
			case *ssa.Slice:
				if b, ok := v.X.Type().Underlying().(*types.Basic); !ok || b.Info()&types.IsString == 0 {
					return // arrays: checked by the compiler; byte slices: see c12r8 doc
				}
				if v.Low != nil {
					if n, ok := constInt(v.Low); ok && n > need {
						need = n
					}
				}
				if v.High != nil {
					if n, ok := constInt(v.High); ok && n > need {
						need = n
					}
				}
				x, what = v.X, "slice"
			case *ssa.Lookup:
				if b, ok := v.X.Type().Underlying().(*types.Basic); !ok || b.Info()&types.IsString == 0 {
					return
				}
				n, ok := constInt(v.Index)
				if !ok {
					return
				}
				x, need, what = v.X, n+1, "index"
			default:
				return
			}
			if need <= 0 {
				return
			}
			term := describe(x)
			have := minLen(x)
			if g := guardLen(ins.Block(), term); g > have {
				have = g
			}
			key := fmt.Sprintf("%s#%s(%s,%d)", fname(fn), what, term, need)
			if len(key) > 160 {
				key = key[:160]
			}
			if reason, ok := boundsAudited[fname(fn)]; ok && have < need {
				r.ok(key, ins.Pos(), "audited: "+reason)
				return
			}
			r.check(have >= need, key, ins.Pos(), fmt.Sprintf("operand is at least %d long here", have),
				fmt.Sprintf("%s needs len(%s) >= %d but the dominating checks only give %d: shorter input panics on the connection goroutine and ends the process", what, term, need, have))
		})
	}
}

// boundsAudited: functions whose constant offsets are safe for a reason the
// rule cannot see (one line each).
var boundsAudited = map[string]string{}

// ---------------------------------------------------------------------------

func c12r9(r *R) {
	for _, fn := range r.modFuncs() {
		if !peerBytePackages(fname(fn)) || fn.Signature.Results() == nil {
			continue
		}
		var idx []int
		for i := 0; i < fn.Signature.Results().Len(); i++ {
			if typeStr(fn.Signature.Results().At(i).Type()) == "*net/http.Response" {
				idx = append(idx, i)
			}
		}
		if len(idx) == 0 {
			continue
		}
		ps, complete := enumPaths(fn, 2048, 1)
		if !complete {
			// too many paths: fall back to the flow-insensitive form (a deferred close of a returned value)
			ps = nil
		}
		bad := map[string]bool{}
		for _, p := range ps {
			for _, i := range idx {
				if i >= len(p.Ret) || p.Ret[i] == "nil" {
					continue
				}
				want := "invoke io.ReadCloser.Close(" + p.Ret[i] + ".Body)"
				closed := false
				for _, e := range p.Events {
					if e.Kind == "call" && strings.TrimPrefix(e.Desc, "deferred ") == want {
						closed = true
					}
					if e.Kind == "store" && strings.HasPrefix(e.Desc, p.Ret[i]+".Body := ") {
						closed = false // the closed body was replaced (header-only replies get http.NoBody)
					}
				}
				if closed {
					bad["returns "+shorten(p.Ret[i], 80)+" after closing its Body"] = true
				}
			}
		}
		if !complete {
			rets := map[string]bool{}
			for _, i := range idx {
				for _, rv := range returnValues(fn, i) {
					rets[describe(rv)] = true
				}
			}
			eachInstr(fn, func(ins ssa.Instruction) {
				d, ok := ins.(*ssa.Defer)
				if !ok || calleeName(d.Common()) != "invoke io.ReadCloser.Close" {
					return
				}
				t := strings.TrimSuffix(describe(d.Common().Value), ".Body")
				if rets[t] {
					bad["defers closing the Body of "+shorten(t, 80)+", which it returns"] = true
				}
			})
		}
		var why []string
		for k := range bad {
			why = append(why, k)
		}
		sortStrings(why)
		r.check(len(why) == 0, fname(fn)+"#returned-response-open", fn.Pos(), "no returned response has its Body closed by this function", strings.Join(why, "; ")+": the caller writes the head and then a closed body - the client sees a truncated response")
	}
}

func shorten(s string, n int) string {
	if len(s) > n {
		return s[:n] + "…"
	}
	return s
}

// ---------------------------------------------------------------------------
// C12.R11 / C08.R8 - the PROXY-protocol header parser is the one place where
// raw peer bytes are cut up with computed offsets, on a goroutine of its own
// that nothing recovers. Every slice expression with a non-constant bound, and
// every slice whose lower bound is a merge of constants, in package proxyproto
// is decided here:
//
//   - a lower bound that is a phi of constants is fine when every incoming
//     edge that carries K > 0 leaves a block where len(operand) >= K is known;
//   - any other computed bound must be one of the audited expressions below
//     (function, operand, bounds - as SSA terms), each confirmed by reading.
//
// A new computed bound is a violation until it is audited: this is an
// "audited set" rule, the only one of its kind here, and it is confined to
// this one package (DESIGN.md 12.0.4 says why).
var proxyprotoAuditedBounds = map[string]string{
	"proxyproto.readUntilCRLF#bound:8f08d2d4":       "buf[idx:idx+1]: the loop runs while idx < 107 and every caller passes the 232-byte header buffer",
	"proxyproto.readUntilCRLF#bound:4fdfef01":       "buf[idx-1:idx+1]: idx starts at 13, 22 or 32 (the callers' constants) and only grows, upper bound as above",
	"proxyproto.readUntilCRLF#bound:62b86f9b":       "buf[0:idx-1]: idx >= 13",
	"proxyproto.parseV1Header#const($0,11)":         "buf[11:]: callers pass buf[0:30], buf[0:20] or readUntilCRLF's result, which is at least 12 bytes (idx >= 13)",
	"proxyproto.split#bound:91b82fb2":               "buf[:m]: m is the index bytes.IndexByte found in buf (tested >= 0)",
	"proxyproto.split#bound:bce429d6":               "buf[m+1:]: m < len(buf) as above, so m+1 <= len(buf)",
	"(*proxyproto.Header).ParseTLVs#bound:d5f6e4d5": "RawTLVs[offset+1:offset+3]: the loop condition is offset+3 < len(RawTLVs)",
	"(*proxyproto.Header).ParseTLVs#bound:534c3a54": "RawTLVs[begin:end]: end <= len(RawTLVs) is tested just above, begin = end - length <= end",
}

func init() {
	register("C12", "R11", 8, "no crash from a hostile PROXY header: every computed slice bound in package proxyproto is either a merge of constants each guarded by a length check on its own edge, or one of the audited expressions (bounded by a preceding length test or by the index a search returned)", proxyprotoBounds)
	register("C12", "R17", 1, "an unusual upstream reply cannot crash the logger: every computed slice bound in package httplog (its hooks run inside the connection goroutine, which nothing recovers) is kept inside the operand by a dominating length test or is an index found in the operand itself", func(r *R) { packageBounds(r, "httplog.") })
	register("C08", "R8", 8, "a malformed PROXY header fails only its own connection: computed slice bounds in the header parser cannot run past the bytes read (same rule as C12.R11)", proxyprotoBounds)
}

func proxyprotoBounds(r *R) { packageBounds(r, "proxyproto.") }

// packageBounds decides every slice expression with a bound that is not a literal-on-an-array in the functions of
// one package (the code there runs on a goroutine nothing recovers: an out-of-range bound ends the process).
func packageBounds(r *R, pkgPrefix string) {
	nFuncs, nSlices := 0, 0
	defer func() {
		if nFuncs > 0 {
			r.ok(pkgPrefix+"#slice-census", token.NoPos, fmt.Sprintf("%d functions of the package examined, %d slice expressions", nFuncs, nSlices))
		}
	}()
	for _, fn := range r.modFuncs() {
		if !strings.HasPrefix(strings.TrimLeft(fname(fn), "(*"), pkgPrefix) {
			continue
		}
		nFuncs++
		eachInstr(fn, func(ins ssa.Instruction) {
			if _, ok := ins.(*ssa.Slice); ok {
				nSlices++
			}
		})
		eachInstr(fn, func(ins ssa.Instruction) {
			sl, ok := ins.(*ssa.Slice)
			if !ok {
				return
			}
			if _, isPtr := sl.X.Type().Underlying().(*types.Pointer); isPtr {
				if (sl.Low == nil || isConstV(sl.Low)) && (sl.High == nil || isConstV(sl.High)) {
					return // array with constant bounds: the compiler checks it
				}
			}
			lowC, highC := sl.Low == nil || isConstV(sl.Low), sl.High == nil || isConstV(sl.High)
			// a bound chosen among constants (per protocol case) and adjusted by constants is as good as a literal:
			// the largest value it can take is the length needed
			lowSet, lowFin := constSet(sl.Low, 0)
			highSet, highFin := constSet(sl.High, 0)
			_, lowIsPhi := sl.Low.(*ssa.Phi)
			if lowC && highC || lowFin && highFin && !(lowIsPhi && highC) {
				// constant bounds on a slice: need the length
				var need int64
				for _, k := range append(lowSet, highSet...) {
					if k > need {
						need = k
					}
				}
				if need == 0 {
					return
				}
				have := minLen(sl.X)
				if g := guardLen(ins.Block(), describe(sl.X)); g > have {
					have = g
				}
				if p, ok := sl.X.(*ssa.Parameter); ok && have < need {
					have = paramMinLen(r, p)
				}
				key := fmt.Sprintf("%s#const(%s,%d)", fname(fn), shorten(describe(sl.X), 40), need)
				if reason, ok := proxyprotoAuditedBounds[key]; ok && have < need {
					r.ok(key, sl.Pos(), "audited: "+reason)
					return
				}
				r.check(have >= need, key, sl.Pos(), fmt.Sprintf("operand is at least %d long", have), fmt.Sprintf("needs len >= %d, only %d is known: a shorter buffer panics in the header-reading goroutine", need, have))
				return
			}
			x := describe(sl.X)
			lo, hi := "", ""
			if sl.Low != nil {
				lo = describe(sl.Low)
			}
			if sl.High != nil {
				hi = describe(sl.High)
			}
			sum := sha1.Sum([]byte(x + "|" + lo + "|" + hi))
			key := fmt.Sprintf("%s#bound:%x", fname(fn), sum[:4])
			shown := fmt.Sprintf("%s[%s:%s]", shorten(x, 40), shorten(lo, 50), shorten(hi, 50))
			// phi of constants as the lower bound
			if phi, ok := sl.Low.(*ssa.Phi); ok && highC {
				allConst := true
				var bad []string
				for i, e := range phi.Edges {
					k, isC := constInt(e)
					if !isC {
						allConst = false
						break
					}
					if k > 0 && guardLen(phi.Block().Preds[i], x) < k && minLen(sl.X) < k {
						bad = append(bad, fmt.Sprintf("offset %d arrives from a block where len(%s) >= %d is not known", k, shorten(x, 30), k))
					}
				}
				if allConst {
					r.check(len(bad) == 0, key, sl.Pos(), "every constant offset is set behind a length check", strings.Join(bad, "; ")+": a shorter block panics in the header-reading goroutine and ends the process")
					return
				}
			}
			// x[:m] and x[m+1:] with m the index bytes.IndexByte found in x itself, tested non-negative: decided
			if m, which := foundIndexBound(sl); m != nil {
				nonNeg := false
				dm := describe(m)
				for _, g := range guardStrings(sl.Block()) {
					if k, pol := normCond(g); k == "("+dm+" < 0)" && !pol {
						nonNeg = true
					}
				}
				if nonNeg {
					r.ok(fmt.Sprintf("%s#found-index(%s)", fname(fn), which), sl.Pos(), "the bound is the index bytes.IndexByte found in the operand itself, tested non-negative")
					return
				}
			}
			if reason, ok := proxyprotoAuditedBounds[key]; ok {
				r.ok(key, sl.Pos(), "audited: "+reason)
				return
			}
			r.bad(key, sl.Pos(), "computed slice bound "+shown+" in this package is not among the audited ones: nothing shown here keeps it inside the operand, and a panic in the header-reading goroutine ends the process")
		})
	}
}

func isConstV(v ssa.Value) bool { _, ok := v.(*ssa.Const); return ok }

// paramMinLen: the least length any static caller in the module passes for a slice parameter.
func paramMinLen(r *R, p *ssa.Parameter) int64 {
	fn := p.Parent()
	idx := -1
	for i, q := range fn.Params {
		if q == p {
			idx = i
		}
	}
	best := int64(-1)
	for _, g := range r.modFuncs() {
		for _, c := range callsToFunc(g, fn) {
			args := c.Common().Args
			if idx >= len(args) {
				continue
			}
			n := minLen(args[idx])
			if q, ok := args[idx].(*ssa.Parameter); ok && n == 0 {
				n = paramMinLen(r, q)
			}
			if best < 0 || n < best {
				best = n
			}
		}
	}
	if best < 0 {
		return 0
	}
	return best
}

// constSet lists the values v can take when it is a constant, a phi of such values, or such a value plus/minus
// a constant; ok=false when v is anything else. A nil bound is the empty set.
func constSet(v ssa.Value, depth int) ([]int64, bool) {
	if v == nil {
		return nil, true
	}
	if depth > 4 {
		return nil, false
	}
	if k, ok := constInt(v); ok {
		return []int64{k}, true
	}
	switch x := v.(type) {
	case *ssa.Phi:
		var out []int64
		for _, e := range x.Edges {
			s, ok := constSet(e, depth+1)
			if !ok {
				return nil, false
			}
			out = append(out, s...)
		}
		return out, true
	case *ssa.BinOp:
		if x.Op != token.ADD && x.Op != token.SUB {
			return nil, false
		}
		a, aok := constSet(x.X, depth+1)
		b, bok := constSet(x.Y, depth+1)
		if !aok || !bok {
			return nil, false
		}
		var out []int64
		for _, p := range a {
			for _, q := range b {
				if x.Op == token.ADD {
					out = append(out, p+q)
				} else {
					out = append(out, p-q)
				}
			}
		}
		return out, true
	case *ssa.Convert:
		return constSet(x.X, depth+1)
	}
	return nil, false
}

// foundIndexBound recognises x[:m] ("head") and x[m+1:] ("tail") where m was found in x by bytes.IndexByte
// (directly, or edge by edge when x and m are merged by phis of the same block). It returns m.
func foundIndexBound(sl *ssa.Slice) (ssa.Value, string) {
	var found func(m, x ssa.Value, depth int) bool
	found = func(m, x ssa.Value, depth int) bool {
		if depth > 3 {
			return false
		}
		if c, ok := m.(*ssa.Call); ok {
			switch calleeName(c.Common()) {
			case "bytes.IndexByte", "bytes.Index", "bytes.IndexAny", "bytes.IndexRune", "strings.IndexByte", "strings.Index":
				return c.Common().Args[0] == x
			}
			return false
		}
		mp, ok1 := m.(*ssa.Phi)
		xp, ok2 := x.(*ssa.Phi)
		if ok1 && ok2 && mp.Block() == xp.Block() && len(mp.Edges) == len(xp.Edges) {
			for i := range mp.Edges {
				if !found(mp.Edges[i], xp.Edges[i], depth+1) {
					return false
				}
			}
			return true
		}
		return false
	}
	switch {
	case sl.Low == nil && sl.High != nil && sl.Max == nil:
		if found(sl.High, sl.X, 0) {
			return sl.High, "head"
		}
	case sl.Low != nil && sl.High == nil && sl.Max == nil:
		if b, ok := sl.Low.(*ssa.BinOp); ok && b.Op == token.ADD {
			if k, isC := constInt(b.Y); isC && k == 1 && found(b.X, sl.X, 0) {
				return b.X, "tail"
			}
		}
	}
	return nil, ""
}
