package main

import (
	"fmt"
	"go/token"
	"strings"

	"golang.org/x/tools/go/ssa"
)

// Rules written after the eighth seeding round.
func init() {
	register("C10", "R18", 2, "a sender is not starved of credit (the C09.R5 decision, claimed here for the delivery clause: the WINDOW_UPDATEs for a received DATA frame carry the whole flow-controlled length, padding included - a short credit stalls a conforming sender before END_STREAM)", c09r5)
	register("C05", "R15", 1, "every PAC keyword gets its own scheme: on each path of pac.Proxy.URL the scheme is the lower-cased name of the mode that path admits (PROXY reads as http, HTTPS stays https, SOCKS5 socks5), DIRECT alone gives nil", pacSchemePerMode)
	register("C14", "R14", 1, "a result entry maps to the proxy its keyword names (the C05.R15 decision: scheme per mode in pac.Proxy.URL)", pacSchemePerMode)
	register("C06", "R13", 1, "the CONNECT header set of one tunnel is not visible to another: the dialer connectHTTP stores ProxyConnectHeader into is built in that very call (dialvia.HTTPProxy / HTTPSProxy), not taken from a cache, a field or a global - a shared dialer lets two overlapping CONNECTs go out with each other's Authorization", connectDialerIsFresh)
	register("C07", "R12", 1, "the no-SNI fallback name is this connection's CONNECT host: the *tls.Config TLSForHost returns is allocated in that call (its GetCertificate closure captures that call's hostname) - a config kept from an earlier call answers with the certificate of the first host ever intercepted", tlsConfigPerCall)
	register("C08", "R12", 1, "the header timeout applies whatever deadline the caller brings: in readHeaderContext, with a positive readHeaderTimeout, the only paths that do not wrap the context in WithTimeout(readHeaderTimeout) are those on which the caller's deadline is known to lie within the timeout", headerTimeoutGuard)
	register("C08", "R13", 1, "well-formed TLVs are carried, not judged: nothing reachable from the listener's header read interprets the TLV area (ParseTLVs / SplitTLVs); the bytes after the addresses are kept as RawTLVs", noTLVParseOnRead)
	register("C14", "R15", 1, "dnsResolve answers from the IPv4 lookup only: every value it returns is undefined, null, or built from the result of the \"ip4\" lookup (an IPv6 literal has no IPv4 address and yields null)", dnsResolveOnlyLookup)
	register("C12", "R20", 20, "no lock is left held on an error exit: in every function of the module, at each return the mutexes that must be held are only those whose Unlock is deferred there (a lock kept across a failed step blocks every later caller for ever - the next handshake, request or shutdown hangs instead of failing)", noLockLeftHeld)
	register("C19", "R11", 1, "key material given inline never reaches a file API: the two names loadX509KeyPair receives go only to ReadFileOrBase64 (which tells data: from a path) - handed to tls.LoadX509KeyPair / os.ReadFile a data: URI comes back inside the open error, key included", keyNamesOnlyToReader)
	register("C15", "R12", 1, "the MITM handshake limit is counted from the ClientHello: in handleMITM the context bounded by MITMTLSHandshakeTimeout is created after the client's first byte was seen (Peek), not before the CONNECT reply is written", mitmClockStartsAtHello)
}

func pacSchemePerMode(r *R) {
	modes := modeConsts(r) // value -> name
	um := r.method("pac", "Proxy", "URL")
	ps, complete := enumPaths(um, 256, 1)
	if !complete {
		r.undecided("pac.Proxy.URL#scheme-per-mode", um.Pos(), "too many paths")
		return
	}
	want := func(v string) string {
		n := modes[v]
		if n == "PROXY" {
			return "http"
		}
		return strings.ToLower(n)
	}
	var direct string
	for v, n := range modes {
		if n == "DIRECT" {
			direct = v
		}
	}
	var why []string
	nURL, nNil := 0, 0
	for _, p := range ps {
		if len(p.Ret) != 1 {
			continue
		}
		admitted := map[string]bool{}
		for v := range modes {
			admitted[v] = true
		}
		for _, c := range p.Conds {
			k, pol := normCond(c)
			l, op, rr, ok := splitTop(k)
			if !ok || op != "==" || !strings.HasSuffix(l, ".Mode") && !strings.HasSuffix(l, "$0") {
				continue
			}
			if _, isMode := modes[rr]; !isMode {
				continue
			}
			if pol {
				for v := range admitted {
					if v != rr {
						delete(admitted, v)
					}
				}
			} else {
				delete(admitted, rr)
			}
		}
		if p.Ret[0] == "nil" {
			nNil++
			for v := range admitted {
				if v != direct {
					why = append(why, "no proxy URL for mode "+modes[v])
				}
			}
			continue
		}
		nURL++
		sch, ok := p.Mem[p.Ret[0]+".Scheme"]
		if !ok {
			why = append(why, "a proxy URL without a scheme")
			continue
		}
		for v := range admitted {
			if v == direct {
				why = append(why, "DIRECT gets a proxy URL")
				continue
			}
			got := ""
			switch {
			case strings.HasPrefix(sch, `"`):
				got = strings.Trim(sch, `"`)
			case strings.HasPrefix(sch, "strings.ToLower((pac.Mode).String(") && strings.HasSuffix(sch, "))"):
				arg := strings.TrimSuffix(strings.TrimPrefix(sch, "strings.ToLower((pac.Mode).String("), "))")
				if n, isConst := modes[arg]; isConst {
					got = strings.ToLower(n)
				} else if strings.HasSuffix(arg, ".Mode") || arg == "$0" {
					got = strings.ToLower(modes[v])
				} else {
					got = "<" + arg + ">"
				}
			default:
				got = "<" + shorten(sch, 60) + ">"
			}
			if got != want(v) {
				why = append(why, fmt.Sprintf("mode %s gets scheme %q, want %q", modes[v], got, want(v)))
			}
		}
	}
	sortStrings(why)
	r.check(nURL > 0 && nNil > 0 && len(why) == 0, "pac.Proxy.URL#scheme-per-mode", um.Pos(), fmt.Sprintf("%d modes, each with its own scheme", len(modes)), strings.Join(dedupStrings(why), "; "))
}

// sharedSource walks the provenance of v and reports what it comes from when that is not an object made in the
// function being executed: ctor names the calls that make a fresh one.
func sharedSource(v ssa.Value, isCtor func(name string) bool, allocType string) (fresh bool, shared string) {
	backward(v, func(x ssa.Value) bool {
		switch y := x.(type) {
		case *ssa.Alloc:
			if allocType != "" && strings.HasSuffix(typeStr(y.Type()), allocType) && y.Heap {
				fresh = true
			}
		case *ssa.Call:
			cn := calleeName(y.Common())
			g := staticCallee(y.Common())
			switch {
			case isCtor != nil && isCtor(cn):
				fresh = true
			case g != nil && isNewHelper(g):
				for _, rv := range returnValues(g, 0) {
					f2, s2 := sharedSource(rv, isCtor, allocType)
					fresh = fresh || f2
					if s2 != "" {
						shared = s2
					}
				}
			default:
				shared = "the result of " + shorten(cn, 60)
			}
		case *ssa.Extract:
			if c, ok := y.Tuple.(*ssa.Call); ok {
				if g := staticCallee(c.Common()); g == nil || !isNewHelper(g) {
					shared = "the result of " + shorten(calleeName(c.Common()), 60)
				}
			}
		case *ssa.UnOp:
			if y.Op == token.MUL {
				switch a := y.X.(type) {
				case *ssa.FieldAddr:
					shared = "the field " + fieldName(a.X.Type(), a.Field)
				case *ssa.Global:
					shared = "the package variable " + a.Name()
				}
			}
		case *ssa.Lookup:
			shared = "a map entry"
		}
		return false
	})
	return fresh, shared
}

func connectDialerIsFresh(r *R) {
	fn := r.method(mpkg, "Proxy", "connectHTTP")
	n := 0
	eachInstrDeep(fn, func(ins ssa.Instruction) {
		st, ok := ins.(*ssa.Store)
		if !ok {
			return
		}
		fa, ok := st.Addr.(*ssa.FieldAddr)
		if !ok || fieldName(fa.X.Type(), fa.Field) != "ProxyConnectHeader" {
			return
		}
		n++
		fresh, shared := sharedSource(fa.X, func(cn string) bool {
			return cn == "dialvia.HTTPProxy" || cn == "dialvia.HTTPSProxy"
		}, "dialvia.HTTPProxyDialer")
		r.check(fresh && shared == "", "connectHTTP#dialer-per-call", st.Pos(), "the dialer that carries the request's header is built in this call", "the dialer whose ProxyConnectHeader is set per request is "+shared+": it outlives the call, and DialContextR reads the field after the TCP dial, so two overlapping CONNECTs through one upstream proxy are sent with each other's header set (Authorization included)")
	}, map[*ssa.Function]bool{}, 3)
	if n == 0 {
		r.bad("connectHTTP#dialer-per-call", fn.Pos(), "connectHTTP does not set ProxyConnectHeader")
	}
}

func tlsConfigPerCall(r *R) {
	fn := r.method(mpkg+"/mitm", "Config", "TLSForHost")
	n := 0
	var why []string
	for _, rv := range returnValues(fn, 0) {
		n++
		fresh, shared := sharedSource(rv, nil, "crypto/tls.Config")
		if !fresh || shared != "" {
			if shared == "" {
				shared = shorten(describe(rv), 80)
			}
			why = append(why, "the config returned is "+shared+", not one allocated for this call: its GetCertificate closure holds the hostname of the call that made it")
		}
	}
	r.check(n > 0 && len(why) == 0, "TLSForHost#config-per-call", fn.Pos(), "a new *tls.Config per call", strings.Join(dedupStrings(why), "; "))
}

func headerTimeoutGuard(r *R) {
	fn := r.method("proxyproto", "Conn", "readHeaderContext")
	ps, complete := enumPaths(fn, 4096, 1)
	if !complete {
		r.undecided("readHeaderContext#timeout-applies", fn.Pos(), "too many paths")
		return
	}
	const T = "$0.readHeaderTimeout"
	isRemaining := func(s string) bool {
		return strings.HasPrefix(s, "(time.Time).Sub(invoke context.Context.Deadline($1)#0, ") || s == "time.Until(invoke context.Context.Deadline($1)#0)"
	}
	nWrapped, nBare := 0, 0
	var why []string
	for _, p := range ps {
		if !p.holds("(" + T + " > 0)") {
			continue
		}
		if p.eventIndex(0, "call", prefix("context.WithTimeout($1, "+T+")")) >= 0 {
			nWrapped++
			continue
		}
		if p.eventIndex(0, "call", contains("readHeader(")) < 0 && p.eventIndex(0, "go", func(string) bool { return true }) < 0 {
			continue // the header is not read on this path
		}
		nBare++
		within := false
		for _, c := range p.Conds {
			pol := true
			for strings.HasPrefix(c, "!") {
				c, pol = c[1:], !pol
			}
			l, op, rr, ok := splitTop(c)
			if !ok {
				continue
			}
			if l == T && isRemaining(rr) { // turn it round: remaining on the left
				l, rr = rr, l
				op = map[string]string{"<": ">", "<=": ">=", ">": "<", ">=": "<="}[op]
			}
			if !isRemaining(l) || rr != T {
				continue
			}
			if pol && (op == "<" || op == "<=") || !pol && (op == ">" || op == ">=") {
				within = true
			}
		}
		hasDeadline := p.holds("invoke context.Context.Deadline($1)#1")
		if !within || !hasDeadline {
			why = append(why, fmt.Sprintf("the header is read without the %s bound although it is positive (caller has a deadline=%v, known to lie within the timeout=%v)", "readHeaderTimeout", hasDeadline, within))
		}
	}
	r.check(nWrapped > 0 && len(why) == 0, "readHeaderContext#timeout-applies", fn.Pos(), fmt.Sprintf("%d paths bounded by WithTimeout, %d by a nearer caller deadline", nWrapped, nBare), strings.Join(dedupStrings(why), "; "))
}

func noTLVParseOnRead(r *R) {
	n := 0
	for _, name := range []string{"ReadHeader", "readV1Header", "readV2Header"} {
		fn := r.fn("proxyproto", name)
		n++
		var hit []string
		eachInstrDeep(fn, func(ins ssa.Instruction) {
			c, ok := ins.(ssa.CallInstruction)
			if !ok {
				return
			}
			cn := calleeName(c.Common())
			if strings.HasSuffix(cn, ".ParseTLVs") || strings.HasSuffix(cn, ".SplitTLVs") || strings.HasSuffix(cn, "proxyproto.parseTLVs") {
				hit = append(hit, cn)
			}
		}, map[*ssa.Function]bool{}, 4)
		r.check(len(hit) == 0, "proxyproto."+name+"#tlvs-not-interpreted", fn.Pos(), "TLV bytes are kept raw", "the header read interprets the TLV area ("+strings.Join(dedupStrings(hit), ", ")+"): a header whose TLVs the parser mis-steps over is rejected although it is well-formed, and the connection loses its advertised address")
	}
	if n == 0 {
		r.bad("proxyproto#tlvs-not-interpreted", token.NoPos, "no header readers found")
	}
}

func dnsResolveOnlyLookup(r *R) {
	fn := r.method("pac", "ProxyResolver", "dnsResolve")
	ps, complete := enumPaths(fn, 256, 1)
	if !complete {
		r.undecided("ProxyResolver.dnsResolve#answers", fn.Pos(), "too many paths")
		return
	}
	var why []string
	n := 0
	for _, p := range ps {
		if len(p.Ret) != 1 || strings.HasPrefix(p.Ret[0], "<panic") {
			continue
		}
		switch ret := p.Ret[0]; {
		case ret == "github.com/dop251/goja.Null()", ret == "github.com/dop251/goja.Undefined()":
		case strings.Contains(ret, `, "ip4", `) && strings.Contains(ret, "(net.IP).String("):
			n++
		default:
			why = append(why, "dnsResolve answers "+shorten(ret, 100)+", which is not the IPv4 lookup's result")
		}
	}
	r.check(n > 0 && len(why) == 0, "ProxyResolver.dnsResolve#answers", fn.Pos(), "undefined, null or the ip4 lookup's first address", strings.Join(dedupStrings(why), "; "))
}

func mitmClockStartsAtHello(r *R) {
	hm := r.method(mpkg, "proxyConn", "handleMITM")
	hps, complete := enumPaths(hm, 50000, 1)
	if !complete {
		r.undecided("handleMITM#handshake-clock", hm.Pos(), "too many paths")
		return
	}
	n := 0
	var why []string
	for _, p := range hps {
		wi := p.eventIndex(0, "call", func(d string) bool {
			return strings.HasPrefix(d, "context.WithTimeout(") && strings.HasSuffix(d, ", $0.Proxy.MITMTLSHandshakeTimeout)")
		})
		if wi < 0 {
			continue
		}
		n++
		pi := p.eventIndex(0, "call", prefix("(*bufio.Reader).Peek($0.brw.Reader"))
		if pi < 0 || pi > wi {
			why = append(why, "the handshake deadline is set before the client's first byte is awaited: the time the client takes to start the handshake (and the CONNECT reply) is charged to the handshake limit")
		}
	}
	r.check(n > 0 && len(why) == 0, "handleMITM#handshake-clock", hm.Pos(), "WithTimeout(MITMTLSHandshakeTimeout) follows the Peek of the first byte on every path", strings.Join(dedupStrings(why), "; "))
}

// lockWrappers: functions that return with a lock held on purpose (none on today's tree; one line of reason each).
var lockWrappers = map[string]string{}

func noLockLeftHeld(r *R) {
	nLocks := 0
	for _, fn := range r.modFuncsAll() {
		if len(fn.Blocks) == 0 {
			continue
		}
		hasLock := false
		deferred := map[string]bool{}
		deferredSuffix := map[string]bool{}
		eachInstr(fn, func(ins ssa.Instruction) {
			switch x := ins.(type) {
			case *ssa.Call:
				switch calleeName(x.Common()) {
				case "(*sync.Mutex).Lock", "(*sync.RWMutex).Lock", "(*sync.RWMutex).RLock":
					hasLock = true
				}
			case *ssa.Defer:
				switch calleeName(x.Common()) {
				case "(*sync.Mutex).Unlock", "(*sync.RWMutex).Unlock", "(*sync.RWMutex).RUnlock":
					deferred[describe(x.Common().Args[0])] = true
				default:
					if mc, ok := x.Common().Value.(*ssa.MakeClosure); ok {
						if lit, ok := mc.Fn.(*ssa.Function); ok {
							eachInstr(lit, func(in2 ssa.Instruction) {
								if c2, ok := in2.(*ssa.Call); ok {
									switch calleeName(c2.Common()) {
									case "(*sync.Mutex).Unlock", "(*sync.RWMutex).Unlock", "(*sync.RWMutex).RUnlock":
										d := describe(c2.Common().Args[0])
										if i := strings.LastIndex(d, "."); i >= 0 {
											deferredSuffix[d[i:]] = true
										}
									}
								}
							})
						}
					}
				}
			}
		})
		if !hasLock {
			continue
		}
		nLocks++
		if _, ok := lockWrappers[fname(fn)]; ok {
			continue
		}
		// helpers the reference tree does not have: one that only locks is a lock wrapper (its callers are judged
		// without that lock); one that unlocks releases, in its caller, the mutex its argument names
		unlocksAny := false
		releasedByHelper := map[string]bool{}
		eachInstr(fn, func(ins ssa.Instruction) {
			c, ok := ins.(ssa.CallInstruction)
			if !ok {
				return
			}
			switch calleeName(c.Common()) {
			case "(*sync.Mutex).Unlock", "(*sync.RWMutex).Unlock", "(*sync.RWMutex).RUnlock":
				unlocksAny = true
			}
			g := staticCallee(c.Common())
			if g == nil || !isNewHelper(g) || len(g.Blocks) == 0 {
				return
			}
			eachInstr(g, func(in2 ssa.Instruction) {
				c2, ok := in2.(ssa.CallInstruction)
				if !ok {
					return
				}
				switch calleeName(c2.Common()) {
				case "(*sync.Mutex).Unlock", "(*sync.RWMutex).Unlock", "(*sync.RWMutex).RUnlock":
					d := describe(c2.Common().Args[0])
					for i, a := range c.Common().Args {
						pre := fmt.Sprintf("$%d", i)
						if d == pre || strings.HasPrefix(d, pre+".") {
							releasedByHelper[describe(a)+strings.TrimPrefix(d, pre)] = true
						}
					}
				}
			})
		})
		if isNewHelper(fn) && !unlocksAny && len(deferred) == 0 && len(deferredSuffix) == 0 {
			continue // a lock wrapper
		}
		ls := lockset(fn)
		var why []string
		pos := fn.Pos()
		for _, ret := range returnsOf(fn) {
			for m := range ls[ret] {
				if deferred[m] || releasedByHelper[m] {
					continue
				}
				if i := strings.LastIndex(m, "."); i >= 0 && deferredSuffix[m[i:]] {
					continue
				}
				why = append(why, "returns with "+m+" locked")
				if ret.Pos().IsValid() {
					pos = ret.Pos()
				}
			}
		}
		sortStrings(why)
		r.check(len(why) == 0, fname(fn)+"#locks-released", pos, "every return releases what was locked", strings.Join(dedupStrings(why), "; ")+": the next caller that needs the mutex waits for ever")
	}
	if nLocks == 0 {
		r.bad("module#locks-released", token.NoPos, "no locking functions found")
	}
}

func keyNamesOnlyToReader(r *R) {
	fn := r.fn(".", "loadX509KeyPair")
	n := 0
	var why []string
	eachInstrDeep(fn, func(ins ssa.Instruction) {
		c, ok := ins.(ssa.CallInstruction)
		if !ok {
			return
		}
		cn := calleeName(c.Common())
		for _, a := range c.Common().Args {
			d := describe(a)
			if d != "$0" && d != "$1" {
				continue
			}
			switch {
			case cn == "forwarder.ReadFileOrBase64":
				n++
			case cn == "strings.HasPrefix", cn == "forwarder.redactFileOrBase64":
			default:
				if g := staticCallee(c.Common()); g != nil && isNewHelper(g) {
					continue // walked in place
				}
				why = append(why, "the configured name "+d+" is handed to "+shorten(cn, 60))
			}
		}
	}, map[*ssa.Function]bool{}, 3)
	r.check(n >= 2 && len(why) == 0, "loadX509KeyPair#names", fn.Pos(), "certificate and key names go to ReadFileOrBase64 only", strings.Join(dedupStrings(why), "; ")+": for a data: URI the file API's error message repeats the name, i.e. the key material, into the fatal-error log")
}
