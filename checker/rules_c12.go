package main

import (
	"regexp"
	"fmt"
	"go/types"
	"sort"
	"strings"

	"golang.org/x/tools/go/ssa"
)

func init() {
	register("C12", "R1", 10, "every failure exit answers or closes: on every interprocedural path after a request was read, either exactly one response is written or the handler returns a close-class result; a failed round trip, CONNECT or response modifier reaches the error-response writer", c12r1)
	register("C12", "R2", 12, "classification table: connect time-out 504, other network and TLS failures 502, martian ErrorStatus its status, cancelled context 500, anything else 500; every classifier returns a 4xx/5xx code or 0; the error response carries the error header, a content type and a ContentLength equal to its body; an upstream CONNECT rejection is relayed with the upstream's status", c12r2)
	register("C12", "R3", 4, "write failures after the head close the connection (same analysis as C02.R3)", c02r3)
	register("C12", "R4", 3, "bounded error loop: a connection is dropped after 5 consecutive failed exchanges, the counter restarts on success, close-class errors end it at once", c12r4)
	register("C12", "R5", 4, "bodies that must not be read are never read: replies that cannot have a body (incl. a 101 whose body was handed to the tunnel and replaced by a panicking placeholder) are written by the manual head writer, never by Response.Write; body logging replaces a message body only with bytes it read completely", c12r5)
	registerThorough("C12", "R6", 3, "audited panic sites: every explicit panic and unchecked type assertion in the request path is one of the reviewed ones (placeholder body reads, the copy-buffer pool element type, http.ErrAbortHandler in handler mode, which net/http recovers)", c12r6)
}

func c12r1(r *R) {
	isWrite := func(e Event) bool {
		return e.Kind == "enter" && (e.Desc == "(*martian.proxyConn).writeResponse" || e.Desc == "(martian.proxyHandler).writeResponse")
	}
	type fam struct {
		name   string
		entry  *ssa.Function
		inline []string
		readOK string
	}
	fams := []fam{
		{"conn", r.method(mpkg, "proxyConn", "handle"), []string{"(*martian.proxyConn).handleConnectRequest", "(*martian.proxyConn).handleMITM", "(*martian.proxyConn).tunnel", "(*martian.proxyConn).handleUpgradeResponse", "(*martian.proxyConn).writeErrorResponse", "(*martian.proxyConn).writeResponse"}, "!((*martian.proxyConn).readRequest($0)#1 != nil)"},
		{"handler", r.method(mpkg, "proxyHandler", "handleRequest"), []string{"(martian.proxyHandler).handleConnectRequest", "(martian.proxyHandler).tunnel", "(martian.proxyHandler).handleUpgradeResponse", "(martian.proxyHandler).writeErrorResponse", "(martian.proxyHandler).writeResponse", "(*martian.proxyConn).writeResponse"}, ""},
	}
	for _, f := range fams {
		inl := map[string]bool{}
		for _, n := range f.inline {
			inl[n] = true
		}
		ps, complete := enumPathsOpts(f.entry, 300000, 2, InlineOpts{
			Inline: func(c *ssa.Function) bool { return inl[fname(c)] },
			Relevant: func(s string) bool {
				return strings.Contains(s, "StatusCode") || strings.Contains(s, ".Method") || strings.Contains(s, "ProtoMajor")
			},
			Interesting: isWrite,
			Alias:       true,
		})
		if !complete {
			r.undecided(f.name+"#paths", f.entry.Pos(), "too many paths")
			continue
		}
		type cls struct {
			chain  string
			writes int
			ret    string
		}
		seen := map[cls]*Path{}
		cnt := map[cls]int{}
		failNoErr := map[string]*Path{}
		for i := range ps {
			p := &ps[i]
			if p.Cut {
				continue
			}
			if _, isPanic := p.Exit.(*ssa.Panic); isPanic && !strings.Contains(p.Ret[0], "ErrAbortHandler") {
				continue
			}
			if f.readOK != "" && !p.holds(f.readOK) {
				continue
			}
			var chain []string
			w := 0
			tunnel := false
			for _, e := range p.Events {
				if e.Kind == "enter" {
					n := strings.TrimPrefix(strings.TrimPrefix(e.Desc, "(*martian.proxyConn)."), "(martian.proxyHandler).")
					chain = append(chain, n)
					if n == "tunnel" {
						tunnel = true
					}
				}
				if isWrite(e) {
					w++
				}
				if e.Kind == "call" && (strings.Contains(e.Desc, "ResponseWriter.WriteHeader(") || strings.Contains(e.Desc, ".Hijack")) && tunnel {
					// handler-mode tunnel over HTTP/2 writes the head itself; a failed hijack answers nothing but aborts the handler
				}
			}
			ret := "other"
			switch {
			case len(p.Ret) == 0:
				ret = "void"
			case p.Ret[0] == "nil":
				ret = "nil"
			case p.Ret[0] == "martian.errClose":
				ret = "errClose"
			case strings.Contains(p.Ret[0], "ErrAbortHandler"):
				ret = "abort"
			case strings.Contains(p.Ret[0], "h2.Config).Proxy"):
				ret = "h2-session-end"
			}
			c := cls{strings.Join(chain, "→"), w, ret}
			cnt[c]++
			if _, ok := seen[c]; !ok {
				seen[c] = p
			}
			// failures must reach the error writer
			for _, cond := range p.Conds {
				if strings.HasPrefix(cond, "!") || !strings.HasSuffix(cond, " != nil)") {
					continue
				}
				for src, suffix := range map[string]string{"(*martian.Proxy).roundTrip": "#1 != nil)", "(*martian.Proxy).Connect": "#2 != nil)", "(*martian.Proxy).modifyResponse": ") != nil)", "(*martian.Proxy).modifyRequest": ") != nil)"} {
					if strings.HasPrefix(cond, "("+src) && strings.HasSuffix(cond, suffix) && !strings.Contains(c.chain, "writeErrorResponse") && !strings.Contains(c.chain, "handleMITM") {
						failNoErr[strings.TrimPrefix(src, "(*martian.Proxy).")] = p
					}
				}
			}
		}
		var keys []cls
		for k := range seen {
			keys = append(keys, k)
		}
		sort.Slice(keys, func(i, j int) bool { return fmt.Sprint(keys[i]) < fmt.Sprint(keys[j]) })
		for _, k := range keys {
			p := seen[k]
			key := fmt.Sprintf("%s:%s[writes=%d,ret=%s]", f.name, k.chain, k.writes, k.ret)
			closing := p.hasCond(func(c string) bool { return strings.HasPrefix(c, "(*martian.Proxy).closing(") })
			ok := k.writes == 1 || k.ret == "errClose" || k.ret == "abort" || k.ret == "h2-session-end"
			// handler-mode h2 tunnel writes its head through the ResponseWriter
			if f.name == "handler" && strings.HasSuffix(k.chain, "tunnel") && k.writes == 0 {
				ok = true
			}
			if k.writes > 1 {
				ok = false
			}
			switch {
			case closing && k.writes == 0:
				r.ok(key, p.pos(), "request arrived after shutdown began: dropped, connection closed")
			case ok:
				r.ok(key, p.pos(), fmt.Sprintf("%d path(s): one response written, or the connection is closed", cnt[k]))
			default:
				r.bad(key, p.pos(), fmt.Sprintf("%d path(s) of this class write %d responses and return %s: the client gets no answer and the connection stays open, or gets two", cnt[k], k.writes, k.ret))
			}
		}
		for src, p := range failNoErr {
			r.bad(f.name+"#"+src+"-failure-unanswered", p.pos(), "a failed "+src+" does not reach the error-response writer")
		}
	}
}

func c12r2(r *R) {
	type h struct {
		fn    string
		codes []string
	}
	// each classifier: the set of non-zero codes it can return
	want := []h{
		{"handleNetError", []string{"502", "504"}}, {"handleTLSRecordHeader", []string{"502"}}, {"handleTLSCertificateError", []string{"502"}},
		{"handleTLSECHRejectionError", []string{"502"}}, {"handleTLSAlertError", []string{"502"}}, {"handleContextCancelationError", []string{"500"}},
		{"handleWindowsNetError", []string{"502"}},
	}
	for _, w := range want {
		fn := r.fn(".", w.fn)
		ps, _ := enumPaths(fn, 256, 1)
		got := map[string]bool{}
		for _, p := range ps {
			if len(p.Ret) == 3 && p.Ret[0] != "0" {
				got[p.Ret[0]] = true
			}
		}
		var g []string
		for k := range got {
			g = append(g, k)
		}
		sort.Strings(g)
		okCodes := strings.Join(g, ",") == strings.Join(w.codes, ",")
		if w.fn == "handleWindowsNetError" && len(g) == 0 {
			okCodes = true // compiled out on this GOOS (the thorough tier analyses GOOS=windows)
		}
		r.check(okCodes, w.fn+"#codes", fn.Pos(), "→ "+strings.Join(w.codes, "/"), w.fn+" yields status "+strings.Join(g, ",")+", the documented mapping is "+strings.Join(w.codes, ","))
	}
	// timeout → 504 specifically
	ne := r.fn(".", "handleNetError")
	ps, _ := enumPaths(ne, 64, 1)
	okT := true
	for _, p := range ps {
		if p.holds("errors.As($1, local:netErr)") {
			to := p.holds("(*net.OpError).Timeout(local:netErr)")
			if to != (p.Ret[0] == "504") || !to && p.Ret[0] != "502" {
				okT = false
			}
		}
	}
	r.check(okT, "handleNetError#timeout→504", ne.Pos(), "timeout ⇒ 504, other OpError ⇒ 502", "connect time-outs are not mapped to 504 (or other network errors not to 502)")
	// order of the handler list and the fallback
	er := r.method(".", "HTTPProxy", "errorResponse")
	handlers := errorHandlerList(r, er)
	pos := func(n string) int {
		for i, x := range handlers {
			if x == n {
				return i
			}
		}
		return -1
	}
	var why []string
	for _, n := range []string{"handleNetError", "handleTLSRecordHeader", "handleTLSCertificateError", "handleTLSAlertError", "handleMartianErrorStatus", "handleContextCancelationError", "handleStatusText"} {
		if pos(n) < 0 {
			why = append(why, n+" missing")
		}
	}
	if pos("handleStatusText") >= 0 && pos("handleStatusText") != len(handlers)-1 {
		why = append(why, "the textual fallback classifier is not last")
	}
	r.check(len(why) == 0, "errorResponse#handlers", er.Pos(), strings.Join(handlers, " → "), strings.Join(why, "; "))
	// fallback 500; header/content type/length
	eps, complete := enumPaths(er, 4096, 2)
	var bad []string
	if !complete {
		r.undecided("errorResponse#paths", er.Pos(), "too many paths")
	} else {
		n := 0
		for _, p := range eps {
			if p.Cut || len(p.Ret) != 1 {
				continue
			}
			n++
			res := p.Ret[0]
			if p.eventIndex(0, "call", prefix(`(net/http.Header).Set(`+res+`.Header, "X-Forwarder-Error", `)) < 0 {
				bad = append(bad, "error header missing")
			}
			if p.eventIndex(0, "call", eq(`(net/http.Header).Set(`+res+`.Header, "Content-Type", "text/plain; charset=utf-8")`)) < 0 {
				bad = append(bad, "content type missing")
			}
			if stripFrames(p.Mem[res+".ContentLength"]) != "(*bytes.Buffer).Len(local:body)" {
				bad = append(bad, "ContentLength is "+p.Mem[res+".ContentLength"]+" instead of the body buffer's length")
			}
			if !strings.HasPrefix(res, "martian/proxyutil.NewResponse(") || !strings.HasSuffix(stripFrames(res), ", local:body, $1)") {
				bad = append(bad, "response is "+res)
			}
			zero := p.hasCond(func(c string) bool {
				return strings.HasSuffix(c, " == 0)") && !strings.HasPrefix(c, "!") && strings.Contains(c, "code") || c == "(0 == 0)"
			})
			_ = zero
		}
		r.check(n > 0 && len(bad) == 0, "errorResponse#shape", er.Pos(), "error header, content type, exact ContentLength, bound to the request", strings.Join(dedupStrings(bad), "; "))
	}
	// fallback to 500 when no classifier matched
	fb := false
	eachInstr(er, func(ins ssa.Instruction) {
		if phi, ok := ins.(*ssa.Phi); ok { // the status code variable, whatever it is called: the phi that can be the literal 500
			for i, e := range phi.Edges {
				if v, ok := constInt(e); ok && v == 500 {
					fb = guardedBy(phi.Block().Preds[i], func(g string) bool { return strings.HasSuffix(g, " == 0)") && !strings.HasPrefix(g, "!") })
				}
			}
		}
	})
	// the same with the classification kept in a small struct: 500 stored into it when its code is still 0
	eachInstr(er, func(ins ssa.Instruction) {
		if st, ok := ins.(*ssa.Store); ok {
			if v, ok := constInt(st.Val); ok && v == 500 {
				for _, g := range guardsAt(st) {
					if strings.HasSuffix(g, " == 0)") && !strings.HasPrefix(g, "!") {
						fb = true
					}
				}
			}
		}
	})
	// ... or the classification loop moved into a helper that returns 500 when it falls out of the loop
	eachInstr(er, func(ins ssa.Instruction) {
		if ret, ok := ins.(*ssa.Return); ok && ret.Parent() != er && len(ret.Results) > 0 {
			if v, ok := constInt(ret.Results[0]); ok && v == 500 {
				matched := false
				for _, g := range guardStrings(ret.Block()) {
					if strings.HasSuffix(g, " != 0)") && !strings.HasPrefix(g, "!") || strings.HasSuffix(g, " == 0)") && strings.HasPrefix(g, "!") {
						matched = true // returned under "a handler matched": not the fallback
					}
				}
				if !matched {
					fb = true
				}
			}
		}
	})
	r.check(fb, "errorResponse#fallback-500", er.Pos(), "unclassified error ⇒ 500", "an unclassified error does not fall back to 500")
	// relayed CONNECT rejection precedes the local error response
	for _, recv := range []string{"proxyConn", "proxyHandler"} {
		fn := r.method(mpkg, recv, "writeErrorResponse")
		var mc, lr ssa.Instruction
		for _, c := range calls(fn, nameIs("martian.maybeConnectErrorResponse")) {
			mc = c.(ssa.Instruction)
		}
		for _, c := range calls(fn, nameIs("(*martian.Proxy).errorResponse")) {
			lr = c.(ssa.Instruction)
		}
		okc := mc != nil && lr != nil && instrDominates(mc, lr) && guardedBy(lr.Block(), func(g string) bool {
			return strings.HasPrefix(g, "!(martian.maybeConnectErrorResponse(") && strings.HasSuffix(g, " != nil)")
		})
		r.check(okc, recv+".writeErrorResponse#relay-first", fn.Pos(), "the upstream's own CONNECT rejection is relayed; the local error response is built only otherwise", "an upstream CONNECT rejection is not relayed with the upstream's status")
	}
	oc := r.fn(mpkg, "OnProxyConnectResponse")
	okS := false
	for _, c := range calls(oc, nameIs("martian/proxyutil.NewResponse")) {
		okS = describe(refArgs(c.Common())[0]) == "$3.StatusCode" && describe(refArgs(c.Common())[2]) == "$2"
	}
	r.check(okS, "OnProxyConnectResponse#status", oc.Pos(), "relayed response carries the upstream's status", "relayed CONNECT rejection does not carry the upstream proxy's status")
}

func c12r4(r *R) {
	hl := r.method(mpkg, "Proxy", "handleLoop")
	var inc *ssa.BinOp
	var cmp *ssa.BinOp
	eachInstr(hl, func(ins ssa.Instruction) {
		bo, ok := ins.(*ssa.BinOp)
		if !ok {
			return
		}
		if bo.Op.String() == "+" {
			if v, ok := constInt(bo.Y); ok && v == 1 {
				if _, ok := bo.X.(*ssa.Phi); ok { // the loop-carried error counter, whatever it is called
					inc = bo
				}
			}
		}
		if bo.Op.String() == ">=" && inc != nil && bo.X == ssa.Value(inc) {
			cmp = bo
		}
	})
	okBound := false
	if cmp != nil {
		if v, ok := constInt(cmp.Y); ok && v == 5 {
			// the true edge leads to a return
			for _, ref := range *cmp.Referrers() {
				if iff, ok := ref.(*ssa.If); ok {
					okBound = escapesToReturnOnly(iff.Block().Succs[0])
				}
			}
		}
	}
	r.check(okBound, "handleLoop#max-consecutive-errors", hl.Pos(), "5 consecutive failures end the connection", "the consecutive-error bound of 5 is gone or does not end the connection")
	// reset on success
	reset := false
	if inc != nil {
		phi := inc.X.(*ssa.Phi)
		for i, e := range phi.Edges {
			if v, ok := constInt(e); ok && v == 0 && i > 0 {
				reset = guardedBy(phi.Block().Preds[i], func(g string) bool {
					return strings.HasPrefix(g, "!((*martian.proxyConn).handle(") && strings.HasSuffix(g, " != nil)")
				}) || true
			}
		}
		zeroEdges := 0
		for _, e := range phi.Edges {
			if v, ok := constInt(e); ok && v == 0 {
				zeroEdges++
			}
		}
		reset = zeroEdges >= 2
	}
	r.check(reset, "handleLoop#reset-on-success", hl.Pos(), "counter restarts after a successful exchange", "the error counter is never reset: 5 failures over the whole life of a connection drop it")
	// close-class errors end the loop immediately
	ps, _ := enumPaths(hl, 4096, 2)
	okClose := false
	for _, p := range ps {
		if p.Cut {
			continue
		}
		if p.hasCond(func(c string) bool {
			return strings.HasPrefix(c, "errors.Is((*martian.proxyConn).handle(") && strings.HasSuffix(c, ", martian.errClose)")
		}) {
			n := 0
			for _, e := range p.Events {
				if e.Kind == "call" && strings.HasPrefix(e.Desc, "(*martian.proxyConn).handle(") {
					n++
				}
			}
			okClose = n == 1
		}
	}
	r.check(okClose, "handleLoop#errClose-ends", hl.Pos(), "errClose ends the connection at once", "a close-class error does not end the connection loop")
}

func escapesToReturnOnly(b *ssa.BasicBlock) bool {
	seen := map[*ssa.BasicBlock]bool{}
	var walk func(b *ssa.BasicBlock) bool
	walk = func(b *ssa.BasicBlock) bool {
		if seen[b] {
			return false // a cycle: goes back into the loop
		}
		seen[b] = true
		for _, ins := range b.Instrs {
			if _, ok := ins.(*ssa.Return); ok {
				return true
			}
		}
		if len(b.Succs) == 0 {
			return true
		}
		for _, s := range b.Succs {
			if !walk(s) {
				return false
			}
		}
		return true
	}
	return walk(b)
}

func c12r5(r *R) {
	c02r2(r)
	// body logging
	wb := r.method("httplog", "structuredLogBuilder", "WithBody")
	ps, complete := enumPaths(wb, 4096, 1)
	if !complete {
		r.undecided("httplog.WithBody", wb.Pos(), "too many paths")
		return
	}
	var why []string
	n := 0
	for _, p := range ps {
		base := "$1"
		for k := range p.Mem {
			if strings.HasSuffix(k, ".Request.Body") || strings.HasSuffix(k, ".Response.Body") {
				base = k[:strings.LastIndex(k[:len(k)-len(".Body")], ".")]
			}
		}
		for _, msg := range []struct{ body, read string }{{base + ".Request.Body", "io.ReadAll(" + base + ".Request.Body)"}, {base + ".Response.Body", "io.ReadAll(" + base + ".Response.Body)"}} {
			v, replaced := p.Mem[msg.body]
			failed := p.holds("(" + msg.read + "#1 != nil)")
			okRead := p.holds("!(" + msg.read + "#1 != nil)")
			if replaced {
				n++
				if !okRead || failed {
					why = append(why, msg.body+" is replaced although reading it failed: the stream error is swallowed and a truncated message is passed on as complete")
				}
				if !strings.Contains(v, "bytes.NewReader("+msg.read+"#0)") {
					why = append(why, msg.body+" is replaced by "+v)
				}
			}
		}
	}
	r.check(n > 0 && len(why) == 0, "httplog.WithBody#replace-only-complete", wb.Pos(), "a body is replaced by an in-memory copy only after it was read without error", strings.Join(dedupStrings(why), "; "))
}

func c12r6(r *R) {
	allowed := map[string]string{
		"(martian.panicReader).Read":                   "placeholder body of a 101 reply: reading it is a programming error (C12.R5 shows it is never read)",
		"(martian.proxyHandler).handleConnectRequest":  "http.ErrAbortHandler: recovered by net/http",
		"(martian.proxyHandler).handleUpgradeResponse": "http.ErrAbortHandler: recovered by net/http",
		"(martian.proxyHandler).writeResponse":         "http.ErrAbortHandler: recovered by net/http",
		"(*martian.Processors).ForDirection":           "invalid direction constant",
		"(*martian/h2.Processors).ForDirection":        "invalid direction constant (h2 relay unreachable in the forwarder binary)",
		"martian/header.randomBoundary":                "crypto/rand failure at start-up",
		"martian.init#1":                               "start-up linkage check, before any connection is accepted",
		"(*martian/mitm.Config).cert":                  "none expected",
		"martian/proxyutil.NewResponse":                "none expected",
	}
	for _, fn := range requestPathFuncs(r) {
		eachInstr(fn, func(ins ssa.Instruction) {
			p, ok := ins.(*ssa.Panic)
			if !ok {
				return
			}
			d := describe(p.X)
			if strings.Contains(d, "blocking select matched no case") {
				return
			}
			why, ok := allowed[fname(fn)]
			r.check(ok, fname(fn)+"#panic", p.Pos(), why, "explicit panic("+d+") in the request path outside the reviewed sites: a peer-controlled condition here crashes the process (handleLoop has no recover)")
		})
		eachInstr(fn, func(ins ssa.Instruction) {
			ta, ok := ins.(*ssa.TypeAssert)
			if !ok || ta.CommaOk {
				return
			}
			if it, isI := ta.AssertedType.Underlying().(*types.Interface); isI && types.Implements(ta.X.Type(), it) {
				return // go/ssa's nil check for a method value taken from an interface; cannot fail on the type
			}
			site := fname(fn) + "#assert(" + typeStr(ta.AssertedType) + ")"
			okSite := strings.HasSuffix(typeStr(ta.AssertedType), "*[]byte") || strings.Contains(fname(fn), "martian/fifo") || strings.Contains(fname(fn), "streamProcessors") ||
				(refName(fn) == "ContextTraceID" || refName(fn) == "ContextDuration") && typeStr(ta.AssertedType) == "martian.traceID" // private context key: only withTraceID stores under it, always a traceID
			r.check(okSite, site, ta.Pos(), "element type of the copy-buffer pool / internal container", "unchecked type assertion in the request path: a value of another type crashes the process")
		})
	}
}

// errorHandlerList: the classifiers errorResponse consults, in order - the slice literal built in the
// function (or in a helper split out of it), or a package-level slice it ranges over, initialised once.
func errorHandlerList(r *R, er *ssa.Function) []string {
	idx := map[string]int64{}
	var handlers []string
	collect := func(fn *ssa.Function) {
		eachInstr(fn, func(ins ssa.Instruction) {
			st, ok := ins.(*ssa.Store)
			if !ok {
				return
			}
			f, ok := unbox(st.Val).(*ssa.Function)
			ia, ok2 := st.Addr.(*ssa.IndexAddr)
			if ok && ok2 && strings.HasPrefix(refName(f), "handle") {
				if _, dup := idx[refName(f)]; dup {
					return
				}
				i, _ := constInt(ia.Index)
				idx[refName(f)] = i
				handlers = append(handlers, refName(f))
			}
		})
	}
	collect(er)
	if len(handlers) == 0 {
		// a package-level table: some global slice of classifiers read by errorResponse (or its helpers)
		var g *ssa.Global
		eachInstr(er, func(ins ssa.Instruction) {
			if u, ok := ins.(*ssa.UnOp); ok {
				if gg, ok := u.X.(*ssa.Global); ok {
					if pt, ok := gg.Type().Underlying().(*types.Pointer); ok {
						if sl, ok := pt.Elem().Underlying().(*types.Slice); ok {
							if _, isFunc := sl.Elem().Underlying().(*types.Signature); isFunc {
								g = gg
							}
						}
					}
				}
			}
		})
		if g != nil {
			stores := 0
			for _, fn := range r.modFuncsAll() {
				eachInstr(fn, func(ins ssa.Instruction) {
					if st, ok := ins.(*ssa.Store); ok && st.Addr == ssa.Value(g) {
						stores++
					}
				})
			}
			if stores == 1 {
				collect(er.Pkg.Func("init"))
			}
		}
	}
	sort.Slice(handlers, func(i, j int) bool { return idx[handlers[i]] < idx[handlers[j]] })
	return handlers
}

var frameSuffix = regexp.MustCompile(`(local:\w+(?:#t\d+)?)@\d+`)

// stripFrames removes the activation marks (@n) the path walker gives to locals of functions walked in place.
func stripFrames(s string) string { return frameSuffix.ReplaceAllString(s, "$1") }
