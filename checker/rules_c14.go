package main

import (
	"fmt"
	"go/types"
	"os"
	"path/filepath"
	"regexp"
	"sort"
	"strings"

	"golang.org/x/tools/go/ssa"
)

func init() {
	register("C14", "R1", 4, "exclusive VM per evaluation: the pool's FindProxyForURL takes a resolver, evaluates on it and puts it back exactly once on every path, without storing or returning it; only pool-backed resolvers are handed to the proxy as PACResolver (a bare ProxyResolver is one VM and not safe for concurrent use)", c14r1)
	register("C14", "R2", 4, "helper coverage: the Go-registered helper names together with the functions of the embedded JavaScript prelude contain every standard PAC helper, none defined twice; the IPv4 helper resolves with network ip4, the Ex helper with ip", c14r2)
	register("C14", "R3", 3, "result checks: an evaluation succeeds only with a string, ASCII result; a script error is returned; a resolver is constructed only when exactly one entry point is defined, and that one is called", c14r3)
	register("C14", "R5", 3, "a result-list entry is accepted only when well-formed: parseProxy returns without error only for the empty entry, the bare word DIRECT, or keyword SP host:port with a host:port that splits - and then with that keyword's mode, host and port; everything else is an error", c14r5)
	register("C14", "R4", 5, "result-list tables: parseMode covers every Mode constant under its own keyword with default DIRECT; the generated Mode names agree with the constant block; Proxy.URL maps DIRECT to nil and PROXY to http", c14r4)
}

func c14r1(r *R) {
	fp := r.method("pac", "ProxyResolverPool", "FindProxyForURL")
	ps, _ := enumPathsInline(fp, 256, 1, func(c *ssa.Function) bool { return fname(c) == "(*pac.ProxyResolverPool).get" })
	var why []string
	for _, p := range ps {
		var gets, puts, evals []int
		var pr string
		for i, e := range p.Events {
			if e.Kind != "call" {
				continue
			}
			d := strings.TrimPrefix(e.Desc, "deferred ")
			switch {
			case strings.HasPrefix(d, "(*sync.Pool).Get($0.pool)"):
				gets = append(gets, i)
				pr = d + ".(*pac.ProxyResolver)"
			case strings.HasPrefix(d, "(*sync.Pool).Put($0.pool, "):
				puts = append(puts, i)
				if pr != "" && d != "(*sync.Pool).Put($0.pool, "+pr+")" {
					why = append(why, "something other than the borrowed resolver is returned to the pool: "+d)
				}
			case strings.HasPrefix(d, "(*pac.ProxyResolver).FindProxyForURL("):
				evals = append(evals, i)
			}
		}
		if len(gets) != 1 || len(evals) != 1 {
			why = append(why, fmt.Sprintf("a path borrows %d resolvers and evaluates %d times", len(gets), len(evals)))
			continue
		}
		if len(puts) != 1 {
			why = append(why, fmt.Sprintf("a path returns the resolver to the pool %d times (must be exactly once: twice hands one VM to two callers, never leaks it) [error path=%v]", len(puts), p.hasCond(func(c string) bool { return strings.HasSuffix(c, "#1 != nil)") && !strings.HasPrefix(c, "!") })))
			continue
		}
		if !(gets[0] < evals[0] && evals[0] < puts[0]) {
			why = append(why, "resolver is used after it was returned to the pool")
		}
		for _, rv := range p.Ret {
			if strings.Contains(rv, "(*sync.Pool).Get(") && !strings.HasPrefix(rv, "(*pac.ProxyResolver).FindProxyForURL(") {
				why = append(why, "the borrowed resolver escapes through the result")
			}
		}
	}
	r.check(len(ps) >= 1 && len(why) == 0, "ProxyResolverPool.FindProxyForURL#borrow-use-return", fp.Pos(), "Get → evaluate → Put(same resolver), exactly once on every path", strings.Join(dedupStrings(why), "; "))
	// stores of the resolver
	esc := false
	eachInstr(fp, func(ins ssa.Instruction) {
		if st, ok := ins.(*ssa.Store); ok && strings.Contains(describe(st.Val), "(*sync.Pool).Get(") {
			if _, isAlloc := st.Addr.(*ssa.Alloc); !isAlloc {
				esc = true
			}
		}
	})
	r.check(!esc, "ProxyResolverPool.FindProxyForURL#no-escape", fp.Pos(), "the borrowed resolver is not stored anywhere", "the borrowed resolver is stored outside the call")
	// New creates a fresh resolver each time
	np := r.fn("pac", "NewProxyResolverPool")
	fresh := false
	for _, lit := range anonFuncs(np) {
		for range calls(lit, nameIs("pac.NewProxyResolver")) {
			fresh = true
		}
	}
	r.check(fresh, "NewProxyResolverPool#New", np.Pos(), "pool's New builds a new resolver (own VM) per element", "pool elements are not independent resolvers")
	// who becomes a PACResolver
	n := 0
	for _, fn := range r.modFuncs() {
		if skipNonProd(fname(fn)) {
			continue
		}
		eachInstr(fn, func(ins ssa.Instruction) {
			mi, ok := ins.(*ssa.MakeInterface)
			if !ok || typeStr(mi.Type()) != "forwarder.PACResolver" {
				return
			}
			n++
			t := typeStr(mi.X.Type())
			r.check(t == "*pac.ProxyResolverPool" || t == "*forwarder.LoggingPACResolver", fname(fn)+"#PACResolver("+t+")", mi.Pos(), "pool-backed (or logging wrapper around it)", "a "+t+" is used as the proxy's PAC resolver: a single goja VM evaluated concurrently")
		})
	}
	if n == 0 {
		r.bad("PACResolver#census", fp.Pos(), "no PACResolver conversion found (rule must follow the code)")
	}
}

func c14r2(r *R) {
	rf := r.method("pac", "ProxyResolver", "registerFunctions")
	goNames := map[string]string{}
	// the table: elements whose fields hold a helper name (a string constant) and its implementation (a function
	// value), whatever the element type and its fields are called
	type entry struct{ name, impl string }
	elems := map[ssa.Value]*entry{}
	var order []ssa.Value
	eachInstr(rf, func(ins ssa.Instruction) {
		st, ok := ins.(*ssa.Store)
		if !ok {
			return
		}
		fa, ok := st.Addr.(*ssa.FieldAddr)
		if !ok {
			return
		}
		if _, ok := fa.X.(*ssa.IndexAddr); !ok {
			return
		}
		e := elems[fa.X]
		if e == nil {
			e = &entry{}
			elems[fa.X] = e
			order = append(order, fa.X)
		}
		if s, ok := constString(st.Val); ok {
			e.name = s
		} else if _, isFunc := st.Val.Type().Underlying().(*types.Signature); isFunc {
			e.impl = describe(st.Val)
		}
	})
	for _, k := range order {
		e := elems[k]
		if e.name == "" {
			continue
		}
		if e.impl == "" {
			e.impl = "?"
		}
		goNames[e.name] = e.impl
	}
	js := map[string]bool{}
	b, err := os.ReadFile(filepath.Join(r.Repo, "pac", "ascii_pac_utils.js"))
	if err != nil {
		r.undecided("pac/ascii_pac_utils.js", rf.Pos(), "cannot read the embedded prelude: "+err.Error())
		return
	}
	for _, m := range regexp.MustCompile(`(?m)^function\s+([A-Za-z_][A-Za-z0-9_]*)\s*\(`).FindAllStringSubmatch(string(b), -1) {
		if js[m[1]] {
			r.bad("prelude#duplicate("+m[1]+")", rf.Pos(), "helper defined twice in the JavaScript prelude")
		}
		js[m[1]] = true
	}
	need := []string{"isPlainHostName", "dnsDomainIs", "localHostOrDomainIs", "dnsDomainLevels", "shExpMatch", "isInNet", "isResolvable", "dnsResolve", "myIpAddress", "isResolvableEx", "isInNetEx", "dnsResolveEx", "myIpAddressEx", "sortIpAddressList", "weekdayRange", "dateRange", "timeRange", "alert"}
	var miss, dup []string
	for _, n := range need {
		_, g := goNames[n]
		if !g && !js[n] {
			miss = append(miss, n)
		}
		if g && js[n] {
			dup = append(dup, n)
		}
	}
	sort.Strings(miss)
	r.check(len(miss) == 0 && len(dup) == 0, "pac#helper-coverage", rf.Pos(), fmt.Sprintf("%d Go helpers + %d prelude functions cover the %d standard helpers", len(goNames), len(js), len(need)), "missing helpers: "+strings.Join(miss, ",")+"; defined on both sides: "+strings.Join(dup, ","))
	// each registered name is bound to the method of the same name (modulo Ip/IP spelling)
	var wrong []string
	for n, f := range goNames {
		want := strings.ToLower(strings.ReplaceAll(n, "Ip", "IP"))
		got := strings.ToLower(f)
		if !strings.Contains(got, "proxyresolver)."+want+"$bound") {
			wrong = append(wrong, n+"→"+f)
		}
	}
	sort.Strings(wrong)
	r.check(len(wrong) == 0 && len(goNames) >= 8, "registerFunctions#bindings", rf.Pos(), "every helper name is bound to the like-named implementation", "helper names bound to other implementations: "+strings.Join(wrong, ", "))
	// address families
	for _, s := range []struct{ m, net string }{{"dnsResolve", "ip4"}, {"dnsResolveEx", "ip"}} {
		fn := r.method("pac", "ProxyResolver", s.m)
		got := []string{}
		// follow helpers of the resolver one level
		fns := []*ssa.Function{fn}
		eachInstr(fn, func(ins ssa.Instruction) {
			if c, ok := ins.(*ssa.Call); ok {
				if sc := staticCallee(c.Common()); sc != nil && strings.HasPrefix(fname(sc), "(*pac.ProxyResolver).") && len(sc.Blocks) > 0 {
					fns = append(fns, sc)
				}
			}
		})
		for _, f := range fns {
			eachInstr(f, func(ins ssa.Instruction) {
				c, ok := ins.(*ssa.Call)
				if !ok || len(c.Common().Args) != 3 {
					return
				}
				d := describe(c.Common().Value)
				if strings.Contains(d, "LookupIP") || strings.Contains(d, "lookupIP") || strings.Contains(d, "testingLookupIP") {
					if nw, ok := constString(refArgs(c.Common())[1]); ok {
						got = append(got, nw)
					} else {
						got = append(got, describe(refArgs(c.Common())[1]))
					}
				}
			})
		}
		r.check(len(got) == 1 && got[0] == s.net, "ProxyResolver."+s.m+"#network", fn.Pos(), "resolves with network "+s.net, fmt.Sprintf("%s resolves with network %v; the specification of %s requires %q (dnsResolve/isResolvable/isInNet are IPv4-only)", s.m, got, s.m, s.net))
	}
}

func sameIndex(a, b ssa.Value) bool {
	fa, ok1 := a.(*ssa.FieldAddr)
	fb, ok2 := b.(*ssa.FieldAddr)
	return ok1 && ok2 && fa.X == fb.X
}

func c14r3(r *R) {
	fp := r.method("pac", "ProxyResolver", "FindProxyForURL")
	ps, _ := enumPaths(fp, 256, 1)
	var why []string
	nOK := 0
	for _, p := range ps {
		if len(p.Ret) != 2 {
			continue
		}
		if p.Ret[1] == "nil" {
			nOK++
			okS := p.hasCond(func(c string) bool { return strings.HasPrefix(c, "pac.asString(") && strings.HasSuffix(c, "#1") })
			okA := p.hasCond(func(c string) bool { return strings.HasPrefix(c, "(*golang.org/x/exp/utf8string.String).IsASCII(") })
			okE := p.hasCond(func(c string) bool { return strings.HasPrefix(c, "!(dyn:$0.fn(") && strings.HasSuffix(c, "#1 != nil)") })
			if !okS || !okA || !okE {
				why = append(why, fmt.Sprintf("success without: string result=%v ASCII=%v no script error=%v", okS, okA, okE))
			}
			if !strings.HasPrefix(p.Ret[0], "pac.asString(") {
				why = append(why, "returns "+p.Ret[0])
			}
		}
	}
	r.check(nOK >= 1 && len(why) == 0, "ProxyResolver.FindProxyForURL#result-checks", fp.Pos(), "success ⇒ no script error ∧ string ∧ ASCII", strings.Join(dedupStrings(why), "; "))
	// hostname default
	okHost := false
	for _, p := range ps {
		if p.holds(`($2 == "")`) {
			okHost = p.eventIndex(0, "call", eq("(*net/url.URL).Hostname($1)")) >= 0
		}
	}
	r.check(okHost, "ProxyResolver.FindProxyForURL#host-default", fp.Pos(), "empty host argument defaults to the URL's host name", "host argument is not defaulted from the URL")
	np := r.fn("pac", "NewProxyResolver")
	// the entry-point lookup is walked in place, whatever form it has (method, function of the VM, inline)
	ps, _ = enumPathsInline(np, 4096, 2, func(c *ssa.Function) bool { return refName(c) == "entryPoint" })
	why = nil
	nOK = 0
	entryTerm := func(p *Path, name string) string {
		suffix := `, "` + name + `"))#0`
		for _, c := range p.Conds {
			k, _ := normCond(c)
			l, op, rr, ok := splitTop(k)
			if ok && op == "==" && rr == "nil" && strings.HasPrefix(l, "github.com/dop251/goja.AssertFunction((*github.com/dop251/goja.Runtime).Get(") && strings.HasSuffix(l, suffix) {
				return l
			}
		}
		return ""
	}
	for _, p := range ps {
		if p.Cut || len(p.Ret) != 2 || p.Ret[1] != "nil" {
			continue
		}
		nOK++
		pr := p.Ret[0]
		chosen := p.Mem[pr+".fn"]
		xT, fT := entryTerm(&p, "FindProxyForURLEx"), entryTerm(&p, "FindProxyForURL")
		xNil, kx := p.outcome("(" + xT + " == nil)")
		fNil, kf := p.outcome("(" + fT + " == nil)")
		if xT == "" || fT == "" || !kx || !kf {
			why = append(why, "a resolver is constructed without both entry points having been examined")
			continue
		}
		hasX, hasF := !xNil, !fNil
		if hasX == hasF {
			why = append(why, fmt.Sprintf("resolver constructed with FindProxyForURLEx=%v FindProxyForURL=%v (exactly one is required)", hasX, hasF))
		}
		if hasX && chosen != xT || hasF && !hasX && chosen != fT {
			why = append(why, "the entry point called is "+chosen)
		}
	}
	r.check(nOK >= 2 && len(why) == 0, "NewProxyResolver#entry-point", np.Pos(), "exactly one of FindProxyForURL / FindProxyForURLEx (looked up by those names in the script's VM), and that one is called", strings.Join(dedupStrings(why), "; "))
}

func c14r4(r *R) {
	modes := modeConsts(r)
	// generated names
	p := r.pkg("pac")
	var names string
	if c, ok := p.Pkg.Scope().Lookup("_Mode_name").(*types.Const); ok {
		names = strings.Trim(c.Val().ExactString(), `"`)
	}
	var want string
	for i := 0; i < len(modes); i++ {
		want += modes[fmt.Sprint(i)]
	}
	r.check(names == want && want != "", "pac.Mode#stringer", p.Func("init").Pos(), "generated names "+names+" agree with the constant block", "mode_string.go names "+names+" do not match the Mode constants "+want+" (regenerate with stringer)")
	c05r4(r)
}

func c14r5(r *R) {
	pp := r.fn("pac", "parseProxy")
	ps, complete := enumPaths(pp, 256, 1)
	if !complete {
		r.undecided("parseProxy#paths", pp.Pos(), "too many paths")
		return
	}
	const in = "strings.TrimSpace($0)"
	cut := "strings.Cut(" + in + ", \" \")"
	split := "net.SplitHostPort(" + cut + "#1)"
	for i, p := range ps {
		key := fmt.Sprintf("parseProxy#path%d", i)
		if len(p.Ret) != 2 {
			r.undecided(key, p.pos(), "unexpected result arity")
			continue
		}
		if p.Ret[1] != "nil" {
			r.ok(key, p.pos(), "rejected with "+shorten(p.Ret[1], 60))
			continue
		}
		switch {
		case p.holds("(" + in + " == \"\")"):
			r.check(p.Ret[0] == "pac.noProxy" || p.Mem[p.Ret[0]+".Mode"] == "0:pac.Mode" || p.Mem[p.Ret[0]+".Mode"] == "", key, p.pos(), "empty entry: DIRECT", "the empty entry yields "+p.Ret[0])
		case p.holds("(" + in + " == \"DIRECT\")"):
			host, port := p.Mem[p.Ret[0]+".Host"], p.Mem[p.Ret[0]+".Port"]
			r.check(host == "" && port == "", key, p.pos(), "the bare word DIRECT", "DIRECT entry carries host "+host+" port "+port)
		case p.holds(cut+"#2") && p.holds("("+split+"#2 == nil)"):
			mode, host, port := p.Mem[p.Ret[0]+".Mode"], p.Mem[p.Ret[0]+".Host"], p.Mem[p.Ret[0]+".Port"]
			good := mode == "pac.parseMode("+cut+"#0)" && host == split+"#0" && port == split+"#1"
			r.check(good, key, p.pos(), "keyword SP host:port: mode of the keyword, host and port of the split", fmt.Sprintf("a well-formed entry yields mode=%s host=%s port=%s", shorten(mode, 60), shorten(host, 60), shorten(port, 60)))
		default:
			r.bad(key, p.pos(), "an entry is accepted (nil error) although it is neither empty, DIRECT, nor keyword SP host:port that splits: on ["+strings.Join(p.Conds, " ∧ ")+"]")
		}
	}
}
