// fwdcheck decides structural clauses of the forwarder properties C01..C20 by
// static analysis of /repo's current working tree. See /verif/DESIGN.md.
package main

import (
	"encoding/json"
	"flag"
	"fmt"
	"os"
	"os/exec"
	"path/filepath"
	"sort"
	"strconv"
	"strings"
	"sync"
	"time"
)

type childOut struct {
	Result  *result
	Prog    map[string]any
	Err     string
	BuildCf string
}

func main() {
	var (
		repo     = flag.String("repo", "/repo", "repository working tree")
		propArg  = flag.String("property", "", "property id (C01..C20), comma list, or 'all'")
		tier     = flag.String("tier", "quick", "quick|thorough")
		outDir   = flag.String("out", "evidence", "evidence directory")
		knownP   = flag.String("known", "known_findings.json", "known findings file (never written)")
		replay   = flag.String("replay", "", "replay file: re-evaluate that obligation")
		child    = flag.Bool("child", false, "internal: print the result as JSON")
		goos     = flag.String("goos", "", "internal: GOOS for this run")
		goarch   = flag.String("goarch", "", "internal: GOARCH for this run")
		tags     = flag.String("tags", "", "internal: build tags for this run")
		mutant   = flag.String("mutant", "", "internal: apply the named self-test mutant through an overlay")
		list     = flag.Bool("list", false, "list rules and mutants")
		selftest = flag.Bool("selftest", false, "run the mutant self-test only")
		verbose  = flag.Bool("v", false, "print every obligation")
		dump     = flag.String("dump", "", "debug: dump functions whose name ends with this")
		invOut   = flag.String("inventory", "", "write the reference inventory of the analysed tree to this file and exit")
		refPath  = flag.String("reference", "reference/inventory.json", "reference inventory (names of the reviewed tree) used to see through renames")
	)
	flag.Parse()
	if exe, err := os.Executable(); err == nil {
		registerCorpora(filepath.Dir(filepath.Dir(exe))) // <verif>/bin/fwdcheck -> <verif>/seeded, <verif>/refactorings
	}
	if t := os.Getenv("VERIF_TIER"); t == "quick" || t == "thorough" {
		*tier = t
	}
	seed, _ := strconv.Atoi(os.Getenv("VERIF_SEED"))

	if *list {
		for _, ru := range rules {
			fmt.Printf("%s floor=%d thorough=%v  %s\n", ru.Name(), ru.Floor, ru.Thorough, ru.Decides)
		}
		for _, m := range mutants {
			if m.Benign {
				fmt.Printf("mutant %s expects silence\n", m.Name)
			} else {
				fmt.Printf("mutant %s expects %s\n", m.Name, strings.Join(m.Expect, ","))
			}
		}
		return
	}

	var replayOb *Obligation
	if *replay != "" {
		b, err := os.ReadFile(*replay)
		if err != nil {
			fatal("replay: %v", err)
		}
		var rf struct {
			Obligation Obligation `json:"obligation"`
			Tier       string     `json:"tier"`
		}
		if err := json.Unmarshal(b, &rf); err != nil {
			fatal("replay: %v", err)
		}
		replayOb = &rf.Obligation
		*propArg = rf.Obligation.Property
		if rf.Tier != "" {
			*tier = rf.Tier
		}
	}

	var props []string
	switch {
	case *propArg == "all":
		seen := map[string]bool{}
		for _, ru := range rules {
			if !seen[ru.Property] {
				seen[ru.Property] = true
				props = append(props, ru.Property)
			}
		}
		sort.Strings(props)
	case *propArg != "":
		props = strings.Split(*propArg, ",")
	default:
		if *dump == "" && *invOut == "" {
			fatal("-property is required")
		}
	}
	for _, p := range props {
		found := false
		for _, ru := range rules {
			found = found || ru.Property == p
		}
		if !found {
			fatal("no rules registered for property %q", p)
		}
	}

	known, err := loadKnown(*knownP)
	if err != nil {
		fatal("%v", err)
	}

	t0 := time.Now()
	opts := loadOpts{repo: *repo, tags: *tags}
	if *goos != "" {
		opts.env = append(opts.env, "GOOS="+*goos)
	}
	if *goarch != "" {
		opts.env = append(opts.env, "GOARCH="+*goarch)
	}
	var mut *Mutant
	if *mutant != "" {
		mut = findMutant(*mutant)
		if mut == nil {
			fatal("unknown mutant %q", *mutant)
		}
		ov, err := mut.overlay(*repo)
		if err != nil {
			if *child {
				json.NewEncoder(os.Stdout).Encode(childOut{Err: "inapplicable: " + err.Error()})
				return
			}
			fatal("mutant %s: %v", mut.Name, err)
		}
		opts.overlay = ov
	}
	P, err := load(opts)
	if err != nil {
		if *child {
			json.NewEncoder(os.Stdout).Encode(childOut{Err: err.Error()})
			return
		}
		fatal("%v", err)
	}

	if *invOut != "" {
		if err := writeInventory(P, *invOut); err != nil {
			fatal("%v", err)
		}
		return
	}
	referencePath, _ = filepath.Abs(*refPath)
	loadRenames(P, referencePath)
	if len(curRenames.Notes) > 0 && !*child {
		for _, n := range curRenames.Notes {
			fmt.Println("note: " + n)
		}
	}

	if *dump != "" {
		if strings.HasPrefix(*dump, "guards:") {
			dumpGuards(P, strings.TrimPrefix(*dump, "guards:"))
		} else if strings.HasPrefix(*dump, "ipaths:") {
			dumpIPaths(P, strings.TrimPrefix(*dump, "ipaths:"))
		} else if strings.HasPrefix(*dump, "paths:") {
			dumpPaths(P, strings.TrimPrefix(*dump, "paths:"))
		} else {
			dumpFunc(P, *dump)
		}
		return
	}
	if *child {
		// one property per child
		res := runProperty(P, props[0], *tier, known)
		json.NewEncoder(os.Stdout).Encode(childOut{Result: res, BuildCf: P.BuildCfg})
		return
	}

	exit := 0
	for _, prop := range props {
		tp := time.Now()
		results := []*result{runProperty(P, prop, *tier, known)}
		progs := []*Program{P}
		extra := map[string]any{}
		var internal []string

		if *tier == "thorough" && replayOb == nil && mut == nil {
			// (i) the other build configurations that select different files
			cfgs := [][]string{{"-goos", "windows"}, {"-goos", "darwin"}, {"-tags", "dnshack"}, {"-goarch", "386"}}
			outs := runChildren(*repo, *knownP, prop, "thorough", cfgs)
			var cfgNotes []string
			for i, o := range outs {
				name := strings.Join(cfgs[i], "=")
				if o.Err != "" {
					internal = append(internal, fmt.Sprintf("build configuration %s could not be analysed: %s", name, o.Err))
					continue
				}
				cfgNotes = append(cfgNotes, fmt.Sprintf("%s: %d obligations", name, len(o.Result.Obs)))
				results = append(results, o.Result)
			}
			extra["build_configurations"] = cfgNotes
			// (ii) mutant self-test of this property's rules
			st := runSelfTest(*repo, *knownP, prop)
			extra["selftest"] = st.Summary
			internal = append(internal, st.Failures...)
		}
		if *selftest {
			st := runSelfTest(*repo, *knownP, prop)
			for _, l := range st.Lines {
				fmt.Println(l)
			}
			if len(st.Failures) > 0 {
				exit = 1
			}
			continue
		}

		nv := 0
		seenViol := map[string]bool{}
		for _, r := range results {
			for _, l := range r.Known {
				fmt.Println(l)
			}
			for _, o := range r.Violations {
				if replayOb != nil && (o.Rule != replayOb.Rule || o.Construct != replayOb.Construct) {
					continue
				}
				key := o.Rule + "|" + o.Construct + "|" + o.Status
				if seenViol[key] {
					continue
				}
				seenViol[key] = true
				nv++
				path, err := writeReplay(*outDir, o, nv, *tier)
				if err != nil {
					fatal("%v", err)
				}
				fmt.Printf("%s: %s [%s] %s: %s\n", o.At, o.Rule, o.Status, o.Construct, o.Witness)
				fmt.Printf("VIOLATION property=%s replay=%s\n", o.Property, path)
			}
			if *verbose {
				for _, o := range r.Obs {
					fmt.Printf("  %-10s %-10s %-60s %s  %s\n", o.Rule, o.Status, o.Construct, o.At, o.Witness)
				}
			}
		}
		for i, m := range internal {
			nv++
			o := Obligation{Property: prop, Rule: prop + ".engine", Construct: fmt.Sprintf("engine-%d", i), Status: Undecided, Witness: m}
			path, _ := writeReplay(*outDir, o, nv, *tier)
			fmt.Printf("%s\nVIOLATION property=%s replay=%s\n", m, prop, path)
		}
		if replayOb == nil {
			if err := writeEvidence(*outDir, results, prop, *tier, seed, time.Since(tp).Seconds()+t0.Sub(tp).Seconds()*0, progs, extra); err != nil {
				fatal("evidence: %v", err)
			}
		}
		tot, disc := 0, 0
		for _, r := range results {
			for _, o := range r.Obs {
				tot++
				if o.Status == Discharged {
					disc++
				}
			}
		}
		fmt.Printf("%s tier=%s obligations=%d discharged=%d known=%d violations=%d load+analysis=%.1fs\n",
			prop, *tier, tot, disc, len(results[0].Known), nv, time.Since(t0).Seconds())
		if nv > 0 {
			exit = 1
		}
	}
	os.Exit(exit)
}

var referencePath string

func fatal(format string, a ...any) {
	fmt.Fprintf(os.Stderr, "fwdcheck: "+format+"\n", a...)
	os.Exit(2)
}

// runChildren runs this binary once per argument set, at most four at a time
// (each child holds the whole type-checked program, about 2 GB).
func runChildren(repo, known, prop, tier string, argsets [][]string) []childOut {
	self, err := os.Executable()
	if err != nil {
		self = os.Args[0]
	}
	outs := make([]childOut, len(argsets))
	sem := make(chan struct{}, 4)
	var wg sync.WaitGroup
	for i, as := range argsets {
		wg.Add(1)
		go func(i int, as []string) {
			defer wg.Done()
			sem <- struct{}{}
			defer func() { <-sem }()
			known, _ := filepath.Abs(known)
			args := append([]string{"-child", "-repo", repo, "-known", known, "-reference", referencePath, "-property", prop, "-tier", tier}, as...)
			cmd := exec.Command(self, args...)
			cmd.Stderr = os.Stderr
			b, err := cmd.Output()
			if err != nil {
				outs[i].Err = fmt.Sprintf("child %v: %v", as, err)
				return
			}
			if err := json.Unmarshal(b, &outs[i]); err != nil {
				outs[i].Err = fmt.Sprintf("child %v: bad output: %v", as, err)
			}
		}(i, as)
	}
	wg.Wait()
	return outs
}
