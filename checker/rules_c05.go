package main

import (
	"fmt"
	"go/types"
	"sort"
	"strings"

	"golang.org/x/tools/go/ssa"
)

func init() {
	register("C05", "R1", 5, "selection precedence: the proxy function is the external function, else the static upstream URL, else the PAC resolver, else none; it is wrapped by direct-domains iff configured and by direct-localhost iff the mode is direct; each wrapper answers 'direct' on its match and otherwise asks the wrapped function; the result is what martian's ProxyURL receives", c05r1)
	register("C05", "R2", 4, "one function for both paths: martian gives the Transport and the CONNECT path the same proxy function and the same dial function; connect() asks only ProxyURL", c05r2)
	register("C05", "R3", 3, "scheme tables agree: every scheme a PAC result can still produce after pacProxy's rejections is one that the CONNECT dispatcher handles and that net/http's Transport takes for what it says (http, https, socks5); anything else would be used as a plain HTTP proxy", c05r3)
	register("C05", "R4", 4, "PAC result handling: resolver and parse errors are returned unchanged; only the first ';' entry is parsed; DIRECT/empty mean no proxy; an entry whose host:port cannot be split is rejected; an unknown keyword is DIRECT", c05r4)
	register("C05", "R5", 4, "connect-to: the first matching rule decides (the function returns from inside the loop), empty source fields match anything, empty destination fields keep the original; the dialler applies the redirect before it dials and dials the rewritten address", c05r5)
	register("C05", "R8", 1, "with no upstream configured the origin is contacted directly: the transport forwarder builds has no proxy function of its own (Proxy is nil in a freshly built http.Transport, or explicitly set to nil) - a transport derived from http.DefaultTransport would keep ProxyFromEnvironment, and martian adopts the transport's function when it has none", c05r8)
	register("C05", "R6", 3, "who may dial: sockets are opened only by the forwarder dialler, the default dialler of a bare martian proxy, the readiness probe and the HTTP/2 relay, which is unreachable because nothing installs an H2 configuration", c05r6)
}

func c05r1(r *R) {
	cp := r.method(".", "HTTPProxy", "configureProxy")
	ps, complete := enumPaths(cp, 200000, 1)
	if !complete {
		r.undecided("configureProxy#paths", cp.Pos(), "too many paths")
		return
	}
	bad := map[string]bool{}
	classes := map[string]int{}
	untouchedElsewhere := true
	for _, fn := range r.modFuncs() {
		if fn == cp {
			continue
		}
		for _, f := range append([]*ssa.Function{fn}, anonFuncs(fn)...) {
			eachInstr(f, func(ins ssa.Instruction) {
				if st, ok := ins.(*ssa.Store); ok {
					if fa, ok := st.Addr.(*ssa.FieldAddr); ok && structName(fa.X.Type()) == "forwarder.HTTPProxy" && fieldName(fa.X.Type(), fa.Field) == "proxyFunc" {
						untouchedElsewhere = false
					}
				}
			})
		}
	}
	for _, p := range ps {
		if len(p.Ret) != 1 || p.Ret[0] != "nil" {
			continue
		}
		var pf []string
		installed := ""
		for _, e := range p.Events {
			if e.Kind != "store" {
				continue
			}
			if strings.HasPrefix(e.Desc, "$0.proxyFunc := ") {
				pf = append(pf, strings.TrimPrefix(e.Desc, "$0.proxyFunc := "))
			}
			if i := strings.Index(e.Desc, ".ProxyURL := "); i > 0 {
				installed = e.Desc[i+len(".ProxyURL := "):]
			}
		}
		ext := p.holds("($0.config.UpstreamProxyFunc != nil)")
		static := p.holds("($0.config.UpstreamProxy != nil)")
		pac := p.holds("($0.pac != nil)")
		dd := p.holds("($0.config.DirectDomains != nil)")
		dl := p.holds(`($0.config.ProxyLocalhost == "direct")`)
		want := "$0.proxyFunc" // untouched
		cls := "none"
		switch {
		case ext:
			want, cls = "$0.config.UpstreamProxyFunc", "external"
		case static:
			want, cls = "net/http.ProxyURL((*forwarder.HTTPProxy).upstreamProxyURL($0))", "static"
		case pac:
			want, cls = "closure:(*forwarder.HTTPProxy).pacProxy$bound", "pac"
		}
		// a lower-precedence source may be chosen only after the higher ones were found absent
		noExt := p.holds("!($0.config.UpstreamProxyFunc != nil)")
		noStatic := p.holds("!($0.config.UpstreamProxy != nil)")
		if (cls == "static" && !noExt) || (cls == "pac" && !(noExt && noStatic)) || (cls == "none" && !(noExt && noStatic && p.holds("!($0.pac != nil)"))) {
			bad["source "+cls+" is selected without the higher-precedence sources (external function, static URL, PAC - in that order) having been found absent"] = true
		}
		if dd {
			want = "(*forwarder.HTTPProxy).directDomains($0, " + want + ")"
			cls += "+dd"
		}
		if dl {
			want = "(*forwarder.HTTPProxy).directLocalhost($0, " + want + ")"
			cls += "+dl"
		}
		classes[cls]++
		got := "$0.proxyFunc"
		if len(pf) > 0 {
			got = pf[len(pf)-1]
		}
		// nothing but configureProxy ever assigns proxyFunc: before it, the field of the new HTTPProxy is nil
		if untouchedElsewhere {
			got, want, installed = strings.ReplaceAll(got, "$0.proxyFunc", "nil"), strings.ReplaceAll(want, "$0.proxyFunc", "nil"), strings.ReplaceAll(installed, "$0.proxyFunc", "nil")
		}
		if got != want {
			bad[fmt.Sprintf("configuration [%s]: proxy function is %s, expected %s", cls, got, want)] = true
		}
		if installed != got && !(installed == "$0.proxyFunc" && len(pf) == 0) {
			bad[fmt.Sprintf("configuration [%s]: martian receives %s but the selected function is %s", cls, installed, got)] = true
		}
	}
	var why []string
	for k := range bad {
		why = append(why, k)
	}
	sort.Strings(why)
	r.check(len(classes) >= 12 && len(why) == 0, "configureProxy#selection", cp.Pos(), fmt.Sprintf("%d configuration classes follow external > static > PAC > none, wrapped by direct-domains and direct-localhost iff configured", len(classes)), strings.Join(why, "; "))
	for _, w := range []struct{ fn, pred string }{{"directDomains", "invoke forwarder.Matcher.Match(^0.config.DirectDomains, (*net/url.URL).Hostname($0.URL))"}, {"directLocalhost", "(*forwarder.HTTPProxy).isLocalhost(^0, (*net/url.URL).Hostname($0.URL))"}} {
		fn := r.method(".", "HTTPProxy", w.fn)
		ps, _ := enumPaths(fn, 16, 1)
		okOuter := len(ps) == 2
		for _, p := range ps {
			if p.holds("($1 == nil)") {
				okOuter = okOuter && p.Ret[0] == "nil"
			} else {
				okOuter = okOuter && strings.HasPrefix(p.Ret[0], "closure:")
			}
		}
		r.check(okOuter, "HTTPProxy."+w.fn+"#nil-passthrough", fn.Pos(), "no upstream configured stays 'no upstream'", w.fn+" does not preserve a nil proxy function")
		if len(anonFuncs(fn)) != 1 {
			r.bad("HTTPProxy."+w.fn+"#wrapper", fn.Pos(), "wrapper closure missing")
			continue
		}
		lit := anonFuncs(fn)[0]
		lps, _ := enumPaths(lit, 16, 1)
		var why []string
		for _, p := range lps {
			if p.holds(w.pred) {
				if !(p.Ret[0] == "nil" && p.Ret[1] == "nil") {
					why = append(why, "matching host is not routed directly")
				}
			} else if !(strings.HasPrefix(p.Ret[0], "dyn:^1($0)") && strings.HasPrefix(p.Ret[1], "dyn:^1($0)")) {
				why = append(why, "non-matching host does not get the wrapped function's answer: "+strings.Join(p.Ret, ","))
			}
		}
		b := closureBindings(lit)
		r.check(len(lps) == 2 && len(why) == 0 && len(b) == 2 && b[0] == "$0" && b[1] == "$1", "HTTPProxy."+w.fn+"#wrapper", lit.Pos(), "match ⇒ (nil, nil); otherwise the wrapped function decides", strings.Join(why, "; "))
	}
}

func c05r2(r *R) {
	in := r.method(mpkg, "Proxy", "init")
	var lit *ssa.Function
	for _, l := range anonFuncs(in) {
		lit = l
	}
	if lit == nil {
		r.missing("Proxy.init closure")
	}
	pairs := map[string]string{".Proxy": ".ProxyURL", ".DialContext": ".DialContext"}
	for tf, pf := range pairs {
		var toT, toP bool
		eachInstr(lit, func(ins ssa.Instruction) {
			st, ok := ins.(*ssa.Store)
			if !ok {
				return
			}
			a, v := describe(st.Addr), describe(st.Val)
			if strings.HasSuffix(a, ".(*net/http.Transport)"+tf) && strings.HasSuffix(v, pf) && strings.HasPrefix(v, "^0") {
				toT = guardedBy(st.Block(), func(g string) bool { return strings.HasPrefix(g, "(^0"+pf+" != nil)") })
			}
			if a == "^0"+pf && strings.HasSuffix(v, ".(*net/http.Transport)"+tf) {
				toP = guardedBy(st.Block(), eq("!(^0"+pf+" != nil)"))
			}
		})
		r.check(toT && toP, "Proxy.init#same"+tf, lit.Pos(), "Transport"+tf+" and Proxy"+pf+" are made equal in both directions", "the Transport and the CONNECT path may end up with different "+strings.TrimPrefix(tf, ".")+" functions")
	}
	cn := r.method(mpkg, "Proxy", "connect")
	ps, _ := enumPaths(cn, 512, 1)
	var why []string
	for _, p := range ps {
		asked := p.eventIndex(0, "call", eq("dyn:$0.ProxyURL($1)")) >= 0
		if p.holds("($0.ProxyURL != nil)") != asked {
			why = append(why, "ProxyURL set but not consulted (or consulted when nil)")
		}
		direct := p.eventIndex(0, "call", eq(`dyn:$0.DialContext((*net/http.Request).Context($1), "tcp", $1.URL.Host)`)) >= 0
		proxied := p.hasCond(func(c string) bool {
			return c == "!(dyn:$0.ProxyURL($1)#0 == nil)" || c == "(dyn:$0.ProxyURL($1)#0 != nil)"
		})
		if direct && proxied {
			why = append(why, "target dialled directly although a proxy was selected")
		}
		if asked && p.hasCond(func(c string) bool { return c == "(dyn:$0.ProxyURL($1)#1 != nil)" }) && p.Ret[2] != "dyn:$0.ProxyURL($1)#1" {
			why = append(why, "proxy selection error is not returned")
		}
	}
	r.check(len(ps) >= 5 && len(why) == 0, "Proxy.connect#selection", cn.Pos(), "ProxyURL decides; nil ⇒ dial the target; error ⇒ fail", strings.Join(dedupStrings(why), "; "))
	// nothing else assigns Transport.Proxy in production code except construction/wrapping
	for _, fn := range r.modFuncs() {
		if strings.HasPrefix(fname(fn), "e2e/") || strings.HasPrefix(fname(fn), "utils/") || strings.HasPrefix(fname(fn), "(*utils/") || strings.HasPrefix(fname(fn), "bench/") || strings.HasPrefix(fname(fn), "loadgen/") {
			continue
		}
		eachInstr(fn, func(ins ssa.Instruction) {
			st, ok := ins.(*ssa.Store)
			if !ok {
				return
			}
			fa, ok := st.Addr.(*ssa.FieldAddr)
			if !ok || structName(fa.X.Type()) != "net/http.Transport" || fieldName(fa.X.Type(), fa.Field) != "Proxy" {
				return
			}
			okSite := fn == lit || strings.HasPrefix(fname(fn), "forwarder.NewHTTPTransport") || strings.HasPrefix(fname(fn), "(*forwarder.HTTPProxy).") || strings.HasPrefix(fname(fn), "(*martian.Proxy).init")
			r.check(okSite, fname(fn)+"#store(Transport.Proxy)", st.Pos(), "construction-time wiring", "Transport.Proxy is reassigned in "+fname(fn)+": HTTP and CONNECT routing could diverge")
		})
	}
}

func modeConsts(r *R) map[string]string { // value -> name
	p := r.pkg("pac")
	mt := r.namedType("pac", "Mode")
	out := map[string]string{}
	for _, n := range p.Pkg.Scope().Names() {
		if c, ok := p.Pkg.Scope().Lookup(n).(*types.Const); ok && types.Identical(c.Type(), mt) {
			out[c.Val().ExactString()] = n
		}
	}
	return out
}

func c05r3(r *R) {
	modes := modeConsts(r)
	pp := r.method(".", "HTTPProxy", "pacProxy")
	ps, _ := enumPaths(pp, 4096, 1)
	rejected := map[string]bool{}
	accepted := map[string]bool{}
	const first = "(pac.Proxies).First(invoke forwarder.PACResolver.FindProxyForURL($0.pac, $1.URL, \"\")#0)#0"
	for _, p := range ps {
		for v := range modes {
			if p.hasCond(func(c string) bool { return strings.HasSuffix(c, ".Mode == "+v+")") && !strings.HasPrefix(c, "!") }) {
				if len(p.Ret) == 2 && p.Ret[1] != "nil" {
					rejected[v] = true
				} else {
					accepted[v] = true
				}
			}
		}
	}
	_ = first
	// URL(): DIRECT→nil, PROXY→HTTP
	um := r.method("pac", "Proxy", "URL")
	ups, _ := enumPaths(um, 64, 1)
	okURL := false
	for _, p := range ups {
		if !p.hasCond(func(c string) bool { return strings.HasSuffix(c, ".Mode == 0)") && !strings.HasPrefix(c, "!") }) && len(p.Ret) == 1 && p.Ret[0] != "nil" {
			sch := p.Mem[p.Ret[0]+".Scheme"]
			okURL = strings.HasPrefix(sch, "strings.ToLower((pac.Mode).String(")
		}
	}
	r.check(okURL, "pac.Proxy.URL#scheme", um.Pos(), "scheme = lower-cased mode name (PROXY mapped to HTTP), DIRECT → nil", "PAC proxy URL scheme is not derived from the mode name")
	var producible []string
	for v, n := range modes {
		if n == "DIRECT" || rejected[v] && !accepted[v] {
			continue
		}
		if n == "PROXY" {
			n = "HTTP"
		}
		producible = append(producible, strings.ToLower(n))
	}
	sort.Strings(producible)
	producible = dedup(producible)
	// consumer: connect() cases
	cn := r.method(mpkg, "Proxy", "connect")
	handled := map[string]bool{}
	eachInstr(cn, func(ins ssa.Instruction) {
		if bo, ok := ins.(*ssa.BinOp); ok && strings.HasSuffix(describe(bo.X), ".Scheme") {
			if s, ok := constString(bo.Y); ok {
				handled[s] = true
			}
		}
	})
	transport := map[string]bool{"http": true, "https": true, "socks5": true, "socks5h": true}
	var miss []string
	for _, s := range producible {
		if !handled[s] || !transport[s] {
			miss = append(miss, s)
		}
	}
	r.check(len(miss) == 0 && len(producible) >= 3, "pacProxy#producible-schemes⊆handled", pp.Pos(), "PAC can produce "+strings.Join(producible, ",")+"; all handled by CONNECT dispatch and by net/http as such", "PAC results can still yield proxy scheme(s) "+strings.Join(miss, ",")+": the CONNECT path fails them but net/http's Transport silently uses such a URL as a plain HTTP proxy and delivers the request there")
	// static flag: validateProxyURL's list
	for _, fn := range r.modFuncs() {
		if refName(fn) != "validateProxyURL" {
			continue
		}
		var schemes []string
		eachInstr(fn, func(ins ssa.Instruction) {
			if bo, ok := ins.(*ssa.BinOp); ok {
				if s, ok := constString(bo.Y); ok && strings.HasSuffix(describe(bo.X), ".Scheme") {
					schemes = append(schemes, s)
				}
			}
			if st, ok := ins.(*ssa.Store); ok {
				if s, ok := constString(st.Val); ok && (s == "http" || s == "https" || strings.HasPrefix(s, "socks")) {
					schemes = append(schemes, s)
				}
			}
			// the list kept in a package-level variable: what the package initialiser puts into it
			if c, ok := ins.(*ssa.Call); ok && strings.HasPrefix(calleeName(c.Common()), "slices.Contains") {
				if ld, ok := c.Common().Args[0].(*ssa.UnOp); ok {
					if g, ok := ld.X.(*ssa.Global); ok {
						schemes = append(schemes, globalStringList(g)...)
					}
				}
			}
		})
		var bad []string
		for _, s := range schemes {
			if !handled[s] || !transport[s] {
				bad = append(bad, s)
			}
		}
		r.check(len(bad) == 0 && len(schemes) > 0, fname(fn)+"#schemes", fn.Pos(), "static proxy URL schemes "+strings.Join(schemes, ",")+" are all handled", "static proxy URL accepts unsupported scheme(s) "+strings.Join(bad, ","))
	}
}

func c05r4(r *R) {
	pp := r.method(".", "HTTPProxy", "pacProxy")
	ps, _ := enumPathsInline(pp, 20000, 1, func(c *ssa.Function) bool {
		return strings.HasPrefix(fname(c), "(*forwarder.HTTPProxy).") && c.Parent() == nil
	})
	const find = `invoke forwarder.PACResolver.FindProxyForURL($0.pac, $1.URL, "")`
	var why []string
	for _, p := range ps {
		// the script is evaluated for this very request on every path, and its answer is what is parsed
		fi := p.eventIndex(0, "call", eq(find))
		if fi < 0 {
			why = append(why, "a path answers without evaluating the PAC script for this request's URL (a remembered result is the route of some other URL)")
		}
		if pi := p.eventIndex(0, "call", prefix("(pac.Proxies).First(")); pi >= 0 && p.Events[pi].Desc != "(pac.Proxies).First("+find+"#0)" {
			why = append(why, "the result list that is parsed is not this evaluation's answer: "+p.Events[pi].Desc)
		}
		if p.holds("("+find+"#1 != nil)") && !(p.Ret[0] == "nil" && p.Ret[1] == find+"#1") {
			why = append(why, "resolver error is not returned")
		}
		fe := "(pac.Proxies).First(" + find + "#0)#1"
		if p.holds("("+fe+" != nil)") && !(p.Ret[0] == "nil" && p.Ret[1] == fe) {
			why = append(why, "result parse error is not returned")
		}
	}
	r.check(len(ps) >= 4 && len(why) == 0, "pacProxy#errors-propagate", pp.Pos(), "script and parse errors fail the request", strings.Join(dedupStrings(why), "; "))
	fi := r.method("pac", "Proxies", "First")
	ps, _ = enumPaths(fi, 64, 1)
	why = nil
	for _, p := range ps {
		if p.holds(`($0 == "")`) {
			if !(len(p.Ret) == 2 && p.Ret[1] == "nil") {
				why = append(why, "empty result is not 'direct'")
			}
			continue
		}
		if p.eventIndex(0, "call", eq(`pac.parseProxy(strings.Cut($0, ";")#0)`)) < 0 {
			why = append(why, "first entry is not what is parsed")
		}
		pe := `pac.parseProxy(strings.Cut($0, ";")#0)#1`
		if p.holds("("+pe+" != nil)") && p.Ret[1] == "nil" {
			why = append(why, "malformed first entry accepted")
		}
	}
	r.check(len(ps) == 3 && len(why) == 0, "pac.Proxies.First", fi.Pos(), "empty ⇒ DIRECT; otherwise exactly the first ';' entry, errors reported", strings.Join(why, "; "))
	pr := r.fn("pac", "parseProxy")
	ps, _ = enumPaths(pr, 128, 1)
	why = nil
	nOK := 0
	for _, p := range ps {
		if len(p.Ret) < 2 {
			continue
		}
		if p.hasCond(func(c string) bool {
			return strings.HasPrefix(c, "(net.SplitHostPort(") && strings.HasSuffix(c, "#2 != nil)")
		}) && p.Ret[len(p.Ret)-1] == "nil" {
			why = append(why, "entry with an unparsable host:port is accepted")
		}
		if p.hasCond(func(c string) bool { return strings.HasSuffix(c, "#2") && strings.HasPrefix(c, "!strings.Cut(") }) && p.Ret[len(p.Ret)-1] == "nil" &&
			!p.hasCond(func(c string) bool { return strings.HasSuffix(c, ` == "DIRECT")`) && !strings.HasPrefix(c, "!") }) { // the bare word DIRECT has no host:port
			why = append(why, "entry without host:port is accepted")
		}
		if p.Ret[len(p.Ret)-1] == "nil" {
			nOK++
		}
	}
	r.check(nOK >= 3 && len(why) == 0, "pac.parseProxy", pr.Pos(), "keyword host:port; malformed entries are errors", strings.Join(dedupStrings(why), "; "))
	pm := r.fn("pac", "parseMode")
	ps, _ = enumPaths(pm, 64, 1)
	modes := modeConsts(r)
	why = nil
	for _, p := range ps {
		kw := ""
		for _, c := range p.Conds {
			if strings.HasPrefix(c, `($0 == "`) {
				kw = strings.TrimSuffix(strings.TrimPrefix(c, `($0 == "`), `")`)
			}
		}
		got := modes[p.Ret[0]]
		if kw == "" {
			if got != "DIRECT" {
				why = append(why, "unknown keyword maps to "+got)
			}
		} else if got != kw {
			why = append(why, "keyword "+kw+" maps to "+got)
		}
	}
	if len(ps) != len(modes)+1 {
		// the table may be a map: parseMode answers m[keyword] when present and DIRECT otherwise
		if tw, ok := parseModeMapTable(r, pm, ps, modes); ok {
			r.check(len(tw) == 0, "pac.parseMode#table", pm.Pos(), "keyword table (map): every keyword maps to its mode, unknown ⇒ DIRECT", strings.Join(tw, "; "))
			goto afterTable
		}
	}
	r.check(len(ps) == len(modes)+1 && len(why) == 0, "pac.parseMode#table", pm.Pos(), "every keyword maps to its mode, unknown ⇒ DIRECT", strings.Join(why, "; ")+fmt.Sprintf(" (%d paths for %d modes)", len(ps), len(modes)))
afterTable:
}

func c05r5(r *R) {
	fn := r.fn(".", "DialRedirectFromHostPortPairs")
	if len(anonFuncs(fn)) != 1 {
		r.missing("redirect closure")
	}
	lit := anonFuncs(fn)[0]
	ps, _ := enumPaths(lit, 4096, 1)
	const h, pt = "net.SplitHostPort($1)#0", "net.SplitHostPort($1)#1"
	var why []string
	nMatch, nCut := 0, 0
	for _, p := range ps {
		if p.holds("(net.SplitHostPort($1)#2 != nil)") {
			if !(p.Ret[0] == "$0" && p.Ret[1] == "$1") {
				why = append(why, "unsplittable address is rewritten")
			}
			continue
		}
		inLoop := p.hasCond(func(c string) bool { return strings.HasSuffix(c, "< builtin len(^0))") && !strings.HasPrefix(c, "!") })
		if !inLoop {
			if !p.Cut && !(p.Ret[0] == "$0" && p.Ret[1] == "$1") {
				why = append(why, "no rule matched but the address is rewritten")
			}
			continue
		}
		hostOK := p.holds(`(local:s.Src.Host == "")`) || p.holds("(local:s.Src.Host == "+h+")")
		portOK := p.holds(`(local:s.Src.Port == "")`) || p.holds("(local:s.Src.Port == "+pt+")")
		if hostOK && portOK {
			nMatch++
			if p.Cut || len(p.Ret) != 2 {
				why = append(why, "a matching rule does not end the search: later rules can override the first match")
				continue
			}
			wh, wp := "local:s.Dst.Host", "local:s.Dst.Port"
			if p.holds(`(local:s.Dst.Host == "")`) {
				wh = h
			}
			if p.holds(`(local:s.Dst.Port == "")`) {
				wp = pt
			}
			if p.Ret[0] != "$0" || p.Ret[1] != "net.JoinHostPort("+wh+", "+wp+")" {
				why = append(why, "matching rule yields "+p.Ret[1]+", expected JoinHostPort("+wh+", "+wp+")")
			}
		} else {
			if !p.Cut {
				why = append(why, "a non-matching rule ends the search")
			} else {
				nCut++
			}
		}
	}
	r.check(nMatch >= 4 && nCut >= 1 && len(why) == 0, "DialRedirectFromHostPortPairs#first-match", lit.Pos(), "first matching rule returns; empty src fields match anything; empty dst fields keep the original", strings.Join(dedupStrings(why), "; "))
	// binding: the closure ranges over (a clone of) the given rules
	b := closureBindings(lit)
	r.check(len(b) == 1 && (b[0] == "slices.Clone[[]github.com/saucelabs/forwarder.HostPortPair,github.com/saucelabs/forwarder.HostPortPair]($0)" || strings.HasPrefix(b[0], "slices.Clone") || b[0] == "$0" || b[0] == "local:subs"), "DialRedirectFromHostPortPairs#rules", fn.Pos(), "iterates over the configured rules in order", "closure iterates over "+strings.Join(b, ","))
	// dialler applies it
	dc := r.method(".", "Dialer", "DialContext")
	ps, _ = enumPaths(dc, 512, 1)
	why = nil
	for _, p := range ps {
		ci := p.eventIndex(0, "call", prefix("(*forwarder.Dialer).dialContext($0, $1, "))
		if ci < 0 {
			why = append(why, "a path does not dial")
			continue
		}
		want := "(*forwarder.Dialer).dialContext($0, $1, $2, $3)"
		if p.holds("($0.rd != nil)") {
			want = "(*forwarder.Dialer).dialContext($0, $1, dyn:$0.rd($2, $3)#0, dyn:$0.rd($2, $3)#1)"
		}
		if p.Events[ci].Desc != want {
			why = append(why, "dials "+p.Events[ci].Desc+", expected "+want)
		}
	}
	r.check(len(ps) > 0 && len(why) == 0, "Dialer.DialContext#redirect-applied", dc.Pos(), "redirect (when configured) applied before dialling, rewritten address dialled", strings.Join(dedupStrings(why), "; "))
	// ... and exactly once per dial: the redirect function is invoked only there, outside any loop, on the caller's address
	// (a second application - per retry, per fallback - maps an already redirected address through the rule list again)
	nrd := 0
	for _, fn := range r.modFuncs() {
		eachInstr(fn, func(ins ssa.Instruction) {
			c, ok := ins.(ssa.CallInstruction)
			if !ok || c.Common().IsInvoke() || staticCallee(c.Common()) != nil {
				return
			}
			fv := funcFieldOf(c.Common().Value)
			if fv == nil || refFieldName(fv) != "rd" || fv.Pkg() == nil || fv.Pkg().Path() != modPath {
				return
			}
			nrd++
			var why []string
			if fname(fn) != "(*forwarder.Dialer).DialContext" {
				why = append(why, "invoked in "+fname(fn))
			}
			if blockInLoop(ins.Block()) {
				why = append(why, "invoked inside a loop (once per attempt)")
			}
			isParam := func(v ssa.Value, i int) bool {
				d := describe(v)
				return i < len(fn.Params) && (d == fmt.Sprintf("$%d", i) || d == "local:"+fn.Params[i].Name()) // a parameter captured by a literal is spilled into a local of the same name
			}
			if a := c.Common().Args; len(a) != 2 || !isParam(a[0], 2) || !isParam(a[1], 3) {
				why = append(why, "not applied to the network and address the caller asked for (applied to "+describe(a[0])+", "+describe(a[1])+")")
			}
			r.check(len(why) == 0, fname(fn)+"#redirect-once", c.Pos(), "the redirect is applied once, to the requested address, before the dial loop", "connect-to redirect: "+strings.Join(why, "; ")+" - a retried or repeated application rewrites an address that was already rewritten")
		})
	}
	if nrd == 0 {
		r.bad("Dialer#redirect-once", dc.Pos(), "the configured redirect function is never invoked")
	}
	// installed iff rules were given
	nd := r.fn(".", "NewDialer")
	found := false
	eachInstr(nd, func(ins ssa.Instruction) {
		if st, ok := ins.(*ssa.Store); ok && strings.HasSuffix(describe(st.Addr), ".rd") {
			found = strings.HasSuffix(describe(st.Val), ".RedirectFunc")
		}
	})
	r.check(found, "NewDialer#rd", nd.Pos(), "dialler's redirect = DialConfig.RedirectFunc", "the configured redirect function does not reach the dialler")
}

func c05r6(r *R) {
	allowed := map[string]string{
		"(*forwarder.Dialer).dialContext":          "the forwarder dialler (metrics, retries, redirect applied by its caller)",
		"(*martian.Proxy).init$1":                  "default dialler of a bare martian.Proxy; forwarder always supplies its own",
		"(*martian/h2.Config).Proxy":               "HTTP/2 relay dials its origin itself; unreachable: nothing installs an H2 configuration (checked below)",
		"command/ready.Command$1$1":                "readiness probe over a unix socket",
		"(*command/ready.command).runE$1":          "readiness probe over a unix socket",
		"(*dialvia.SOCKS5ProxyDialer).DialContext": "SOCKS5 client library dialling through the given dial function",
	}
	n := 0
	for _, fn := range r.modFuncs() {
		nm := fname(fn)
		if strings.HasPrefix(nm, "e2e/") || strings.HasPrefix(nm, "bench/") || strings.HasPrefix(nm, "loadgen/") || strings.Contains(nm, "utils/") || strings.Contains(nm, "/testing.") || strings.Contains(nm, "martiantest") {
			continue
		}
		eachInstr(fn, func(ins ssa.Instruction) {
			c, ok := ins.(ssa.CallInstruction)
			if !ok {
				return
			}
			cn := calleeName(c.Common())
			opens := cn == "net.Dial" || cn == "net.DialTimeout" || cn == "crypto/tls.Dial" || cn == "crypto/tls.DialWithDialer" || cn == "(*net.Dialer).Dial" || cn == "(*net.Dialer).DialContext" || cn == "(*crypto/tls.Dialer).DialContext"
			if !opens {
				// method value of net.Dialer taken
				return
			}
			n++
			why, ok := allowed[nm]
			if !ok {
				for k, v := range allowed {
					if strings.HasPrefix(nm, k) {
						why, ok = v, true
					}
				}
			}
			r.check(ok, nm+"#"+cn, ins.Pos(), why, "a socket is opened here, outside the diallers that the routing rules control")
		})
	}
	// SetH2Config has no production caller
	sh := r.methodOpt(mpkg+"/mitm", "Config", "SetH2Config")
	if sh != nil {
		cnt := 0
		for _, fn := range r.modFuncs() {
			if strings.Contains(fname(fn), "/testing.") || strings.Contains(fname(fn), "martiantest") {
				continue // test fixtures compiled as ordinary packages
			}
			for _, c := range callsToFunc(fn, sh) {
				cnt++
				r.bad(fname(fn)+"#SetH2Config", c.Pos(), "an HTTP/2 configuration is installed: the relay dials origins directly with tls.Dial, bypassing upstream proxy selection and connect-to")
			}
		}
		if cnt == 0 {
			r.ok("mitm.SetH2Config#no-production-caller", sh.Pos(), "no production caller: the h2 relay's own dial is dead code in the forwarder binary")
		}
	}
}

// blockInLoop reports whether b can reach itself.
func blockInLoop(b *ssa.BasicBlock) bool {
	seen := map[*ssa.BasicBlock]bool{}
	var walk func(x *ssa.BasicBlock) bool
	walk = func(x *ssa.BasicBlock) bool {
		for _, s := range x.Succs {
			if s == b {
				return true
			}
			if !seen[s] {
				seen[s] = true
				if walk(s) {
					return true
				}
			}
		}
		return false
	}
	return walk(b)
}

func c05r8(r *R) {
	nt := r.fn(".", "NewHTTPTransport")
	ps, complete := enumPaths(nt, 512, 1)
	if !complete {
		r.undecided("NewHTTPTransport#paths", nt.Pos(), "too many paths")
		return
	}
	n := 0
	for _, p := range ps {
		if len(p.Ret) != 2 || p.Ret[1] != "nil" {
			continue
		}
		n++
		base := p.Ret[0]
		px, set := p.Mem[base+".Proxy"]
		fresh := strings.HasPrefix(base, "local:complit#") || strings.HasPrefix(base, "local:new#")
		switch {
		case fresh && (!set || px == "nil"):
			r.ok(fmt.Sprintf("NewHTTPTransport#proxy-nil@%d", n), p.pos(), "a freshly built transport without a proxy function")
		case !fresh && set && px == "nil":
			r.ok(fmt.Sprintf("NewHTTPTransport#proxy-nil@%d", n), p.pos(), "Proxy explicitly cleared")
		default:
			r.bad(fmt.Sprintf("NewHTTPTransport#proxy-nil@%d", n), p.pos(), "the transport is "+shorten(base, 90)+" with Proxy="+px+": unless it is a fresh http.Transport or Proxy is set to nil, it keeps a proxy function (http.DefaultTransport uses the environment's HTTP_PROXY), which decides the route when no upstream is configured")
		}
	}
	if n == 0 {
		r.bad("NewHTTPTransport#proxy-nil", nt.Pos(), "no successful return found")
	}
}

// parseModeMapTable recognises `if m, ok := table[s]; ok { return m }; return DIRECT` over a package-level
// map literal and checks the literal: one entry per mode constant, under that mode's own keyword.
func parseModeMapTable(r *R, pm *ssa.Function, ps []Path, modes map[string]string) ([]string, bool) {
	var g *ssa.Global
	eachInstr(pm, func(ins ssa.Instruction) {
		if lk, ok := ins.(*ssa.Lookup); ok {
			if u, ok := lk.X.(*ssa.UnOp); ok {
				if gg, ok := u.X.(*ssa.Global); ok && describe(lk.Index) == "$0" {
					g = gg
				}
			}
		}
	})
	if g == nil || len(ps) != 2 && len(ps) != 1 {
		return nil, false
	}
	var why []string
	if len(ps) == 1 {
		// `return table[s]`: a keyword that is not in the table yields the zero Mode, which must be DIRECT
		if !strings.HasSuffix(ps[0].Ret[0], "[$0]") || len(ps[0].Conds) != 0 {
			return nil, false
		}
		if modes["0"] != "DIRECT" {
			why = append(why, "unknown keyword maps to the zero Mode, which is "+modes["0"])
		}
		ps = nil
	}
	for _, p := range ps {
		hit := p.hasCond(func(c string) bool { return strings.HasSuffix(c, "[$0]#1") && !strings.HasPrefix(c, "!") })
		if hit && !strings.HasSuffix(p.Ret[0], "[$0]") {
			why = append(why, "a keyword found in the table yields "+p.Ret[0])
		}
		if !hit && modes[p.Ret[0]] != "DIRECT" {
			why = append(why, "unknown keyword maps to "+modes[p.Ret[0]])
		}
	}
	// the literal
	seen := map[string]bool{}
	init := r.pkg("pac").Func("init")
	var mm ssa.Value
	eachInstr(init, func(ins ssa.Instruction) {
		if st, ok := ins.(*ssa.Store); ok && st.Addr == ssa.Value(g) {
			mm = st.Val
		}
	})
	if mm == nil {
		return append(why, "the keyword table is not initialised in the package"), true
	}
	nStores := 0
	for _, fn := range r.modFuncsAll() {
		eachInstr(fn, func(ins ssa.Instruction) {
			switch x := ins.(type) {
			case *ssa.MapUpdate:
				if x.Map == mm {
					k, _ := constString(x.Key)
					name := modes[describe(x.Value)]
					if name != k {
						why = append(why, "keyword "+k+" maps to "+name)
					}
					seen[name] = true
				} else if u, ok := x.Map.(*ssa.UnOp); ok && u.X == ssa.Value(g) {
					why = append(why, "the keyword table is modified in "+fname(fn))
				}
			case *ssa.Store:
				if x.Addr == ssa.Value(g) {
					nStores++
				}
			}
		})
	}
	if nStores != 1 {
		why = append(why, fmt.Sprintf("the keyword table is assigned %d times", nStores))
	}
	for _, name := range modes {
		if !seen[name] {
			why = append(why, "mode "+name+" has no keyword in the table")
		}
	}
	return dedupStrings(why), true
}

// globalStringList: the string constants a package-level []string variable is initialised with (a slice literal
// assigned once in the package initialiser); nil when it is assigned anywhere else.
func globalStringList(g *ssa.Global) []string {
	var out []string
	stores := 0
	for _, m := range g.Pkg.Members {
		fn, ok := m.(*ssa.Function)
		if !ok {
			continue
		}
		for _, f := range withClosures(fn) {
			for _, b := range f.Blocks {
				for _, ins := range b.Instrs {
					st, ok := ins.(*ssa.Store)
					if !ok || st.Addr != ssa.Value(g) {
						continue
					}
					stores++
					if f.Name() != "init" {
						return nil
					}
					sl, ok := st.Val.(*ssa.Slice)
					if !ok {
						return nil
					}
					arr, ok := sl.X.(*ssa.Alloc)
					if !ok {
						return nil
					}
					for _, ref := range *arr.Referrers() {
						if ia, ok := ref.(*ssa.IndexAddr); ok {
							for _, rr := range *ia.Referrers() {
								if es, ok := rr.(*ssa.Store); ok && es.Addr == ssa.Value(ia) {
									if s, ok := constString(es.Val); ok {
										out = append(out, s)
									}
								}
							}
						}
					}
				}
			}
		}
	}
	if stores != 1 {
		return nil
	}
	return out
}
