package main

import (
	"go/token"
	"regexp"
	"fmt"
	"go/types"
	"sort"
	"strings"

	"golang.org/x/tools/go/ssa"
)

func init() {
	register("C01", "R1", 20, "request-mutation footprint: every store to a field of an in-flight *http.Request and every write to its header in the proxy, its modifiers and the forwarder's own middleware is one of the documented differences (table in the rule); anything else is reported with function and key", c01r1)
	register("C01", "R2", 8, "stack membership and order: the production request chain is hop-by-hop removal, forwarded fields, framing fix, Via, then the inner group; in the inner group the configured header rules run before site credentials and the empty User-Agent marker; what is installed is the top group", c01r2)
	register("C01", "R3", 11, "hop-by-hop table: the nine names of the specification (canonical spelling) are in the table, Connection-nominated names are deleted first (read from every Connection line, split on commas, canonicalised) and the fixed list afterwards", c01r3)
	register("C01", "R4", 10, "conditional re-adds and fills: Connection/Upgrade are re-added only for an upgrade request with the value read before the modifiers ran; each X-Forwarded-{Proto,Host,Url} is filled only when that very field is absent, from the scheme, Host and URL; X-Forwarded-For gets the client address appended; User-Agent is set only when absent and to the empty string", c01r4)
	register("C01", "R5", 2, "append-not-replace for list fields: Via and X-Forwarded-For are rebuilt from every existing field line", c18r2)
	register("C01", "R8", 3, "the client's Authorization is forwarded as sent: site credentials are attached only when the request carries no Authorization field at all (any scheme - Bearer, Digest, Negotiate, malformed Basic - counts as the client's own)", c06r3)
	register("C01", "R9", 15, "the request URL is read-only for everything that is merely consulted about it: no module function writes a field through a *url.URL it received as an argument (route selection, PAC evaluation, credential lookup and logging all get the live req.URL, whose path and query go on the wire afterwards)", c01r9)
	register("C01", "R7", 2, "message boundary on keep-alive connections: once a request was read, its body is closed (net/http then discards what was not consumed) on every exit of the exchange - also when the request is refused before it is forwarded - so the next request on the connection is parsed from a message boundary", bodyClosedOnEveryExit)
	register("C01", "R6", 2, "scheme fix-up: an empty scheme is filled from X-Forwarded-Proto, else https iff the session is TLS, else http; http is upgraded to https only inside a TLS session and when AllowHTTP is off; forwarder switches AllowHTTP on", c01r6)
}

// ownerOfHeader classifies the message a header value belongs to.
func ownerOfHeader(v ssa.Value) string {
	for i := 0; i < 6; i++ {
		switch x := v.(type) {
		case *ssa.UnOp:
			v = x.X
			continue
		case *ssa.FieldAddr:
			if fieldName(x.X.Type(), x.Field) == "Header" {
				switch structName(x.X.Type()) {
				case "net/http.Request":
					return "request"
				case "net/http.Response":
					return "response"
				}
			}
			return "other"
		case *ssa.Parameter:
			if a, ok := resolveParam(x); ok {
				v = a // a helper walked at its call site: the header it was given
				continue
			}
			return "param"
		case *ssa.Call:
			switch calleeName(x.Common()) {
			case "invoke net/http.ResponseWriter.Header":
				return "response"
			}
			return "other"
		}
		break
	}
	return "other"
}

type write struct {
	fn    *ssa.Function
	owner string // request / response / param
	what  string // field:Name or header:Key or header:<dynamic>
	val   string
	at    ssa.Instruction
	site  ssa.Instruction // at, or the call in fn through which a new helper containing at was walked
	conds []string        // branch conditions holding at the write (call sites included)
}

// messageWrites lists stores to fields of http.Request/http.Response values and header writes in fn.
func messageWrites(fn *ssa.Function) []write {
	var out []write
	eachInstr(fn, func(ins ssa.Instruction) {
		switch x := ins.(type) {
		case *ssa.Store:
			fa, ok := x.Addr.(*ssa.FieldAddr)
			if !ok {
				return
			}
			// direct field of a request/response, or of its URL
			sn := structName(fa.X.Type())
			switch sn {
			case "net/http.Request", "net/http.Response":
				if _, isAlloc := fa.X.(*ssa.Alloc); isAlloc {
					return // building a fresh message (composite literal)
				}
				out = append(out, write{fn, strings.ToLower(strings.TrimPrefix(sn, "net/http.")), "field:" + fieldName(fa.X.Type(), fa.Field), describe(x.Val), ins, siteOf(ins), guardsAt(ins)})
			case "net/url.URL":
				// req.URL.X = ...
				base := describe(fa.X)
				if strings.HasSuffix(base, ".URL") {
					if _, isAlloc := fa.X.(*ssa.Alloc); !isAlloc {
						out = append(out, write{fn, "request", "field:URL." + fieldName(fa.X.Type(), fa.Field), describe(x.Val), ins, siteOf(ins), guardsAt(ins)})
					}
				}
			}
		case *ssa.MapUpdate:
			if typeStr(x.Map.Type()) == "net/http.Header" {
				k, ok := constString(x.Key)
				if !ok {
					k = "<" + describe(x.Key) + ">"
				}
				out = append(out, write{fn, ownerOfHeader(x.Map), "header:" + k, describe(x.Value), ins, siteOf(ins), guardsAt(ins)})
			}
		case *ssa.Call:
			cn := calleeName(x.Common())
			switch cn {
			case "(net/http.Header).Set", "(net/http.Header).Add", "(net/http.Header).Del":
				k, ok := constString(refArgs(x.Common())[1])
				if !ok {
					k = "<" + describe(refArgs(x.Common())[1]) + ">"
				}
				v := ""
				if len(x.Common().Args) > 2 {
					v = describe(refArgs(x.Common())[2])
				}
				out = append(out, write{fn, ownerOfHeader(refArgs(x.Common())[0]), "header:" + strings.TrimPrefix(cn, "(net/http.Header).") + " " + k, v, ins, siteOf(ins), guardsAt(ins)})
			case "builtin delete":
				if typeStr(refArgs(x.Common())[0].Type()) == "net/http.Header" {
					out = append(out, write{fn, ownerOfHeader(refArgs(x.Common())[0]), "header:delete <" + describe(refArgs(x.Common())[1]) + ">", "", ins, siteOf(ins), guardsAt(ins)})
				}
			case "(*net/http.Request).SetBasicAuth":
				out = append(out, write{fn, "request", "header:Set Authorization", "basic", ins, siteOf(ins), guardsAt(ins)})
			}
		}
	})
	return out
}

// requestPathFuncs: the code that touches a request between reading it and handing it to the next hop.
func requestPathFuncs(r *R) []*ssa.Function {
	var out []*ssa.Function
	for _, fn := range r.modFuncs() {
		n := fname(fn)
		in := strings.HasPrefix(n, "martian.") || strings.HasPrefix(n, "(*martian.") || strings.HasPrefix(n, "(martian.") ||
			strings.HasPrefix(n, "martian/header.") || strings.HasPrefix(n, "(*martian/header.") ||
			strings.HasPrefix(n, "martian/httpspec.") || strings.HasPrefix(n, "martian/fifo.") || strings.HasPrefix(n, "(*martian/fifo.") ||
			strings.HasPrefix(n, "(*forwarder.HTTPProxy).") || strings.HasPrefix(n, "forwarder.set")
		if in {
			out = append(out, fn)
		}
	}
	return out
}

func c01r1(r *R) {
	// function → what → reason. A "*" function means any function of the request path.
	type key struct{ fn, what string }
	allowed := map[key]string{
		{"(*martian.proxyConn).readRequest", "field:TLS"}:                                                             "not forwarded: TLS state of the client session",
		{"(*martian.proxyConn).readRequest", "field:RemoteAddr"}:                                                      "not forwarded: client address",
		{"(*martian.proxyConn).readRequest", "field:URL.Host"}:                                                        "origin-form request: authority taken from Host, only when empty (R4 checks the guard)",
		{"martian.fixConnectReqContentLength", "field:ContentLength"}:                                                 "CONNECT has no body: -1, for CONNECT only",
		{"(*martian.Proxy).fixRequestScheme", "field:URL.Scheme"}:                                                     "scheme fix-up (R6)",
		{"(martian.proxyHandler).ServeHTTP", "field:Body"}:                                                            "handler mode: NoBody when ContentLength is 0",
		{"(martian.proxyHandler).ServeHTTP", "field:Close"}:                                                           "handler mode: connection management is net/http's",
		{"(martian.proxyHandler).handleRequest", "field:Proto"}:                                                       "handler mode: outgoing request is HTTP/1.1 (not on the wire to the next hop as the client's version)",
		{"(martian.proxyHandler).handleRequest", "field:ProtoMajor"}:                                                  "handler mode",
		{"(martian.proxyHandler).handleRequest", "field:ProtoMinor"}:                                                  "handler mode",
		{"(martian.proxyHandler).handleRequest", "field:RequestURI"}:                                                  "handler mode: client requests must not carry RequestURI",
		{"(*martian/header.ViaModifier).ModifyRequest", "field:Close"}:                                                "loop refusal: the connection is closed after the 400",
		{"(*martian/header.ViaModifier).ModifyRequest", "header:Set Via"}:                                             "documented: one Via element appended",
		{"martian/header.NewForwardedModifier$1", "header:Set X-Forwarded-Proto"}:                                     "documented: filled when absent",
		{"martian/header.NewForwardedModifier$1", "header:Set X-Forwarded-Host"}:                                      "documented: filled when absent",
		{"martian/header.NewForwardedModifier$1", "header:Set X-Forwarded-Url"}:                                       "documented: filled when absent",
		{"martian/header.NewForwardedModifier$1", "header:Set X-Forwarded-For"}:                                       "documented: client address appended",
		{"martian/header.NewBadFramingModifier$1", "header:Set Content-Length"}:                                       "framing fix: equal duplicates collapsed",
		{"martian/header.NewBadFramingModifier$1", "header:Del Content-Length"}:                                       "framing fix: chunked wins over Content-Length",
		{"(*martian.proxyConn).handle", "header:Set Connection"}:                                                      "documented: re-added for an upgrade request (R4)",
		{"(*martian.proxyConn).handle", "header:Set Upgrade"}:                                                         "documented: re-added for an upgrade request (R4)",
		{"(martian.proxyHandler).handleRequest", "header:Set Connection"}:                                             "documented: re-added for an upgrade request (R4)",
		{"(martian.proxyHandler).handleRequest", "header:Set Upgrade"}:                                                "documented: re-added for an upgrade request (R4)",
		{"(*martian.proxyConn).handleConnectRequest", "header:Del X-Martian-Terminate-Tls"}:                           "internal control header, never forwarded",
		{"(martian.proxyHandler).handleConnectRequest", "header:Del X-Martian-Terminate-Tls"}:                         "internal control header, never forwarded",
		{"(*forwarder.HTTPProxy).setBasicAuth", "header:Set Authorization"}:                                           "documented: site credentials (C06)",
		{"forwarder.setEmptyUserAgent", "header:Set User-Agent"}:                                                      "documented: no User-Agent is invented (R4 checks value and guard)",
		{"(*forwarder.HTTPProxy).injectKerberosSPNEGOAuthentication$1", "header:Set Authorization"}:                   "credentials (C06)",
		{"(*forwarder.HTTPProxy).injectKerberosUpstreamProxyAuthorizationHeader$1", "header:Set Proxy-Authorization"}: "credentials for the upstream hop (C06)",
	}
	// a write inside a function literal counts for the function it is written in (a literal may become a
	// named function and back without any change in behaviour)
	for k, v := range allowed {
		if o := outerName(k.fn); o != k.fn {
			delete(allowed, k)
			allowed[key{o, k.what}] = v
		}
	}
	used := map[key]bool{}
	for _, fn := range requestPathFuncs(r) {
		for _, w := range messageWrites(fn) {
			if w.owner != "request" {
				continue
			}
			k := key{outerName(fname(fn)), w.what}
			why, ok := allowed[k]
			used[k] = true
			r.check(ok, fname(fn)+"#"+w.what, w.at.Pos(), why, "the forwarded request is changed here ("+w.what+" := "+w.val+"); this is not one of the documented differences")
		}
	}
	// removeHopByHopHeaders works on a bare header: only Del, with the table's keys or Connection-nominated ones (R3)
	rh := r.fn(mpkg+"/header", "removeHopByHopHeaders")
	for _, w := range messageWrites(rh) {
		r.check(strings.HasPrefix(w.what, "header:Del "), "removeHopByHopHeaders#"+w.what, w.at.Pos(), "hop-by-hop removal only deletes", "hop-by-hop removal writes "+w.what)
	}
	var missing []string
	for k := range allowed {
		if !used[k] && !strings.Contains(k.fn, "Kerberos") {
			missing = append(missing, k.fn+" "+k.what)
		}
	}
	sort.Strings(missing)
	r.check(len(missing) == 0, "footprint#table-current", rh.Pos(), "every entry of the allow-list still corresponds to a write", "allow-list entries without a matching write (the table must follow the code): "+strings.Join(missing, "; "))
	// handler-mode guards
	sh := r.method(mpkg, "proxyHandler", "ServeHTTP")
	for _, w := range messageWrites(sh) {
		if w.what == "field:Body" {
			okGuard := guardedBy(w.at.Block(), eq("($2.ContentLength == 0)"))
			if h := w.at.Parent(); !okGuard && h != sh && isNewHelper(h) {
				// the clone is prepared in an extracted helper: the guard is on the helper's parameter that stands for the server request
				for _, c := range calls(sh, func(n string) bool { return n == fname(h) }) {
					for i, a := range c.Common().Args {
						if describe(a) == "$2" && i < len(h.Params) && guardedBy(w.at.Block(), eq("("+describe(h.Params[i])+".ContentLength == 0)")) {
							okGuard = true
						}
					}
				}
			}
			r.check(w.val == "net/http.NoBody" && okGuard, "proxyHandler.ServeHTTP#NoBody-guard", w.at.Pos(), "body dropped only when ContentLength is 0", "request body replaced by "+w.val+" under "+strings.Join(guardStrings(w.at.Block()), ","))
		}
	}
	fc := r.fn(mpkg, "fixConnectReqContentLength")
	for _, w := range messageWrites(fc) {
		if w.what == "field:ContentLength" {
			r.check(w.val == "-1" && guardedBy(w.at.Block(), eq(`!($0.Method != "CONNECT")`)), "fixConnectReqContentLength#guard", w.at.Pos(), "-1 for CONNECT only", "ContentLength rewritten to "+w.val+" under "+strings.Join(guardStrings(w.at.Block()), ","))
		}
	}
}

func c01r2(r *R) {
	ns, regs := stackOrder(r)
	var names []string
	for _, g := range regs {
		names = append(names, g.arg)
	}
	want := []string{"martian/header.NewHopByHopModifier()", "martian/header.NewForwardedModifier()", "martian/header.NewBadFramingModifier()", "martian/header.NewViaModifier($0)", "martian/fifo.NewGroup()"}
	r.check(strings.Join(names, " → ") == strings.Join(want, " → "), "NewStack#request-order", ns.Pos(), strings.Join(names, " → "), "core request chain is ["+strings.Join(names, " → ")+"], documented order is ["+strings.Join(want, " → ")+"]")
	for i := 0; i+1 < len(regs); i++ {
		r.check(before(regs[i].call, regs[i+1].call) && regs[i].group == regs[i+1].group, fmt.Sprintf("NewStack#order(%d<%d)", i, i+1), regs[i].call.Pos(), "registered in this order on the outer group", "registration order is not fixed on every path")
	}
	// returned values: outer = the group the four were added to, inner = the fifth
	ps, _ := enumPaths(ns, 8, 1)
	good := len(ps) == 1 && len(regs) == 5
	if good {
		rv0, rv1 := returnValues(ns, 0), returnValues(ns, 1)
		good = len(rv0) == 1 && len(rv1) == 1 && rv0[0] == refArgs(regs[0].call.Common())[0] && rv1[0] == unbox(refArgs(regs[4].call.Common())[1]) && rv0[0] != rv1[0]
	}
	r.check(good, "NewStack#returns", ns.Pos(), "returns (outer, inner)", "NewStack does not return the outer chain and its inner group")
	// inner group order in middlewareStack
	ms := r.method(".", "HTTPProxy", "middlewareStack")
	var rules, basic, ua *ssa.Call
	for _, g := range registrations(ms) {
		if g.kind != "request" || !strings.HasSuffix(g.group, "#1") || !strings.HasPrefix(g.group, "martian/httpspec.NewStack(") {
			continue
		}
		switch {
		case strings.HasPrefix(g.arg, "$0.config.RequestModifiers["):
			rules = g.call
		case strings.Contains(g.arg, "setBasicAuth"):
			basic = g.call
		case strings.Contains(g.arg, "setEmptyUserAgent"):
			ua = g.call
		default:
			r.bad("middlewareStack#inner("+g.arg+")", g.call.Pos(), "unexpected request modifier in the inner group")
		}
	}
	if rules == nil || basic == nil || ua == nil {
		r.bad("middlewareStack#inner", ms.Pos(), "configured header rules, site credentials and the User-Agent marker must all be in the inner group")
		return
	}
	r.check(before(rules, basic) && before(rules, ua), "middlewareStack#rules-before-builtins", rules.Pos(), "configured request rules run before setBasicAuth and setEmptyUserAgent", "configured header rules run after the built-in modifiers: a rule removing User-Agent (or Authorization) removes the proxy's marker, and net/http then invents a User-Agent")
	r.check(!escapesFromEntry(ms, basic) && !escapesFromEntry(ms, ua), "middlewareStack#builtins-unconditional", basic.Pos(), "installed unconditionally", "setBasicAuth/setEmptyUserAgent are installed conditionally")
	// configured rules loop covers the whole list
	r.check(strings.HasPrefix(describe(refArgs(rules.Common())[1]), "$0.config.RequestModifiers[") && reaches(rules, rules), "middlewareStack#all-rules", rules.Pos(), "every configured request modifier is added", "configured request modifiers are not all installed")
}

func c01r3(r *R) {
	tab, at := hopByHopTable(r)
	for _, n := range []string{"Connection", "Keep-Alive", "Proxy-Authenticate", "Proxy-Authorization", "Proxy-Connection", "Te", "Trailer", "Transfer-Encoding", "Upgrade"} {
		r.check(tab[n], "hopByHopHeaders["+n+"]", posOf(at), "in the table", "hop-by-hop field "+n+" is missing from the table (canonical spelling required): it would be forwarded")
	}
	rh := r.fn(mpkg+"/header", "removeHopByHopHeaders")
	var nominated, fixed *ssa.Call
	for _, c := range calls(rh, nameIs("(net/http.Header).Del")) {
		k := describe(refArgs(c.Common())[1])
		switch {
		case strings.HasPrefix(k, "net/http.CanonicalHeaderKey(strings.TrimSpace(strings.Split(") && strings.Contains(k, `$0["Connection"]`):
			nominated = c.(*ssa.Call)
		case strings.HasPrefix(k, "martian/header.hopByHopHeaders["):
			fixed = c.(*ssa.Call)
		default:
			r.bad("removeHopByHopHeaders#Del("+k+")", c.Pos(), "unexpected deletion")
		}
	}
	if nominated == nil || fixed == nil {
		r.bad("removeHopByHopHeaders#shape", rh.Pos(), "expected a Connection-nominated deletion loop and a fixed-table loop")
		return
	}
	k := describe(refArgs(nominated.Common())[1])
	r.check(strings.Contains(k, `$0["Connection"][`) && strings.Contains(k, `, ",")`), "removeHopByHopHeaders#nominated", nominated.Pos(), "every Connection line, split on commas, trimmed, canonicalised", "Connection-nominated names are derived as "+k)
	r.check(before(nominated, fixed), "removeHopByHopHeaders#nominated-first", nominated.Pos(), "nominated names are deleted before the table deletes Connection itself", "the fixed table runs first: Connection is gone before the names it nominates are read")
	r.check(describe(refArgs(nominated.Common())[0]) == "$0" && describe(refArgs(fixed.Common())[0]) == "$0", "removeHopByHopHeaders#same-header", rh.Pos(), "both loops act on the given header", "deletions act on a different header")
	// request and response modifiers both call it on their own header
	for m, arg := range map[string]string{"ModifyRequest": "$1.Header", "ModifyResponse": "$1.Header"} {
		fn := r.method(mpkg+"/header", "hopByHopModifier", m)
		cs := callsToFunc(fn, rh)
		r.check(len(cs) == 1 && describe(refArgs(cs[0].Common())[0]) == arg, "hopByHopModifier."+m, fn.Pos(), "removes hop-by-hop fields of its message", m+" does not strip its message's header")
	}
}

func c01r4(r *R) {
	// upgrade re-add in both handlers
	for _, spec := range []struct{ recv, fn string }{{"proxyConn", "handle"}, {"proxyHandler", "handleRequest"}} {
		fn := r.method(mpkg, spec.recv, spec.fn)
		var mod ssa.Instruction
		for _, c := range calls(fn, nameIs("(*martian.Proxy).modifyRequest")) {
			mod = c.(ssa.Instruction)
		}
		for _, w := range messageWrites(fn) {
			if w.owner != "request" || !strings.HasPrefix(w.what, "header:Set ") {
				continue
			}
			name := strings.TrimPrefix(w.what, "header:Set ")
			up := ""
			for _, c := range calls(fn, nameIs("martian.upgradeType")) {
				if mod != nil && instrDominates(c.(ssa.Instruction), mod) {
					up = describe(c.(*ssa.Call))
				}
			}
			guard := holdsAmong(w.conds, "("+up+` != "")`)
			after := mod != nil && instrDominates(mod, w.site)
			switch name {
			case "Connection":
				r.check(guard && after && w.val == `"Upgrade"`, spec.recv+"."+spec.fn+"#re-add(Connection)", w.at.Pos(), "Connection: Upgrade only for an upgrade request, after the modifiers", "Connection re-added as "+w.val+" (guard ok="+fmt.Sprint(guard)+", after modifiers="+fmt.Sprint(after)+")")
			case "Upgrade":
				r.check(guard && after && w.val == up, spec.recv+"."+spec.fn+"#re-add(Upgrade)", w.at.Pos(), "Upgrade restored to the value read before the modifiers ran", "Upgrade re-added as "+w.val)
			}
		}
	}
	// readRequest: URL.Host only when empty, from Host
	rr := r.method(mpkg, "proxyConn", "readRequest")
	for _, w := range messageWrites(rr) {
		if w.what == "field:URL.Host" {
			base := strings.TrimSuffix(describe(w.at.(*ssa.Store).Addr), ".URL.Host")
			r.check(w.val == base+".Host" && guardedBy(w.at.Block(), eq("("+base+`.URL.Host == "")`)), "readRequest#URL.Host", w.at.Pos(), "filled from Host only when empty", "URL.Host := "+w.val+" under "+strings.Join(guardStrings(w.at.Block()), ","))
		}
	}
	// forwarded modifier, per path
	fm := r.fn(mpkg+"/header", "NewForwardedModifier")
	if len(anonFuncs(fm)) != 1 {
		r.missing("forwarded modifier closure")
	}
	lit := anonFuncs(fm)[0]
	ps, _ := enumPaths(lit, 4096, 1)
	fills := map[string]string{"X-Forwarded-Proto": "$0.URL.Scheme", "X-Forwarded-Host": "$0.Host", "X-Forwarded-Url": "(*net/url.URL).String($0.URL)"}
	bad := map[string]string{}
	seen := map[string]int{}
	for _, p := range ps {
		if p.holds(`($0.Method == "CONNECT")`) {
			if len(p.effects("(net/http.Header).Get", "(net/http.Header).Values", "net.SplitHostPort", "strings.Join", "(*net/url.URL).String")) != 0 {
				bad["CONNECT"] = "CONNECT request gets X-Forwarded fields"
			}
			continue
		}
		for name, val := range fills {
			absent := p.holds(`((net/http.Header).Get($0.Header, "` + name + `") == "")`)
			set := p.eventIndex(0, "call", eq(`(net/http.Header).Set($0.Header, "`+name+`", `+val+`)`)) >= 0
			anySet := p.eventIndex(0, "call", prefix(`(net/http.Header).Set($0.Header, "`+name+`", `)) >= 0
			seen[name]++
			if absent != set || anySet != set {
				bad[name] = fmt.Sprintf("%s: absent=%v but filled=%v (any write=%v); each field must be filled iff that very field is absent, with %s", name, absent, set, anySet, val)
			}
		}
		// X-Forwarded-For
		i := p.eventIndex(0, "call", prefix(`(net/http.Header).Set($0.Header, "X-Forwarded-For", `))
		if i < 0 {
			bad["X-Forwarded-For"] = "client address not recorded on a path"
			continue
		}
		v := strings.TrimSuffix(strings.TrimPrefix(p.Events[i].Desc, `(net/http.Header).Set($0.Header, "X-Forwarded-For", `), ")")
		client := "net.SplitHostPort($0.RemoteAddr)#0"
		if p.hasCond(func(c string) bool { return c == "(net.SplitHostPort($0.RemoteAddr)#2 != nil)" }) {
			client = "$0.RemoteAddr"
		}
		const old = `strings.Join((net/http.Header).Values($0.Header, "X-Forwarded-For"), ", ")`
		want := client
		if p.holds("(" + old + ` != "")`) {
			want = "((" + old + ` + ", ") + ` + client + ")"
		}
		seen["X-Forwarded-For"]++
		if v != want {
			bad["X-Forwarded-For"] = "X-Forwarded-For := " + v + ", expected " + want
		}
	}
	for _, name := range []string{"X-Forwarded-Proto", "X-Forwarded-Host", "X-Forwarded-Url", "X-Forwarded-For", "CONNECT"} {
		r.check(bad[name] == "" && (seen[name] > 0 || name == "CONNECT"), "ForwardedModifier#"+name, lit.Pos(), "filled/appended exactly as documented on every path", bad[name])
	}
	// User-Agent
	ua := r.fn(".", "setEmptyUserAgent")
	ps, _ = enumPaths(ua, 16, 1)
	var why []string
	for _, p := range ps {
		absent := p.holds(`!$0.Header["User-Agent"]#1`)
		set := p.eventIndex(0, "call", eq(`(net/http.Header).Set($0.Header, "User-Agent", "")`)) >= 0
		if absent != set || len(p.effects()) != map[bool]int{true: 1, false: 0}[set] {
			why = append(why, fmt.Sprintf("absent=%v set-to-empty=%v effects=%v", absent, set, p.effects()))
		}
	}
	r.check(len(ps) == 2 && len(why) == 0, "setEmptyUserAgent", ua.Pos(), "User-Agent set to \"\" iff the client sent none", strings.Join(why, "; "))
}

func c01r6(r *R) {
	fs := r.method(mpkg, "Proxy", "fixRequestScheme")
	ps, complete := enumPaths(fs, 256, 1)
	if !complete {
		r.undecided("fixRequestScheme", fs.Pos(), "too many paths")
		return
	}
	var why []string
	nFill, nUp := 0, 0
	for _, p := range ps {
		var stores []string
		for _, e := range p.Events {
			if e.Kind == "store" && strings.HasPrefix(e.Desc, "$1.URL.Scheme := ") {
				stores = append(stores, strings.TrimPrefix(e.Desc, "$1.URL.Scheme := "))
			}
		}
		empty := p.holds(`($1.URL.Scheme == "")`)
		const xfp = `(net/http.Header).Get($1.Header, "X-Forwarded-Proto")`
		idx := 0
		if empty {
			nFill++
			want := `"http"`
			switch {
			case p.holds("(" + xfp + ` != "")`):
				want = xfp
			case p.holds("($1.TLS != nil)"):
				want = `"https"`
			}
			if len(stores) == 0 || stores[0] != want {
				why = append(why, "empty scheme filled with "+strings.Join(stores, ",")+", expected "+want)
			}
			idx = 1
		}
		rest := stores[min(idx, len(stores)):]
		if len(rest) > 0 {
			nUp++
			if !(len(rest) == 1 && rest[0] == `"https"` && p.holds("($1.TLS != nil)") && p.holds("!$0.AllowHTTP")) {
				why = append(why, "scheme rewritten to "+strings.Join(rest, ",")+" on ["+strings.Join(p.Conds, " ∧ ")+"]")
			}
		}
	}
	r.check(nFill >= 3 && nUp >= 1 && len(why) == 0, "fixRequestScheme", fs.Pos(), "fill: X-Forwarded-Proto, else https iff TLS, else http; upgrade to https only when TLS ∧ ¬AllowHTTP", strings.Join(dedupStrings(why), "; "))
	// forwarder switches AllowHTTP on
	found := false
	for _, fn := range r.modFuncs() {
		if !strings.HasPrefix(fname(fn), "(*forwarder.HTTPProxy).") && !strings.HasPrefix(fname(fn), "forwarder.") {
			continue
		}
		eachInstr(fn, func(ins ssa.Instruction) {
			if st, ok := ins.(*ssa.Store); ok && strings.HasSuffix(describe(st.Addr), ".AllowHTTP") {
				found = true
				r.check(describe(st.Val) == "true", fname(fn)+"#AllowHTTP", st.Pos(), "AllowHTTP = true", "AllowHTTP set to "+describe(st.Val))
			}
		})
	}
	if !found {
		r.bad("forwarder#AllowHTTP", fs.Pos(), "forwarder no longer enables AllowHTTP: http requests inside a MITM'd session would be forced to https")
	}
	_ = types.Typ
}

func bodyClosedOnEveryExit(r *R) {
	h := r.method(mpkg, "proxyConn", "handle")
	ps, complete := enumPaths(h, 20000, 1)
	if !complete {
		r.undecided("proxyConn.handle#body-close", h.Pos(), "too many paths")
		return
	}
	const readOK = "!((*martian.proxyConn).readRequest($0)#1 != nil)"
	bad := map[string]bool{}
	n := 0
	for _, p := range ps {
		if !p.holds(readOK) {
			continue
		}
		n++
		closed := false
		for _, e := range p.Events {
			d := strings.TrimPrefix(e.Desc, "deferred ")
			if (e.Kind == "call" || e.Kind == "defer") && d == "invoke io.ReadCloser.Close((*martian.proxyConn).readRequest($0)#0.Body)" {
				closed = true
			}
		}
		if !closed {
			via := "returns directly"
			for _, e := range p.Events {
				if e.Kind == "call" && (strings.HasPrefix(e.Desc, "(*martian.proxyConn).write") || strings.HasPrefix(e.Desc, "(*martian.proxyConn).handle")) {
					via = "exits through " + e.Desc[:strings.Index(e.Desc, "(")+0]
					via = "exits through " + strings.SplitN(strings.TrimPrefix(e.Desc, "(*martian.proxyConn)."), "(", 2)[0]
				}
			}
			bad[via] = true
		}
	}
	var why []string
	for k := range bad {
		why = append(why, k)
	}
	r.check(n > 5 && len(why) == 0, "proxyConn.handle#body-closed-on-every-exit", h.Pos(), fmt.Sprintf("all %d exits after a successful read close the request body", n), "the request body is left unread on the connection on some exits ("+strings.Join(why, "; ")+"): its bytes are parsed as the next request")
	// handler mode: ServeHTTP defers the close of the outgoing body
	sh := r.method(mpkg, "proxyHandler", "ServeHTTP")
	okH := false
	eachInstr(sh, func(ins ssa.Instruction) {
		if d, ok := ins.(*ssa.Defer); ok && strings.HasPrefix(describeCall(d.Common(), describe), "invoke io.ReadCloser.Close(") {
			okH = true
		}
	})
	r.check(okH, "proxyHandler.ServeHTTP#body-closed", sh.Pos(), "handler mode closes the outgoing request body", "handler mode no longer closes the request body")
}

// madeByCaller: every source of v is the result of a call or an allocation in the calling function - not one of its
// parameters, not something loaded from a field (req.URL) or a package variable.
func madeByCaller(v ssa.Value) bool {
	made, foreign := false, false
	backward(v, func(x ssa.Value) bool {
		switch y := x.(type) {
		case *ssa.Parameter, *ssa.FreeVar, *ssa.Global, *ssa.Lookup:
			foreign = true
		case *ssa.UnOp:
			if y.Op == token.MUL {
				if _, isLocal := y.X.(*ssa.Alloc); !isLocal {
					foreign = true
				}
			}
		case *ssa.Call, *ssa.Alloc:
			made = true
		}
		return false
	})
	return made && !foreign
}

func c01r9(r *R) {
	for _, fn := range r.modFuncsAll() {
		nm := fname(fn)
		if strings.HasPrefix(nm, "e2e/") || strings.Contains(nm, "utils/") || strings.HasPrefix(nm, "cmd/") || strings.Contains(nm, "/testing.") || strings.Contains(nm, "martiantest") {
			continue
		}
		var urlParams []*ssa.Parameter
		for _, p := range fn.Params {
			if typeStr(p.Type()) == "*net/url.URL" {
				if a := soleCallArg(p); a != nil && madeByCaller(a) {
					continue // a helper split out of one function, handed a URL that function built itself
				}
				urlParams = append(urlParams, p)
			}
		}
		if len(urlParams) == 0 {
			continue
		}
		var writes []string
		eachInstr(fn, func(ins ssa.Instruction) {
			st, ok := ins.(*ssa.Store)
			if !ok {
				return
			}
			fa, ok := st.Addr.(*ssa.FieldAddr)
			if !ok || typeStr(fa.X.Type()) != "*net/url.URL" {
				return
			}
			for _, p := range urlParams {
				if backward(fa.X, func(v ssa.Value) bool { return v == p }) {
					writes = append(writes, fmt.Sprintf("%s.%s at %s", p.Name(), fieldName(fa.X.Type(), fa.Field), r.rel(st.Pos())))
				}
			}
		})
		r.check(len(writes) == 0, nm+"#url-argument-read-only", fn.Pos(), "reads its URL argument only", "writes through the URL it was given ("+strings.Join(writes, ", ")+"): callers pass the live request URL, the change goes on the wire")
	}
}

var literalSuffix = regexp.MustCompile(`(\$\d+)+$`)

// outerName strips the literal suffixes ($1, $2$1) of a function name.
func outerName(n string) string { return literalSuffix.ReplaceAllString(n, "") }
