package main

import (
	"fmt"
	"go/token"
	"go/types"
	"sort"
	"strings"

	"golang.org/x/tools/go/ssa"
)

// C12.R7 - metric label values.
//
// prometheus' (*XxxVec).WithLabelValues / With panic when a label value is
// not valid UTF-8. forwarder serves connections on plain goroutines with no
// recover, so such a panic ends the process ("no sequence of bytes from a
// client or an upstream can crash the process"). The rule enumerates every
// label-taking call in the module and traces each label value backwards
// through locals, fields (all stores to the field in the module), module
// functions (all returns) and parameters (all static callers). Every source it
// arrives at must be clean:
//
//   - a constant,
//   - a number rendered by strconv, a quoted/escaped string,
//   - strings.ToValidUTF8(...),
//   - (*http.Request).Method (net/http accepts only token characters there),
//   - or a source named in labelExceptions with its reason.
//
// Anything else - in particular a host name cut out of a request-target - is a
// violation naming the call site and the unclean source.
func init() {
	register("C12", "R7", 8, "no crash from hostile bytes through the metrics: every label value handed to a prometheus vector is a constant, a rendered number, request method, or has passed strings.ToValidUTF8 - a label that is not valid UTF-8 panics inside prometheus and no connection goroutine recovers", c12r7)
}

// labelExceptions: sources the tracer cannot follow, each confirmed by reading.
// key = function short name + "|" + kind of source.
var labelExceptions = map[string]string{
	"(*middleware.Prometheus).labels|dynamic call": "the optional labeler installed with WithCustomLabeler by an embedding program; forwarder itself installs none (the rule checks that WithCustomLabeler has no caller in the module)",
}

type labelTracer struct {
	r       *R
	callers map[*ssa.Function][]ssa.CallInstruction
	stores  map[*types.Var][]ssa.Value
	dyn     map[*types.Var][]ssa.CallInstruction // calls through a func-typed field
	mc      map[*ssa.Function]*ssa.MakeClosure
	onpath  map[ssa.Value]bool
	visited int
}

func newLabelTracer(r *R) *labelTracer {
	t := &labelTracer{r: r, callers: map[*ssa.Function][]ssa.CallInstruction{}, stores: map[*types.Var][]ssa.Value{},
		dyn: map[*types.Var][]ssa.CallInstruction{}, mc: map[*ssa.Function]*ssa.MakeClosure{}, onpath: map[ssa.Value]bool{}}
	for _, f := range r.modFuncs() {
		eachInstr(f, func(ins ssa.Instruction) {
			switch x := ins.(type) {
			case ssa.CallInstruction:
				if c := staticCallee(x.Common()); c != nil {
					t.callers[origin(c)] = append(t.callers[origin(c)], x)
				} else if fv := funcFieldOf(x.Common().Value); fv != nil {
					t.dyn[fv] = append(t.dyn[fv], x)
				}
			case *ssa.Store:
				if fa, ok := x.Addr.(*ssa.FieldAddr); ok {
					if fv := fieldVar(fa.X.Type(), fa.Field); fv != nil {
						t.stores[fv] = append(t.stores[fv], x.Val)
					}
				}
			case *ssa.MakeClosure:
				if fn, ok := x.Fn.(*ssa.Function); ok {
					t.mc[fn] = x
				}
			}
		})
	}
	return t
}

// funcFieldOf: v is a load of a func-typed struct field -> that field.
func funcFieldOf(v ssa.Value) *types.Var {
	u, ok := v.(*ssa.UnOp)
	if !ok || u.Op != token.MUL {
		return nil
	}
	fa, ok := u.X.(*ssa.FieldAddr)
	if !ok {
		return nil
	}
	return fieldVar(fa.X.Type(), fa.Field)
}

func fieldVar(t types.Type, i int) *types.Var {
	if p, ok := t.Underlying().(*types.Pointer); ok {
		t = p.Elem()
	}
	st, ok := t.Underlying().(*types.Struct)
	if !ok || i >= st.NumFields() {
		return nil
	}
	return st.Field(i)
}

var cleanCalls = map[string]bool{
	"strings.ToValidUTF8": true, "strconv.Itoa": true, "strconv.FormatInt": true, "strconv.FormatUint": true,
	"strconv.Quote": true, "strconv.QuoteToASCII": true, "strconv.FormatBool": true,
	"net/url.QueryEscape": true, "net/url.PathEscape": true,
}

// cleanForeignFields: fields of library types that the library fills with fixed ASCII words.
var cleanForeignFields = map[string]string{
	"net.OpError.Op": `the operation name ("dial", "read", "write", ...) chosen by package net`,
}

type dirty struct{ fn, kind, what string }

func (d dirty) key() string { return d.fn + "|" + d.kind }

// trace returns the sources of v that are not proven clean.
func (t *labelTracer) trace(v ssa.Value, depth int) []dirty {
	t.visited++
	if v == nil {
		return nil
	}
	if t.onpath[v] {
		return nil // a cycle adds no new source
	}
	t.onpath[v] = true
	defer delete(t.onpath, v)
	in := "?"
	if ins, ok := v.(ssa.Instruction); ok && ins.Parent() != nil {
		in = fname(ins.Parent())
	} else if p, ok := v.(*ssa.Parameter); ok {
		in = fname(p.Parent())
	} else if fv, ok := v.(*ssa.FreeVar); ok {
		in = fname(fv.Parent())
	}
	if depth > 12 {
		return []dirty{{in, "depth", "provenance deeper than 12 steps at " + describe(v)}}
	}
	union := func(vs ...ssa.Value) []dirty {
		var out []dirty
		for _, x := range vs {
			out = append(out, t.trace(x, depth+1)...)
		}
		return out
	}
	switch x := v.(type) {
	case *ssa.Const:
		return nil
	case *ssa.Phi:
		return union(x.Edges...)
	case *ssa.MakeInterface:
		return union(x.X)
	case *ssa.ChangeType:
		return union(x.X)
	case *ssa.ChangeInterface:
		return union(x.X)
	case *ssa.TypeAssert:
		return union(x.X)
	case *ssa.Convert:
		if b, ok := x.X.Type().Underlying().(*types.Basic); ok && b.Info()&types.IsInteger != 0 {
			return nil // string(rune) is always valid UTF-8
		}
		return union(x.X)
	case *ssa.BinOp:
		return union(x.X, x.Y)
	case *ssa.Slice:
		if b, ok := x.X.Type().Underlying().(*types.Basic); ok && b.Info()&types.IsString != 0 && (x.Low != nil || x.High != nil) {
			// cutting a string at a byte offset can split a multi-byte character: what comes out need not be valid
			// UTF-8 even when what went in was
			return append(union(x.X), dirty{in, "string cut at a byte offset (" + shorten(describe(x), 60) + ")", "a sub-string taken by byte position can end inside a multi-byte character"})
		}
		return union(x.X)
	case *ssa.Extract:
		if c, ok := x.Tuple.(*ssa.Call); ok {
			return t.traceCall(c, x.Index, depth, in)
		}
		return union(x.Tuple)
	case *ssa.Call:
		return t.traceCall(x, 0, depth, in)
	case *ssa.Alloc:
		var out []dirty
		for _, s := range storesTo(x) {
			out = append(out, t.trace(s, depth+1)...)
		}
		return out
	case *ssa.UnOp:
		if x.Op != token.MUL {
			return union(x.X)
		}
		switch a := x.X.(type) {
		case *ssa.Alloc:
			return union(a)
		case *ssa.FieldAddr:
			return t.traceField(a.X.Type(), a.Field, in, depth)
		case *ssa.IndexAddr:
			return t.elems(a.X, depth+1)
		case *ssa.FreeVar:
			return union(a)
		case *ssa.Global:
			return []dirty{{in, "global", "package variable " + a.Name()}}
		}
		return union(x.X)
	case *ssa.Field:
		return t.traceField(x.X.Type(), x.Field, in, depth)
	case *ssa.FreeVar:
		fn := x.Parent()
		mc := t.mc[fn]
		if mc == nil {
			return []dirty{{in, "free variable", "captured variable " + x.Name() + " (closure creation not found)"}}
		}
		for i, fv := range fn.FreeVars {
			if fv == x {
				return union(mc.Bindings[i])
			}
		}
		return nil
	case *ssa.Parameter:
		fn := x.Parent()
		idx := -1
		for i, p := range fn.Params {
			if p == x {
				idx = i
			}
		}
		cs := t.callers[origin(fn)]
		var dynCalls []ssa.CallInstruction
		if len(cs) == 0 {
			// a function literal stored in a func-typed field and invoked through it
			dynCalls = t.dynamicCallers(fn)
		}
		if len(cs) == 0 && len(dynCalls) == 0 {
			return []dirty{{in, "parameter", fmt.Sprintf("parameter %s of %s, which has no resolvable caller in the module", x.Name(), fname(fn))}}
		}
		var out []dirty
		for _, c := range cs {
			args := c.Common().Args
			if c.Common().IsInvoke() {
				continue
			}
			off := len(args) - len(fn.Params)
			if idx+off >= 0 && idx+off < len(args) {
				out = append(out, t.trace(args[idx+off], depth+1)...)
			}
		}
		for _, c := range dynCalls {
			args := c.Common().Args
			// a literal's free variables are not parameters: positions line up
			if idx < len(args) {
				out = append(out, t.trace(args[idx], depth+1)...)
			}
		}
		return out
	case *ssa.Lookup:
		if _, ok := x.X.Type().Underlying().(*types.Map); ok {
			return []dirty{{in, "map element", "element of " + describe(x.X)}}
		}
		return union(x.X) // string index
	case *ssa.Index:
		return union(x.X)
	}
	return []dirty{{in, "value", fmt.Sprintf("%T %s", v, describe(v))}}
}

// dynamicCallers: fn is a literal; find the func-typed fields its closure is
// stored in (directly, or after being passed to an option constructor whose
// literal stores it) and return the calls through those fields.
func (t *labelTracer) dynamicCallers(fn *ssa.Function) []ssa.CallInstruction {
	mc := t.mc[fn]
	if mc == nil {
		return nil
	}
	var out []ssa.CallInstruction
	seen := map[ssa.Value]bool{}
	var follow func(v ssa.Value, depth int)
	follow = func(v ssa.Value, depth int) {
		if v == nil || seen[v] || depth > 10 {
			return
		}
		seen[v] = true
		refs := v.Referrers()
		if refs == nil {
			return
		}
		for _, ref := range *refs {
			switch x := ref.(type) {
			case *ssa.Store:
				if x.Val != v {
					continue
				}
				if fa, ok := x.Addr.(*ssa.FieldAddr); ok {
					if fv := fieldVar(fa.X.Type(), fa.Field); fv != nil {
						out = append(out, t.dyn[fv]...)
					}
				}
				if a, ok := x.Addr.(*ssa.Alloc); ok {
					follow(a, depth+1) // a local (or a parameter spilled for capture)
				}
			case *ssa.UnOp:
				if x.Op == token.MUL {
					follow(x, depth+1)
				}
			case *ssa.ChangeType:
				follow(x, depth+1)
			case *ssa.Return:
				// returned to the callers of this function
				for _, c := range t.callers[origin(x.Parent())] {
					if cv, ok := c.(ssa.Value); ok {
						follow(cv, depth+1)
					}
				}
			case *ssa.Extract:
				follow(x, depth+1)
			case *ssa.Phi:
				follow(x, depth+1)
			case *ssa.MakeClosure:
				// captured by an inner literal: follow the free variable inside it
				if inner, ok := x.Fn.(*ssa.Function); ok {
					for i, b := range x.Bindings {
						if b == v && i < len(inner.FreeVars) {
							follow(inner.FreeVars[i], depth+1)
						}
					}
				}
			case ssa.CallInstruction:
				if x.Common().Value == v && !x.Common().IsInvoke() {
					out = append(out, x) // the func value itself is called here
					continue
				}
				c := staticCallee(x.Common())
				if c == nil || len(c.Blocks) == 0 {
					continue
				}
				for i, a := range x.Common().Args {
					if a == v && i < len(c.Params) {
						follow(c.Params[i], depth+1)
					}
				}
			}
		}
	}
	follow(mc, 0)
	return out
}

func (t *labelTracer) traceField(st types.Type, i int, in string, depth int) []dirty {
	fv := fieldVar(st, i)
	if fv == nil {
		return []dirty{{in, "field", "field of " + typeStr(st)}}
	}
	owner := typeStr(st)
	if strings.Contains(owner, "net/http.Request") && fv.Name() == "Method" {
		return nil // net/http only accepts token characters in a method
	}
	if fv.Pkg() == nil || !strings.HasPrefix(fv.Pkg().Path(), modPath) {
		if _, ok := cleanForeignFields[strings.TrimPrefix(owner, "*")+"."+fv.Name()]; !ok {
			return []dirty{{in, "field", "field " + fv.Name() + " of " + owner + " (declared outside the module)"}}
		}
		// set by its own package to fixed words; what the module itself stores there is traced below
	}
	var out []dirty
	for _, s := range t.stores[fv] {
		out = append(out, t.trace(s, depth+1)...)
	}
	return out
}

func (t *labelTracer) traceCall(c *ssa.Call, idx int, depth int, in string) []dirty {
	cn := calleeName(c.Common())
	if cleanCalls[cn] {
		return nil
	}
	if f := staticCallee(c.Common()); f != nil && len(f.Blocks) > 0 && inModule(f) {
		var out []dirty
		for _, rv := range returnValues(f, idx) {
			out = append(out, t.trace(rv, depth+1)...)
		}
		return out
	}
	if !c.Common().IsInvoke() && staticCallee(c.Common()) == nil {
		// a func value: resolvable when it is an element of a slice literal of functions
		if fns, ok := t.funcSet(c.Common().Value); ok && len(fns) > 0 {
			var out []dirty
			for _, f := range fns {
				for _, rv := range returnValues(f, idx) {
					out = append(out, t.trace(rv, depth+1)...)
				}
			}
			return out
		}
	}
	if c.Common().IsInvoke() || staticCallee(c.Common()) == nil {
		return []dirty{{in, "dynamic call", "result of the dynamic call " + describe(c.Common().Value)}}
	}
	// a library function: its string result is as clean as its string-like operands
	var out []dirty
	n := 0
	for _, a := range c.Common().Args {
		switch u := a.Type().Underlying().(type) {
		case *types.Basic:
			if u.Info()&types.IsString == 0 {
				continue
			}
		case *types.Slice, *types.Interface, *types.Pointer, *types.Struct:
		default:
			continue
		}
		n++
		if _, ok := a.Type().Underlying().(*types.Slice); ok {
			out = append(out, t.elems(a, depth+1)...)
		} else {
			out = append(out, t.trace(a, depth+1)...)
		}
	}
	if n == 0 {
		return []dirty{{in, "library call", "result of " + cn}}
	}
	return out
}

// funcSet resolves a func value to the functions it can be, when it is read
// from a slice literal of functions (`for _, h := range []handler{a, b, c}`).
func (t *labelTracer) funcSet(v ssa.Value) ([]*ssa.Function, bool) {
	switch x := v.(type) {
	case *ssa.Function:
		return []*ssa.Function{x}, len(x.Blocks) > 0
	case *ssa.MakeClosure:
		f, ok := x.Fn.(*ssa.Function)
		return []*ssa.Function{f}, ok
	case *ssa.ChangeType:
		return t.funcSet(x.X)
	case *ssa.UnOp:
		ia, ok := x.X.(*ssa.IndexAddr)
		if !ok || x.Op != token.MUL {
			return nil, false
		}
		sl, ok := ia.X.(*ssa.Slice)
		if !ok {
			// the table kept in a package-level variable: the slice literal the package initialiser stores into it
			// (and nothing else assigns it)
			if ld, isLoad := ia.X.(*ssa.UnOp); isLoad && ld.Op == token.MUL {
				if g, isGlobal := ld.X.(*ssa.Global); isGlobal {
					if init := g.Pkg.Func("init"); init != nil {
						stores := 0
						for _, m := range g.Pkg.Members {
							if f, ok := m.(*ssa.Function); ok {
								for _, ff := range withClosures(f) {
									for _, b := range ff.Blocks {
										for _, ins := range b.Instrs {
											if st, ok := ins.(*ssa.Store); ok && st.Addr == ssa.Value(g) {
												stores++
												if ff == init {
													sl, _ = st.Val.(*ssa.Slice)
												}
											}
										}
									}
								}
							}
						}
						if stores != 1 {
							sl = nil
						}
					}
				}
			}
			if sl == nil {
				return nil, false
			}
		}
		var out []*ssa.Function
		for _, e := range variadicArgs(sl) {
			fs, ok := t.funcSet(e)
			if !ok {
				return nil, false
			}
			out = append(out, fs...)
		}
		return out, true
	}
	return nil, false
}

// elems traces the elements of a slice value.
func (t *labelTracer) elems(v ssa.Value, depth int) []dirty {
	t.visited++
	if v == nil || t.onpath[v] {
		return nil
	}
	t.onpath[v] = true
	defer delete(t.onpath, v)
	in := "?"
	if ins, ok := v.(ssa.Instruction); ok && ins.Parent() != nil {
		in = fname(ins.Parent())
	}
	if depth > 12 {
		return []dirty{{in, "depth", "slice provenance deeper than 12 steps"}}
	}
	switch x := v.(type) {
	case *ssa.Const:
		return nil
	case *ssa.Slice:
		if a, ok := x.X.(*ssa.Alloc); ok {
			var out []dirty
			for _, e := range variadicArgs(x) {
				out = append(out, t.trace(e, depth+1)...)
			}
			_ = a
			return out
		}
		return t.elems(x.X, depth+1)
	case *ssa.Phi:
		var out []dirty
		for _, e := range x.Edges {
			out = append(out, t.elems(e, depth+1)...)
		}
		return out
	case *ssa.Call:
		if calleeName(x.Common()) == "builtin append" {
			out := t.elems(refArgs(x.Common())[0], depth+1)
			if len(x.Common().Args) > 1 {
				out = append(out, t.elems(refArgs(x.Common())[1], depth+1)...)
			}
			return out
		}
		if f := staticCallee(x.Common()); f != nil && len(f.Blocks) > 0 && inModule(f) {
			var out []dirty
			for _, rv := range returnValues(f, 0) {
				out = append(out, t.elems(rv, depth+1)...)
			}
			return out
		}
		return []dirty{{in, "slice", "slice returned by " + calleeName(x.Common())}}
	case *ssa.UnOp:
		if a, ok := x.X.(*ssa.Alloc); ok && x.Op == token.MUL {
			var out []dirty
			for _, s := range storesTo(a) {
				out = append(out, t.elems(s, depth+1)...)
			}
			return out
		}
	case *ssa.Parameter:
		fn := x.Parent()
		idx := -1
		for i, p := range fn.Params {
			if p == x {
				idx = i
			}
		}
		cs := t.callers[origin(fn)]
		if len(cs) == 0 {
			return []dirty{{fname(fn), "parameter", "slice parameter " + x.Name() + " with no resolvable caller"}}
		}
		var out []dirty
		for _, c := range cs {
			args := c.Common().Args
			off := len(args) - len(fn.Params)
			if idx+off >= 0 && idx+off < len(args) {
				out = append(out, t.elems(args[idx+off], depth+1)...)
			}
		}
		return out
	}
	return []dirty{{in, "slice", fmt.Sprintf("slice value %T %s", v, describe(v))}}
}

func c12r7(r *R) {
	t := newLabelTracer(r)
	n := 0
	for _, f := range r.modFuncs() {
		eachInstr(f, func(ins ssa.Instruction) {
			c, ok := ins.(ssa.CallInstruction)
			if !ok {
				return
			}
			cn := calleeName(c.Common())
			if !strings.Contains(cn, "prometheus.") || !(strings.HasSuffix(cn, "Vec).WithLabelValues") || strings.HasSuffix(cn, "Vec).GetMetricWithLabelValues")) {
				if strings.Contains(cn, "prometheus.") && (strings.HasSuffix(cn, "Vec).With") || strings.HasSuffix(cn, "Vec).GetMetricWith") || strings.HasSuffix(cn, "Vec).CurryWith") || strings.HasSuffix(cn, "Vec).MustCurryWith")) {
					n++
					r.bad(fname(f)+"#"+shortName(cn), c.Pos(), "labels passed as a prometheus.Labels map: the rule only follows positional label values; use WithLabelValues or extend the rule")
				}
				return
			}
			n++
			args := c.Common().Args
			lv := args[len(args)-1]
			ds := t.elems(lv, 0)
			var why []string
			var excused []string
			for _, d := range ds {
				if reason, ok := labelExceptions[d.key()]; ok {
					excused = append(excused, d.what+" - "+reason)
					continue
				}
				why = append(why, d.what+" (in "+d.fn+")")
			}
			why = dedupStrings(why)
			sort.Strings(why)
			key := fname(f) + "#" + shortName(cn)
			okMsg := "every label value is constant, rendered, the request method or passed through strings.ToValidUTF8"
			if len(excused) > 0 {
				okMsg += "; excepted: " + strings.Join(dedupStrings(excused), "; ")
			}
			r.check(len(why) == 0, key, c.Pos(), okMsg, "a label value can carry bytes that are not valid UTF-8, which panics inside prometheus and ends the process: "+strings.Join(why, "; "))
		})
	}
	// the exception for the custom labeler holds only while nothing in the module installs one
	wl := r.fn("middleware", "WithCustomLabeler")
	r.check(len(t.callers[origin(wl)]) == 0, "WithCustomLabeler#uninstalled", wl.Pos(), "no caller in the module installs a request labeler", "the module now installs a custom request labeler: its result reaches a label value and must pass strings.ToValidUTF8")
	_ = n
}
