package main

import (
	"fmt"
	"os"
	"os/exec"
	"path/filepath"
	"strings"
)

// Mutant is a small source edit applied through packages.Config.Overlay (the
// repository on disk is not touched). Each one breaks one rule instance while
// still type-checking; the self-test requires the named rule to report it.
type Mutant struct {
	Name     string
	Property string
	Expect   []string // rule names, any of which must report a violation; empty for a benign edit
	Edits    []Edit
	Note     string
	Benign   bool   // behaviour-preserving edit: no rule of the property may report anything
	Patch    string // a unified diff (kept seeded change or refactoring) instead of text edits
}

// Edit replaces the single occurrence of Old in File by New.
type Edit struct {
	File     string
	Old, New string
}

var mutants []*Mutant

func mutant(prop, name string, expect string, file, old, new string) *Mutant {
	m := &Mutant{Name: prop + "/" + name, Property: prop, Expect: strings.Split(expect, ","), Edits: []Edit{{file, old, new}}}
	mutants = append(mutants, m)
	return m
}

// benign registers a behaviour-preserving edit (a refactoring a maintainer
// might make): the self-test requires every rule of the property to stay silent.
func benign(prop, name, file, old, new string) *Mutant {
	m := &Mutant{Name: prop + "/benign-" + name, Property: prop, Edits: []Edit{{file, old, new}}, Benign: true}
	mutants = append(mutants, m)
	return m
}

func (m *Mutant) and(file, old, new string) *Mutant {
	m.Edits = append(m.Edits, Edit{file, old, new})
	return m
}

func findMutant(name string) *Mutant {
	for _, m := range mutants {
		if m.Name == name {
			return m
		}
	}
	return nil
}

func (m *Mutant) overlay(repo string) (map[string][]byte, error) {
	if m.Patch != "" {
		return patchOverlay(repo, m.Patch)
	}
	ov := map[string][]byte{}
	for _, e := range m.Edits {
		p := filepath.Join(repo, e.File)
		src, ok := ov[p]
		if !ok {
			b, err := os.ReadFile(p)
			if err != nil {
				return nil, err
			}
			src = b
		}
		s := string(src)
		if n := strings.Count(s, e.Old); n != 1 {
			return nil, fmt.Errorf("edit anchor occurs %d times in %s (need exactly 1): %q", n, e.File, firstLine(e.Old))
		}
		ov[p] = []byte(strings.Replace(s, e.Old, e.New, 1))
	}
	return ov, nil
}

func firstLine(s string) string {
	if i := strings.IndexByte(s, '\n'); i >= 0 {
		return s[:i] + "…"
	}
	return s
}

type selfTestResult struct {
	Summary  map[string]any
	Lines    []string
	Failures []string
}

// runSelfTest applies every mutant of prop (one child process each) and checks
// that the expected rule fires.
func runSelfTest(repo, known, prop string) *selfTestResult {
	var ms []*Mutant
	var argsets [][]string
	for _, m := range mutants {
		if m.Property == prop {
			ms = append(ms, m)
			argsets = append(argsets, []string{"-mutant", m.Name})
		}
	}
	st := &selfTestResult{Summary: map[string]any{}}
	outs := runChildren(repo, known, prop, "thorough", argsets)
	killed, skipped := 0, 0
	var detail []string
	for i, m := range ms {
		o := outs[i]
		switch {
		case strings.HasPrefix(o.Err, "inapplicable"):
			skipped++
			st.Lines = append(st.Lines, fmt.Sprintf("SELFTEST-SKIPPED %s: %s", m.Name, o.Err))
			detail = append(detail, m.Name+": skipped (anchor text no longer present)")
		case o.Err != "":
			st.Failures = append(st.Failures, fmt.Sprintf("SELFTEST-BROKEN %s: mutant could not be analysed: %s", m.Name, o.Err))
			st.Lines = append(st.Lines, st.Failures[len(st.Failures)-1])
		case m.Benign:
			if len(o.Result.Violations) == 0 {
				killed++
				st.Lines = append(st.Lines, fmt.Sprintf("SELFTEST-SILENT %s (behaviour-preserving edit, no report)", m.Name))
				detail = append(detail, m.Name+": silent, as required for a behaviour-preserving edit")
			} else {
				var got []string
				for _, v := range o.Result.Violations {
					got = append(got, v.Rule+" "+v.Construct)
				}
				st.Failures = append(st.Failures, fmt.Sprintf("SELFTEST-FALSE-ALARM %s: a behaviour-preserving edit is reported by %v", m.Name, got))
				st.Lines = append(st.Lines, st.Failures[len(st.Failures)-1])
			}
		default:
			hit := ""
			for _, v := range o.Result.Violations {
				for _, e := range m.Expect {
					if v.Rule == e || e == "*" {
						hit = v.Rule + " " + v.Construct
					}
				}
			}
			if hit == "" {
				var got []string
				for _, v := range o.Result.Violations {
					got = append(got, v.Rule)
				}
				st.Failures = append(st.Failures, fmt.Sprintf("SELFTEST-SURVIVOR %s: expected %v to report, got %v", m.Name, m.Expect, got))
				st.Lines = append(st.Lines, st.Failures[len(st.Failures)-1])
			} else {
				killed++
				st.Lines = append(st.Lines, fmt.Sprintf("SELFTEST-KILLED %s by %s", m.Name, hit))
				detail = append(detail, m.Name+": reported by "+hit)
			}
		}
	}
	st.Summary["mutants"] = len(ms)
	st.Summary["killed"] = killed
	st.Summary["skipped"] = skipped
	st.Summary["survivors"] = len(st.Failures)
	st.Summary["detail"] = detail
	return st
}

// patchOverlay applies a unified diff to copies of the files it names (the
// repository itself is not touched) and returns the patched contents as an
// overlay. A patch that no longer applies makes the case inapplicable.
func patchOverlay(repo, patchFile string) (map[string][]byte, error) {
	b, err := os.ReadFile(patchFile)
	if err != nil {
		return nil, err
	}
	var files []string
	for _, ln := range strings.Split(string(b), "\n") {
		if strings.HasPrefix(ln, "+++ b/") {
			files = append(files, strings.TrimSpace(strings.TrimPrefix(ln, "+++ b/")))
		}
		if strings.HasPrefix(ln, "--- a/") { // also the files a patch deletes
			f := strings.TrimSpace(strings.TrimPrefix(ln, "--- a/"))
			dup := false
			for _, x := range files {
				dup = dup || x == f
			}
			if !dup {
				files = append(files, f)
			}
		}
	}
	if len(files) == 0 {
		return nil, fmt.Errorf("no files in %s", patchFile)
	}
	tmp, err := os.MkdirTemp("", "fwdcheck-patch-")
	if err != nil {
		return nil, err
	}
	defer os.RemoveAll(tmp)
	for _, f := range files {
		src, err := os.ReadFile(filepath.Join(repo, f))
		if err != nil {
			if os.IsNotExist(err) {
				continue // a file the patch creates
			}
			return nil, err
		}
		dst := filepath.Join(tmp, f)
		if err := os.MkdirAll(filepath.Dir(dst), 0o755); err != nil {
			return nil, err
		}
		if err := os.WriteFile(dst, src, 0o644); err != nil {
			return nil, err
		}
	}
	cmd := exec.Command("patch", "-p1", "-s", "-f", "--no-backup-if-mismatch", "-d", tmp, "-i", patchFile)
	if out, err := cmd.CombinedOutput(); err != nil {
		return nil, fmt.Errorf("edit anchor: patch does not apply to the current tree: %s", firstLine(string(out)))
	}
	ov := map[string][]byte{}
	for _, f := range files {
		pb, err := os.ReadFile(filepath.Join(tmp, f))
		if err != nil {
			// deleted by the patch: an overlay cannot remove a file, so it becomes an empty file of its package
			orig, rerr := os.ReadFile(filepath.Join(repo, f))
			if rerr != nil {
				continue
			}
			pkg := ""
			for _, ln := range strings.Split(string(orig), "\n") {
				if strings.HasPrefix(ln, "package ") {
					pkg = strings.TrimSpace(ln)
					break
				}
			}
			if pkg == "" {
				continue
			}
			pb = []byte(pkg + "\n")
		}
		ov[filepath.Join(repo, f)] = pb
	}
	return ov, nil
}

// registerCorpora adds the kept seeded changes (must be reported) and the kept
// refactorings (must stay silent) of the corpus directory to the self-test.
func registerCorpora(base string) {
	for _, kind := range []string{"seeded", "refactorings"} {
		ents, err := os.ReadDir(filepath.Join(base, kind))
		if err != nil {
			continue
		}
		for _, e := range ents {
			if !e.IsDir() || len(e.Name()) < 5 || e.Name()[0] != 'C' {
				continue
			}
			prop := e.Name()[:3]
			pf := filepath.Join(base, kind, e.Name(), "patch.diff")
			if _, err := os.Stat(pf); err != nil {
				continue
			}
			m := &Mutant{Property: prop, Patch: pf}
			if kind == "seeded" {
				m.Name = prop + "/seed-" + e.Name()
				m.Expect = []string{"*"}
			} else {
				m.Name = prop + "/refactoring-" + e.Name()
				m.Benign = true
			}
			mutants = append(mutants, m)
		}
	}
}
