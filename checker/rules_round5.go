package main

import (
	"fmt"
	"go/token"
	"strings"

	"golang.org/x/tools/go/ssa"
)

// Rules written after the fifth seeding round.
func init() {
	register("C01", "R12", 1, "an Upgrade request is recognised whatever else Connection lists: upgradeType looks for the Upgrade option with a token-list search over every Connection field line (httpguts.HeaderValuesContainsToken(h[\"Connection\"], \"Upgrade\")), and returns the Upgrade field only then - Header.Get sees the first line only and an equality test a lone option, so `Connection: keep-alive, Upgrade` would lose its Upgrade header to the hop-by-hop strip", upgradeTokenSearch)
	register("C03", "R9", 1, "an upgrade tunnel is entered for every request that asks for it (same decision as C01.R12)", upgradeTokenSearch)
	register("C02", "R9", 6, "response header rules do what they say (the C16.R1 decision, claimed here for the response-header clause: `name: value` adds a line and keeps the origin's, `name;` leaves one empty value, `-name` removes)", c16r1)
	register("C03", "R10", 1, "each direction of a tunnel reports completion exactly once on every exit of copier.copy, and bicopy waits for as many reports as it started copies: an exit that skips the report leaves the handler blocked for ever with the client socket open", copierReports)
	register("C11", "R8", 1, "a tunnel that ends in a copy error still ends: every exit of copier.copy reports on the completion channel (same decision as C03.R10) - otherwise the handler never returns, the connection count never reaches zero and Shutdown cannot succeed", copierReports)
	register("C05", "R12", 1, "a CONNECT whose route cannot be determined is failed, not tunnelled: in Proxy.connect the error of the configured upstream selector is tested right after the call; on the error path that error is returned and nothing is dialled", connectRouteError)
	register("C06", "R9", 1, "one selector decides the route and who gets upstream credentials: at the end of configureProxy the function installed as the martian proxy's ProxyURL is the very value kept in HTTPProxy.proxyFunc (which the Kerberos injector and the PAC/credential code consult) - direct-domain and direct-localhost wrappers included", oneSelector)
	register("C05", "R9", 1, "the selector the transport routes by is the selector everything else consults (same decision as C06.R9)", oneSelector)
	register("C07", "R8", 1, "the configured CA is the CA that signs: loadCACertificate generates a CA only when neither a certificate nor a key file is configured; with either one set it loads the pair (and fails when the other is missing)", caChoice)
	register("C09", "R10", 1, "an announced SETTINGS_INITIAL_WINDOW_SIZE is always recorded: in updateInitialWindowSize the store into initialWindowSize is unconditional (streams opened later start from it, also when no stream exists yet or the value did not change)", initialWindowRecorded)
	register("C11", "R7", 1, "requests in flight survive the shutdown signal: the base context of proxied requests (martian.Proxy.BaseContext, http.Server.BaseContext of the handler front end) is never derived from a context parameter - the Run context is cancelled to request shutdown, and every exchange derived from it would be aborted at that moment", baseContextIndependent)
	register("C12", "R14", 1, "a relayed CONNECT rejection is a complete response: OnProxyConnectResponse sets ContentLength on the response it builds - 0 with no body, the number of bytes read with one (http.Response.Write frames by the field, not by the cloned header: without it the reply has no length and the connection is never closed)", connectRejectionFramed)
	register("C12", "R15", 1, "a connect time-out stays recognisable: the error Dialer.dialContext returns is the dial error itself (or wraps it with %w at the top), never a new net.OpError or other value built around it - OpError.Timeout() looks at its direct Err only, and a time-out would be answered 502 instead of 504", dialErrorKept)
	register("C14", "R9", 1, "isInNetEx decides membership with the standard library: the value it returns (other than false/null for unusable arguments) is net.IPNet.Contains of the parsed prefix and the parsed address; a hand-written prefix comparison is not decided here and is reported", inNetExByStdlib)
	register("C15", "R8", 2, "nothing but the handshake timeout limits a MITM handshake: handleConnectRequest hands handleMITM the request as it was read (no copy carrying another context), and the handshake context descends from that request's context", mitmParentContext)
	register("C15", "R9", 1, "stalled peers exhausting descriptors do not stop the accept loop: Serve backs off and retries on every error that reports Temporary() (EMFILE/ENFILE are temporary but not time-outs)", acceptRetriesTemporary)
	register("C16", "R10", 1, "connect-header rules reach the upstream proxy in the spelling they were given: DialContextR merges ProxyConnectHeader and the GetProxyConnectHeader result by raw map key (maps.Copy or map assignment), never through Header.Set/Add/Del with a computed name (those canonicalise the key and undo a %name rule)", connectHeaderSpelling)
	register("C17", "R5", 2, "the lists handed to the matcher are exactly the collected items: the include and exclude arguments of NewRegexpMatcher in NewRegexpMatcherFromList are built by the partition's appends alone - nothing replaces, truncates or filters them afterwards", listsOnlyCollected)
	register("C19", "R7", 1, "environment values never reach a message: what os.Environ/os.Getenv/os.LookupEnv return (other than the variable's name, and the value of a fixed variable outside the FORWARDER_ namespace) is not an argument of a logger or formatted output call, in any function it is handed to", envNotLogged)
	register("C19", "R8", 5, "a log line carries only what its own exchange and mode recorded: every structuredLogBuilder is a zero value local to one logging call - never taken from a pool, a package variable or a field (headers left by another exchange would be printed under a mode that never asked for them)", freshLogBuilder)
	register("C03", "R11", 2, "the grace period of a half-closed tunnel starts when the first direction finishes: gracefulCloseAfter waits on a timer it arms itself (time.After/NewTimer inside it, not one handed in by the caller), and bicopy creates no timer or deadline before the first completion report", graceStartsAtHalfClose)
	register("C03", "R12", 1, "the sockets a tunnel runs over carry no leftover deadline: a Set*Deadline armed by a dialer (package dialvia) on the connection it returns is cleared with the zero time on every successful return (the dial is bounded by its context; a deadline left behind cuts the tunnel off later)", dialerLeavesNoDeadline)
	register("C03", "R13", 1, "the two directions of a tunnel never share a buffer: the scratch buffer copier.copy hands to io.CopyBuffer is obtained inside copy itself (from the pool or freshly made), once per call - a buffer passed in or kept in a field would be written by both directions at once", ownCopyBuffer)
	register("C10", "R14", 2, "an announced SETTINGS_HEADER_TABLE_SIZE is always applied: in updateTableSize the decoder and the encoder are both given the new size unconditionally (a skipped update leaves the encoder referencing table entries the peer no longer keeps)", tableSizeApplied)
	register("C13", "R9", 2, "what Connect hands back is always released: in both handleConnectRequest variants every exit after the Connect call has closed the returned connection and response body unless they were tested to be nil - also when Connect returns them together with an error", connectResultsReleased)
	register("C20", "R6", 1, "limits reach every listener: MultiListener.Listen hands each Listener the element's ListenerConfig unchanged (ReadLimit and WriteLimit included), not a rebuilt copy", multiListenerConfigKept)
}

func upgradeTokenSearch(r *R) {
	fn := r.fn(mpkg, "upgradeType")
	ps, complete := enumPaths(fn, 64, 1)
	if !complete {
		r.undecided("upgradeType", fn.Pos(), "too many paths")
		return
	}
	const tok = `golang.org/x/net/http/httpguts.HeaderValuesContainsToken($0["Connection"], "Upgrade")`
	var why []string
	pos, neg := 0, 0
	for _, p := range ps {
		if len(p.Ret) != 1 {
			continue
		}
		switch {
		case p.Ret[0] == `""`:
			neg++
			if !p.holds("!" + tok) {
				why = append(why, "no upgrade is reported although the Connection field lines were not searched for the Upgrade option: ["+strings.Join(p.Conds, " ∧ ")+"]")
			}
		case p.Ret[0] == `(net/http.Header).Get($0, "Upgrade")`:
			pos++
			if !p.holds(tok) {
				why = append(why, "the Upgrade field is reported without a token search over all Connection lines: ["+strings.Join(p.Conds, " ∧ ")+"]")
			}
		default:
			why = append(why, "returns "+p.Ret[0])
		}
		for _, c := range p.Conds {
			if !strings.Contains(c, "HeaderValuesContainsToken(") {
				why = append(why, "decision also depends on "+shorten(c, 90))
			}
		}
	}
	r.check(pos > 0 && neg > 0 && len(why) == 0, "upgradeType", fn.Pos(), "Upgrade reported iff some Connection line lists the Upgrade option", strings.Join(dedupStrings(why), "; "))
}

func copierReports(r *R) {
	cp := r.method(mpkg, "copier", "copy")
	ps, complete := enumPaths(cp, 256, 1)
	if !complete {
		r.undecided("copier.copy#reports", cp.Pos(), "too many paths")
		return
	}
	var why []string
	n := 0
	for _, p := range ps {
		if len(p.Ret) == 1 && strings.HasPrefix(p.Ret[0], "<panic") {
			continue
		}
		n++
		sends := 0
		for _, e := range p.Events {
			if e.Kind == "send" && strings.HasPrefix(e.Desc, "$2 <- ") {
				sends++
			}
		}
		if sends != 1 {
			why = append(why, fmt.Sprintf("an exit reports %d times on the completion channel: [%s]", sends, strings.Join(p.Conds, " ∧ ")))
		}
	}
	r.check(n > 0 && len(why) == 0, "copier.copy#reports", cp.Pos(), fmt.Sprintf("%d exits, each reports once", n), strings.Join(dedupStrings(why), "; "))
}

func connectRouteError(r *R) {
	fn := r.method(mpkg, "Proxy", "connect")
	ps, _ := enumPaths(fn, 4096, 1)
	var why []string
	nErr, nCalls := 0, 0
	for _, p := range ps {
		ci := p.eventIndex(0, "call", prefix("dyn:$0.ProxyURL("))
		if ci < 0 {
			continue
		}
		nCalls++
		errT := p.Events[ci].Desc + "#1"
		failed, known := p.outcome("(" + errT + " != nil)")
		if !known {
			why = append(why, "the selector's error is never tested on a path that goes on: ["+shorten(strings.Join(p.Conds, " ∧ "), 160)+"]")
			continue
		}
		if !failed {
			continue
		}
		nErr++
		if len(p.Ret) != 3 || p.Ret[2] != errT {
			why = append(why, "on the selector's error path the function returns "+strings.Join(p.Ret, ", "))
		}
		for _, e := range p.Events[ci+1:] {
			if e.Kind == "call" && (strings.Contains(e.Desc, "DialContext") || strings.Contains(e.Desc, "dialvia.")) {
				why = append(why, "dials after the selector failed: "+shorten(e.Desc, 80))
			}
		}
	}
	r.check(nCalls > 0 && nErr > 0 && len(why) == 0, "Proxy.connect#selector-error", fn.Pos(), "selector error returned before any dial", strings.Join(dedupStrings(why), "; ")+map[bool]string{true: "no path calls the selector / tests its error", false: ""}[nCalls == 0 || nErr == 0])
}

func oneSelector(r *R) {
	fn := r.method(".", "HTTPProxy", "configureProxy")
	ps, _ := enumPaths(fn, 8192, 1)
	var why []string
	n := 0
	for _, p := range ps {
		if len(p.Ret) != 1 || p.Ret[0] != "nil" {
			continue
		}
		n++
		installed, found := "", false
		for k, v := range p.Mem {
			if strings.HasSuffix(k, ".ProxyURL") {
				installed, found = v, true
			}
		}
		kept := p.Mem["$0.proxyFunc"]
		if !found {
			installed = "nil"
		}
		if kept == "" {
			kept = "$0.proxyFunc" // never assigned on this path: whatever it held
		}
		if installed != kept {
			why = append(why, "the proxy routes by "+shorten(installed, 70)+" while proxyFunc is "+shorten(kept, 70))
		}
	}
	r.check(n > 0 && len(why) == 0, "configureProxy#selector", fn.Pos(), fmt.Sprintf("%d successful paths, ProxyURL == proxyFunc on each", n), strings.Join(dedupStrings(why), "; "))
}

func caChoice(r *R) {
	fn := r.method(".", "MITMConfig", "loadCACertificate")
	ps, complete := enumPaths(fn, 256, 1)
	if !complete {
		r.undecided("loadCACertificate", fn.Pos(), "too many paths")
		return
	}
	var why []string
	gen, load := 0, 0
	for _, p := range ps {
		noCert, k1 := p.outcome(`($0.CACertFile == "")`)
		noKey, k2 := p.outcome(`($0.CAKeyFile == "")`)
		generated := p.eventIndex(0, "call", func(s string) bool { return strings.Contains(s, ".Gen(") }) >= 0
		loaded := p.eventIndex(0, "call", eq("forwarder.loadX509KeyPair($0.CACertFile, $0.CAKeyFile)")) >= 0
		switch {
		case generated && !loaded:
			gen++
			if !(k1 && noCert && k2 && noKey) {
				why = append(why, "a CA is generated although a certificate or key file may be configured: ["+strings.Join(p.Conds, " ∧ ")+"]")
			}
		case loaded && !generated:
			load++
			if k1 && noCert && k2 && noKey {
				why = append(why, "the key pair is loaded although nothing is configured")
			}
		default:
			why = append(why, "a path neither generates nor loads (or does both): ["+strings.Join(p.Conds, " ∧ ")+"]")
		}
	}
	r.check(gen > 0 && load > 0 && len(why) == 0, "loadCACertificate#choice", fn.Pos(), "generate iff both file options are empty", strings.Join(dedupStrings(why), "; "))
}

func initialWindowRecorded(r *R) {
	fn := r.method(h2pkg, "relay", "updateInitialWindowSize")
	n := 0
	var why []string
	eachInstr(fn, func(ins ssa.Instruction) {
		st, ok := ins.(*ssa.Store)
		if !ok || describe(st.Addr) != "$0.initialWindowSize" {
			return
		}
		n++
		if describe(st.Val) != "$1" {
			why = append(why, "stores "+describe(st.Val))
		}
		if g := guardsUp(st); len(g) > 0 {
			why = append(why, "the new value is recorded only when "+strings.Join(g, " ∧ "))
		}
	})
	r.check(n == 1 && len(why) == 0, "updateInitialWindowSize#recorded", fn.Pos(), "initialWindowSize = v, unconditionally", strings.Join(why, "; ")+map[bool]string{true: fmt.Sprintf("%d stores into initialWindowSize", n), false: ""}[n != 1])
}

func baseContextIndependent(r *R) {
	n := 0
	for _, fn := range r.modFuncsAll() {
		for _, f := range append([]*ssa.Function{fn}, anonFuncs(fn)...) {
			eachInstr(f, func(ins ssa.Instruction) {
				st, ok := ins.(*ssa.Store)
				if !ok {
					return
				}
				fa, ok := st.Addr.(*ssa.FieldAddr)
				if !ok || fieldName(fa.X.Type(), fa.Field) != "BaseContext" {
					return
				}
				sn := structName(fa.X.Type())
				// the proxy's own servers only (the API server on a unix socket is not part of the property)
				if sn != "martian.Proxy" && !(sn == "net/http.Server" && strings.Contains(fname(fn), "forwarder.HTTPProxy")) {
					return
				}
				n++
				isCtxInput := func(v ssa.Value) bool {
					switch x := v.(type) {
					case *ssa.Parameter:
						return typeStr(x.Type()) == "context.Context"
					case *ssa.FreeVar:
						return strings.Contains(typeStr(x.Type()), "context.Context")
					}
					return false
				}
				vals := []ssa.Value{st.Val}
				// a function value (http.Server.BaseContext): what it returns, and what it captured
				if mc, ok := st.Val.(*ssa.MakeClosure); ok {
					if lit, ok := mc.Fn.(*ssa.Function); ok {
						vals = returnValues(lit, 0)
						for _, b := range mc.Bindings {
							if strings.Contains(typeStr(b.Type()), "context.Context") {
								vals = append(vals, b)
							}
						}
					}
				}
				tainted := false
				for _, v := range vals {
					if dependsOn(v, isCtxInput) {
						tainted = true
					}
				}
				key := fname(f) + "#BaseContext(" + sn + ")"
				r.check(!tainted, key, st.Pos(), "base context does not descend from a context parameter", "the base context of proxied requests descends from a context handed to "+fname(fn)+": cancelling that context (which is how shutdown is requested) aborts every exchange in flight")
			})
		}
	}
	if n == 0 {
		r.bad("BaseContext#stores", token.NoPos, "no store into a BaseContext field found (the default, context.Background, is set in Proxy.init)")
	}
}

func connectRejectionFramed(r *R) {
	fn := r.fn(mpkg, "OnProxyConnectResponse")
	ps, complete := enumPaths(fn, 256, 1)
	if !complete {
		r.undecided("OnProxyConnectResponse", fn.Pos(), "too many paths")
		return
	}
	var why []string
	n := 0
	for _, p := range ps {
		if len(p.Ret) != 1 || p.Ret[0] == "nil" {
			continue
		}
		n++
		res := p.Mem[p.Ret[0]+".res"]
		if !strings.HasPrefix(res, "martian/proxyutil.NewResponse(") {
			why = append(why, "the error does not carry a response built by proxyutil.NewResponse: "+shorten(res, 60))
			continue
		}
		cl, set := p.Mem[res+".ContentLength"]
		body := ""
		if a := splitArgs(res); len(a) == 3 {
			body = a[1]
		}
		switch {
		case !set:
			why = append(why, "ContentLength is not set on the relayed rejection (body "+shorten(body, 40)+")")
		case body == "net/http.NoBody":
			if cl != "0" {
				why = append(why, "no body but ContentLength "+cl)
			}
		case strings.HasPrefix(body, "bytes.NewReader("):
			if want := "builtin len(" + strings.TrimSuffix(strings.TrimPrefix(body, "bytes.NewReader("), ")") + ")"; cl != want {
				why = append(why, "body "+shorten(body, 50)+" but ContentLength "+shorten(cl, 50))
			}
		default:
			why = append(why, "unexpected body "+shorten(body, 60))
		}
	}
	r.check(n >= 2 && len(why) == 0, "OnProxyConnectResponse#framed", fn.Pos(), fmt.Sprintf("%d rejection paths, ContentLength matches the body on each", n), strings.Join(dedupStrings(why), "; "))
}

// splitArgs splits the argument list of a printed call "f(a, b, c)" at top-level commas.
func splitArgs(call string) []string {
	if !strings.HasSuffix(call, ")") {
		return nil
	}
	// the argument list is the parenthesis that closes at the end ("(*T).m(a, b)": not the receiver's)
	i, depth := -1, 0
	for k := len(call) - 1; k >= 0; k-- {
		switch call[k] {
		case ')':
			depth++
		case '(':
			depth--
			if depth == 0 {
				i = k
			}
		}
		if i >= 0 {
			break
		}
	}
	if i < 0 {
		return nil
	}
	s := call[i+1 : len(call)-1]
	var out []string
	depth, start := 0, 0
	for k := 0; k < len(s); k++ {
		switch s[k] {
		case '(', '[', '{':
			depth++
		case ')', ']', '}':
			depth--
		case '"':
			for k++; k < len(s) && s[k] != '"'; k++ {
				if s[k] == '\\' {
					k++
				}
			}
		case ',':
			if depth == 0 {
				out = append(out, strings.TrimSpace(s[start:k]))
				start = k + 1
			}
		}
	}
	return append(out, strings.TrimSpace(s[start:]))
}

func dialErrorKept(r *R) {
	fn := r.method(".", "Dialer", "dialContext")
	var why []string
	n := 0
	seen := map[ssa.Value]bool{}
	var ok func(v ssa.Value) bool
	ok = func(v ssa.Value) bool {
		if seen[v] {
			return true
		}
		seen[v] = true
		switch x := v.(type) {
		case *ssa.Const:
			return x.IsNil()
		case *ssa.Phi:
			for _, e := range x.Edges {
				if !ok(e) {
					return false
				}
			}
			return true
		case *ssa.Extract:
			c, isCall := x.Tuple.(*ssa.Call)
			if !isCall {
				return false
			}
			// the dial itself: a call through a func value (d.nd.DialContext or the testing hook) returning (net.Conn, error)
			return x.Index == 1 && staticCallee(c.Common()) == nil && strings.HasSuffix(typeStr(c.Type()), "error)")
		case *ssa.Call:
			if calleeName(x.Common()) == "fmt.Errorf" {
				if f, isC := x.Common().Args[0].(*ssa.Const); isC && strings.Contains(f.Value.ExactString(), "%w") {
					for _, a := range variadicArgs(x.Common().Args[1]) {
						if u := unbox(a); u != nil && typeStr(u.Type()) == "error" && ok(u) {
							return true
						}
					}
				}
			}
			return false
		case *ssa.UnOp:
			if a, isA := x.X.(*ssa.Alloc); isA && x.Op == token.MUL {
				for _, s := range storesTo(a) {
					if !ok(s) {
						return false
					}
				}
				return true
			}
		}
		return false
	}
	for _, v := range returnValues(fn, 1) {
		n++
		if !ok(v) {
			why = append(why, "returns "+shorten(describe(v), 100)+", which is not the dial error itself")
		}
	}
	r.check(n > 0 && len(why) == 0, "Dialer.dialContext#error", fn.Pos(), "the last dial error is returned as it is", strings.Join(dedupStrings(why), "; "))
}

func inNetExByStdlib(r *R) {
	fn := r.method("pac", "ProxyResolver", "isInNetEx")
	ps, complete := enumPaths(fn, 256, 1)
	if !complete {
		r.undecided("pac.isInNetEx", fn.Pos(), "too many paths")
		return
	}
	const arg0 = "pac.asString((github.com/dop251/goja.FunctionCall).Argument($1, 0))#0"
	const arg1 = "pac.asString((github.com/dop251/goja.FunctionCall).Argument($1, 1))#0"
	want := "(*github.com/dop251/goja.Runtime).ToValue($0.vm, (*net.IPNet).Contains(net.ParseCIDR(" + arg1 + ")#1, net.ParseIP(" + arg0 + ")))"
	var why []string
	n := 0
	for _, p := range ps {
		if len(p.Ret) != 1 {
			continue
		}
		switch p.Ret[0] {
		case "(*github.com/dop251/goja.Runtime).ToValue($0.vm, false)", "github.com/dop251/goja.Null()":
			continue
		case want:
			n++
			if !p.holds("!(net.ParseCIDR("+arg1+")#2 != nil)") || !p.holds("(net.ParseIP("+arg0+") != nil)") {
				why = append(why, "membership is computed from an address or prefix that did not parse")
			}
		default:
			why = append(why, "a path answers "+shorten(p.Ret[0], 110)+": not the standard library's prefix test of the two arguments, so not decided here")
		}
	}
	if len(why) > 0 {
		r.undecided("pac.isInNetEx#membership", fn.Pos(), strings.Join(dedupStrings(why), "; "))
		return
	}
	r.check(n > 0, "pac.isInNetEx#membership", fn.Pos(), "net.IPNet.Contains(prefix of argument 2, address of argument 1)", "no path answers with the prefix test")
}

func mitmParentContext(r *R) {
	hc := r.method(mpkg, "proxyConn", "handleConnectRequest")
	hm := r.method(mpkg, "proxyConn", "handleMITM")
	n := 0
	for _, c := range callsToFunc(hc, hm) {
		n++
		arg := describe(refArgs(c.Common())[1])
		r.check(arg == "$1", "handleConnectRequest#handleMITM.request", c.Pos(), "the request as read", "handleMITM is given "+shorten(arg, 80)+" instead of the request as it was read: whatever context that copy carries limits the handshake besides the handshake timeout")
	}
	if n == 0 {
		r.bad("handleConnectRequest#handleMITM", hc.Pos(), "handleMITM is not called from handleConnectRequest")
	}
	// the handshake context descends from the request's own context, through WithTimeout(…, handshake timeout) at most
	found := false
	eachInstr(hm, func(ins ssa.Instruction) {
		c, ok := ins.(*ssa.Call)
		if !ok || !strings.HasSuffix(calleeName(c.Common()), ".HandshakeContext") {
			return
		}
		found = true
		var roots []string
		bad := false
		ctxRoots(c.Common().Args[len(c.Common().Args)-1], nil, &roots, &bad, 0)
		okRoot := false
		for _, rt := range roots {
			if rt == "(*net/http.Request).Context($1)" {
				okRoot = true
			}
		}
		r.check(okRoot && !bad, "handleMITM#handshake-parent", c.Pos(), "handshake context descends from the request's context", "the MITM handshake context descends from "+strings.Join(dedupStrings(roots), ", "))
	})
	if !found {
		r.bad("handleMITM#handshake", hm.Pos(), "no HandshakeContext call found")
	}
}

// ctxRoots walks the provenance of a context value: through phis, tuple extracts, WithTimeout(parent, handshake
// timeout) and helpers new with respect to the reference tree (their results, with parameters bound to the
// arguments of the call), down to the Request.Context() calls it descends from. Anything else sets bad.
func ctxRoots(v ssa.Value, bind map[*ssa.Parameter]ssa.Value, roots *[]string, bad *bool, depth int) {
	if v == nil || depth > 12 {
		return
	}
	switch x := v.(type) {
	case *ssa.Phi:
		for _, e := range x.Edges {
			ctxRoots(e, bind, roots, bad, depth+1)
		}
	case *ssa.Extract:
		if c, ok := x.Tuple.(*ssa.Call); ok {
			if g := staticCallee(c.Common()); g != nil && isNewHelper(g) {
				nb := map[*ssa.Parameter]ssa.Value{}
				for i, a := range c.Common().Args {
					if i < len(g.Params) {
						nb[g.Params[i]] = a
					}
				}
				for _, rv := range returnValues(g, x.Index) {
					ctxRootsIn(rv, nb, bind, roots, bad, depth+1)
				}
				return
			}
		}
		ctxRoots(x.Tuple, bind, roots, bad, depth+1)
	case *ssa.Parameter:
		if a, ok := bind[x]; ok {
			ctxRoots(a, nil, roots, bad, depth+1)
			return
		}
		if a, ok := resolveParam(x); ok {
			ctxRoots(a, nil, roots, bad, depth+1)
			return
		}
		*roots = append(*roots, describe(x))
		*bad = true
	case *ssa.Call:
		switch calleeName(x.Common()) {
		case "(*net/http.Request).Context":
			*roots = append(*roots, describe(x))
		case "context.WithTimeout":
			d := x.Common().Args[1]
			if p, ok := d.(*ssa.Parameter); ok {
				if a, ok := bind[p]; ok {
					d = a
				}
			}
			if ds := describe(d); !strings.HasSuffix(ds, ".MITMTLSHandshakeTimeout") {
				*bad = true
				*roots = append(*roots, "WithTimeout("+shorten(ds, 40)+")")
			}
			ctxRoots(x.Common().Args[0], bind, roots, bad, depth+1)
		default:
			if g := staticCallee(x.Common()); g != nil && isNewHelper(g) && g.Signature.Results().Len() == 1 {
				nb := map[*ssa.Parameter]ssa.Value{}
				for i, a := range x.Common().Args {
					if i < len(g.Params) {
						nb[g.Params[i]] = a
					}
				}
				for _, rv := range returnValues(g, 0) {
					ctxRootsIn(rv, nb, bind, roots, bad, depth+1)
				}
				return
			}
			*bad = true
			*roots = append(*roots, shorten(describe(x), 60))
		}
	case *ssa.MakeInterface:
		ctxRoots(x.X, bind, roots, bad, depth+1)
	case *ssa.ChangeInterface:
		ctxRoots(x.X, bind, roots, bad, depth+1)
	case *ssa.UnOp:
		if a, ok := x.X.(*ssa.Alloc); ok && x.Op == token.MUL {
			for _, s := range storesTo(a) {
				ctxRoots(s, bind, roots, bad, depth+1)
			}
			return
		}
		*bad = true
		*roots = append(*roots, shorten(describe(x), 60))
	default:
		*bad = true
		*roots = append(*roots, shorten(describe(v), 60))
	}
}

// ctxRootsIn walks a value inside a helper whose parameters are bound by inner; arguments are then read in the
// caller's bindings (outer).
func ctxRootsIn(v ssa.Value, inner, outer map[*ssa.Parameter]ssa.Value, roots *[]string, bad *bool, depth int) {
	// compose: a parameter of the helper is the caller's argument, itself possibly a parameter bound by outer
	comp := map[*ssa.Parameter]ssa.Value{}
	for p, a := range inner {
		if ap, ok := a.(*ssa.Parameter); ok {
			if b, ok := outer[ap]; ok {
				a = b
			}
		}
		comp[p] = a
	}
	ctxRoots(v, comp, roots, bad, depth)
}

func acceptRetriesTemporary(r *R) {
	fn := r.method(mpkg, "Proxy", "Serve")
	n := 0
	eachInstr(fn, func(ins ssa.Instruction) {
		c, ok := ins.(*ssa.Call)
		if !ok || calleeName(c.Common()) != "time.Sleep" {
			return
		}
		n++
		temp := false
		var others []string
		for _, g := range guardsUp(c) {
			if strings.Contains(g, "net.Error.Temporary(") && !strings.HasPrefix(g, "!") {
				temp = true
			} else if strings.Contains(g, "net.Error.") {
				others = append(others, g)
			}
		}
		r.check(temp && len(others) == 0, "Proxy.Serve#backoff", c.Pos(), "retries when the accept error is Temporary()", "the accept loop backs off and retries only when "+strings.Join(guardsUp(c), " ∧ ")+": a temporary error that is not covered (EMFILE under a crowd of stalled peers) ends Serve and closes the listener")
	})
	if n == 0 {
		r.bad("Proxy.Serve#backoff", fn.Pos(), "the accept loop never backs off: an accept error ends Serve")
	}
}

func connectHeaderSpelling(r *R) {
	fn := r.method("dialvia", "HTTPProxyDialer", "DialContextR")
	var why []string
	merges := 0
	eachInstr(fn, func(ins ssa.Instruction) {
		switch x := ins.(type) {
		case *ssa.Call:
			cn := calleeName(x.Common())
			if strings.HasPrefix(cn, "maps.Copy") {
				merges++
				return
			}
			if cn == "(net/http.Header).Set" || cn == "(net/http.Header).Add" || cn == "(net/http.Header).Del" {
				if _, isConst := x.Common().Args[1].(*ssa.Const); !isConst {
					why = append(why, fmt.Sprintf("%s with the computed name %s at %s: the key is canonicalised", cn[len("(net/http.Header)."):], shorten(describe(x.Common().Args[1]), 40), r.rel(x.Pos())))
				}
			}
		case *ssa.MapUpdate:
			if typeStr(x.Map.Type()) == "net/http.Header" {
				merges++
			}
		}
	})
	r.check(merges > 0 && len(why) == 0, "DialContextR#connect-headers", fn.Pos(), fmt.Sprintf("%d raw-key merges, no canonicalising write with a computed name", merges), strings.Join(dedupStrings(why), "; ")+map[bool]string{true: "the configured CONNECT headers are not merged into the request", false: ""}[merges == 0])
}

func listsOnlyCollected(r *R) {
	fl := r.fn("ruleset", "NewRegexpMatcherFromList")
	cs := callsToFunc(fl, r.fn("ruleset", "NewRegexpMatcher"))
	if len(cs) != 1 {
		r.undecided("NewRegexpMatcherFromList#NewRegexpMatcher", fl.Pos(), "expected exactly one call of NewRegexpMatcher")
		return
	}
	for i, want := range []string{"include", "exclude"} {
		seen := map[ssa.Value]bool{}
		var other []string
		var walk func(v ssa.Value)
		walk = func(v ssa.Value) {
			if v == nil || seen[v] {
				return
			}
			seen[v] = true
			switch x := v.(type) {
			case *ssa.Const:
				if !x.IsNil() {
					other = append(other, describe(x))
				}
			case *ssa.Phi:
				for _, e := range x.Edges {
					walk(e)
				}
			case *ssa.Parameter:
				if a, ok := resolveParam(x); ok {
					walk(a)
					return
				}
				other = append(other, describe(x))
			case *ssa.Extract:
				if hc, ok := x.Tuple.(*ssa.Call); ok {
					if g := staticCallee(hc.Common()); g != nil && isNewHelper(g) {
						for _, rv := range returnValues(g, x.Index) {
							walk(rv)
						}
						return
					}
				}
				other = append(other, shorten(describe(x), 70))
			case *ssa.Call:
				if calleeName(x.Common()) == "builtin append" {
					walk(x.Common().Args[0])
					return
				}
				other = append(other, shorten(describe(x), 70))
			case *ssa.UnOp:
				if x.Op == token.MUL {
					if a, ok := x.X.(*ssa.Alloc); ok {
						for _, s := range storesTo(a) {
							walk(s)
						}
						return
					}
					if fa, ok := x.X.(*ssa.FieldAddr); ok {
						if a, ok := fa.X.(*ssa.Alloc); ok {
							for _, s := range fieldStoresOf(a, fa.Field, 0) {
								walk(s)
							}
							return
						}
						if p, ok := fa.X.(*ssa.Parameter); ok && isNewHelper(p.Parent()) {
							if a, ok := resolveParam(p); ok {
								if al, ok := a.(*ssa.Alloc); ok {
									for _, s := range fieldStoresOf(al, fa.Field, 0) {
										walk(s)
									}
									return
								}
							}
						}
					}
				}
				other = append(other, shorten(describe(x), 70))
			default:
				other = append(other, shorten(describe(v), 70))
			}
		}
		walk(refArgs(cs[0].Common())[i])
		r.check(len(other) == 0, "NewRegexpMatcherFromList#"+want+"-only-collected", cs[0].Pos(), "built by the partition's appends alone", "the "+want+" list handed to the matcher can also be "+strings.Join(dedupStrings(other), ", ")+": rules collected for it are replaced or dropped")
	}
}

func envNotLogged(r *R) {
	isEnvSource := func(v ssa.Value) bool {
		c, ok := v.(*ssa.Call)
		if !ok {
			return false
		}
		switch calleeName(c.Common()) {
		case "os.Environ", "os.ExpandEnv":
			return true
		case "os.Getenv", "os.LookupEnv":
			if k, ok := c.Common().Args[0].(*ssa.Const); ok {
				name := strings.Trim(k.Value.ExactString(), `"`)
				return strings.HasPrefix(name, "FORWARDER_")
			}
			return true
		}
		return false
	}
	// the name part of NAME=value is not a secret
	isNamePart := func(v ssa.Value) bool {
		if ex, ok := v.(*ssa.Extract); ok && ex.Index == 0 {
			if c, ok := ex.Tuple.(*ssa.Call); ok && calleeName(c.Common()) == "strings.Cut" {
				return true
			}
		}
		return false
	}
	sinks, sources := 0, 0
	for _, fn := range r.modFuncsAll() {
		nm := fname(fn)
		if strings.HasPrefix(nm, "e2e/") || strings.HasPrefix(nm, "utils/compose") || strings.Contains(nm, "/testing.") {
			continue
		}
		for _, f := range append([]*ssa.Function{fn}, anonFuncs(fn)...) {
			eachInstr(f, func(ins ssa.Instruction) {
				c, ok := ins.(*ssa.Call)
				if !ok {
					return
				}
				if isEnvSource(c) {
					sources++
				}
				if !isDiagnosticSink(c.Common()) {
					return
				}
				sinks++
				for _, a := range callArgs(c.Common()) {
					for _, v := range append(variadicArgs(a), a) {
						if v == nil {
							continue
						}
						tainted := dependsOnExcept(v, isEnvSource, isNamePart)
						if tainted {
							r.bad(fname(f)+"#env-to-message("+shorten(calleeName(c.Common()), 50)+")", c.Pos(), "an environment value ("+shorten(describe(v), 80)+") is handed to a message: FORWARDER_* variables carry credentials and inline keys")
							return
						}
					}
				}
			})
		}
	}
	r.check(sinks > 50, "env-to-message#census", token.NoPos, fmt.Sprintf("%d message calls examined, %d environment reads in production code, none flows into a message", sinks, sources), fmt.Sprintf("only %d message calls recognised", sinks))
}

// isDiagnosticSink: loggers, formatted printing, error construction with formatting.
func isDiagnosticSink(c *ssa.CallCommon) bool {
	n := calleeName(c)
	switch {
	case strings.HasPrefix(n, "fmt.Print"), strings.HasPrefix(n, "fmt.Fprint"), strings.HasPrefix(n, "fmt.Sprint"), n == "fmt.Errorf":
		return true
	case strings.HasPrefix(n, "(*log/slog.Logger)."), strings.HasPrefix(n, "log/slog."), strings.HasPrefix(n, "(*log.Logger)."), strings.HasPrefix(n, "log.Print"), strings.HasPrefix(n, "log.Fatal"):
		return true
	case strings.HasPrefix(n, "martian/log."), strings.HasPrefix(n, "invoke log.Logger."), strings.HasPrefix(n, "invoke forwarder/log.Logger."), strings.Contains(n, "log.Logger.") && strings.HasPrefix(n, "invoke "):
		return true
	case strings.HasPrefix(n, "(*log/slog.Logger)"):
		return true
	}
	return false
}

// dependsOnExcept is dependsOn that does not look behind values satisfying clean.
func dependsOnExcept(v ssa.Value, pred, clean func(ssa.Value) bool) bool {
	return dependsOn(v, func(x ssa.Value) bool {
		return !clean(x) && pred(x)
	}) && !onlyThroughClean(v, pred, clean)
}

// onlyThroughClean: every way from v back to a source passes a clean value (so nothing tainted arrives).
func onlyThroughClean(v ssa.Value, pred, clean func(ssa.Value) bool) bool {
	seen := map[ssa.Value]bool{}
	var dirty func(x ssa.Value, depth int) bool
	dirty = func(x ssa.Value, depth int) bool {
		if x == nil || seen[x] || depth > 40 {
			return false
		}
		seen[x] = true
		if clean(x) {
			return false
		}
		if pred(x) {
			return true
		}
		switch y := x.(type) {
		case *ssa.Alloc:
			for _, s := range storesTo(y) {
				if dirty(s, depth+1) {
					return true
				}
			}
			for _, ref := range *y.Referrers() {
				switch ia := ref.(type) {
				case *ssa.IndexAddr:
					for _, rr := range *ia.Referrers() {
						if st, ok := rr.(*ssa.Store); ok && dirty(st.Val, depth+1) {
							return true
						}
					}
				case *ssa.FieldAddr:
					for _, rr := range *ia.Referrers() {
						if st, ok := rr.(*ssa.Store); ok && dirty(st.Val, depth+1) {
							return true
						}
					}
				}
			}
			return false
		case *ssa.Parameter:
			if a, ok := resolveParam(y); ok {
				return dirty(a, depth+1)
			}
			return false
		case *ssa.Call:
			if g := staticCallee(y.Common()); g != nil && isNewHelper(g) {
				for _, rv := range returnValues(g, 0) {
					if dirty(rv, depth+1) {
						return true
					}
				}
			}
			for _, a := range y.Common().Args {
				if dirty(a, depth+1) {
					return true
				}
			}
			return false
		case *ssa.Extract:
			return dirty(y.Tuple, depth+1)
		}
		if ins, ok := x.(ssa.Instruction); ok {
			for _, op := range ins.Operands(nil) {
				if *op != nil && dirty(*op, depth+1) {
					return true
				}
			}
		}
		return false
	}
	return !dirty(v, 0)
}

func freshLogBuilder(r *R) {
	n := 0
	for _, fn := range r.modFuncsAll() {
		if !strings.Contains(fname(fn), "httplog.") {
			continue
		}
		for _, f := range append([]*ssa.Function{fn}, anonFuncs(fn)...) {
			if strings.HasPrefix(fname(f), "(*httplog.structuredLogBuilder).") {
				continue // the builder's own methods work on the builder they are given
			}
			eachInstr(f, func(ins ssa.Instruction) {
				c, ok := ins.(ssa.CallInstruction)
				if !ok {
					return
				}
				g := staticCallee(c.Common())
				if g == nil || g.Signature.Recv() == nil || !strings.HasSuffix(typeStr(g.Signature.Recv().Type()), "httplog.structuredLogBuilder") {
					return
				}
				n++
				recv := c.Common().Args[0]
				_, isLocal := recv.(*ssa.Alloc)
				d := describe(recv)
				r.check(isLocal && strings.HasPrefix(d, "local:"), fname(f)+"#builder("+g.Name()+")", c.Pos(), "builder is a local zero value", "the log builder is "+shorten(d, 70)+", not a fresh local: what an earlier exchange recorded in it is printed again")
			})
		}
	}
	if n == 0 {
		r.bad("httplog#builders", token.NoPos, "no use of structuredLogBuilder found")
	}
}

func multiListenerConfigKept(r *R) {
	fn := r.method(".", "MultiListener", "Listen")
	n := 0
	eachInstr(fn, func(ins ssa.Instruction) {
		st, ok := ins.(*ssa.Store)
		if !ok {
			return
		}
		fa, ok := st.Addr.(*ssa.FieldAddr)
		if !ok || structName(fa.X.Type()) != "forwarder.Listener" || fieldName(fa.X.Type(), fa.Field) != "ListenerConfig" {
			return
		}
		n++
		d := describe(st.Val)
		// the element itself, or the range variable that holds a copy of it
		elem := func(t string) bool {
			return (strings.Contains(t, ".ListenerConfigs[") || strings.HasPrefix(t, "next(range(")) && strings.Contains(t, ".ListenerConfigs") && !strings.Contains(t, "forwarder.")
		}
		good := strings.HasSuffix(d, ".ListenerConfig") && elem(strings.TrimSuffix(d, ".ListenerConfig"))
		if ld, ok := st.Val.(*ssa.UnOp); ok && !good {
			if fa, ok := ld.X.(*ssa.FieldAddr); ok {
				if a, ok := fa.X.(*ssa.Alloc); ok && fieldName(fa.X.Type(), fa.Field) == "ListenerConfig" {
					if ws := wholeStore(a); ws != nil {
						good = elem(describe(ws))
					}
				}
			}
		}
		r.check(good, "MultiListener.Listen#config", st.Pos(), "the element's ListenerConfig, unchanged", "the listener is configured with "+shorten(d, 90)+", not with the element's own ListenerConfig: fields the rebuild does not copy (the limits) are lost")
	})
	if n == 0 {
		r.bad("MultiListener.Listen#config", fn.Pos(), "no Listener is given its ListenerConfig")
	}
}

func graceStartsAtHalfClose(r *R) {
	gc := r.fn(mpkg, "gracefulCloseAfter")
	n := 0
	var why []string
	eachInstr(gc, func(ins ssa.Instruction) {
		sel, ok := ins.(*ssa.Select)
		if !ok {
			return
		}
		for _, st := range sel.States {
			d := describe(st.Chan)
			if strings.Contains(d, ".Done(") {
				continue
			}
			n++
			armedHere := false
			backward(st.Chan, func(v ssa.Value) bool {
				if c, ok := v.(*ssa.Call); ok {
					switch calleeName(c.Common()) {
					case "time.After", "time.NewTimer", "time.Tick":
						if c.Parent() == gc || isNewHelper(c.Parent()) {
							armedHere = true
						}
					}
				}
				return false
			})
			if !armedHere {
				why = append(why, "the grace timer is "+shorten(d, 60)+", armed before gracefulCloseAfter was started: the period does not start at the half-close")
			}
		}
	})
	r.check(n > 0 && len(why) == 0, "gracefulCloseAfter#timer", gc.Pos(), "waits on a timer armed inside", strings.Join(why, "; ")+map[bool]string{true: "no timer is waited for", false: ""}[n == 0])
	bc := r.fn(mpkg, "bicopy")
	var early []string
	var firstRecv ssa.Instruction
	eachInstr(bc, func(ins ssa.Instruction) {
		if u, ok := ins.(*ssa.UnOp); ok && u.Op == token.ARROW && firstRecv == nil {
			firstRecv = u
		}
	})
	eachInstr(bc, func(ins ssa.Instruction) {
		c, ok := ins.(*ssa.Call)
		if !ok {
			return
		}
		switch calleeName(c.Common()) {
		case "time.After", "time.NewTimer", "time.AfterFunc", "time.Tick", "context.WithTimeout", "context.WithDeadline":
			if firstRecv == nil || !instrDominates(firstRecv, c) {
				early = append(early, calleeName(c.Common())+" at "+r.rel(c.Pos()))
			}
		}
	})
	r.check(firstRecv != nil && len(early) == 0, "bicopy#no-early-timer", bc.Pos(), "no timer before the first completion report", "bicopy arms "+strings.Join(early, ", ")+" before any direction has finished")
}

func dialerLeavesNoDeadline(r *R) {
	total, inDialers := 0, 0
	var why []string
	for _, fn := range r.modFuncsAll() {
		eachInstr(fn, func(ins ssa.Instruction) {
			if c, ok := ins.(ssa.CallInstruction); ok {
				switch methodName(c.Common()) {
				case "SetDeadline", "SetReadDeadline", "SetWriteDeadline":
					total++
				}
			}
		})
		nm := fname(fn)
		if !strings.Contains(nm, "dialvia.") {
			continue
		}
		has := false
		eachInstr(fn, func(ins ssa.Instruction) {
			if c, ok := ins.(ssa.CallInstruction); ok {
				switch methodName(c.Common()) {
				case "SetDeadline", "SetReadDeadline", "SetWriteDeadline":
					has = true
				}
			}
		})
		if !has {
			continue
		}
		inDialers++
		ps, complete := enumPaths(fn, 4096, 1)
		if !complete {
			why = append(why, nm+": too many paths to follow the deadline")
			continue
		}
		for _, p := range ps {
			if len(p.Ret) == 0 || p.Ret[len(p.Ret)-1] != "nil" {
				continue // failed dial: the connection is closed, not returned
			}
			armed := map[string]string{} // method -> last argument
			for _, e := range p.Events {
				c, ok := e.Instr.(ssa.CallInstruction)
				if !ok || e.Kind != "call" {
					continue
				}
				m := methodName(c.Common())
				if m != "SetDeadline" && m != "SetReadDeadline" && m != "SetWriteDeadline" {
					continue
				}
				av := c.Common().Args[len(c.Common().Args)-1]
				k, isConst := av.(*ssa.Const)
				zero := isConst && k.Value == nil
				if zero {
					if m == "SetDeadline" {
						armed = map[string]string{}
					} else {
						delete(armed, m)
					}
				} else {
					armed[m] = describe(av)
				}
			}
			for m, a := range armed {
				why = append(why, fmt.Sprintf("%s returns a connection with %s(%s) still armed", nm, m, shorten(a, 50)))
			}
		}
	}
	r.check(total > 0 && len(why) == 0, "dialvia#deadlines", token.NoPos, fmt.Sprintf("%d deadline calls in the module, %d dialer functions arm one, none is left on a returned connection", total, inDialers), strings.Join(dedupStrings(why), "; "))
}

func tableSizeApplied(r *R) {
	fn := r.method(h2pkg, "relay", "updateTableSize")
	seen := map[string]bool{}
	eachInstr(fn, func(ins ssa.Instruction) {
		c, ok := ins.(*ssa.Call)
		if !ok {
			return
		}
		cn := calleeName(c.Common())
		var which string
		switch cn {
		case "(*golang.org/x/net/http2/hpack.Decoder).SetMaxDynamicTableSize":
			which = "decoder"
		case "(*golang.org/x/net/http2/hpack.Encoder).SetMaxDynamicTableSize":
			which = "encoder"
		default:
			return
		}
		seen[which] = true
		g := guardsUp(c)
		arg := describe(c.Common().Args[1])
		r.check(len(g) == 0 && arg == "$1", "updateTableSize#"+which, c.Pos(), which+" table size = v, unconditionally", fmt.Sprintf("the %s is given %s only when [%s]", which, arg, strings.Join(g, " ∧ ")))
	})
	for _, w := range []string{"decoder", "encoder"} {
		if !seen[w] {
			r.bad("updateTableSize#"+w, fn.Pos(), "the "+w+"'s dynamic table size is never updated")
		}
	}
}

func connectResultsReleased(r *R) {
	for _, recv := range []string{"proxyConn", "proxyHandler"} {
		fn := r.method(mpkg, recv, "handleConnectRequest")
		ps, complete := enumPaths(fn, 4096, 1)
		if !complete {
			r.undecided(recv+".handleConnectRequest#release", fn.Pos(), "too many paths")
			continue
		}
		var why []string
		n := 0
		for _, p := range ps {
			ci := p.eventIndex(0, "call", prefix("(*martian.Proxy).Connect("))
			if ci < 0 {
				continue
			}
			n++
			t := p.Events[ci].Desc
			conn, res := t+"#1", t+"#0"
			panics := len(p.Ret) == 1 && strings.HasPrefix(p.Ret[0], "<panic")
			closed := func(what string) bool {
				isClose := func(s string) bool { return strings.HasSuffix(s, ".Close("+what+")") }
				if panics && p.eventIndex(ci, "defer", isClose) >= 0 {
					return true // deferred calls run while the panic unwinds
				}
				return p.eventIndex(ci, "call", isClose) >= 0
			}
			if nilConn, known := p.outcome("(" + conn + " != nil)"); !(known && !nilConn) && !closed(conn) {
				why = append(why, "an exit leaves the connection returned by Connect open (it is neither known to be nil nor closed): ["+shorten(strings.Join(p.Conds[len(p.Conds)-min(len(p.Conds), 2):], " ∧ "), 200)+"]")
			}
			if nilRes, known := p.outcome("(" + res + " != nil)"); !(known && !nilRes) && !closed(res+".Body") {
				why = append(why, "an exit leaves the body of the response returned by Connect open: ["+shorten(strings.Join(p.Conds[len(p.Conds)-min(len(p.Conds), 2):], " ∧ "), 200)+"]")
			}
		}
		r.check(n > 0 && len(why) == 0, recv+".handleConnectRequest#release", fn.Pos(), fmt.Sprintf("%d exits after Connect, connection and body released on each", n), strings.Join(dedupStrings(why), "; "))
	}
}

func ownCopyBuffer(r *R) {
	cp := r.method(mpkg, "copier", "copy")
	n := 0
	eachInstr(cp, func(ins ssa.Instruction) {
		c, ok := ins.(*ssa.Call)
		if !ok || calleeName(c.Common()) != "io.CopyBuffer" {
			return
		}
		n++
		own, foreign := false, ""
		var walk func(v ssa.Value, depth int)
		seen := map[ssa.Value]bool{}
		walk = func(v ssa.Value, depth int) {
			if v == nil || seen[v] || depth > 12 {
				return
			}
			seen[v] = true
			switch x := v.(type) {
			case *ssa.Call:
				switch calleeName(x.Common()) {
				case "(*sync.Pool).Get":
					own = true
				default:
					if g := staticCallee(x.Common()); g != nil && isNewHelper(g) {
						for _, rv := range returnValues(g, 0) {
							walk(rv, depth+1)
						}
						return
					}
					foreign = shorten(describe(x), 60)
				}
			case *ssa.MakeSlice:
				own = true
			case *ssa.Parameter:
				if a, ok := resolveParam(x); ok {
					walk(a, depth+1)
					return
				}
				foreign = "parameter " + x.Name()
			case *ssa.FreeVar, *ssa.Global:
				foreign = describe(v)
			case *ssa.FieldAddr:
				foreign = "field " + describe(v)
			case *ssa.Phi:
				for _, e := range x.Edges {
					walk(e, depth+1)
				}
			case *ssa.UnOp:
				if a, ok := x.X.(*ssa.Alloc); ok {
					for _, s := range storesTo(a) {
						walk(s, depth+1)
					}
					return
				}
				walk(x.X, depth+1)
			case *ssa.TypeAssert:
				walk(x.X, depth+1)
			case *ssa.Extract:
				walk(x.Tuple, depth+1)
			case *ssa.Slice:
				walk(x.X, depth+1)
			case *ssa.ChangeType:
				walk(x.X, depth+1)
			case *ssa.Convert:
				walk(x.X, depth+1)
			case *ssa.MakeInterface:
				walk(x.X, depth+1)
			}
		}
		walk(c.Common().Args[2], 0)
		r.check(own && foreign == "", "copier.copy#own-buffer", c.Pos(), "scratch buffer obtained inside copy", "the scratch buffer comes from "+foreign+": both directions of a tunnel (each runs copy on its own goroutine) would read into the same array, one overwriting what the other has not written yet")
	})
	if n == 0 {
		r.bad("copier.copy#own-buffer", cp.Pos(), "copy does not use io.CopyBuffer")
	}
}
