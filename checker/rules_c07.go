package main

import (
	"fmt"
	"strings"

	"golang.org/x/tools/go/ssa"
)

func init() {
	register("C07", "R1", 3, "name provenance: the certificate is requested for the ClientHello's server name, falling back to the CONNECT host only when no SNI was sent; the MITM hand-off passes the request's Host", c07r1)
	register("C07", "R2", 4, "one name for cache key, SAN and re-validation: the port-stripped host is the key of the cache lookup and insert, the DNSName the cached leaf is verified against, the input that selects IP or DNS SAN and the SAN value itself", c07r2)
	register("C07", "R3", 2, "cached certificates are re-verified: a cache hit is returned only after Leaf.Verify (name, chain to the configured roots, current time) succeeded", c07r3)
	register("C07", "R4", 1, "leaf template shape: IP literal ⇒ IPAddresses, otherwise DNSNames - always one of them; validity window [now-validity, now+validity]; signed by the configured CA key; chain is leaf then CA", c07r4)
	register("C07", "R5", 4, "MITM decision: no MITM without a configuration; the filter (mitm-domains matched on URL.Hostname()) decides when present; excluded hosts take the tunnel path", c07r5)
	register("C07", "R6", 3, "origin verification is never switched off by code: InsecureSkipVerify is set only under the explicit insecure option; requests of an intercepted session use the same round tripper as any other", c07r6)
}

const lruGet = "(*github.com/elastic/go-freelru.ShardedLRU[K, V]).Get($0.certs.ShardedLRU, "

func certHost(p *Path) string {
	if p.holds("(net.SplitHostPort($2)#2 == nil)") {
		return "net.SplitHostPort($2)#0"
	}
	return "$2"
}

func c07r1(r *R) {
	th := r.method(mpkg+"/mitm", "Config", "TLSForHost")
	var gc *ssa.Function
	for _, lit := range anonFuncs(th) {
		if len(litParams(lit)) == 1 && strings.HasSuffix(typeStr(litParams(lit)[0].Type()), "tls.ClientHelloInfo") {
			gc = lit
		}
	}
	if gc == nil {
		r.missing("GetCertificate closure of TLSForHost")
	}
	b := closureBindings(gc)
	ps, _ := enumPaths(gc, 16, 1)
	var why []string
	for _, p := range ps {
		i := p.eventIndex(0, "call", prefix("(*martian/mitm.Config).cert("))
		if i < 0 {
			why = append(why, "no certificate requested")
			continue
		}
		name := p.Events[i].Desc[strings.LastIndex(p.Events[i].Desc, ", ")+2 : len(p.Events[i].Desc)-1]
		want := "$0.ServerName"
		if p.holds(`($0.ServerName == "")`) {
			want = "" // the captured hostname
			for k, bd := range b {
				if bd == "$2" && name == fmt.Sprintf("^%d", k) {
					want = name
				}
			}
		}
		if name != want {
			why = append(why, "certificate requested for "+name)
		}
	}
	r.check(len(ps) == 2 && len(why) == 0, "TLSForHost#name", gc.Pos(), "SNI name, else the CONNECT host", strings.Join(why, "; "))
	hm := r.method(mpkg, "proxyConn", "handleMITM")
	ok := false
	for _, c := range calls(hm, nameIs("(*martian/mitm.Config).TLSForHost")) {
		ok = describe(refArgs(c.Common())[2]) == "$1.Host"
	}
	r.check(ok, "handleMITM#TLSForHost(req.Host)", hm.Pos(), "fallback name is the CONNECT authority", "MITM TLS config is not built for the CONNECT request's host")
	// the TLS server is given exactly that config
	ok = false
	for _, c := range calls(hm, nameIs("crypto/tls.Server")) {
		ok = strings.HasPrefix(describe(refArgs(c.Common())[1]), "(*martian/mitm.Config).TLSForHost($0.Proxy.MITMConfig, ")
	}
	r.check(ok, "handleMITM#tls.Server(config)", hm.Pos(), "handshake served with the per-host config", "MITM handshake does not use the per-host TLS config")
}

func c07r2(r *R) {
	ct := r.method(mpkg+"/mitm", "Config", "cert")
	ps, complete := enumPaths(ct, 4096, 1)
	if !complete {
		r.undecided("mitm.cert#paths", ct.Pos(), "too many paths")
		return
	}
	bad := map[string]map[string]bool{"get": {}, "verify": {}, "add": {}, "san": {}}
	n := 0
	for _, p := range ps {
		H := certHost(&p)
		n++
		if p.eventIndex(0, "call", eq(lruGet+H+")")) < 0 {
			bad["get"]["cache looked up under a name other than the port-stripped host "+H] = true
		}
		if vi := p.eventIndex(0, "call", prefix("(*crypto/x509.Certificate).Verify(")); vi >= 0 {
			opts := p.Events[vi].Desc[strings.LastIndex(p.Events[vi].Desc, ", ")+2 : len(p.Events[vi].Desc)-1]
			if p.Mem[opts+".DNSName"] != H {
				bad["verify"]["cached leaf verified for "+p.Mem[opts+".DNSName"]+" instead of "+H] = true
			}
			if p.Mem[opts+".Roots"] != "$0.roots" {
				bad["verify"]["cached leaf verified against roots "+p.Mem[opts+".Roots"]] = true
			}
		}
		if ai := p.eventIndex(0, "call", contains("ShardedLRU[K, V]).Add($0.certs.ShardedLRU, ")); ai >= 0 {
			if !strings.Contains(p.Events[ai].Desc, ".Add($0.certs.ShardedLRU, "+H+", ") {
				bad["add"]["certificate cached under a different name than it was issued for: "+p.Events[ai].Desc[:min(len(p.Events[ai].Desc), 160)]] = true
			}
			if p.Ret[0] == "nil" {
				bad["add"]["cached but not returned"] = true
			}
		}
		if ci := p.eventIndex(0, "call", prefix("crypto/x509.CreateCertificate(")); ci >= 0 {
			if p.eventIndex(0, "call", eq("net.ParseIP("+H+")")) < 0 {
				bad["san"]["SAN kind decided on a name other than "+H] = true
			}
		}
	}
	msgs := map[string]string{"get": "lookup keyed by the port-stripped host", "verify": "re-validation for that same name against the configured roots", "add": "inserted under that same name", "san": "SAN kind decided on that same name"}
	for k, m := range bad {
		var why []string
		for w := range m {
			why = append(why, w)
		}
		r.check(len(why) == 0 && n > 0, "mitm.cert#"+k, ct.Pos(), msgs[k], strings.Join(why, "; "))
	}
}

func c07r3(r *R) {
	ct := r.method(mpkg+"/mitm", "Config", "cert")
	ps, _ := enumPaths(ct, 4096, 1)
	var why []string
	nHit := 0
	for _, p := range ps {
		H := certHost(&p)
		hit := lruGet + H + ")#0"
		if len(p.Ret) == 2 && p.Ret[0] == hit {
			nHit++
			v := "(*crypto/x509.Certificate).Verify(" + hit + ".Leaf, "
			ok := p.hasCond(func(c string) bool { return strings.HasPrefix(c, "!("+v) && strings.HasSuffix(c, "#1 != nil)") })
			if !ok {
				why = append(why, "a cached certificate is returned without a successful Leaf.Verify (expiry, chain and name are no longer checked)")
			}
			if !p.holds(lruGet + H + ")#1") {
				why = append(why, "returned although the lookup missed")
			}
		}
	}
	r.check(nHit > 0 && len(why) == 0, "mitm.cert#hit-reverified", ct.Pos(), "hit ⇒ Verify(DNSName, Roots) == nil before it is served", strings.Join(dedupStrings(why), "; "))
	// nothing else reads the cache
	n := 0
	for _, fn := range r.modFuncs() {
		if !strings.Contains(fname(fn), "martian/mitm.") || fn == ct {
			continue
		}
		for _, c := range calls(fn, func(s string) bool { return strings.Contains(s, "ShardedLRU[K, V]).Get") }) {
			n++
			r.bad(fname(fn)+"#certs.Get", c.Pos(), "certificate cache read outside cert(): the entry is used without re-validation")
		}
	}
	if n == 0 {
		r.ok("mitm#single-cache-reader", ct.Pos(), "cert() is the only reader of the leaf cache")
	}
}

func c07r4(r *R) {
	ct := r.method(mpkg+"/mitm", "Config", "cert")
	ps, _ := enumPaths(ct, 4096, 1)
	bad := map[string]bool{}
	n := 0
	for _, p := range ps {
		ci := p.eventIndex(0, "call", prefix("crypto/x509.CreateCertificate("))
		if ci < 0 {
			continue
		}
		n++
		H := certHost(&p)
		args := strings.TrimSuffix(strings.TrimPrefix(p.Events[ci].Desc, "crypto/x509.CreateCertificate("), ")")
		parts := strings.SplitN(args, ", ", 3)
		tmpl := parts[1]
		if !strings.HasPrefix(args, "crypto/rand.Reader, "+tmpl+", $0.ca, ") || !strings.HasSuffix(args, ", $0.capriv") {
			bad["leaf is not signed with (template, c.ca, leaf public key, c.capriv): "+args[:min(len(args), 120)]] = true
		}
		isIP := p.holds("(net.ParseIP(" + H + ") != nil)")
		ipa, hasIP := p.Mem[tmpl+".IPAddresses"]
		dns, hasDNS := p.Mem[tmpl+".DNSNames"]
		switch {
		case isIP && (!hasIP || hasDNS):
			bad["an IP-literal host gets no IP subject alternative name (clients reject a leaf that relies on the common name)"] = true
		case !isIP && (!hasDNS || hasIP):
			bad["a DNS host gets no DNS subject alternative name"] = true
		}
		if hasIP && isIP {
			// slice literal holding ParseIP(H)
			base := strings.TrimSuffix(ipa, "[:]")
			if p.Mem[base+"[0]"] != "net.ParseIP("+H+")" {
				bad["IP SAN is "+p.Mem[base+"[0]"]] = true
			}
		}
		if hasDNS && !isIP {
			base := strings.TrimSuffix(dns, "[:]")
			if p.Mem[base+"[0]"] != H {
				bad["DNS SAN is "+p.Mem[base+"[0]"]] = true
			}
		}
		if p.Mem[tmpl+".NotBefore"] != "(time.Time).Add(time.Now(), -$0.validity)" || p.Mem[tmpl+".NotAfter"] != "(time.Time).Add(time.Now(), $0.validity)" {
			bad["validity window is ["+p.Mem[tmpl+".NotBefore"]+", "+p.Mem[tmpl+".NotAfter"]+"]"] = true
		}
		if p.Mem[tmpl+".Subject.CommonName"] != H {
			bad["common name is "+p.Mem[tmpl+".Subject.CommonName"]] = true
		}
		// chain
		if len(p.Ret) == 2 && p.Ret[1] == "nil" {
			cert := p.Ret[0]
			chain := strings.TrimSuffix(p.Mem[cert+".Certificate"], "[:]")
			raw := p.Events[ci].Desc + "#0"
			if p.Mem[chain+"[0]"] != raw || p.Mem[chain+"[1]"] != "$0.ca.Raw" {
				bad["chain is ["+p.Mem[chain+"[0]"][:min(40, len(p.Mem[chain+"[0]"]))]+", "+p.Mem[chain+"[1]"]+"], expected [leaf, CA]"] = true
			}
			if p.Mem[cert+".PrivateKey"] != "$0.priv" {
				bad["leaf private key is "+p.Mem[cert+".PrivateKey"]] = true
			}
		}
	}
	var why []string
	for k := range bad {
		why = append(why, k)
	}
	r.check(n >= 4 && len(why) == 0, "mitm.cert#template", ct.Pos(), "SAN by literal kind; window now∓validity; signed by the CA; chain leaf+CA", strings.Join(why, "; "))
}

func c07r5(r *R) {
	sm := r.method(mpkg, "Proxy", "shouldMITM")
	ps, _ := enumPaths(sm, 16, 1)
	var why []string
	for _, p := range ps {
		switch {
		case p.holds("($0.MITMConfig == nil)"):
			if p.Ret[0] != "false" {
				why = append(why, "MITM without a configuration")
			}
		case p.holds("($0.MITMFilter != nil)"):
			if p.Ret[0] != "dyn:$0.MITMFilter($1)" {
				why = append(why, "filter not consulted: "+p.Ret[0])
			}
		default:
			if p.Ret[0] != "true" {
				why = append(why, "no filter but MITM is off")
			}
		}
	}
	r.check(len(ps) == 3 && len(why) == 0, "Proxy.shouldMITM", sm.Pos(), "config required; filter decides when present", strings.Join(why, "; "))
	cp := r.method(".", "HTTPProxy", "configureProxy")
	found := false
	for _, lit := range anonFuncs(cp) {
		lps, _ := enumPaths(lit, 8, 1)
		if len(litParams(lit)) == 1 && len(lps) == 1 && strings.HasPrefix(lps[0].Ret[0], "invoke forwarder.Matcher.Match(^0.config.MITMDomains, (*net/url.URL).Hostname($0.URL))") {
			found = true
			// installed as the filter only when domains are configured
			eachInstr(cp, func(ins ssa.Instruction) {
				if st, ok := ins.(*ssa.Store); ok && isClosureOf(describe(st.Val), lit) {
					r.check(strings.HasSuffix(describe(st.Addr), ".MITMFilter") && guardedBy(st.Block(), eq("($0.config.MITMDomains != nil)")), "configureProxy#MITMFilter", st.Pos(), "mitm-domains filter installed iff configured", "MITM domain filter is installed as "+describe(st.Addr))
				}
			})
		}
	}
	r.check(found, "configureProxy#mitm-domains-closure", cp.Pos(), "filter = MITMDomains.Match(URL.Hostname())", "MITM domain filter does not match the list on the URL's host name")
	// handleConnectRequest: MITM iff shouldMITM, else tunnel
	hc := r.method(mpkg, "proxyConn", "handleConnectRequest")
	hps, _ := enumPaths(hc, 4096, 1)
	why = nil
	for _, p := range hps {
		mi := p.eventIndex(0, "call", prefix("(*martian.proxyConn).handleMITM("))
		ci := p.eventIndex(0, "call", prefix("(*martian.Proxy).Connect("))
		should := p.holds("(*martian.Proxy).shouldMITM($0.Proxy, $1)")
		if should && (mi < 0 || ci >= 0) {
			why = append(why, "host selected for MITM is tunnelled")
		}
		if p.holds("!(*martian.Proxy).shouldMITM($0.Proxy, $1)") && mi >= 0 {
			why = append(why, "excluded host is intercepted")
		}
	}
	r.check(len(why) == 0, "handleConnectRequest#mitm-or-tunnel", hc.Pos(), "intercept iff shouldMITM, otherwise the tunnel path", strings.Join(dedupStrings(why), "; "))
}

func c07r6(r *R) {
	n := 0
	for _, fn := range r.modFuncs() {
		nm := fname(fn)
		if strings.HasPrefix(nm, "e2e/") || strings.Contains(nm, "utils/") || strings.HasPrefix(nm, "bench/") || strings.HasPrefix(nm, "loadgen/") || strings.Contains(nm, "/testing.") {
			continue
		}
		eachInstr(fn, func(ins ssa.Instruction) {
			st, ok := ins.(*ssa.Store)
			if !ok {
				return
			}
			fa, ok := st.Addr.(*ssa.FieldAddr)
			if !ok || structName(fa.X.Type()) != "crypto/tls.Config" || fieldName(fa.X.Type(), fa.Field) != "InsecureSkipVerify" {
				return
			}
			n++
			if c, isC := st.Val.(*ssa.Const); isC && c.Value != nil && c.Value.String() == "false" {
				r.ok(nm+"#InsecureSkipVerify=false", st.Pos(), "verification kept on")
				return
			}
			r.check(guardedBy(st.Block(), func(g string) bool { return strings.HasSuffix(g, ".Insecure") && !strings.HasPrefix(g, "!") }), nm+"#InsecureSkipVerify", st.Pos(), "only under the explicit insecure option", "origin certificate verification is switched off here without the explicit insecure option")
		})
	}
	if n == 0 {
		r.bad("InsecureSkipVerify#site", r.fn(".", "NewHTTPTransport").Pos(), "the insecure option is no longer wired (rule must follow the code)")
	}
	// the transport's TLS configuration is never handed out for modification
	ct := r.method(mpkg, "Proxy", "clientTLSConfig")
	cps, _ := enumPaths(ct, 16, 1)
	var cwhy []string
	for _, p := range cps {
		v := p.Ret[0]
		if !(strings.HasPrefix(v, "(*crypto/tls.Config).Clone(") || strings.HasPrefix(v, "local:complit")) {
			cwhy = append(cwhy, "returns "+v)
		}
	}
	r.check(len(cps) >= 2 && len(cwhy) == 0, "Proxy.clientTLSConfig#fresh", ct.Pos(), "a clone of the transport's TLS config or a fresh one", "clientTLSConfig hands out the transport's own *tls.Config ("+strings.Join(cwhy, "; ")+"): the upstream dialler writes ServerName into it, after which origin certificates are verified against the upstream proxy's name")
	// the only RoundTrip in the request path is p.rt
	rt := r.method(mpkg, "Proxy", "roundTrip")
	cnt := 0
	for _, fn := range requestPathFuncs(r) {
		eachInstr(fn, func(ins ssa.Instruction) {
			c, ok := ins.(*ssa.Call)
			if !ok || !c.Common().IsInvoke() || c.Common().Method.Name() != "RoundTrip" {
				return
			}
			cnt++
			r.check(fn == rt && describe(c.Common().Value) == "$0.rt", fname(fn)+"#RoundTrip", c.Pos(), "requests (intercepted or not) go through the proxy's one round tripper", "a second round tripper is used here")
		})
	}
	if cnt == 0 {
		r.bad("roundTrip#rt", rt.Pos(), "round tripper call not found")
	}
}
