package main

import (
	"fmt"
	"sort"
	"strings"

	"golang.org/x/tools/go/ssa"
)

// Re-entrant acquisition. sync.Mutex / sync.RWMutex are not re-entrant: a
// goroutine that calls, while holding x.mu, a function that (transitively)
// locks the same x.mu blocks forever - the connection it serves is never
// failed, closed or un-counted, whatever time-out is configured.
//
// acquires(f) = the mutexes f may lock, named relative to its parameters
// ("$0.headerMu"), closed over static calls to module functions whose
// arguments are themselves parameters or fields of parameters. The rule then
// visits every call made while a lock is held (must-hold lockset) and reports
// a callee that may acquire that very lock. Calls through interfaces and func
// values are not followed (the wrapped net.Conn is a different object).
//
// May-acquire is an over-approximation: a re-entry that a flag makes
// impossible at run time would still be reported. No such construct exists in
// the tree; it would deserve a comment and an entry here if one is added.
func init() {
	register("C08", "R7", 1, "a connection with a bad or slow PROXY header fails within the header timeout: nothing called while Conn.headerMu is held can lock headerMu again (sync.Mutex is not re-entrant; a re-entry hangs the connection for ever)", func(r *R) { noReentrantLocking(r, "proxyproto.") })
	register("C11", "R6", 4, "Shutdown/Close terminate: nothing called while a martian.Proxy mutex is held can lock the same mutex again", func(r *R) { noReentrantLocking(r, "martian.") })
	register("C09", "R8", 10, "the relay cannot block itself: nothing called while flowMu/destMu is held can lock the same mutex again", func(r *R) { noReentrantLocking(r, "martian/h2.") })
}

type lockAcq struct {
	param int
	path  string // ".headerMu", ".peer.flowMu"
}

type acqTable struct {
	memo map[*ssa.Function]map[lockAcq]bool
	busy map[*ssa.Function]bool
}

// paramPath splits a described term into (parameter index, field path) when it
// is a parameter or a field chain of one.
func paramPath(term string) (int, string, bool) {
	if !strings.HasPrefix(term, "$") {
		return 0, "", false
	}
	i := 1
	for i < len(term) && term[i] >= '0' && term[i] <= '9' {
		i++
	}
	if i == 1 {
		return 0, "", false
	}
	var n int
	fmt.Sscanf(term[1:i], "%d", &n)
	rest := term[i:]
	for _, ch := range rest {
		if !(ch == '.' || ch == '_' || ch >= 'a' && ch <= 'z' || ch >= 'A' && ch <= 'Z' || ch >= '0' && ch <= '9') {
			return 0, "", false
		}
	}
	return n, rest, true
}

func (t *acqTable) acquires(f *ssa.Function, depth int) map[lockAcq]bool {
	if m, ok := t.memo[f]; ok {
		return m
	}
	if t.busy[f] || depth > 8 || len(f.Blocks) == 0 {
		return nil
	}
	t.busy[f] = true
	defer delete(t.busy, f)
	out := map[lockAcq]bool{}
	eachInstr(f, func(ins ssa.Instruction) {
		var cc *ssa.CallCommon
		switch x := ins.(type) {
		case *ssa.Call:
			cc = x.Common()
		case *ssa.Defer:
			cc = x.Common()
		default:
			return
		}
		switch calleeName(cc) {
		case "(*sync.Mutex).Lock", "(*sync.RWMutex).Lock", "(*sync.RWMutex).RLock":
			if p, path, ok := paramPath(describe(refArgs(cc)[0])); ok {
				out[lockAcq{p, path}] = true
			}
			return
		}
		g := staticCallee(cc)
		if g == nil || !inModule(g) || len(g.Blocks) == 0 {
			return
		}
		sub := t.acquires(g, depth+1)
		if len(sub) == 0 {
			return
		}
		args := cc.Args
		for a := range sub {
			if a.param >= len(args) {
				continue
			}
			if p, path, ok := paramPath(describe(args[a.param])); ok {
				out[lockAcq{p, path + a.path}] = true
			}
		}
	})
	t.memo[f] = out
	return out
}

func noReentrantLocking(r *R, pkgFrag string) {
	t := &acqTable{memo: map[*ssa.Function]map[lockAcq]bool{}, busy: map[*ssa.Function]bool{}}
	for _, fn := range r.modFuncsAll() { // helpers split out of a function hold their locks themselves
		if !strings.Contains(fname(fn), pkgFrag) || pkgFrag == "martian." && strings.Contains(fname(fn), "martian/") {
			continue
		}
		ls := lockset(fn)
		perLock := map[string][]string{} // held lock -> callees checked
		var firstPos = map[string]ssa.Instruction{}
		bad := map[string][]string{}
		eachInstr(fn, func(ins ssa.Instruction) {
			for held := range ls[ins] {
				if _, ok := perLock[held]; !ok {
					perLock[held] = nil
					firstPos[held] = ins
				}
			}
			c, ok := ins.(*ssa.Call)
			if !ok || len(ls[ins]) == 0 {
				return
			}
			cn := calleeName(c.Common())
			if strings.HasPrefix(cn, "(*sync.") {
				// a direct second Lock of a held mutex
				if strings.HasSuffix(cn, ".Lock") || strings.HasSuffix(cn, ".RLock") {
					if t := describe(refArgs(c.Common())[0]); ls[ins][t] {
						bad[t] = append(bad[t], "locks it again directly at "+r.rel(c.Pos()))
					}
				}
				return
			}
			g := staticCallee(c.Common())
			if g == nil || !inModule(g) || len(g.Blocks) == 0 {
				return
			}
			acq := t.acquires(g, 0)
			for held := range ls[ins] {
				perLock[held] = append(perLock[held], fname(g))
				if firstPos[held] == nil {
					firstPos[held] = ins
				}
				for a := range acq {
					if a.param < len(c.Common().Args) && describe(c.Common().Args[a.param])+a.path == held {
						bad[held] = append(bad[held], fmt.Sprintf("calls %s at %s, which can lock %s again", fname(g), r.rel(c.Pos()), held))
					}
				}
			}
		})
		var locks []string
		for k := range perLock {
			locks = append(locks, k)
		}
		for k := range bad {
			if _, ok := perLock[k]; !ok {
				locks = append(locks, k)
			}
		}
		sort.Strings(locks)
		for _, held := range locks {
			key := fname(fn) + "#holding(" + held + ")"
			pos := fn.Pos()
			if ins := firstPos[held]; ins != nil {
				pos = ins.Pos()
			}
			if b := bad[held]; len(b) > 0 {
				r.bad(key, pos, "while holding "+held+" the function "+strings.Join(dedupStrings(b), "; ")+": the mutex is not re-entrant, the goroutine blocks for ever")
				continue
			}
			r.ok(key, pos, fmt.Sprintf("%d module calls made under the lock, none can lock it again (%s)", len(perLock[held]), strings.Join(dedupStrings(perLock[held]), ", ")))
		}
	}
}
