package main

import (
	"fmt"
	"strings"

	"golang.org/x/tools/go/ssa"
)

func init() {
	register("C03", "R1", 4, "no over-read of the upstream CONNECT reply: the reply is parsed from a bufio reader over a one-byte-at-a-time reader over the dialled conn, and that same conn (or its TLS wrapper) is what is returned; nothing buffered can hold tunnel bytes", c03r1)
	register("C03", "R2", 3, "switch-over order: the reply is written, then exactly the bytes buffered beyond the request head are forwarded upstream, then the two copiers start; the client-side copier reads from the raw connection (the buffered reader was only peeked, reading it again would duplicate early data)", c03r2)
	register("C03", "R3", 6, "per-direction completion: after its copy ends each copier half-closes its destination (CloseWrite, falling back to closing a pipe) and signals done exactly once; bicopy waits for every copier; the handlers close both sides when they return", c03r3)
	register("C03", "R4", 2, "upgrade hand-over: the tunnel stream is the 101 response's body as a ReadWriteCloser; when it is not, the exchange is reported and the connection closed", c03r4)
	register("C03", "R5", 4, "the tunnel is not torn down by connection-close semantics of its own reply: writeResponse never marks a CONNECT 2xx or 101 reply Close (same analysis as C02.R3)", c02r3)
}

func c03r1(r *R) {
	dl := r.method("dialvia", "HTTPProxyDialer", "DialContextR")
	// the reader handed to http.ReadResponse
	var rr *ssa.Call
	for _, fn := range withClosures(dl) {
		for _, c := range calls(fn, nameIs("net/http.ReadResponse")) {
			rr = c.(*ssa.Call)
		}
	}
	if rr == nil {
		r.bad("DialContextR#ReadResponse", dl.Pos(), "the CONNECT reply is not parsed with http.ReadResponse")
		return
	}
	// pbr is captured: find NewReaderSize in the parent
	var nr *ssa.Call
	for _, c := range calls(dl, nameIs("bufio.NewReaderSize", "bufio.NewReader")) {
		nr = c.(*ssa.Call)
	}
	good := false
	var wrapped ssa.Value
	if nr != nil {
		mi, ok := refArgs(nr.Common())[0].(*ssa.MakeInterface)
		if ok && typeStr(mi.X.Type()) == "dialvia.byteReader" {
			// byteReader{conn}: a local struct literal whose field r is the conn
			if ld, ok := mi.X.(*ssa.UnOp); ok {
				if a, ok := ld.X.(*ssa.Alloc); ok {
					for _, ref := range *a.Referrers() {
						if fa, ok := ref.(*ssa.FieldAddr); ok {
							for _, rr2 := range *fa.Referrers() {
								if st, ok := rr2.(*ssa.Store); ok {
									wrapped = st.Val
								}
							}
						}
					}
				}
			}
			good = wrapped != nil
		}
		// the closure reads through that reader
		bound := false
		for _, fn := range withClosures(dl) {
			if fn == rr.Parent() {
				for _, b := range bindingValues(fn) {
					if a, ok := b.(*ssa.Alloc); ok {
						for _, s := range storesTo(a) {
							if s == ssa.Value(nr) {
								bound = true
							}
						}
					}
					if b == ssa.Value(nr) {
						bound = true
					}
				}
			}
		}
		// ... or a function split out of DialContextR that is handed that reader
		if h := rr.Parent(); !bound && isNewHelper(h) {
			if prm, ok := refArgs(rr.Common())[0].(*ssa.Parameter); ok {
				idx := -1
				for i, q := range h.Params {
					if q == prm {
						idx = i
					}
				}
				for _, fn := range withClosures(dl) {
					for _, b := range fn.Blocks {
						for _, ins := range b.Instrs {
							c, ok := ins.(ssa.CallInstruction)
							if !ok || staticCallee(c.Common()) != h || idx < 0 || idx >= len(c.Common().Args) {
								continue
							}
							a := c.Common().Args[idx]
							if a == ssa.Value(nr) {
								bound = true
							}
							if u, ok := a.(*ssa.UnOp); ok {
								if al, ok := u.X.(*ssa.Alloc); ok {
									for _, sv := range storesTo(al) {
										if sv == ssa.Value(nr) {
											bound = true
										}
									}
								}
							}
						}
					}
				}
			}
		}
		good = good && (bound || rr.Parent() == dl && refArgs(rr.Common())[0] == ssa.Value(nr))
	}
	r.check(good, "DialContextR#reply-reader", rr.Pos(), "ReadResponse reads through bufio over byteReader{conn}", "the CONNECT reply is read through a reader that may buffer bytes beyond the reply head: early tunnel data from the target would be lost")
	// byteReader.Read asks for one byte
	br := r.method("dialvia", "byteReader", "Read")
	ps, _ := enumPaths(br, 8, 1)
	r.check(len(ps) == 1 && len(ps[0].effects()) == 1 && (ps[0].effects()[0] == "invoke io.Reader.Read($0.r, $1[:1])" || ps[0].effects()[0] == "invoke io.Reader.Read(local:r.r, $1[:1])"), "byteReader.Read", br.Pos(), "reads at most one byte per call", "byteReader passes more than one byte of buffer to the underlying reader")
	// returned conn on success is the wrapped one
	okRet := wrapped != nil
	nSucc := 0
	if wrapped != nil {
		target := map[ssa.Value]bool{unbox(wrapped): true}
		for _, ret := range returnsOf(dl) {
			if len(ret.Results) != 3 {
				continue
			}
			backward(ret.Results[1], func(v ssa.Value) bool {
				switch x := v.(type) {
				case *ssa.Const:
					return false
				case *ssa.Phi, *ssa.UnOp, *ssa.ChangeInterface, *ssa.MakeInterface, *ssa.ChangeType, *ssa.Alloc:
					if target[v] {
						nSucc++
						return true // do not look inside the accepted value
					}
					_ = x
					return false
				}
				if target[v] {
					nSucc++
					return true
				}
				okRet = false
				return false
			})
		}
	}
	r.check(nSucc >= 1 && okRet, "DialContextR#returned-conn", dl.Pos(), "the conn returned is the one the reply was read from", "the connection returned after CONNECT is not the one the reply reader wraps")
	// request is flushed before the reply is awaited
	var fl, rd ssa.Instruction
	for _, c := range calls(dl, nameIs("(*bufio.Writer).Flush")) {
		fl = c.(ssa.Instruction)
	}
	eachInstr(dl, func(ins ssa.Instruction) {
		if g, ok := ins.(*ssa.Go); ok {
			rd = g
		}
	})
	r.check(fl != nil && rd != nil && instrDominates(fl, rd), "DialContextR#flush-before-read", dl.Pos(), "CONNECT request flushed before the reply is read", "request not flushed before waiting for the reply")
}

func c03r2(r *R) {
	// drainBuffer
	db := r.fn(mpkg, "drainBuffer")
	ps, _ := enumPaths(db, 16, 1)
	var why []string
	for _, p := range ps {
		buffered := p.holds("((*bufio.Reader).Buffered($1) > 0)")
		wrote := p.eventIndex(0, "call", eq("invoke io.Writer.Write($0, (*bufio.Reader).Peek($1, (*bufio.Reader).Buffered($1))#0)")) >= 0
		peekErr := p.hasCond(func(c string) bool { return c == "((*bufio.Reader).Peek($1, (*bufio.Reader).Buffered($1))#1 != nil)" })
		if buffered && !peekErr && !wrote {
			why = append(why, "buffered early data is not forwarded")
		}
		if !buffered && len(p.effects("(*bufio.Reader).Buffered")) != 0 {
			why = append(why, "writes although nothing is buffered")
		}
	}
	r.check(len(ps) == 3 && len(why) == 0, "drainBuffer", db.Pos(), "forwards exactly the Buffered() bytes (peeked, not consumed)", strings.Join(why, "; "))
	type spec struct {
		fn           *ssa.Function
		name         string
		crw, raw     string // upstream stream, raw client conn
		buffered     string
		writeCallPfx string
	}
	// parameters are found by their type: the order of an unexported method's parameters is free to change
	ct, ht := r.method(mpkg, "proxyConn", "tunnel"), r.method(mpkg, "proxyHandler", "tunnel")
	hrw, hreq := paramOfType(r, ht, "net/http.ResponseWriter"), paramOfType(r, ht, "*net/http.Request")
	specs := []spec{
		{ct, "proxyConn.tunnel", paramOfType(r, ct, "io.ReadWriteCloser"), "$0.conn", "$0.brw.Reader", "(*martian.proxyConn).writeResponse($0, " + paramOfType(r, ct, "*net/http.Response") + ")"},
		{ht, "proxyHandler.tunnel", paramOfType(r, ht, "io.ReadWriteCloser"), "(*net/http.ResponseController).Hijack(net/http.NewResponseController(" + hrw + "))#0", "(*net/http.ResponseController).Hijack(net/http.NewResponseController(" + hrw + "))#1.Reader", "(*martian.proxyConn).writeResponse("},
	}
	for _, s := range specs {
		ps, _ := enumPaths(s.fn, 4096, 1)
		var why []string
		n := 0
		for _, p := range ps {
			bi := p.eventIndex(0, "call", prefix("martian.bicopy("))
			if bi < 0 {
				continue
			}
			di := p.eventIndex(0, "call", prefix("martian.drainBuffer("))
			wi := p.eventIndex(0, "call", prefix(s.writeCallPfx))
			if s.name == "proxyHandler.tunnel" && !p.holds("("+hreq+".ProtoMajor == 1)") {
				continue // HTTP/2 stream: no hijacked buffer
			}
			n++
			if !(wi >= 0 && wi < di && di < bi) {
				why = append(why, "order is not reply → drain → copy")
				continue
			}
			if p.Events[di].Desc != "martian.drainBuffer("+s.crw+", "+s.buffered+")" {
				why = append(why, "drain is "+p.Events[di].Desc)
			}
			// copiers: find the varargs slice elements
			arg := p.Events[bi].Desc[strings.Index(p.Events[bi].Desc, ", ")+2 : len(p.Events[bi].Desc)-1]
			base := strings.TrimSuffix(arg, "[:]")
			if s.name == "proxyHandler.tunnel" {
				// cc is a slice literal
				base = ""
				for k := range p.Mem {
					if strings.HasSuffix(k, "[0].dst") {
						base = strings.TrimSuffix(k, "[0].dst")
					}
					if strings.HasSuffix(k, "[0]") && strings.Contains(k, "slicelit") && base == "" {
						base = strings.TrimSuffix(k, "[0]")
					}
				}
			}
			field := func(i int, f string) string {
				if v, ok := p.Mem[fmt.Sprintf("%s[%d].%s", base, i, f)]; ok {
					return v
				}
				return p.Mem[p.Mem[fmt.Sprintf("%s[%d]", base, i)]+"."+f]
			}
			up := [2]string{field(0, "dst"), field(0, "src")}
			down := [2]string{field(1, "dst"), field(1, "src")}
			if up != [2]string{s.crw, s.raw} {
				why = append(why, fmt.Sprintf("client→upstream copier is dst=%s src=%s; it must write to the upstream stream and read from the raw client connection (the buffered bytes were already forwarded by the drain)", up[0], up[1]))
			}
			if down != [2]string{s.raw, s.crw} {
				why = append(why, fmt.Sprintf("upstream→client copier is dst=%s src=%s", down[0], down[1]))
			}
		}
		r.check(n > 0 && len(why) == 0, s.name+"#switch-over", s.fn.Pos(), "reply, drain of the buffered early data, then raw bidirectional copy", strings.Join(dedupStrings(why), "; "))
	}
}

func c03r3(r *R) {
	cp := r.method(mpkg, "copier", "copy")
	ps, _ := enumPaths(cp, 64, 1)
	var why []string
	for _, p := range ps {
		ci := p.eventIndex(0, "call", prefix("io.CopyBuffer(local:c.dst, local:c.src, "))
		wi := p.eventIndex(0, "call", eq("(martian.copier).closeWriter($0, $1)"))
		n := 0
		si := -1
		for i, e := range p.Events {
			if e.Kind == "send" && strings.HasPrefix(e.Desc, "$2 <- ") {
				n++
				si = i
			}
		}
		if !(ci >= 0 && ci < wi && wi < si && n == 1) {
			why = append(why, fmt.Sprintf("copy@%d closeWriter@%d done-signal@%d (count %d)", ci, wi, si, n))
		}
	}
	r.check(len(ps) >= 2 && len(why) == 0, "copier.copy#order", cp.Pos(), "copy, then half-close of the destination, then exactly one done signal - on every path", strings.Join(dedupStrings(why), "; "))
	cw := r.method(mpkg, "copier", "closeWriter")
	ps, _ = enumPaths(cw, 64, 1)
	why = nil
	nCW := 0
	for _, p := range ps {
		isCW := p.holds("martian.asCloseWriter(local:c.dst)#1")
		called := p.eventIndex(0, "call", eq("invoke martian.closeWriter.CloseWrite(martian.asCloseWriter(local:c.dst)#0)")) >= 0
		if isCW != called {
			why = append(why, fmt.Sprintf("destination supports CloseWrite=%v but it was called=%v", isCW, called))
		}
		if called {
			nCW++
		}
		if !isCW && p.holds("local:c.dst.(*io.PipeWriter)#1") && p.eventIndex(0, "call", prefix("(*io.PipeWriter).Close(")) < 0 {
			why = append(why, "pipe destination is not closed")
		}
	}
	r.check(nCW > 0 && len(why) == 0, "copier.closeWriter", cw.Pos(), "CloseWrite when the destination (or a wrapped conn) supports it, Close for a pipe", strings.Join(dedupStrings(why), "; "))
	// bicopy: one goroutine per copier, one receive per copier
	bc := r.fn(mpkg, "bicopy")
	var goes, recvs int
	var mk *ssa.MakeChan
	eachInstr(bc, func(ins ssa.Instruction) {
		switch x := ins.(type) {
		case *ssa.Go:
			if calleeName(x.Common()) == "(martian.copier).copy" && reaches(ins, ins) {
				goes++
			}
		case *ssa.UnOp:
			if x.Op.String() == "<-" && reaches(ins, ins) {
				// the receive loop must run once per copier
				if guardedBy(ins.Block(), func(g string) bool { return strings.HasSuffix(g, "< builtin len($1))") && !strings.HasPrefix(g, "!") }) {
					recvs++
				}
			}
		case *ssa.MakeChan:
			mk = x
		}
	})
	capOK := mk != nil && describe(mk.Size) == "builtin len($1)"
	r.check(goes == 1 && recvs == 1 && capOK, "bicopy#wait-all", bc.Pos(), "a goroutine and a receive per copier; done channel sized len(cc)", fmt.Sprintf("go-in-loop=%d receive-in-loop=%d buffered=len(cc):%v", goes, recvs, capOK))
	// callers close both sides
	for _, s := range []struct{ recv, fn, what string }{{"proxyConn", "handleConnectRequest", "invoke io.Closer.Close("}, {"proxyHandler", "handleConnectRequest", "invoke io.Closer.Close("}} {
		fn := r.method(mpkg, s.recv, s.fn)
		found := false
		eachInstr(fn, func(ins ssa.Instruction) {
			if d, ok := ins.(*ssa.Defer); ok {
				desc := describeCall(d.Common(), describe)
				if strings.HasPrefix(desc, "invoke io.ReadWriteCloser.Close((*martian.Proxy).Connect(") && strings.HasSuffix(desc, "#1)") {
					found = guardedBy(d.Block(), func(g string) bool { return strings.HasSuffix(g, "#1 != nil)") && !strings.HasPrefix(g, "!") })
				}
			}
		})
		r.check(found, s.recv+"."+s.fn+"#defer-close-upstream", fn.Pos(), "upstream stream closed when the handler returns", "the upstream side of the tunnel is not closed by a deferred Close")
	}
	hl := r.method(mpkg, "Proxy", "handleLoop")
	found := false
	eachInstr(hl, func(ins ssa.Instruction) {
		if d, ok := ins.(*ssa.Defer); ok && describeCall(d.Common(), describe) == "invoke net.Conn.Close($1)" {
			found = true
		}
	})
	r.check(found, "handleLoop#defer-close-client", hl.Pos(), "client conn closed when the connection goroutine ends", "client connection is not closed by a deferred Close")
	ht := r.method(mpkg, "proxyHandler", "tunnel")
	found = false
	eachInstr(ht, func(ins ssa.Instruction) {
		if d, ok := ins.(*ssa.Defer); ok && strings.HasPrefix(describeCall(d.Common(), describe), "invoke net.Conn.Close((*net/http.ResponseController).Hijack(") {
			found = true
		}
	})
	r.check(found, "proxyHandler.tunnel#defer-close-client", ht.Pos(), "hijacked client conn closed when the tunnel returns", "hijacked connection is not closed")
}

func c03r4(r *R) {
	for _, recv := range []string{"proxyConn", "proxyHandler"} {
		fn := r.method(mpkg, recv, "handleUpgradeResponse")
		ps, _ := enumPaths(fn, 256, 1)
		var why []string
		nT := 0
		resP := "$1"
		if recv == "proxyHandler" {
			resP = "$3"
		}
		for _, p := range ps {
			ok := p.holds(resP + ".Body.(io.ReadWriteCloser)#1")
			ti := p.eventIndex(0, "call", contains(").tunnel("))
			if ok != (ti >= 0) {
				why = append(why, fmt.Sprintf("body is a stream=%v but tunnel started=%v", ok, ti >= 0))
			}
			if ti >= 0 {
				nT++
				// the stream argument, wherever it stands in tunnel's parameter list
				stream := resP + ".Body.(io.ReadWriteCloser)"
				if !strings.Contains(p.Events[ti].Desc, ", "+stream+")") && !strings.Contains(p.Events[ti].Desc, ", "+stream+", ") {
					why = append(why, "tunnel stream is "+p.Events[ti].Desc)
				}
			} else if p.eventIndex(0, "call", prefix("(*martian.Proxy).traceWroteResponse(")) < 0 {
				why = append(why, "failed hand-over is not reported")
			}
		}
		r.check(nT > 0 && len(why) == 0, recv+".handleUpgradeResponse", fn.Pos(), "tunnel over res.Body as ReadWriteCloser; otherwise reported and closed", strings.Join(dedupStrings(why), "; "))
	}
}

// paramOfType names the single parameter of fn that has the given type ("$k").
func paramOfType(r *R, fn *ssa.Function, typ string) string {
	out := ""
	for i, p := range refParams(fn) { // printed positions are reference positions
		if typeStr(p.Type()) == typ {
			if out != "" {
				r.missing("a single %s parameter in %s", typ, fname(fn))
			}
			out = fmt.Sprintf("$%d", i)
		}
	}
	if out == "" {
		r.missing("a %s parameter in %s", typ, fname(fn))
	}
	return out
}
