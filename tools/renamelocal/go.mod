module renamelocal

go 1.23
