// renamelocal FILE FUNC OLD NEW: renames the local variable, parameter or receiver OLD of function FUNC
// ("name" or "Type.name") in FILE to NEW, using the parser's scope resolution. Used to produce
// behaviour-preserving rename patches for the checker's corpus of refactorings.
package main

import (
	"bytes"
	"fmt"
	"go/ast"
	"go/format"
	"go/parser"
	"go/token"
	"os"
	"strings"
)

func main() {
	if len(os.Args) != 5 {
		fmt.Fprintln(os.Stderr, "usage: renamelocal FILE FUNC OLD NEW")
		os.Exit(2)
	}
	file, fn, old, nw := os.Args[1], os.Args[2], os.Args[3], os.Args[4]
	fset := token.NewFileSet()
	f, err := parser.ParseFile(fset, file, nil, parser.ParseComments)
	if err != nil {
		fmt.Fprintln(os.Stderr, err)
		os.Exit(1)
	}
	n := 0
	for _, d := range f.Decls {
		fd, ok := d.(*ast.FuncDecl)
		if !ok || fd.Body == nil {
			continue
		}
		name := fd.Name.Name
		if fd.Recv != nil && len(fd.Recv.List) == 1 {
			t := fd.Recv.List[0].Type
			if s, ok := t.(*ast.StarExpr); ok {
				t = s.X
			}
			if id, ok := t.(*ast.Ident); ok {
				name = id.Name + "." + name
			}
		}
		if name != fn && !strings.HasSuffix(name, "."+fn) {
			continue
		}
		// objects named old declared inside this function (parameters, receiver, locals)
		objs := map[*ast.Object]bool{}
		ast.Inspect(fd, func(x ast.Node) bool {
			if id, ok := x.(*ast.Ident); ok && id.Name == old && id.Obj != nil && id.Obj.Pos() >= fd.Pos() && id.Obj.Pos() <= fd.End() {
				objs[id.Obj] = true
			}
			return true
		})
		ast.Inspect(fd, func(x ast.Node) bool {
			if id, ok := x.(*ast.Ident); ok && id.Obj != nil && objs[id.Obj] {
				id.Name = nw
				n++
			}
			return true
		})
	}
	if n == 0 {
		fmt.Fprintln(os.Stderr, "nothing renamed")
		os.Exit(1)
	}
	var buf bytes.Buffer
	if err := format.Node(&buf, fset, f); err != nil {
		fmt.Fprintln(os.Stderr, err)
		os.Exit(1)
	}
	os.WriteFile(file, buf.Bytes(), 0o644)
	fmt.Printf("%s %s: %d identifiers renamed\n", file, fn, n)
}
