#!/usr/bin/env python3
"""Regenerates /verif/MANIFEST.json from the table below and the rules the
checker registers (bin/fwdcheck -list). Properties without rules are listed
under not_applicable."""
import json, subprocess, os, sys
os.chdir(os.path.dirname(os.path.abspath(__file__)) + "/..")
rules = {}
for line in subprocess.check_output(["bin/fwdcheck", "-list"], text=True).splitlines():
    if line.startswith("mutant "):
        continue
    name, rest = line.split(" ", 1)
    prop = name.split(".")[0]
    rules.setdefault(prop, []).append((name, rest.split("  ", 1)[1] if "  " in rest else rest))

NOT_DECIDED = {
 "C01": "body/URL byte equality, pipelining sync of the bufio reader (inside net/http)",
 "C02": "framing produced by http.Response.Write, k-th response answers k-th request on real sockets, delivery timing, gzip",
 "C03": "exactly-once in-order delivery under all segmentations and half-close orders (io.CopyBuffer, kernel), SOCKS5 dialling",
 "C04": "the localhost classifier over all host spellings, regexp semantics of deny lists, time-frame arithmetic",
 "C05": "which listener really receives the bytes, PAC script evaluation, DNS",
 "C06": "what net/http's Transport does with proxyURL.User",
 "C07": "X.509 validity at run time, LRU behaviour under concurrency and eviction, clock",
 "C08": "parser correctness for all well-formed headers and all segmentations, concurrency beyond the read-once discipline",
 "C09": "integer overflow of windows, the third-party framer, frames queued before MAX_FRAME_SIZE decreases",
 "C10": "HPACK table synchronisation, byte equality of DATA, delivery within a deadline",
 "C11": "all interleavings (only the ordering/locking discipline that makes them safe), client disconnect timing",
 "C12": "panic-freedom of the standard library's parsers on arbitrary bytes, truncation offsets",
 "C13": "gauge values at quiescence as observed numbers, byte totals",
 "C14": "helper semantics for all arguments, script evaluation, determinism under concurrency beyond VM exclusivity",
 "C15": "'never before the limit', actual latencies",
 "C16": "equality with the rule semantics for all rule lists and header maps as executed, parse/print round trip over all strings",
 "C17": "regular-expression semantics (the regexp package is trusted for 'each rule on its own')",
 "C18": "real loops over sockets, substring collisions between tags",
 "C19": "what third-party code prints, log output at run time for all secrets and escapings",
 "C20": "the rate bound itself (timing; x/time/rate), burst sizing adequacy",
}
TECH = {
 "C16": "decision-table extraction from SSA paths (ParseHeader/Apply/String tables), regexp/syntax query on pattern constants, guard-dominance on map-move and range-delete idioms",
 "C17": "typestate of the pattern builder (operands bracketed by a group), decision-table extraction of match/Match/Inverse from SSA paths, value-flow of list partition, call-site census",
}
props = [json.loads(l) for l in open("properties.jsonl")]
checks, na = [], []
for p in props:
    pid = p["id"]
    if pid not in rules:
        na.append({"property_id": pid, "reason": "no static rule implemented yet for this property in the current commit (planned: DESIGN.md section 4, %s); nothing is claimed" % pid})
        continue
    decided = "; ".join("%s: %s" % (n, d) for n, d in rules[pid])
    checks.append({
        "property_id": pid,
        "quick_cmd": "./run.sh -property %s -tier quick" % pid,
        "thorough_cmd": "./run.sh -property %s -tier thorough" % pid,
        "evidence_file": "/verif/evidence/%s.json" % pid,
        "replay_cmd_template": "./run.sh -replay {path}",
        "engine": "fwdcheck",
        "level_claimed": {
            "category": "other",
            "text": ("Static analysis of the current source (type-checked packages, go/ssa, CFG paths, call sites); nothing is executed. "
                     "It decides, for every path / call site / table entry in the loaded program, these structural clauses, each a necessary condition of the property: "
                     + decided + ". It does NOT decide the behaviour itself: " + NOT_DECIDED[pid] + "."),
            "design_ref": "DESIGN.md section 4, " + pid,
        },
        "level_note": "Trusted: the Go type checker and go/ssa (x/tools v0.29.0); documented semantics of the standard library and third-party packages; no unsafe/reflect tricks on the analysed paths. A refactoring that renames or restructures an anchored function makes the check report 'undecided' (as a violation) rather than pass silently.",
        "technique": "static analysis: " + TECH.get(pid, "repository-specific rules over go/ssa (dominance, path enumeration, value flow, table extraction, call-site census)"),
    })
m = {
 "version": 1,
 "setup_cmd": "mkdir -p bin && cd checker && GOFLAGS=-mod=mod GOPROXY=off GOSUMDB=off GOTOOLCHAIN=local GOWORK=off go build -o ../bin/fwdcheck .",
 "hooks": {"guard": "verif", "enable": "none needed: the analysis reads /repo's source; no instrumentation is compiled in", 
           "baseline_off_cmd": "cd /repo && GOFLAGS=-mod=mod GOPROXY=off go test -vet=off -count=1 -timeout 25m ./...",
           "source_commits": [], "add_only": True},
 "engines": [{"name": "fwdcheck", "path": "checker/", "serves_properties": [c["property_id"] for c in checks],
              "kind_free_text": "repository-specific static analyser (Go, x/tools v0.29.0: go/packages + go/ssa); one binary, one rule set per property"}],
 "checks": checks,
 "notes": "All checks are static analysis at level 'other'. Genuine defects found and repaired are listed in known_findings.json ('fixed'); see DESIGN.md section 5.",
 "not_applicable": na,
}
json.dump(m, open("MANIFEST.json", "w"), indent=1)
print("checks:", len(checks), "not_applicable:", len(na))
