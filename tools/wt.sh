#!/bin/bash
# usage: wt.sh <refactoring-or-seed-dir>   -> (re)creates scratch worktree /tmp/wtx with the patch applied
set -e
git -C /repo worktree remove --force /tmp/wtx 2>/dev/null || true
rm -rf /tmp/wtx
git -C /repo worktree add -q --detach /tmp/wtx HEAD
git -C /tmp/wtx apply "$(readlink -f "$1")/patch.diff"
echo /tmp/wtx
