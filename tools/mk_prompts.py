#!/usr/bin/env python3
"""Build the sub-agent prompts for a new round from the previous round's prompts.
usage: mk_prompts.py seeds|refactorings <old-root> <new-root>
The list of earlier results is rebuilt from /verif/seeded or /verif/refactorings(+_unsupported) meta.json files
(only their summaries: nothing else from /verif reaches a sub-agent)."""
import sys, os, json, glob, re
kind, old, new = sys.argv[1:4]
for i in range(1, 21):
    pid = "C%02d" % i
    src = open(f"{old}/{pid}-out/PROMPT.txt").read()
    src = src.replace(old + "/", new + "/")
    lines = src.split("\n")
    # the list of earlier items: consecutive lines starting with "- " after the line that mentions "already produced"
    start = next(k for k, l in enumerate(lines) if "already produced" in l)
    k = start + 1
    while k < len(lines) and lines[k].startswith("- "):
        k += 1
    items = []
    if kind == "seeds":
        dirs = sorted(glob.glob(f"/verif/seeded/{pid}-*"), key=lambda d: int(d.rsplit("-", 1)[1]))
        for d in dirs:
            m = json.load(open(d + "/meta.json"))
            items.append("- " + " ".join(str(m.get("summary", "")).split()))
    else:
        dirs = sorted(glob.glob(f"/verif/refactorings/{pid}-*") + glob.glob(f"/verif/refactorings_unsupported/{pid}-*"), key=lambda d: int(d.rsplit("-", 1)[1]))
        for d in dirs:
            m = json.load(open(d + "/meta.json"))
            items.append("- " + " ".join(str(m.get("kind", "")).split()) + ": " + " ".join(str(m.get("summary", "")).split()))
    lines[start + 1:k] = items
    os.makedirs(f"{new}/{pid}-out", exist_ok=True)
    open(f"{new}/{pid}-out/PROMPT.txt", "w").write("\n".join(lines))
    print(pid, len(items), "earlier items")
