#!/usr/bin/env python3
"""Regenerates the 'As built' tables of DESIGN.md (between the AS-BUILT markers) from the checker itself."""
import json, subprocess, os, glob, re
os.chdir(os.path.dirname(os.path.abspath(__file__)) + "/..")
out = subprocess.check_output(["bin/fwdcheck", "-list"], text=True).splitlines()
rules, mutants = [], {}
for l in out:
    if l.startswith("mutant "):
        m = re.match(r"mutant (\S+) expects (\S+)", l)
        mutants.setdefault(m.group(1).split("/")[0], []).append((m.group(1), m.group(2)))
    else:
        name, rest = l.split(" ", 1)
        floor = re.search(r"floor=(\d+)", rest).group(1)
        thorough = "thorough=true" in rest
        decides = rest.split("  ", 1)[1]
        rules.append((name, floor, thorough, decides))
lines = []
lines.append("### 12.1 Rules as registered (`bin/fwdcheck -list`)\n")
lines.append("| rule | floor | tier | decides |")
lines.append("|------|-------|------|---------|")
for n, f, t, d in rules:
    lines.append("| %s | %s | %s | %s |" % (n, f, "thorough" if t else "quick", d.replace("|", "\\|")))
lines.append("")
lines.append("### 12.2 Seeded changes (independent sub-agents; `/verif/seeded/<id>/`) and the checks that report them\n")
lines.append("| seed | property | what was changed | needs to manifest | reported by |")
lines.append("|------|----------|------------------|-------------------|-------------|")
for d in sorted(glob.glob("seeded/*")):
    m = json.load(open(d + "/meta.json"))
    res = m.get("confirmed_by_me", {}).get("result", "")
    rules_hit = sorted(set(re.findall(r"(C\d\d\.R\d+)", res)))
    summ = re.sub(r"\s+", " ", str(m.get("summary", "")))[:220].replace("|", "/")
    need = re.sub(r"\s+", " ", str(m.get("needs_to_manifest", "")))[:200].replace("|", "/")
    lines.append("| %s | %s | %s | %s | %s |" % (os.path.basename(d), m.get("property"), summ, need, ", ".join(rules_hit) or "see meta.json"))
lines.append("")
lines.append("### 12.3 Self-test mutants per property (`./run.sh -selftest -property <id>`; all reported on the committed tree)\n")
for p in sorted(mutants):
    lines.append("* **%s** (%d): %s" % (p, len(mutants[p]), "; ".join("%s→%s" % (n.split("/", 1)[1], e) for n, e in mutants[p])))
block = "\n".join(lines) + "\n"
s = open("DESIGN.md").read()
a, b = "<!-- AS-BUILT-BEGIN -->", "<!-- AS-BUILT-END -->"
if a in s:
    s = s[:s.index(a) + len(a)] + "\n" + block + s[s.index(b):]
else:
    s += "\n" + a + "\n" + block + b + "\n"
open("DESIGN.md", "w").write(s)
print("rules", len(rules), "seeds", len(glob.glob("seeded/*")), "mutants", sum(len(v) for v in mutants.values()))
