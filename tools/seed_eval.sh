#!/bin/bash
# usage: seed_eval.sh <seed-dir> [full]
# Confirms a seeded change (demo passes on the clean tree, fails with the patch,
# optionally the whole suite still passes) in a scratch worktree, then applies
# the patch to /repo, runs the property's quick check and reverts /repo.
set -u
sd=$(readlink -f "$1"); full=${2:-}
prop=$(python3 -c "import json;print(json.load(open('$sd/meta.json'))['property'])")
ddir=$(python3 -c "import json;print(json.load(open('$sd/meta.json'))['demo_dir'])")
drun=$(python3 -c "import json;print(json.load(open('$sd/meta.json'))['demo_run'])")
export GOFLAGS=-mod=mod GOPROXY=off
wt=$(mktemp -d /tmp/seedverify.XXXX)
git -C /repo worktree add -q --detach "$wt" HEAD || exit 2
trap 'git -C /repo worktree remove --force "$wt" 2>/dev/null; rm -rf "$wt"' EXIT
cp "$sd/demo_test.go" "$wt/$ddir/zz_seed_demo_test.go"
( cd "$wt" && eval "$drun" ) > "$sd/verify_clean.log" 2>&1; clean=$?
if ! git -C "$wt" apply "$sd/patch.diff" 2> "$sd/verify_apply.log"; then echo "RESULT $prop $(basename $(dirname $sd))/$(basename $sd) patch-does-not-apply"; exit 3; fi
( cd "$wt" && go build ./... ) > "$sd/verify_build.log" 2>&1; build=$?
( cd "$wt" && eval "$drun" ) > "$sd/verify_patched.log" 2>&1; patched=$?
suite=skipped
if [ -n "$full" ]; then
  rm -f "$wt/$ddir/zz_seed_demo_test.go"
  ( cd "$wt" && go test -vet=off -count=1 ./... ) > "$sd/verify_suite.log" 2>&1
  suite=$(grep -E '^(--- FAIL|FAIL)' "$sd/verify_suite.log" | grep -v -E 'TestParseFilePath|TestIntegrationConnect|^FAIL$|FAIL\s+github.com/saucelabs/forwarder\s|FAIL\s+github.com/saucelabs/forwarder/internal/martian\s' | wc -l)
  suite="unexpected-failures=$suite"
fi
# now the checker, against the scratch worktree that carries the patch (same as applying it to /repo and reverting)
rm -f "$wt/$ddir/zz_seed_demo_test.go"
( cd /verif && FWD_REPO="$wt" ./run.sh -property "$prop" -out /tmp/seed_evidence ) > "$sd/check.log" 2>&1; chk=$?
echo "RESULT $prop $(basename $sd) demo_clean_exit=$clean build=$build demo_patched_exit=$patched suite=$suite checker_exit=$chk  $(grep -c '^VIOLATION' "$sd/check.log") violations: $(grep -B1 '^VIOLATION' "$sd/check.log" | grep -v '^VIOLATION\|^--' | cut -c1-160 | head -3 | tr '\n' '|')"
