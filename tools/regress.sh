#!/bin/bash
# usage: regress.sh seeds|refactorings [filter]
# seeds:        every kept seeded change must be reported by its property's quick check (exit 1)
# refactorings: every kept behaviour-preserving refactoring must leave it silent (exit 0)
# Each case: scratch worktree of /repo HEAD, patch applied, checker run with FWD_REPO, worktree removed.
set -u
kind=$1; filter=${2:-}
dir=/verif/seeded; want=1
[ "$kind" = refactorings ] && { dir=/verif/refactorings; want=0; }
run_one() {
  d=$1; want=$2
  name=$(basename "$d")
  prop=$(python3 -c "import json;print(json.load(open('$d/meta.json'))['property'])")
  wt=$(mktemp -d /tmp/regress.XXXX)
  git -C /repo worktree add -q --detach "$wt" HEAD 2>/dev/null || { echo "ERROR $name worktree"; return; }
  if ! git -C "$wt" apply "$d/patch.diff" 2>/dev/null; then echo "SKIP $name (patch no longer applies to HEAD)"; git -C /repo worktree remove --force "$wt"; return; fi
  out=$(cd /verif && FWD_REPO="$wt" ${FWDCHECK:-bin/fwdcheck} -repo "$wt" -out /tmp/regress_evidence_$$_$name -known known_findings.json -property "$prop" 2>&1); rc=$?
  rm -rf /tmp/regress_evidence_$$_$name
  git -C /repo worktree remove --force "$wt" 2>/dev/null; rm -rf "$wt"
  if [ "$rc" = "$want" ]; then echo "OK $name $prop exit=$rc"; else echo "FAIL $name $prop exit=$rc want=$want: $(echo "$out" | grep -B1 '^VIOLATION' | grep -v '^VIOLATION\|^--' | cut -c1-220 | head -2 | tr '\n' '|')"; fi
}
export -f run_one
ls -d $dir/*/ | grep "$filter" | xargs -P ${REGRESS_P:-4} -I{} bash -c "run_one {} $want"
