#!/bin/bash
# usage: benign_eval.sh <ref-dir> [all]
# Applies a behaviour-preserving refactoring (patch.diff + meta.json) to a scratch
# worktree of /repo HEAD, builds it, and runs the property's quick check (or all
# properties with "all") against that worktree. A VIOLATION here is a false alarm.
set -u
sd=$(readlink -f "$1"); scope=${2:-}
prop=$(python3 -c "import json;print(json.load(open('$sd/meta.json'))['property'])")
[ "$scope" = all ] && prop=all
export GOFLAGS=-mod=mod GOPROXY=off
wt=$(mktemp -d /tmp/benignverify.XXXX)
git -C /repo worktree add -q --detach "$wt" HEAD || exit 2
trap 'git -C /repo worktree remove --force "$wt" 2>/dev/null; rm -rf "$wt"' EXIT
if ! git -C "$wt" apply "$sd/patch.diff" 2> "$sd/verify_apply.log"; then echo "RESULT $prop $(basename $(dirname $sd))/$(basename $sd) patch-does-not-apply"; exit 3; fi
( cd "$wt" && go build ./... ) > "$sd/verify_build.log" 2>&1; build=$?
( cd /verif && FWD_REPO="$wt" ./run.sh -property "$prop" -out /tmp/benign_evidence ) > "$sd/check.log" 2>&1; chk=$?
echo "RESULT $prop $(basename $(dirname $sd))/$(basename $sd) build=$build checker_exit=$chk  $(grep -c '^VIOLATION' "$sd/check.log") violations: $(grep -B1 '^VIOLATION' "$sd/check.log" | grep -v '^VIOLATION\|^--' | cut -c1-200 | head -3 | tr '\n' '|')"
