#!/usr/bin/env python3
"""seed_keep.py <seed-dir> <name> '<RESULT line>' : stores a confirmed seeded change under /verif/seeded/<name>/"""
import sys, json, os, shutil
sd, name, result = sys.argv[1], sys.argv[2], sys.argv[3]
note = sys.argv[4] if len(sys.argv) > 4 else ''
dst = '/verif/seeded/' + name
os.makedirs(dst, exist_ok=True)
for f in ('patch.diff', 'demo_test.go'):
    shutil.copy(os.path.join(sd, f), os.path.join(dst, f))
m = json.load(open(os.path.join(sd, 'meta.json')))
m['confirmed_by_me'] = {
    'how': 'tools/seed_eval.sh: fresh scratch worktree of /repo HEAD; demo copied to demo_dir/zz_seed_demo_test.go and run (must pass); patch applied, go build ./..., demo run again (must fail); whole suite with the patch where noted; then patch applied to /repo, quick check run, /repo reverted',
    'result': result,
}
if note:
    m['confirmed_by_me']['note'] = note
json.dump(m, open(os.path.join(dst, 'meta.json'), 'w'), indent=1)
print('kept', dst)
