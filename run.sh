#!/bin/sh
# Thin wrapper: rebuilds bin/fwdcheck when the checker sources are newer, then
# runs it against /repo's current working tree.
set -e
cd "$(dirname "$0")"
need=0
[ -x bin/fwdcheck ] || need=1
if [ $need = 0 ] && [ -n "$(find checker -newer bin/fwdcheck \( -name '*.go' -o -name go.mod -o -name go.sum \) 2>/dev/null | head -1)" ]; then need=1; fi
if [ $need = 1 ]; then
  mkdir -p bin
  (cd checker && GOFLAGS=-mod=mod GOPROXY=off GOSUMDB=off GOTOOLCHAIN=local GOWORK=off go build -o ../bin/fwdcheck .)
fi
exec bin/fwdcheck -repo "${FWD_REPO:-/repo}" -out evidence -known known_findings.json "$@"
